/-
zndriver: the Lean side of the line protocol.  One operation per input line, one answer line.
`<op> …` runs the model, `spec:<op> …` the spec oracle.  Core-only (no Mathlib) so that it links.
-/
import ZnVerif.Ops.C04
import ZnVerif.Ops.VarInputText
import ZnVerif.Ops.Run
import ZnVerif.Ops.C12
import ZnVerif.Ops.C17
import ZnVerif.Ops.C06
import ZnVerif.Ops.C19
import ZnVerif.Ops.C14
import ZnVerif.Ops.C11
import ZnVerif.Ops.C10
import ZnVerif.Ops.C20
import ZnVerif.Ops.ErrLine
import ZnVerif.Ops.Parse
import ZnVerif.Ops.C15
import ZnVerif.Ops.C13
import ZnVerif.Ops.Lex
import ZnVerif.Ops.TextMethods
import ZnVerif.Ops.Lines
import ZnVerif.Ops.VarInput

open ZnVerif.Ops

/-- one handler per ops module; first `some` wins -/
def handlers : List (String → List String → Option String) := [
  C04.handle,
  VarInputText.handle,
  Run.handle,
  C12.handle,
  C17.handle,
  C06.handle,
  C19.handle,
  C14.handle,
  TextMethods.handle,
  C11.handle,
  Lex.handle,
  C13.handle,
  C15.handle,
  C10.handle,
  C20.handle,
  Parse.handle,
  VarInput.handle,
  ErrLine.handle,
  Lines.handle
]

def dispatch (op : String) (args : List String) : String :=
  match handlers.findSome? (fun h => h op args) with
  | some r => r
  | none => "bad-op"

partial def loop (h : IO.FS.Stream) (out : IO.FS.Stream) : IO Unit := do
  let line ← h.getLine
  if line.isEmpty then return ()
  let ws := (line.trimAscii.toString.splitOn " ").filter (· ≠ "")
  match ws with
  | [] => out.putStrLn "skip"
  | op :: args => out.putStrLn (dispatch op args)
  loop h out

def main : IO Unit := do
  let out ← IO.getStdout
  loop (← IO.getStdin) out
  out.flush
