-- Root of the `ZnVerif` library: every module that `lake build` (setup) must compile.
import ZnVerif.Properties.C04
import ZnVerif.Ops.C04
import ZnVerif.Ops.Run
import ZnVerif.Properties.C01
import ZnVerif.Properties.C02
import ZnVerif.Properties.C12
import ZnVerif.Ops.C12
import ZnVerif.Properties.C07
import ZnVerif.Properties.C08
import ZnVerif.Properties.C09
import ZnVerif.Properties.C17
import ZnVerif.Ops.C17
import ZnVerif.Properties.C06
import ZnVerif.Ops.C06
import ZnVerif.Properties.C18
import ZnVerif.Properties.C19
import ZnVerif.Ops.C19
