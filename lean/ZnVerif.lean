-- This module serves as the root of the `ZnVerif` library.
-- Import modules here that should be built as part of the library.
import ZnVerif.Basic
