-- Root of the `ZnVerif` library: every module that `lake build` (setup) must compile.
import ZnVerif.Properties.C04
import ZnVerif.Ops.C04
import ZnVerif.Ops.Run
