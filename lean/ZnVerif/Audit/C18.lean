import ZnVerif.Properties.C18
import ZnVerif.Properties.C18Chain
import ZnVerif.Properties.C18Lines
import ZnVerif.Properties.C05
import ZnVerif.Properties.C09Sites
open ZnVerif.Properties.C18
#print axioms statement_sets_line
#print axioms push_keeps_call_sites
#print axioms pop_removes_returned_call
#print axioms unwind_drops_failed_calls
#print axioms call_frame_starts_unstarted
#print axioms unstarted_frame_not_listed
#print axioms native_is_per_frame

-- chain of active calls (Properties/C18Chain.lean)
#print axioms ZnVerif.Properties.C18Chain.ext_means
#print axioms ZnVerif.Properties.C18Chain.chain_is_active_calls
#print axioms ZnVerif.Properties.C18Chain.call_sites_untouched
#print axioms ZnVerif.Properties.C18Chain.depth_never_drops
#print axioms ZnVerif.Properties.C18Chain.failed_call_keeps_its_frame
-- who writes the line marker (after the fixes e514e52, a251a86, d0d2970)
#print axioms ZnVerif.Properties.C18Chain.expression_leaves_frames_untouched
#print axioms ZnVerif.Properties.C18Chain.while_condition_error_at_loop_line
#print axioms ZnVerif.Properties.C18Chain.declaration_error_at_declaration_line
#print axioms ZnVerif.Properties.C18Chain.started_frame_stays_started
#print axioms ZnVerif.Properties.C18Chain.statement_marks_frame_started
#print axioms ZnVerif.Properties.C18Chain.arity_error_frame_unstarted
#print axioms ZnVerif.Properties.C18Chain.not_a_method_frame_unstarted

-- syntax-error part: line table of the lexer, quoted line and caret of the error printer
#print axioms ZnVerif.Properties.C18Lines.lines_table_partial
#print axioms ZnVerif.Properties.C18Lines.lines_table
#print axioms ZnVerif.Properties.C18Lines.lines_table_full_holds
#print axioms ZnVerif.Properties.C18Lines.lines_table_any_fuel
#print axioms ZnVerif.Properties.C18Lines.parse_line_records_lines
#print axioms ZnVerif.Properties.C18Lines.comment_scanner_records_lines
#print axioms ZnVerif.Properties.C18Lines.string_scanner_records_lines
#print axioms ZnVerif.Properties.C18Lines.next_token_keeps_lines
#print axioms ZnVerif.Properties.C18Lines.invariant_at_end
#print axioms ZnVerif.Properties.C05.display_total
#print axioms ZnVerif.Properties.C05.quoted_line_is_physical
#print axioms ZnVerif.Properties.C05.caret_under_offender
#print axioms ZnVerif.Properties.C05.leftover_error_at_first_leftover_token
#print axioms ZnVerif.Properties.C05.overindented_line_after_fix
#print axioms ZnVerif.Properties.C05.input_state_error_at_block_ending_token
#print axioms ZnVerif.Properties.C05.line_after_input_line_after_fix
#print axioms ZnVerif.Properties.C05.input_line_last_after_fix

-- regenerated tie: where the Go evaluator pushes / pops frames, opens / closes scopes, stamps lines, reads / writes the return slot
-- (Generated/FrameSites.lean, extracted from $ZN_REPO on every run) = the sites the models mirror (Properties/C09Sites.lean)
#print axioms ZnVerif.Properties.C09Sites.frame_sites_all_modelled
#print axioms ZnVerif.Properties.C09Sites.frame_primitives_all_modelled
