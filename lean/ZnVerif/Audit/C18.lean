import ZnVerif.Properties.C18
open ZnVerif.Properties.C18
#print axioms statement_sets_line
#print axioms push_keeps_call_sites
#print axioms pop_removes_returned_call
#print axioms unwind_drops_failed_calls
