import ZnVerif.Properties.C18
import ZnVerif.Properties.C18Chain
open ZnVerif.Properties.C18
#print axioms statement_sets_line
#print axioms push_keeps_call_sites
#print axioms pop_removes_returned_call
#print axioms unwind_drops_failed_calls

-- chain of active calls (Properties/C18Chain.lean)
#print axioms ZnVerif.Properties.C18Chain.ext_means
#print axioms ZnVerif.Properties.C18Chain.chain_is_active_calls
#print axioms ZnVerif.Properties.C18Chain.call_sites_untouched
#print axioms ZnVerif.Properties.C18Chain.depth_never_drops
#print axioms ZnVerif.Properties.C18Chain.failed_call_keeps_its_frame
