import ZnVerif.Properties.C14
open ZnVerif.Properties.C14
#print axioms scanner_table
#print axioms directive_switch_table
#print axioms machine_constants
#print axioms directive_table
#print axioms directive_grammar
#print axioms precision_limit
#print axioms precision_accumulator_bounded
#print axioms format_spec
#print axioms modulo_dispatch
#print axioms format_malformed_template
#print axioms format_count_mismatch
#print axioms format_never_panics
#print axioms template_decomposition
#print axioms denote_error_iff
#print axioms placeholder_error_iff
#print axioms length_eq_chars_length
#print axioms chars_are_characters
#print axioms length_chars_slice_consistent
#print axioms slice_is_characters
#print axioms split_preserves_characters
#print axioms split_join
#print axioms atoiRewrite_encode
#print axioms history_refines_spec
#print axioms history_self_consistent
#print axioms history_observations_consistent
#print axioms text_methods_refine_spec
