import ZnVerif.Properties.C07
open ZnVerif.Properties.C07
#print axioms dup_shares_objects
#print axioms dup_copies_number
