import ZnVerif.Properties.C16Eval
open ZnVerif.Properties.C16Eval
#print axioms fn_cells_immutable
#print axioms fn_cells_immutable_program
#print axioms cells_keep_kind
#print axioms cells_keep_kind_step
#print axioms builtin_values_unchanged_kind
