import ZnVerif.Properties.C06Eval
open ZnVerif.Properties.C06Eval
#print axioms sorted_depths_preserved
#print axioms end_scope_drops_deeper
#print axioms end_scope_forgets
#print axioms end_scope_forgets_declared
#print axioms withScope_balanced
#print axioms withScope_without_scope
#print axioms withScope_restores_depth
#print axioms withScope_depth_general
#print axioms every_function_balances
#print axioms blocks_balance
#print axioms block_leaves_no_declarations
#print axioms exec_block_restores_scope
#print axioms outer_symbols_kept
#print axioms well_scoped_invariant
#print axioms well_scoped_initially
#print axioms const_declaration_rejects_assignment
#print axioms inputs_are_const
