import ZnVerif.Properties.C01
import ZnVerif.Properties.C03
import ZnVerif.Properties.C01Dispatch
open ZnVerif.Properties.C01
#print axioms and_short_circuit
#print axioms or_short_circuit
#print axioms and_evaluates_right
#print axioms logic_on_non_bool_is_error
#print axioms div_by_zero_is_error
#print axioms arith_on_non_number_is_error
#print axioms intdiv_and_mod_formulas
#print axioms order_on_non_number_is_error
#print axioms eval_refines_spec
#print axioms eval_value_refines_spec
#print axioms eval_error_refines_spec
#print axioms eval_pure_outcomes
#print axioms spec_outcome_is_models
#print axioms eval_fuel_refines_spec_partial
#print axioms eval_refines_spec_scalar
#print axioms eval_fuel_refines_spec_full_fails
#print axioms initial_states_related
#print axioms xeq_total_on_plain
#print axioms xeq_types_differ_false
#print axioms spec_types_differ_false
#print axioms spec_and_short_circuit
#print axioms spec_or_short_circuit
#print axioms spec_div_zero
#print axioms spec_floor_div
#print axioms spec_modulo

-- precedence / associativity / non-chaining of comparisons at token level, operator synonym tables (Properties/C03.lean)
#print axioms ZnVerif.Properties.C03.parse_tokens_roundtrip_partial
#print axioms ZnVerif.Properties.C03.no_chain_of_comparisons_witness
#print axioms ZnVerif.Properties.C03.synonym_tables

-- regenerated tie: AST constant ↦ Go operation / helper in the operator functions of eval.go (Generated/OperatorDispatch.lean,
-- extracted from $ZN_REPO on every run) = the dispatch Model.evalExpr implements
#print axioms ZnVerif.Properties.C01Dispatch.operator_dispatch_as_modelled
#print axioms ZnVerif.Properties.C01Dispatch.dispatch_inventory_nonempty
