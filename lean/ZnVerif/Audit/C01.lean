import ZnVerif.Properties.C01
open ZnVerif.Properties.C01
#print axioms and_short_circuit
#print axioms or_short_circuit
#print axioms and_evaluates_right
#print axioms logic_on_non_bool_is_error
#print axioms div_by_zero_is_error
#print axioms arith_on_non_number_is_error
#print axioms intdiv_and_mod_formulas
#print axioms order_on_non_number_is_error
