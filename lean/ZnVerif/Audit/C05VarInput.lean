import ZnVerif.Properties.C05VarInput
open ZnVerif.Properties.C05VarInput
#print axioms varinput_compiles_cleanly
#print axioms varinput_parse_step
#print axioms exprinput_parse_step
#print axioms varinput_shape_check
#print axioms shape_check_fails_iff
#print axioms varinput_all_or_nothing
#print axioms varinput_binds_all_in_order
#print axioms execVarInputTree_binds_all_in_order
#print axioms varinput_target_check
#print axioms exprinput_single_expression
#print axioms exprinput_all_or_nothing
