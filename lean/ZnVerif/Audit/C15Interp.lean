import ZnVerif.Properties.C15Interp
open ZnVerif.Properties.C15Interp

#print axioms interp_missing_module_60
#print axioms interp_missing_library_64
#print axioms interp_imports_before_body
#print axioms interp_imports_in_order
#print axioms modKept_evaluator
#print axioms modKept_import
#print axioms modKept_evalProgram
#print axioms interp_loaded_module_is_not_loaded_again
#print axioms interp_load_allocates_fresh
#print axioms interp_body_runs_at_most_once
#print axioms interp_module_allocated_once
#print axioms interp_exports_are_const_partial
