import ZnVerif.Properties.C19
open ZnVerif.Properties.C19
#print axioms toyCodec_lawful
#print axioms ref_codec_roundtrip
#print axioms asciiSpaced_ok
#print axioms zn_json_roundtrip
#print axioms generate_follows_insertion_order
#print axioms parse_follows_document_order
#print axioms non_finite_raises_catchable
#print axioms malformed_raises_catchable
#print axioms top_level_must_be_object
#print axioms parse_yields_dictionary
#print axioms json_functions_never_panic
#print axioms empty_list_is_array
