import ZnVerif.Properties.C20
open ZnVerif.Properties.C20
#print axioms asWritten_witness
#print axioms asWritten_witnessDesign
#print axioms asWritten_violates_live_le_max
#print axioms refCount_accounts
#print axioms live_le_max
#print axioms quiet_iff_only_requests_enabled
#print axioms quiet_ge_init
#print axioms quiet_is_reached
#print axioms timeout_replaces
#print axioms one_request_per_worker
#print axioms others_undisturbed
#print axioms model_meets_spec
