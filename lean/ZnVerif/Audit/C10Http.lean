import ZnVerif.Properties.C10Http
open ZnVerif.Properties.C10Http
#print axioms http_request_ctor_total
#print axioms http_response_ctor_total
#print axioms http_request_ctor_body_total
#print axioms http_response_ctor_body_total
#print axioms http_ctor_arity
#print axioms http_ctor_panicked_before_fix
#print axioms http_member_tables
#print axioms http_objects_have_no_methods
