import ZnVerif.Properties.C03Chars
open ZnVerif.Properties.C03
-- character level: lexer model + parser model on a canonical text rendering (Properties/C03Chars.lean)
#print axioms lex_rendered
#print axioms rendered_in_order
#print axioms parse_source_is_laid_out
#print axioms parse_render_canonical
#print axioms canonical_text_unambiguous
#print axioms CharsExample.exText_rendered
#print axioms CharsExample.exRts_wf
#print axioms CharsExample.exTokens_eq
#print axioms CharsExample.exProgram_rendered
-- the pieces: one token of the rendering, the lexer along the rendering, the parser along a run of the lexer
#print axioms ZnVerif.Proofs.RenderLex.dispatch_item
#print axioms ZnVerif.Proofs.RenderLex.skipBlank_break
#print axioms ZnVerif.Proofs.RenderLex.step_ok
#print axioms ZnVerif.Proofs.LexSim.parseAST_run
#print axioms ZnVerif.Proofs.LexSim.run_inOrder
