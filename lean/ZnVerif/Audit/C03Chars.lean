import ZnVerif.Properties.C03Chars
import ZnVerif.Properties.C03Layouts
import ZnVerif.Properties.C03LayoutsExample
import ZnVerif.Properties.C03LiteralExample
open ZnVerif.Properties.C03
-- character level: lexer model + parser model on a canonical text rendering (Properties/C03Chars.lean)
#print axioms lex_rendered
#print axioms rendered_in_order
#print axioms parse_source_is_laid_out
#print axioms parse_render_canonical
#print axioms canonical_text_unambiguous
#print axioms CharsExample.exText_rendered
#print axioms CharsExample.exRts_wf
#print axioms CharsExample.exTokens_eq
#print axioms CharsExample.exProgram_rendered
-- the pieces: one token of the rendering, the lexer along the rendering, the parser along a run of the lexer
#print axioms ZnVerif.Proofs.RenderLex.dispatch_item
#print axioms ZnVerif.Proofs.LexSim.parseAST_run
#print axioms ZnVerif.Proofs.LexSim.run_inOrder
-- free layout (Properties/C03Layouts.lean): blanks, touching tokens, blank lines, LF / CR / CRLF / LFCR, TAB or four-space indentation
#print axioms lex_rendered_doc
#print axioms doc_in_order
#print axioms parse_doc_is_laid_out
#print axioms parse_render_doc
#print axioms parse_render_doc_plain
#print axioms doc_text_unambiguous
#print axioms canonical_is_doc
#print axioms LayoutExample.frText_rendered
#print axioms LayoutExample.frEls_wf
#print axioms LayoutExample.frTokens_eq
#print axioms LayoutExample.frProgram_rendered
#print axioms ZnVerif.Proofs.RenderLex.dispatch_item_ends
#print axioms ZnVerif.Proofs.RenderLex.dispatch_cmt
#print axioms ZnVerif.Proofs.RenderLex.nextToken_lit
#print axioms ZnVerif.Proofs.RenderLex.gstepOK_lit
#print axioms ZnVerif.Proofs.RenderLex.cmt_multi_run
#print axioms ZnVerif.Proofs.RenderLex.dispatch_mcmt
#print axioms ZnVerif.Proofs.RenderLex.gstepOK_mcmt
#print axioms ZnVerif.Proofs.LexSim.run_inOrder_clean
#print axioms ZnVerif.Proofs.RenderLex.skipBlank_ws
#print axioms ZnVerif.Proofs.RenderLex.skipBlank_brk
#print axioms ZnVerif.Proofs.RenderLex.gstep_ok
#print axioms ZnVerif.Proofs.RenderLex.docWF_of_WF
#print axioms LiteralExample.mlEls_wf
#print axioms LiteralExample.mlTokens_eq
#print axioms LiteralExample.mlProgram_rendered
#print axioms MultiCommentExample.mcEls_wf
#print axioms MultiCommentExample.mcTokens_eq
#print axioms MultiCommentExample.mcProgram_rendered
