import ZnVerif.Properties.C05
open ZnVerif.Properties.C05
#print axioms parser_progress
#print axioms epsilon_productions
#print axioms epsilon_loops_progress
#print axioms parse_terminates
#print axioms cursor_bounded
#print axioms no_panic_after_fix
#print axioms panic_before_fix
#print axioms same_input_after_fix
#print axioms display_total
#print axioms quoted_line_is_physical
#print axioms caret_under_offender
