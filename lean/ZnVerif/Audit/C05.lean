import ZnVerif.Properties.C05
import ZnVerif.Properties.C05VarInput
open ZnVerif.Properties.C05
#print axioms parser_progress
#print axioms epsilon_productions
#print axioms epsilon_loops_progress
#print axioms parse_terminates
#print axioms cursor_bounded
#print axioms no_panic_after_fix
#print axioms panic_before_fix
#print axioms same_input_after_fix
#print axioms display_total
#print axioms quoted_line_is_physical
#print axioms caret_under_offender
#print axioms leftover_error_at_first_leftover_token
#print axioms overindented_line_after_fix
#print axioms overindented_line_before_fix
#print axioms input_state_error_at_block_ending_token
#print axioms input_state_error_before_fix
#print axioms exec_block_ends_outside_input_state
#print axioms line_after_input_line_after_fix
#print axioms line_after_input_line_before_fix
#print axioms input_line_last_after_fix

-- input-variable texts (C05VarInput)
#print axioms ZnVerif.Properties.C05VarInput.varinput_compiles_cleanly
#print axioms ZnVerif.Properties.C05VarInput.varinput_parse_step
#print axioms ZnVerif.Properties.C05VarInput.exprinput_parse_step
#print axioms ZnVerif.Properties.C05VarInput.varinput_shape_check
#print axioms ZnVerif.Properties.C05VarInput.shape_check_fails_iff
#print axioms ZnVerif.Properties.C05VarInput.varinput_all_or_nothing
#print axioms ZnVerif.Properties.C05VarInput.varinput_binds_all_in_order
#print axioms ZnVerif.Properties.C05VarInput.execVarInputTree_binds_all_in_order
#print axioms ZnVerif.Properties.C05VarInput.varinput_target_check
#print axioms ZnVerif.Properties.C05VarInput.exprinput_single_expression
#print axioms ZnVerif.Properties.C05VarInput.exprinput_all_or_nothing
