import ZnVerif.Properties.C09
import ZnVerif.Properties.C09Sites
open ZnVerif.Properties.C09
#print axioms raise_skips_rest
#print axioms throw_raises
#print axioms break_is_signal
#print axioms body_error_goes_to_handlers
#print axioms handled_error_is_body_value
#print axioms unhandled_error_leaves_body
#print axioms loop_signal_becomes_exception
#print axioms handler_matches_first_class
#print axioms unmatched_propagates_unchanged
#print axioms runtime_fault_is_catchable
#print axioms non_exception_errors_pass
#print axioms handler_this_is_exception
#print axioms runHandlerA_run
#print axioms handler_value_or_null_of_stack
#print axioms handler_block_keeps_its_frame
#print axioms handler_value_or_null
#print axioms catch_restores_stack
#print axioms stack_balanced_on_success
#print axioms same_stack_means
#print axioms loop_signal_stops_at_body
#print axioms callee_signal_never_reaches_caller
#print axioms loop_signal_raised_in_own_frame
#print axioms module_follows_top_frame
#print axioms catch_restores
#print axioms function_converts_runtime_error
#print axioms function_passes_other_errors

-- regenerated tie: where the Go evaluator pushes / pops frames, opens / closes scopes, stamps lines, reads / writes the return slot
-- (Generated/FrameSites.lean, extracted from $ZN_REPO on every run) = the sites the models mirror (Properties/C09Sites.lean)
#print axioms ZnVerif.Properties.C09Sites.frame_sites_all_modelled
#print axioms ZnVerif.Properties.C09Sites.frame_primitives_all_modelled
#print axioms ZnVerif.Properties.C09Sites.frame_inventory_nonempty
#print axioms ZnVerif.Properties.C09Sites.sites_outside_evaluator_model
#print axioms ZnVerif.Properties.C09Sites.vm_EndScope_has_no_caller
#print axioms ZnVerif.Properties.C09Sites.bound_scopes_are_deferred_at_once
#print axioms ZnVerif.Properties.C09Sites.every_pop_is_conditional
#print axioms ZnVerif.Properties.C09Sites.every_push_has_a_later_pop
