import ZnVerif.Properties.C09
open ZnVerif.Properties.C09
#print axioms raise_skips_rest
#print axioms throw_raises
#print axioms break_is_signal
#print axioms body_error_goes_to_handlers
#print axioms handled_error_is_body_value
#print axioms unhandled_error_leaves_body
#print axioms loop_signal_becomes_exception
#print axioms handler_matches_first_class
#print axioms unmatched_propagates_unchanged
#print axioms runtime_fault_is_catchable
#print axioms non_exception_errors_pass
#print axioms handler_this_is_exception
#print axioms runHandlerA_run
#print axioms handler_value_or_null_of_stack
#print axioms handler_block_keeps_its_frame
#print axioms handler_value_or_null
#print axioms catch_restores_stack
#print axioms stack_balanced_on_success
#print axioms same_stack_means
#print axioms loop_signal_stops_at_body
#print axioms callee_signal_never_reaches_caller
#print axioms loop_signal_raised_in_own_frame
#print axioms module_follows_top_frame
#print axioms catch_restores
#print axioms function_converts_runtime_error
#print axioms function_passes_other_errors
