import ZnVerif.Properties.C09
open ZnVerif.Properties.C09
#print axioms raise_skips_rest
#print axioms throw_raises
#print axioms break_is_signal
#print axioms body_error_goes_to_handlers
#print axioms handler_matches_first_class
#print axioms unmatched_propagates_unchanged
#print axioms runtime_fault_is_catchable
#print axioms non_exception_errors_pass
#print axioms handler_this_is_exception
#print axioms runHandlerA_run
#print axioms handler_value_or_null
#print axioms catch_restores_stack
#print axioms catch_restores
#print axioms function_converts_runtime_error
#print axioms function_passes_other_errors
