import ZnVerif.Properties.C09
open ZnVerif.Properties.C09
#print axioms raise_skips_rest
#print axioms throw_raises
#print axioms break_is_signal
