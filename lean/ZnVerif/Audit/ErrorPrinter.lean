import ZnVerif.Proofs.ErrorPrinter
open ZnVerif.Proofs.ErrorPrinter
#print axioms getOffset_eq
#print axioms fmtLine_eq_spec
#print axioms display_total
#print axioms display_never_panics
#print axioms display_correct
#print axioms quoted_line_is_physical
#print axioms caret_under_offender
#print axioms shown_isLineAt
#print axioms isLineAt_mem
#print axioms anchor_isAnchor
#print axioms isAnchor_unique
#print axioms anchor_of_ordinary
