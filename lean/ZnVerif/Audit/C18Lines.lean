import ZnVerif.Properties.C18Lines
open ZnVerif.Properties.C18Lines
#print axioms lines_table_partial
