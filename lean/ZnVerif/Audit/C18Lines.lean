import ZnVerif.Properties.C18Lines
open ZnVerif.Properties.C18Lines
#print axioms lines_table_partial
#print axioms lines_table
#print axioms lines_table_full_holds
#print axioms lines_table_any_fuel
#print axioms parse_line_records_lines
#print axioms comment_scanner_records_lines
#print axioms string_scanner_records_lines
#print axioms next_token_keeps_lines
#print axioms invariant_at_end
