import ZnVerif.Properties.C13
open ZnVerif.Properties.C13
#print axioms literal_roundtrip_safe
#print axioms literal_roundtrip_safe_scalars
#print axioms balanced_iff_depth
#print axioms literal_roundtrip_verbatim
#print axioms escape_table
#print axioms lone_quote_in_backticks
#print axioms other_backtick_text_literal
#print axioms undocumented_group_kept
#print axioms closes_only_at_own_quote_depth_zero
#print axioms unterminated_is_error_27
