import ZnVerif.Properties.C18Chain
open ZnVerif.Properties.C18Chain
#print axioms ext_means
#print axioms chain_is_active_calls
#print axioms call_sites_untouched
#print axioms depth_never_drops
#print axioms failed_call_keeps_its_frame
