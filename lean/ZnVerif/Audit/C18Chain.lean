import ZnVerif.Properties.C18Chain
open ZnVerif.Properties.C18Chain
#print axioms ext_means
#print axioms chain_is_active_calls
#print axioms call_sites_untouched
#print axioms depth_never_drops
#print axioms failed_call_keeps_its_frame
#print axioms expression_leaves_frames_untouched
#print axioms while_condition_error_at_loop_line
#print axioms declaration_error_at_declaration_line
#print axioms started_frame_stays_started
#print axioms statement_marks_frame_started
#print axioms arity_error_frame_unstarted
#print axioms not_a_method_frame_unstarted
