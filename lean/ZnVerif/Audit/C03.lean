import ZnVerif.Properties.C03
open ZnVerif.Properties.C03
#print axioms returned_tree_complete
#print axioms production_complete
#print axioms if_at_eof_before_fix
#print axioms if_at_eof_after_fix
#print axioms synonym_tables
#print axioms linebreak_exceptions
#print axioms linebreak_same_line
#print axioms linebreak_at_eof
#print axioms comma_is_optional
#print axioms second_comma_not_swallowed
#print axioms parse_tokens_roundtrip_partial
#print axioms no_chain_of_comparisons_witness
