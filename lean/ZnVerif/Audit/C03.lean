import ZnVerif.Properties.C03
import ZnVerif.Properties.C03Stmt
import ZnVerif.Properties.C03StmtExample
import ZnVerif.Properties.C03Chars
import ZnVerif.Properties.C03Layouts
import ZnVerif.Properties.C03LayoutsExample
import ZnVerif.Properties.C03LiteralExample
open ZnVerif.Properties.C03
#print axioms returned_tree_complete
#print axioms production_complete
#print axioms if_at_eof_before_fix
#print axioms if_at_eof_after_fix
#print axioms synonym_tables
#print axioms linebreak_exceptions
#print axioms linebreak_same_line
#print axioms linebreak_at_eof
#print axioms comma_is_optional
#print axioms second_comma_not_swallowed
#print axioms parse_tokens_roundtrip_partial
#print axioms no_chain_of_comparisons_witness
-- statements, blocks, declarations, programs (Properties/C03Stmt.lean)
#print axioms parse_expression_roundtrip_layout
#print axioms parse_simple_statement_roundtrip
#print axioms parse_simple_statement_semicolon
#print axioms parse_statement_roundtrip
#print axioms parse_block_roundtrip
#print axioms parse_body_roundtrip
#print axioms parse_statements_roundtrip
#print axioms import_lines_recorded
#print axioms imports_rendered
#print axioms imports_semicolons_rendered
#print axioms rendering_unambiguous
#print axioms comments_are_invisible
#print axioms parse_statements_roundtrip_comments
#print axioms parseTokens_is_laidOut
#print axioms exProgram_rendered
#print axioms exTokens_inOrder
#print axioms Example2.rendered
#print axioms Example2.inOrder
#print axioms Example2.evaluated
#print axioms Example2.parsed
-- character level: lexer model + parser model on a canonical text rendering (Properties/C03Chars.lean; more in Audit/C03Chars.lean)
#print axioms lex_rendered
#print axioms rendered_in_order
#print axioms parse_source_is_laid_out
#print axioms parse_render_canonical
#print axioms canonical_text_unambiguous
#print axioms CharsExample.exRts_wf
#print axioms CharsExample.exProgram_rendered
-- character level, free layout (Properties/C03Layouts.lean)
#print axioms lex_rendered_doc
#print axioms doc_in_order
#print axioms parse_doc_is_laid_out
#print axioms parse_render_doc
#print axioms parse_render_doc_plain
#print axioms doc_text_unambiguous
#print axioms LayoutExample.frEls_wf
#print axioms LayoutExample.frProgram_rendered
#print axioms LiteralExample.mlEls_wf
#print axioms LiteralExample.mlProgram_rendered
#print axioms MultiCommentExample.mcEls_wf
#print axioms MultiCommentExample.mcProgram_rendered
