import ZnVerif.Properties.C17
open ZnVerif.Properties.C17
#print axioms chunking_irrelevant
#print axioms chunking_irrelevant_eof
#print axioms byteStream_chunking_irrelevant
#print axioms byteStream_readAll
#print axioms prefix_of_valid_is_carried
#print axioms decodeStrict_is_encoding_inverse
#print axioms valid_file_lossless
#print axioms valid_file_lossless_bom
#print axioms invalid_file_rejected
#print axioms replacement_char_is_a_character
#print axioms bom_once
#print axioms bom_only_leading
