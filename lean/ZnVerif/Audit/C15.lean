import ZnVerif.Properties.C15
open ZnVerif.Properties.C15

#print axioms path_resolution
#print axioms path_shape
#print axioms finder_agrees_with_spec
#print axioms path_resolution_library
#print axioms dfs_sound
#print axioms dfs_complete
#print axioms dfs_total
#print axioms dfs_order_independent
#print axioms body_runs_at_most_once
#print axioms imports_before_body
#print axioms missing_module_60
#print axioms missing_library_64
#print axioms cycle_reported_sound
#print axioms cycle_never_silent
#print axioms cycle_reported
#print axioms exports_exactly_methods_and_types
#print axioms imports_read_only
#print axioms assign_to_constant_44
#print axioms imported_method_sees_home_module
#print axioms module_source_agrees_with_spec
#print axioms loader_terminates
