import ZnVerif.Properties.C04
open ZnVerif.Properties.C04
#print axioms idRange_sortedDisjoint
#print axioms binsearch_eq_linear
#print axioms idInRange_is_membership
