import ZnVerif.Properties.C04
open ZnVerif.Properties.C04
#print axioms idRange_sortedDisjoint
#print axioms binsearch_eq_linear
#print axioms idInRange_is_membership
#print axioms numberDFA_chars_ascii
#print axioms numberDFA_states_small
#print axioms numberDFA_is_specStep
#print axioms number_form
#print axioms starts_like_number_rejected
#print axioms otherwise_name
#print axioms numFormB_iff
#print axioms startsLikeNumberB_iff
#print axioms classify_eq_model
#print axioms number_text_for_ParseFloat
#print axioms keyword_first_glyphs_distinct
#print axioms keyword_alternatives_exclusive
#print axioms keyword_match_unique
#print axioms keyword_order_irrelevant
#print axioms keyword_wordlen_consistent
#print axioms keyword_types_documented
#print axioms keyword_documented_functional
#print axioms documented_prefix_free
#print axioms lex_is_greedy_segmentation_partial
#print axioms backtick_is_one_identifier
#print axioms operator_needs_delimiter
