import ZnVerif.Properties.C08
import ZnVerif.Properties.C09Sites
open ZnVerif.Properties.C08
#print axioms this_is_receiver
#print axioms this_without_receiver_is_error
#print axioms unknown_property_is_error
#print axioms property_write_local
#print axioms arity_mismatch_runs_nothing
#print axioms call_eq
#print axioms args_mapM_cons
#print axioms args_left_to_right_once
#print axioms args_values_iff
#print axioms failing_argument_stops_call
#print axioms stmts_stop_at_return
#print axioms ret_sets_slot
#print axioms block_value_is_return
#print axioms call_result_is_return_of_stack
#print axioms call_result_is_return
#print axioms method_call_restores_caller
#print axioms construct_restores_caller
#print axioms yield_binds_const
#print axioms mcall_eq
#print axioms chain_feeds_result
#print axioms chain_step_calls_receiver
#print axioms constructor_gets_args_and_this
#print axioms unknown_method_is_error
#print axioms unknown_builtin_method_is_error
#print axioms unknown_builtin_method_call_is_error
#print axioms output_only_grows
#print axioms call_trace_is_args_then_body

-- regenerated tie: where the Go evaluator pushes / pops frames, opens / closes scopes, stamps lines, reads / writes the return slot
-- (Generated/FrameSites.lean, extracted from $ZN_REPO on every run) = the sites the models mirror (Properties/C09Sites.lean)
#print axioms ZnVerif.Properties.C09Sites.frame_sites_all_modelled
#print axioms ZnVerif.Properties.C09Sites.frame_primitives_all_modelled
