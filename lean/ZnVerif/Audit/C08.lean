import ZnVerif.Properties.C08
open ZnVerif.Properties.C08
#print axioms this_is_receiver
#print axioms this_without_receiver_is_error
#print axioms unknown_property_is_error
#print axioms property_write_local
