import ZnVerif.Properties.C16
import ZnVerif.Properties.C16Eval
open ZnVerif.Properties.C16
#print axioms predefined_values_isolated
#print axioms every_vm_gets_fresh_globals
#print axioms loads_work_on_a_copy
#print axioms shared_interpreter_never_written
#print axioms handle_is_own
#print axioms request_runs_its_own_source
#print axioms old_code_runs_foreign_source

-- evaluator invariant: what stays shared between executions cannot be altered by any program (Properties/C16Eval.lean)
#print axioms ZnVerif.Properties.C16Eval.fn_cells_immutable
#print axioms ZnVerif.Properties.C16Eval.fn_cells_immutable_program
#print axioms ZnVerif.Properties.C16Eval.cells_keep_kind
#print axioms ZnVerif.Properties.C16Eval.cells_keep_kind_step
#print axioms ZnVerif.Properties.C16Eval.builtin_values_unchanged_kind
