import ZnVerif.Properties.C16
open ZnVerif.Properties.C16
#print axioms predefined_values_isolated
#print axioms every_vm_gets_fresh_globals
#print axioms loads_work_on_a_copy
#print axioms shared_interpreter_never_written
#print axioms handle_is_own
#print axioms request_runs_its_own_source
#print axioms old_code_runs_foreign_source
