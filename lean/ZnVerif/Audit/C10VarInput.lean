import ZnVerif.Properties.C10VarInput
open ZnVerif.Properties.C10VarInput
#print axioms initial_vm_is_empty
#print axioms initial_vm_invariant
#print axioms eval_total_without_frames
#print axioms call_total_without_frames
#print axioms method_call_total_without_frames
#print axioms varinput_good
#print axioms varinput_total
#print axioms varinput_no_nil
#print axioms exprinput_good
#print axioms exprinput_total
#print axioms exprinputs_total
#print axioms varinput_text_total
#print axioms exprinput_text_total
#print axioms execVarInputBytes_total
#print axioms execVarInputRunes_total
#print axioms evalExpressionText_total
