import ZnVerif.Properties.C10
import ZnVerif.Properties.C10VarInput
import ZnVerif.Properties.C10Http
open ZnVerif.Properties.C10
#print axioms builtin_total
#print axioms builtin_never_panics
#print axioms getProperty_total
#print axioms setProperty_total
#print axioms reduceRHS_total
#print axioms reduceLHS_total
#print axioms display_total
#print axioms construct_total
#print axioms display_function_total
#print axioms dup_total
#print axioms no_nil_results
#print axioms no_nil_return_sites
#print axioms s1_wf
#print axioms text_methods_total
#print axioms text_methods_outside_fragment
#print axioms members_all_modelled
#print axioms members_all_answered
#print axioms unmodelled_members_exact
#print axioms types_all_modelled
#print axioms dynamic_lookups_are_objects
#print axioms globals_all_modelled
#print axioms constructables_modelled
#print axioms libraries_listed
#print axioms classes_listed
#print axioms validate_least_params_total
#print axioms validate_exact_params_total
#print axioms validate_all_params_total
#print axioms registered_patterns_wellformed
#print axioms no_registered_golang_pattern
#print axioms golang_cast_guarded

-- input-variable texts (C10VarInput)
#print axioms ZnVerif.Properties.C10VarInput.initial_vm_is_empty
#print axioms ZnVerif.Properties.C10VarInput.initial_vm_invariant
#print axioms ZnVerif.Properties.C10VarInput.eval_total_without_frames
#print axioms ZnVerif.Properties.C10VarInput.call_total_without_frames
#print axioms ZnVerif.Properties.C10VarInput.method_call_total_without_frames
#print axioms ZnVerif.Properties.C10VarInput.varinput_good
#print axioms ZnVerif.Properties.C10VarInput.varinput_total
#print axioms ZnVerif.Properties.C10VarInput.varinput_no_nil
#print axioms ZnVerif.Properties.C10VarInput.exprinput_good
#print axioms ZnVerif.Properties.C10VarInput.exprinput_total
#print axioms ZnVerif.Properties.C10VarInput.exprinputs_total
#print axioms ZnVerif.Properties.C10VarInput.varinput_text_total
#print axioms ZnVerif.Properties.C10VarInput.exprinput_text_total
#print axioms ZnVerif.Properties.C10VarInput.execVarInputBytes_total
#print axioms ZnVerif.Properties.C10VarInput.execVarInputRunes_total
#print axioms ZnVerif.Properties.C10VarInput.evalExpressionText_total

-- the value classes of pkg/common (C10Http)
#print axioms ZnVerif.Properties.C10Http.http_request_ctor_total
#print axioms ZnVerif.Properties.C10Http.http_response_ctor_total
#print axioms ZnVerif.Properties.C10Http.http_request_ctor_body_total
#print axioms ZnVerif.Properties.C10Http.http_response_ctor_body_total
#print axioms ZnVerif.Properties.C10Http.http_ctor_arity
#print axioms ZnVerif.Properties.C10Http.http_ctor_panicked_before_fix
#print axioms ZnVerif.Properties.C10Http.http_member_tables
#print axioms ZnVerif.Properties.C10Http.http_objects_have_no_methods
