import ZnVerif.Properties.Bridges
import ZnVerif.Properties.C06
import ZnVerif.Properties.C06Eval
import ZnVerif.Properties.C09Sites
open ZnVerif.Properties.C06
#print axioms scope_refines_stack_from
#print axioms scope_refines_stack
#print axioms scope_refines_stack_core
#print axioms spec_defined_iff_balanced
#print axioms balanced_depth_nonneg
#print axioms endScope_below_zero
#print axioms stale_externalRef_observable
#print axioms end_scope_forgets
#print axioms shadow_until_end
#print axioms redeclare_same_block_error
#print axioms const_assign_error_keeps_value
#print axioms assign_undeclared_error
#print axioms lookup_before_declare
#print axioms vm_refines
#print axioms globals_found_first
#print axioms globals_not_declarable
#print axioms globals_not_assignable

-- evaluator-level half (Properties/C06Eval.lean)
#print axioms ZnVerif.Properties.C06Eval.sorted_depths_preserved
#print axioms ZnVerif.Properties.C06Eval.end_scope_drops_deeper
#print axioms ZnVerif.Properties.C06Eval.end_scope_forgets
#print axioms ZnVerif.Properties.C06Eval.end_scope_forgets_declared
#print axioms ZnVerif.Properties.C06Eval.withScope_balanced
#print axioms ZnVerif.Properties.C06Eval.withScope_without_scope
#print axioms ZnVerif.Properties.C06Eval.withScope_restores_depth
#print axioms ZnVerif.Properties.C06Eval.withScope_depth_general
#print axioms ZnVerif.Properties.C06Eval.every_function_balances
#print axioms ZnVerif.Properties.C06Eval.blocks_balance
#print axioms ZnVerif.Properties.C06Eval.block_leaves_no_declarations
#print axioms ZnVerif.Properties.C06Eval.exec_block_restores_scope
#print axioms ZnVerif.Properties.C06Eval.outer_symbols_kept
#print axioms ZnVerif.Properties.C06Eval.well_scoped_invariant
#print axioms ZnVerif.Properties.C06Eval.well_scoped_initially
#print axioms ZnVerif.Properties.C06Eval.const_declaration_rejects_assignment
#print axioms ZnVerif.Properties.C06Eval.inputs_are_const

-- bridge: the evaluator model's embedded scope / containers are the finer models (Properties/Bridges.lean)
#print axioms ZnVerif.Properties.Bridges.scope_bridge_begin
#print axioms ZnVerif.Properties.Bridges.scope_bridge_end
#print axioms ZnVerif.Properties.Bridges.scope_bridge_find
#print axioms ZnVerif.Properties.Bridges.scope_bridge_findM
#print axioms ZnVerif.Properties.Bridges.scope_bridge_declare
#print axioms ZnVerif.Properties.Bridges.scope_bridge_declareExt
#print axioms ZnVerif.Properties.Bridges.scope_bridge_set
#print axioms ZnVerif.Properties.Bridges.scope_bridge
#print axioms ZnVerif.Properties.Bridges.interp_scope_refines_stack_from
#print axioms ZnVerif.Properties.Bridges.interp_scope_refines_stack
#print axioms ZnVerif.Properties.Bridges.scope_invariant_intrinsic
#print axioms ZnVerif.Properties.Bridges.interp_scope_refines_stack_any
#print axioms ZnVerif.Properties.Bridges.stale_ref_disagreement
#print axioms ZnVerif.Properties.Bridges.vm_scope_bridge_find
#print axioms ZnVerif.Properties.Bridges.vm_scope_bridge_declare
#print axioms ZnVerif.Properties.Bridges.vm_scope_bridge_declareExt
#print axioms ZnVerif.Properties.Bridges.vm_scope_bridge_set
#print axioms ZnVerif.Properties.Bridges.vm_scope_bridge_block

-- regenerated tie: where the Go evaluator pushes / pops frames, opens / closes scopes, stamps lines, reads / writes the return slot
-- (Generated/FrameSites.lean, extracted from $ZN_REPO on every run) = the sites the models mirror (Properties/C09Sites.lean)
#print axioms ZnVerif.Properties.C09Sites.frame_sites_all_modelled
#print axioms ZnVerif.Properties.C09Sites.frame_primitives_all_modelled
