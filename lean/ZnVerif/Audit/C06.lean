import ZnVerif.Properties.C06
open ZnVerif.Properties.C06
#print axioms scope_refines_stack_from
#print axioms scope_refines_stack
#print axioms scope_refines_stack_core
#print axioms spec_defined_iff_balanced
#print axioms balanced_depth_nonneg
#print axioms endScope_below_zero
#print axioms stale_externalRef_observable
#print axioms end_scope_forgets
#print axioms shadow_until_end
#print axioms redeclare_same_block_error
#print axioms const_assign_error_keeps_value
#print axioms assign_undeclared_error
#print axioms lookup_before_declare
#print axioms vm_refines
#print axioms globals_found_first
#print axioms globals_not_declarable
#print axioms globals_not_assignable
