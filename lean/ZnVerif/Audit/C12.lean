import ZnVerif.Properties.C12
open ZnVerif.Properties.C12
#print axioms hm_inv_from
#print axioms hm_inv
#print axioms delete_edits_in_place_ok
#print axioms dict_refines_ordered_map_from
#print axioms dict_refines_ordered_map
#print axioms abs_wellformed
#print axioms list_refines_seq
#print axioms insert_helper_panics_only_before_first
#print axioms append_then_last
#print axioms prepend_then_first
#print axioms length_counts
#print axioms dict_length_counts
#print axioms reverse_involutive
#print axioms shift_pop_inverse_of_prepend_append
#print axioms shift_empty
#print axioms swap_swaps
#print axioms merge_is_append
#print axioms contains_iff_find
#print axioms read_returns_last_write
#print axioms index_out_of_range_error_unchanged
#print axioms missing_key_read_error
#print axioms dict_read_returns_last_write
#print axioms new_key_write_inserts
#print axioms reinsert_appends
#print axioms overwrite_keeps_place
