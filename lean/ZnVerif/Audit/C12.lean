import ZnVerif.Properties.Bridges
import ZnVerif.Properties.C12
open ZnVerif.Properties.C12
#print axioms hm_inv_from
#print axioms hm_inv
#print axioms delete_edits_in_place_ok
#print axioms dict_refines_ordered_map_from
#print axioms dict_refines_ordered_map
#print axioms abs_wellformed
#print axioms list_refines_seq
#print axioms insert_helper_panics_only_before_first
#print axioms append_then_last
#print axioms prepend_then_first
#print axioms length_counts
#print axioms dict_length_counts
#print axioms reverse_involutive
#print axioms shift_pop_inverse_of_prepend_append
#print axioms shift_empty
#print axioms swap_swaps
#print axioms merge_is_append
#print axioms contains_iff_find
#print axioms read_returns_last_write
#print axioms index_out_of_range_error_unchanged
#print axioms missing_key_read_error
#print axioms dict_read_returns_last_write
#print axioms new_key_write_inserts
#print axioms reinsert_appends
#print axioms overwrite_keeps_place

-- bridge: the evaluator model's embedded scope / containers are the finer models (Properties/Bridges.lean)
#print axioms ZnVerif.Properties.Bridges.list_bridge_prepend_append
#print axioms ZnVerif.Properties.Bridges.list_bridge_insert
#print axioms ZnVerif.Properties.Bridges.list_bridge_store_ok
#print axioms ZnVerif.Properties.Bridges.list_bridge_merge
#print axioms ZnVerif.Properties.Bridges.list_bridge_shift
#print axioms ZnVerif.Properties.Bridges.list_bridge_contains_find
#print axioms ZnVerif.Properties.Bridges.list_bridge_contains_find_ok
#print axioms ZnVerif.Properties.Bridges.list_bridge_swap
#print axioms ZnVerif.Properties.Bridges.list_bridge_join
#print axioms ZnVerif.Properties.Bridges.list_bridge_getters
#print axioms ZnVerif.Properties.Bridges.list_bridge_setters
#print axioms ZnVerif.Properties.Bridges.list_bridge_iv
#print axioms ZnVerif.Properties.Bridges.list_bridge_errors
#print axioms ZnVerif.Properties.Bridges.interp_list_refines_seq
#print axioms ZnVerif.Properties.Bridges.dict_bridge_build
#print axioms ZnVerif.Properties.Bridges.dict_bridge_erase
#print axioms ZnVerif.Properties.Bridges.dict_bridge_get
#print axioms ZnVerif.Properties.Bridges.dict_bridge_set
#print axioms ZnVerif.Properties.Bridges.dict_bridge_delete
#print axioms ZnVerif.Properties.Bridges.dict_bridge_getters
#print axioms ZnVerif.Properties.Bridges.dict_bridge_iv
#print axioms ZnVerif.Properties.Bridges.dict_bridge_errors
#print axioms ZnVerif.Properties.Bridges.interp_hm_inv_preserved
#print axioms ZnVerif.Properties.Bridges.interp_dict_refines_ordered_map
#print axioms ZnVerif.Properties.Bridges.dict_core_is_evaluator
#print axioms ZnVerif.Properties.Bridges.interp_dict_history
