import ZnVerif.Properties.C02
open ZnVerif.Properties.C02
#print axioms return_sets_slot
#print axioms no_statement_after_return
#print axioms statement_loop_continues
#print axioms final_statement_value
#print axioms while_stops
#print axioms while_retests
#print axioms iterate_stops
#print axioms iterate_in_order
#print axioms iterate_index_advances
#print axioms branch_first_true
#print axioms branch_skips_false
#print axioms branch_else_last
#print axioms branch_non_bool_is_error
