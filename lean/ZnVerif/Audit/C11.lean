import ZnVerif.Properties.C11
open ZnVerif.Properties.C11
#print axioms sites_all_classified
#print axioms inventory_nonempty
#print axioms no_other_sources
#print axioms newObject_order_independent
#print axioms newObject_reads
#print axioms libraryCopy_order_independent
#print axioms sortedKeyLoop_order_independent
#print axioms importAll_order_independent
#print axioms exprInput_order_independent
#print axioms importAll_range_order_mattered
#print axioms requestDict_order_independent
#print axioms requestDict_range_order_mattered
#print axioms xeq_content_only
#print axioms xeq_keyOrder_irrelevant
#print axioms xeq_first_key_order_mattered
#print axioms xeq_nonplain_keyOrder_visible
