/-
Spec for C20, written from the property text and the manual (doc/zh-cn/manual/zinc-server-使用指南.md:
"无论什么情况下，服务端现存的子进程数量都不会超过这个数" for --max-procs; "当发现现有子进程数量低于这个值时，
服务端会自动创建新的子进程" for --init-procs), independent of how the master keeps its books.
It judges what an outside observer sees of a running master: which workers are alive, and how many workers the
master lists, after each thing the observer did.  Core Lean only.
-/
namespace ZnVerif.Spec.PoolBounds

/-- one observation: the live worker processes (numbered in start-up order) and the size of the master's table -/
structure Obs where
  alive : List Nat
  listed : Nat
deriving DecidableEq, Repr

/-- what the observer did before looking -/
inductive Act where
  /-- delivered a state report for a worker (a request arrived / finished) -/
  | report
  /-- worker `i` crashed (or was killed) -/
  | crash (i : Nat)
  /-- worker `i`'s request outlived --timeout: it reported STOPPED and exited -/
  | timeout (i : Nat)
  /-- waited for a start-up in progress -/
  | wait
  /-- waited until nothing changed any more -/
  | quiet
deriving DecidableEq, Repr

def Act.victim : Act → Option Nat
  | .crash i | .timeout i => some i
  | _ => none

/-- **the upper bound** holds in every observation -/
def maxOk (max : Nat) (o : Obs) : Bool := decide (o.alive.length ≤ max)

/-- **once quiet** at least `init` workers are alive, and the master lists exactly the live workers -/
def quietOk (init : Nat) (o : Obs) : Bool := decide (init ≤ o.alive.length) && decide (o.listed = o.alive.length)

/-- **a terminated worker is gone and nobody else is disturbed**: from one observation to the next only the worker
that crashed / timed out may disappear -/
def stepOk (prev : Obs) (a : Act) (o : Obs) : Bool :=
  (match a.victim with | some i => !o.alive.contains i | none => true) &&
  prev.alive.all (fun j => a.victim == some j || o.alive.contains j)

/-- first clause violated by observation `o` made after `a`, if any -/
def judge (init max : Nat) (prev : Obs) (a : Act) (o : Obs) : Option String :=
  if !maxOk max o then some "max-procs-exceeded"
  else if !stepOk prev a o then some "other-worker-disturbed-or-victim-alive"
  else if a == .quiet && !quietOk init o then
    (if o.alive.length < init then some "below-init-procs-when-quiet" else some "table-not-live-set-when-quiet")
  else none

/-- a whole session: initial observation (the pool has started: judged like a quiet one), then (act, observation)* -/
def judgeAll (init max : Nat) (o0 : Obs) (steps : List (Act × Obs)) : Option (Nat × String) :=
  let rec go (k : Nat) (prev : Obs) : List (Act × Obs) → Option (Nat × String)
    | [] => none
    | (a, o) :: rest => match judge init max prev a o with
      | some why => some (k, why)
      | none => go (k + 1) o rest
  match judge init max o0 .quiet o0 with
  | some why => some (0, why)
  | none => go 1 o0 steps

/-! ### end to end: real workers answering real requests -/

/-- what the client saw of one request -/
inductive Outcome where
  /-- answered by worker `w`, which served it from `t0` to `t1` (its own clock) -/
  | served (w : Nat) (t0 t1 : Nat)
  /-- the connection ended without an answer -/
  | failed
deriving DecidableEq, Repr

/-- what the property promises for a request, given how long its handler runs: `must` — well inside --timeout and
nobody killed its worker: it is answered; `mustNot` — well beyond --timeout: its worker is terminated, no answer;
`any` — near the limit, or a worker was killed on purpose -/
inductive Promise where
  | must | mustNot | any
deriving DecidableEq, Repr

/-- **one request at a time**: the service intervals of one worker do not overlap -/
def disjointPerWorker (rs : List Outcome) : Bool :=
  rs.all fun a => rs.all fun b =>
    match a, b with
    | .served w t0 t1, .served w' u0 u1 => w != w' || (t0 == u0 && t1 == u1) || decide (t1 ≤ u0) || decide (u1 ≤ t0)
    | _, _ => true

def promiseKept : Promise × Outcome → Bool
  | (.must, .served ..) => true
  | (.must, .failed) => false
  | (.mustNot, .served ..) => false
  | (.mustNot, .failed) => true
  | (.any, _) => true

/-- a whole end-to-end session: the bound in every observation, the quiet clauses in every quiet one, the master still
running at the end, every promise kept, one request at a time -/
def judgeReal (init max : Nat) (obs : List (Bool × Obs)) (masterAlive : Bool) (reqs : List (Promise × Outcome)) :
    Option String :=
  if obs.any (fun (_, o) => !maxOk max o) then some "max-procs-exceeded"
  else if !masterAlive then some "master-died"
  else if obs.any (fun (q, o) => q && !quietOk init o) then some "pool-not-restored-when-quiet"
  else if reqs.any (fun r => !promiseKept r) then some "request-promise-broken"
  else if !disjointPerWorker (reqs.map (·.2)) then some "two-requests-at-once-in-one-worker"
  else none

end ZnVerif.Spec.PoolBounds
