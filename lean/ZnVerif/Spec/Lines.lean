/-
Spec for the line table (C18): where the physical lines of a text start.  A line break is CR LF, LF CR, CR or LF
(two-character breaks are recognised greedily, left to right).  Core Lean only.
-/
namespace ZnVerif.Spec.Lines

def isBreak (c : Nat) : Bool := c == 0x0D || c == 0x0A
def isPair (c d : Nat) : Bool := (c == 0x0D && d == 0x0A) || (c == 0x0A && d == 0x0D)

/-- start positions of the lines that begin after each line break of `s`; `s` itself begins at position `pos` -/
def lineStarts : Nat → List Nat → List Nat
  | _, [] => []
  | pos, [c] => if isBreak c then [pos + 1] else []
  | pos, c :: d :: r =>
    if isPair c d then (pos + 2) :: lineStarts (pos + 2) r
    else if isBreak c then (pos + 1) :: lineStarts (pos + 1) (d :: r)
    else lineStarts (pos + 1) (d :: r)

/-- every physical line start of a non-empty text -/
def physicalLineStarts (s : List Nat) : List Nat := if s.isEmpty then [] else 0 :: lineStarts 0 s

end ZnVerif.Spec.Lines
