/-
Spec: the documented numeric form of an identifier (manual ch.5 / property C04):
  optional sign, digits, optional fraction, optional exponent where the exponent is
  E/e with a mandatory sign, or *10^ / *^ with an optional sign.
-/
namespace ZnVerif.Spec

def isDigit (c : Nat) : Bool := 0x30 ≤ c && c ≤ 0x39
def isSignCh (c : Nat) : Bool := c == 0x2B || c == 0x2D

/-- non-empty run of digits -/
def Digits1 (l : List Nat) : Prop := l ≠ [] ∧ ∀ c ∈ l, isDigit c = true
def SignOpt (l : List Nat) : Prop := l = [] ∨ ∃ c, l = [c] ∧ isSignCh c = true
def Frac (l : List Nat) : Prop := l = [] ∨ ∃ d, l = 0x2E :: d ∧ Digits1 d
def Exp (l : List Nat) : Prop :=
  l = [] ∨
  (∃ e sg d, l = e :: sg :: d ∧ (e = 0x65 ∨ e = 0x45) ∧ isSignCh sg = true ∧ Digits1 d) ∨
  (∃ sg d, l = [0x2A, 0x31, 0x30, 0x5E] ++ sg ++ d ∧ SignOpt sg ∧ Digits1 d) ∨
  (∃ sg d, l = [0x2A, 0x5E] ++ sg ++ d ∧ SignOpt sg ∧ Digits1 d)

def NumForm (s : List Nat) : Prop :=
  ∃ sg i f e, s = sg ++ i ++ f ++ e ∧ SignOpt sg ∧ Digits1 i ∧ Frac f ∧ Exp e

/-- the exponent part as it must reach `strconv.ParseFloat` (which knows only `e`/`E` notation):
`e±d` / `E±d` unchanged, `*10^s d` and `*^s d` become `e s d` with the same sign and digits -/
def ExpText (e e' : List Nat) : Prop :=
  (e = [] ∧ e' = []) ∨
  (∃ ec sg d, e = ec :: sg :: d ∧ (ec = 0x65 ∨ ec = 0x45) ∧ isSignCh sg = true ∧ Digits1 d ∧ e' = e) ∨
  (∃ sg d, (e = [0x2A, 0x31, 0x30, 0x5E] ++ sg ++ d ∨ e = [0x2A, 0x5E] ++ sg ++ d) ∧
    SignOpt sg ∧ Digits1 d ∧ e' = 0x65 :: (sg ++ d))

/-- "starts like a number": optional sign then a digit -/
def StartsLikeNumber (s : List Nat) : Prop :=
  ∃ sg d rest, s = sg ++ d :: rest ∧ SignOpt sg ∧ isDigit d = true

/-- executable recogniser of the same form (the spec oracle of the driver); `numFormB_iff` in
Proofs/NumberForm.lean shows it decides `NumForm`. -/
def takeDigits : List Nat → List Nat × List Nat
  | [] => ([], [])
  | c :: r => if isDigit c then let (a, b) := takeDigits r; (c :: a, b) else ([], c :: r)

def dropSign : List Nat → List Nat
  | c :: r => if isSignCh c then r else c :: r
  | [] => []

def expB (l : List Nat) : Bool :=
  match l with
  | [] => true
  | e :: sg :: d =>
    if (e == 0x65 || e == 0x45) then
      isSignCh sg && (let (a, b) := takeDigits d; !a.isEmpty && b.isEmpty)
    else if e == 0x2A then
      let r := if sg == 0x5E then some d
               else match sg, d with
                    | 0x31, 0x30 :: 0x5E :: r => some r
                    | _, _ => none
      match r with
      | none => false
      | some r => let (a, b) := takeDigits (dropSign r); !a.isEmpty && b.isEmpty
    else false
  | _ => false

def numFormB (s : List Nat) : Bool :=
  let (i, r) := takeDigits (dropSign s)
  if i.isEmpty then false
  else match r with
    | 0x2E :: r' =>
      let (f, r'') := takeDigits r'
      if f.isEmpty then false else expB r''
    | _ => expB r

def startsLikeNumberB (s : List Nat) : Bool :=
  match dropSign s with
  | d :: _ => isDigit d
  | [] => false

/-- the documented classification: number / rejected / name -/
inductive IdKind where
  | name | number | error
  deriving Repr, DecidableEq

def classify (s : List Nat) : IdKind :=
  if numFormB s then .number else if startsLikeNumberB s then .error else .name

end ZnVerif.Spec
