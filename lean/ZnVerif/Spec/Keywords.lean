/-
Spec: the documented keyword list of the zinc language.
Spellings: manual ch.1 (doc/zh-cn/manual/第1章：程序的文本结构.md, section 关键词: "目前共使用34个关键词" — 8 one-glyph,
21 two-glyph, 3 three-glyph, 2 four-glyph words), transcribed in the order of that table.
Token types: the documented numbering in the comments of the `Keyword token types` block of
pkg/syntax/zh/keyword.go (`TypeDeclareW uint8 = 40 // 令` …). Written by hand; nothing here is generated.
-/
namespace ZnVerif.Spec.Keywords

/-- (spelling as code points, token type) -/
def documented : List (List Nat × Nat) := [
  ([0x4EE4], 40),  -- 令 TypeDeclareW
  ([0x4E3A], 41),  -- 为 TypeLogicYesW
  ([0x4EE5], 56),  -- 以 TypeVarOneW
  ([0x5176], 65),  -- 其 TypeObjThisW
  ([0x6216], 69),  -- 或 TypeLogicOrW
  ([0x4E14], 70),  -- 且 TypeLogicAndW
  ([0x4E4B], 71),  -- 之 TypeObjDotW
  ([0x7684], 72),  -- 的 TypeObjDotIIW
  ([0x8BBE, 0x4E3A], 49),  -- 设为 TypeAssignW
  ([0x6052, 0x4E3A], 42),  -- 恒为 TypeAssignConstW
  ([0x65B0, 0x5EFA], 61),  -- 新建 TypeObjNewW
  ([0x4F55, 0x4E3A], 46),  -- 何为 TypeGetterW
  ([0x4E0D, 0x4E3A], 50),  -- 不为 TypeLogicNoW
  ([0x5982, 0x679C], 44),  -- 如果 TypeCondW
  ([0x518D, 0x5982], 43),  -- 再如 TypeCondOtherW
  ([0x8F93, 0x51FA], 48),  -- 输出 TypeReturnW
  ([0x5982, 0x4F55], 45),  -- 如何 TypeFuncW
  ([0x62E6, 0x622A], 73),  -- 拦截 TypeCatchErrorW
  ([0x5BFC, 0x5165], 77),  -- 导入 TypeImportW
  ([0x5B9A, 0x4E49], 63),  -- 定义 TypeObjDefineW
  ([0x5F97, 0x5230], 78),  -- 得到 TypeGetResultW
  ([0x8F93, 0x5165], 75),  -- 输入 TypeInputW
  ([0x5426, 0x5219], 59),  -- 否则 TypeCondElseW
  ([0x6BCF, 0x5F53], 60),  -- 每当 TypeWhileLoopW
  ([0x904D, 0x5386], 76),  -- 遍历 TypeIteratorW
  ([0x7B49, 0x4E8E], 74),  -- 等于 TypeLogicEqualW
  ([0x5927, 0x4E8E], 55),  -- 大于 TypeLogicGtW
  ([0x5C0F, 0x4E8E], 54),  -- 小于 TypeLogicLtW
  ([0x629B, 0x51FA], 79),  -- 抛出 TypeThrowErrorW
  ([0x4E0D, 0x7B49, 0x4E8E], 51),  -- 不等于 TypeLogicNotEqW
  ([0x4E0D, 0x5927, 0x4E8E], 52),  -- 不大于 TypeLogicLteW
  ([0x4E0D, 0x5C0F, 0x4E8E], 53),  -- 不小于 TypeLogicGteW
  ([0x7EE7, 0x7EED, 0x5FAA, 0x73AF], 80),  -- 继续循环 TypeContinueW
  ([0x7ED3, 0x675F, 0x5FAA, 0x73AF], 81)  -- 结束循环 TypeBreakW
]

/-- the (spelling, token type) pairs denoted by a keyword table of the shape `parseKeyword` consults:
first glyph ↦ ordered alternatives (glyphs looked ahead after the first, word length, token type) -/
def denoted (tbl : List (Nat × List (List Nat × Nat × Nat))) : List (List Nat × Nat) :=
  tbl.flatMap fun e => e.2.map fun a => (e.1 :: a.1, a.2.2)

end ZnVerif.Spec.Keywords
