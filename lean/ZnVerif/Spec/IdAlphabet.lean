/-
Spec for "membership of a character in the identifier alphabet": the character lies in one of the
listed ranges — a plain linear scan, independent of how the implementation looks it up.
-/
namespace ZnVerif.Spec

def linearMember (tbl : List (Nat × Nat)) (c : Nat) : Bool :=
  tbl.any (fun p => p.1 ≤ c && c ≤ p.2)

/-- ranges are well-formed, strictly increasing and pairwise disjoint -/
def sortedDisjoint : List (Nat × Nat) → Bool
  | [] => true
  | [p] => p.1 ≤ p.2
  | p :: q :: rest => p.1 ≤ p.2 && p.2 < q.1 && sortedDisjoint (q :: rest)

end ZnVerif.Spec
