/-
C03 spec, part 1: `Complete t` — every construct of the tree has every part the grammar (the CFG comments of
pkg/syntax/zh/zh_ast.go / the manual) requires: no nil expression where an expression is required, no missing block,
name, class, operator code.  Stated independently of how the parser builds trees.

`completeProgram : Program → Bool` is the executable walker (driver op `complete`) with the same clauses; the Python side
(tools/props/c03.py) has its own walker over the dump of the REAL tree, the two are compared on every accepted input.
-/
import ZnVerif.Model.Ast

namespace ZnVerif.Spec.Grammar
open ZnVerif.Model

def validLogic (ty : Nat) : Prop := ty = 1 ∨ ty = 2 ∨ (4 ≤ ty ∧ ty ≤ 11)
def validArith (ty : Nat) : Prop := 12 ≤ ty ∧ ty ≤ 17

instance : DecidablePred validLogic := fun ty => by unfold validLogic; exact inferInstance
instance : DecidablePred validArith := fun ty => by unfold validArith; exact inferInstance

mutual
/-- an expression with all its parts -/
inductive CExpr : Expr → Prop where
  | id (i : Ident) : CExpr (.id i)
  | str (l : Nat) (s : String) : CExpr (.str l s)
  | arr (l : Nat) (xs : List Expr) : (∀ x ∈ xs, CExpr x) → CExpr (.arr l xs)
  | hm (l : Nat) (kvs : List (Expr × Expr)) : (∀ kv ∈ kvs, CExpr kv.1) → (∀ kv ∈ kvs, CExpr kv.2) → CExpr (.hm l kvs)
  | assign (l : Nat) (t e : Expr) : t.isAssignable = true → CExpr t → CExpr e → CExpr (.assign l t e)
  | logic (l ty : Nat) (a b : Expr) : validLogic ty → CExpr a → CExpr b → CExpr (.logic l ty a b)
  | arith (l ty : Nat) (a b : Expr) : validArith ty → CExpr a → CExpr b → CExpr (.arith l ty a b)
  /-- `root 之 name` -/
  | memberDot (l : Nat) (r : Expr) (i : Ident) : CExpr r → CExpr (.member l 1 r 1 (some i) .nil)
  /-- `其 name` -/
  | memberThis (l : Nat) (i : Ident) : CExpr (.member l 2 .nil 1 (some i) .nil)
  /-- `root # index` -/
  | memberIdx (l : Nat) (r idx : Expr) : CExpr r → CExpr idx → CExpr (.member l 1 r 2 none idx)
  | call (l : Nat) (n : Ident) (ps : List Expr) (y : Option Ident) : (∀ p ∈ ps, CExpr p) → CExpr (.call l (some n) ps y)
  | mcall (l : Nat) (r : Expr) (c : List Expr) (y : Option Ident) :
      CExpr r → c ≠ [] → (∀ f ∈ c, CCall f) → CExpr (.mcall l r c y)
  | new (l : Nat) (c : Ident) (ps : List Expr) : (∀ p ∈ ps, CExpr p) → CExpr (.new l (some c) ps)

/-- a complete call node (the elements of a method chain) -/
inductive CCall : Expr → Prop where
  | mk (l : Nat) (n : Ident) (ps : List Expr) (y : Option Ident) : (∀ p ∈ ps, CExpr p) → CCall (.call l (some n) ps y)
end

mutual
inductive CStmt : Stmt → Prop where
  | varDecl (l : Nat) (ps : List (Nat × List Ident × Expr)) :
      (∀ p ∈ ps, (p.1 = 1 ∨ p.1 = 3) ∧ p.2.1 ≠ []) → (∀ p ∈ ps, CExpr p.2.2) → CStmt (.varDecl l ps)
  | while (l : Nat) (c : Expr) (b : List Stmt) : CExpr c → (∀ s ∈ b, CStmt s) → CStmt (.while l c (some b))
  | branch (l : Nat) (ie : Expr) (ib : List Stmt) (os : List (Expr × Option (List Stmt))) (he : Bool) (eb : Option (List Stmt)) :
      CExpr ie → (∀ s ∈ ib, CStmt s) →
      (∀ o ∈ os, CExpr o.1) → (∀ o ∈ os, o.2.isSome) → (∀ o ∈ os, ∀ b, o.2 = some b → ∀ s ∈ b, CStmt s) →
      (he = eb.isSome) → (∀ b, eb = some b → ∀ s ∈ b, CStmt s) →
      CStmt (.branch l ie (some ib) os he eb)
  | empty (l : Nat) : CStmt (.empty l)
  | funcDecl (l : Nat) (n : Ident) (dt : Nat) (x : ExecBlock) : (1 ≤ dt ∧ dt ≤ 3) → CExec x → CStmt (.funcDecl l (some n) dt (some x))
  | classDecl (l : Nat) (n : Ident) (ps : List (Option Ident × Expr)) (ms gs : List Stmt) :
      (∀ p ∈ ps, p.1.isSome) → (∀ p ∈ ps, CExpr p.2) → (∀ m ∈ ms, CFunc 1 m) → (∀ g ∈ gs, CFunc 2 g) →
      CStmt (.classDecl l (some n) ps ms gs)
  | iterate (l : Nat) (e : Expr) (ns : List Ident) (b : List Stmt) :
      CExpr e → ns.length ≤ 2 → (∀ s ∈ b, CStmt s) → CStmt (.iterate l e ns (some b))
  | ret (l : Nat) (e : Expr) : CExpr e → CStmt (.ret l e)
  | throw (l : Nat) (c : Ident) (ps : List Expr) : ps ≠ [] → (∀ p ∈ ps, CExpr p) → CStmt (.throw l (some c) ps)
  | continue (l : Nat) : CStmt (.continue l)
  | break (l : Nat) : CStmt (.break l)
  | expr (e : Expr) : CExpr e → CStmt (.expr e)

/-- a complete method (`dt = 1`) / getter (`dt = 2`) declaration -/
inductive CFunc : Nat → Stmt → Prop where
  | mk (l : Nat) (n : Ident) (dt : Nat) (x : ExecBlock) : CExec x → CFunc dt (.funcDecl l (some n) dt (some x))

inductive CExec : ExecBlock → Prop where
  | mk (ins : List Ident) (body : List Stmt) (cs : List (Option Ident × Option (List Stmt))) :
      (∀ s ∈ body, CStmt s) →
      (∀ c ∈ cs, c.1.isSome ∧ c.2.isSome) → (∀ c ∈ cs, ∀ b, c.2 = some b → ∀ s ∈ b, CStmt s) →
      CExec (.mk ins (some body) cs)
end

/-- `Complete`: imports have a name and a library type, the body (absent only for a program without statements) is complete -/
def Complete (p : Program) : Prop :=
  (∀ im ∈ p.imports, im.name.isSome ∧ (im.libType = 1 ∨ im.libType = 2)) ∧ (∀ x, p.exec = some x → CExec x)

-- ---- executable walker ---------------------------------------------------------------------------------------

mutual
partial def cExpr : Expr → Bool
  | .id _ | .str .. => true
  | .arr _ xs => xs.all cExpr
  | .hm _ kvs => kvs.all fun kv => cExpr kv.1 && cExpr kv.2
  | .assign _ t e => t.isAssignable && cExpr t && cExpr e
  | .logic _ ty a b => decide (validLogic ty) && cExpr a && cExpr b
  | .arith _ ty a b => decide (validArith ty) && cExpr a && cExpr b
  | .member _ 1 r 1 (some _) .nil => cExpr r
  | .member _ 2 .nil 1 (some _) .nil => true
  | .member _ 1 r 2 none idx => cExpr r && cExpr idx
  | .member .. => false
  | .call _ (some _) ps _ => ps.all cExpr
  | .call .. => false
  | .mcall _ r c _ => cExpr r && !c.isEmpty && c.all fun f => match f with | .call _ (some _) ps _ => ps.all cExpr | _ => false
  | .new _ (some _) ps => ps.all cExpr
  | .new .. => false
  | .nil => false
end

mutual
partial def cBlock : Option (List Stmt) → Bool
  | some b => b.all cStmt
  | none => false

partial def cExec : Option ExecBlock → Bool
  | some (.mk _ body cs) => cBlock body && cs.all fun c => c.1.isSome && cBlock c.2
  | none => false

partial def cFunc (want : Nat) : Stmt → Bool
  | .funcDecl _ (some _) dt x => dt == want && cExec x
  | _ => false

partial def cStmt : Stmt → Bool
  | .varDecl _ ps => ps.all fun p => (p.1 == 1 || p.1 == 3) && !p.2.1.isEmpty && cExpr p.2.2
  | .while _ c b => cExpr c && cBlock b
  | .branch _ ie ib os he eb =>
    cExpr ie && cBlock ib && (os.all fun o => cExpr o.1 && cBlock o.2) && he == eb.isSome && (eb.isNone || cBlock eb)
  | .empty _ | .continue _ | .break _ => true
  | .funcDecl _ (some _) dt x => 1 ≤ dt && dt ≤ 3 && cExec x
  | .funcDecl .. => false
  | .classDecl _ (some _) ps ms gs => (ps.all fun p => p.1.isSome && cExpr p.2) && ms.all (cFunc 1) && gs.all (cFunc 2)
  | .classDecl .. => false
  | .iterate _ e ns b => cExpr e && ns.length ≤ 2 && cBlock b
  | .ret _ e => cExpr e
  | .throw _ (some _) ps => !ps.isEmpty && ps.all cExpr
  | .throw .. => false
  | .expr e => cExpr e
  | .nil => false
end

def completeProgram (p : Program) : Bool :=
  (p.imports.all fun im => im.name.isSome && (im.libType == 1 || im.libType == 2)) && (p.exec.isNone || cExec p.exec)

end ZnVerif.Spec.Grammar
