/-
Spec of `‹template› % ‹list›` (manual ch.6 "文本的格式化", property C14).

A template is a sequence of literal runs (text without `{` `}`) and placeholders `{directive}` (directive
without `{` `}`); any other use of a brace makes the template malformed.  The k-th placeholder is replaced
by the rendering of the k-th list element under its directive; literal runs are copied.  The result is an
error (`none`) iff the template is malformed, the numbers of placeholders and elements differ, or some
placeholder cannot render its element:
  `{}`            the display form of the element (values without a display form: error);
  `{#…}`          the element must be a number and `…` must be a directive `[+]?(.D+)?[E%]?`:
                  `+` sign for positive numbers and zero, `.N` N decimals, `E` scientific, `%` percentage;
                  a precision above `precLimit` (implementation limit of the renderer) is refused;
  anything else   malformed directive.
-/
import ZnVerif.Model.FormatParams

namespace ZnVerif.Spec.Template
open ZnVerif.Model.Format (Verb Arg Env Operand)

def isBrace (c : Nat) : Bool := c == 0x7B || c == 0x7D

inductive Seg where
  | lit (s : List Nat)
  | hole (d : List Nat)
  deriving Repr, DecidableEq

/-- the text a segment list stands for -/
def unparse : List Seg → List Nat
  | [] => []
  | .lit s :: r => s ++ unparse r
  | .hole d :: r => 0x7B :: (d ++ 0x7D :: unparse r)

def braceFree (s : List Nat) : Prop := ∀ c ∈ s, isBrace c = false

/-- canonical segment lists: literal runs are non-empty, maximal and brace-free; directives are brace-free -/
def Canonical : List Seg → Prop
  | [] => True
  | .lit s :: r => s ≠ [] ∧ braceFree s ∧ (match r with | .lit _ :: _ => False | _ => True) ∧ Canonical r
  | .hole d :: r => braceFree d ∧ Canonical r

/-- longest brace-free prefix and the rest -/
def takeRun : List Nat → List Nat × List Nat
  | [] => ([], [])
  | c :: r => if isBrace c then ([], c :: r) else let (a, b) := takeRun r; (c :: a, b)

/-- executable splitting (the spec oracle); `split_iff` (Proofs/Template.lean) shows it is the unique
canonical decomposition -/
def splitFuel : Nat → List Nat → Option (List Seg)
  | 0, _ => none
  | _, [] => some []
  | n + 1, c :: r =>
    if c = 0x7B then
      let (d, r') := takeRun r
      match r' with
      | c' :: r'' => if c' = 0x7D then (splitFuel n r'').map (Seg.hole d :: ·) else none
      | [] => none
    else if c = 0x7D then none
    else
      let (s, r') := takeRun r
      (splitFuel n r').map (Seg.lit (c :: s) :: ·)

def split (t : List Nat) : Option (List Seg) := splitFuel (t.length + 1) t

/-! ### directives -/

inductive Style where
  | plain | sci | percent
  deriving Repr, DecidableEq

structure Directive where
  plus : Bool
  prec : Option Nat
  style : Style
  deriving Repr, DecidableEq

def isDigit (c : Nat) : Bool := 0x30 ≤ c && c ≤ 0x39

/-- value of a digit string, most significant digit first -/
def decimal (ds : List Nat) : Nat := ds.foldl (fun a c => a * 10 + (c - 0x30)) 0

/-- the documented directive grammar `[+]?(.D+)?[E%]?` as a relation … -/
inductive DirectiveForm : List Nat → Directive → Prop where
  | mk (sign : List Nat) (frac : List Nat) (suffix : List Nat) (plus : Bool) (prec : Option Nat) (style : Style) :
      ((sign = [] ∧ plus = false) ∨ (sign = [0x2B] ∧ plus = true)) →
      ((frac = [] ∧ prec = none) ∨ (∃ ds, frac = 0x2E :: ds ∧ ds ≠ [] ∧ (∀ c ∈ ds, isDigit c = true) ∧ prec = some (decimal ds))) →
      ((suffix = [] ∧ style = .plain) ∨ (suffix = [0x45] ∧ style = .sci) ∨ (suffix = [0x25] ∧ style = .percent)) →
      DirectiveForm (sign ++ frac ++ suffix) ⟨plus, prec, style⟩

def takeDigits : List Nat → List Nat × List Nat
  | [] => ([], [])
  | c :: r => if isDigit c then let (a, b) := takeDigits r; (c :: a, b) else ([], c :: r)

def parseSuffix (plus : Bool) (prec : Option Nat) : List Nat → Option Directive
  | [] => some ⟨plus, prec, .plain⟩
  | [c] => if c = 0x45 then some ⟨plus, prec, .sci⟩ else if c = 0x25 then some ⟨plus, prec, .percent⟩ else none
  | _ => none

def parseFrac (plus : Bool) : List Nat → Option Directive
  | c :: r =>
    if c = 0x2E then
      let (ds, r') := takeDigits r
      if ds = [] then none else parseSuffix plus (some (decimal ds)) r'
    else parseSuffix plus none (c :: r)
  | [] => parseSuffix plus none []

/-- … and as a function (`parseDirective_iff` in Proofs/Template.lean) -/
def parseDirective : List Nat → Option Directive
  | c :: r => if c = 0x2B then parseFrac true r else parseFrac false (c :: r)
  | [] => parseFrac false []

/-- largest precision that is rendered; larger ones are refused (implementation limit: the renderer,
Go's fmt, cannot print more) -/
def precLimit : Nat := 1000000

def Directive.withinLimit (d : Directive) : Bool :=
  match d.prec with
  | some p => decide (p ≤ precLimit)
  | none => true

section
variable {ν κ : Type} (env : Env ν κ)

/-- the documented numeric renderings: `{#}` six significant digits (`%.6g`), `{#.N}` N decimals (`%.Nf`),
`{#+…}` with a sign for positive numbers and zero, `{#…E}` scientific (`%E`, N decimals if given),
`{#…%}` the same as without `%` for 100·x, followed by `%` -/
def renderNum (d : Directive) (x : ν) : List Nat :=
  let fixedOrGeneral : Verb := if d.prec.isSome then .f else .g
  match d.style with
  | .plain => env.fmtFloat fixedOrGeneral d.prec d.plus x
  | .sci => env.fmtFloat .e d.prec d.plus x
  | .percent => env.fmtFloat fixedOrGeneral d.prec d.plus (env.scale100 x) ++ [0x25]

/-- what a placeholder with directive text `d` inserts for the element `a`; `none` = error -/
def render (d : List Nat) (a : Arg ν κ) : Option (List Nat) :=
  match d with
  | [] =>
    match a with
    | .num x => some (env.displayNum x)
    | .plain v => some (env.display v)
    | .other => none
  | c :: rest =>
    if c = 0x23 then
      match parseDirective rest, a with
      | some dir, .num x => if dir.withinLimit then some (renderNum env dir x) else none
      | _, _ => none
    else none

/-- fill the placeholders from left to right; `none` when counts differ or a placeholder fails -/
def fillSegs : List Seg → List (Arg ν κ) → Option (List Nat)
  | [], [] => some []
  | [], _ :: _ => none
  | .lit s :: r, args => (fillSegs r args).map (s ++ ·)
  | .hole _ :: _, [] => none
  | .hole d :: r, a :: args =>
    match render env d a with
    | none => none
    | some x => (fillSegs r args).map (x ++ ·)

/-- `⟦template⟧ args` -/
def denote (t : List Nat) (args : List (Arg ν κ)) : Option (List Nat) :=
  match split t with
  | none => none
  | some segs => fillSegs env segs args

/-- what `l % r` is: the remainder for two numbers (C01), the filled template for a text and a list, an error otherwise -/
inductive ModMeaning (ν : Type) where
  | remainder (a b : ν)
  | filled (r : Option (List Nat))
  | error

def modulo (l r : Operand ν κ) : ModMeaning ν :=
  match l, r with
  | .number a, .number b => .remainder a b
  | .text t, .list items => .filled (denote env t items)
  | _, _ => .error

def holes : List Seg → List (List Nat)
  | [] => []
  | .lit _ :: r => holes r
  | .hole d :: r => d :: holes r

end

end ZnVerif.Spec.Template
