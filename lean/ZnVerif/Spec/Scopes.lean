/-
Spec of block scoping (C06): a stack of frames, each frame an association list of bindings with a
`const` bit.  Written from the property statement, not from scope.go:

* a block opens a frame (`begin`) and closes it (`end`); closing forgets every binding of that frame;
* a declaration goes into the innermost frame; declaring a name already bound *in that frame* is an
  error (43) and changes nothing; an outer binding of the same name is shadowed, not touched;
* a lookup / an assignment reaches the innermost frame that binds the name; assigning a constant is an
  error (44), assigning an unbound name is an error (42); an error changes nothing;
* imported (external) names are constants that remember the module they came from;
* predefined names (globals) win every lookup and can be neither declared nor assigned.

Closing a block that was never opened has no meaning: `step` is undefined (`none`) there.
Core Lean only.
-/
namespace ZnVerif.Spec.Scopes

structure Binding (α : Type) where
  name : String
  value : α
  isConst : Bool
  ext : Option Nat           -- module the name was imported from, if any
  deriving Repr, DecidableEq

/-- newest binding first -/
abbrev Frame (α : Type) := List (Binding α)
/-- innermost frame first; the last frame is the module's top level -/
abbrev Stack (α : Type) := List (Frame α)

/-- the operations the property quantifies over (+ the two import-related ones of scope.go) -/
inductive Op (α : Type) where
  | beginScope
  | endScope
  | declare (name : String) (v : α)
  | declareConst (name : String) (v : α)
  | declareExternal (name : String) (v : α) (moduleID : Nat)
  | assign (name : String) (v : α)
  | lookup (name : String)
  | lookupM (name : String)      -- lookup that also tells the module of origin (−1: this module)
  deriving Repr, DecidableEq

/-- what an operation answers -/
inductive Res (α : Type) where
  | done
  | val (v : α)
  | valM (v : α) (moduleID : Int)
  | undefined                    -- lookup of an unbound name (Go: nil element)
  | err (code : Nat)
  deriving Repr, DecidableEq

variable {α : Type}

def initial : Stack α := [[]]

def Frame.binds (f : Frame α) (name : String) : Bool := f.any (fun b => b.name = name)

def Frame.find (f : Frame α) (name : String) : Option (Binding α) := f.find? (fun b => b.name = name)

/-- the visible binding of a name: innermost frame that binds it -/
def lookupB : Stack α → String → Option (Binding α)
  | [], _ => none
  | f :: rest, name =>
    match f.find name with
    | some b => some b
    | none => lookupB rest name

/-- overwrite the value of the (first) binding of `name` in a frame -/
def Frame.set : Frame α → String → α → Frame α
  | [], _, _ => []
  | b :: rest, name, v => if b.name = name then { b with value := v } :: rest else b :: Frame.set rest name v

/-- overwrite the value of the visible binding of `name` -/
def setB : Stack α → String → α → Stack α
  | [], _, _ => []
  | f :: rest, name, v => if f.binds name then f.set name v :: rest else f :: setB rest name v

def declareB (st : Stack α) (b : Binding α) : Option (Stack α × Res α) :=
  match st with
  | [] => none
  | f :: rest => if f.binds b.name then some (st, .err 43) else some ((b :: f) :: rest, .done)

def extID : Option Nat → Int
  | some m => (m : Int)
  | none => -1

/-- one operation; `none` = the operation has no meaning here (closing the top level) -/
def step (st : Stack α) : Op α → Option (Stack α × Res α)
  | .beginScope => some ([] :: st, .done)
  | .endScope =>
    match st with
    | _ :: f :: rest => some (f :: rest, .done)
    | _ => none
  | .declare n v => declareB st ⟨n, v, false, none⟩
  | .declareConst n v => declareB st ⟨n, v, true, none⟩
  | .declareExternal n v m => declareB st ⟨n, v, true, some m⟩
  | .assign n v =>
    match lookupB st n with
    | none => some (st, .err 42)
    | some b => if b.isConst then some (st, .err 44) else some (setB st n v, .done)
  | .lookup n =>
    match lookupB st n with
    | none => some (st, .undefined)
    | some b => some (st, .val b.value)
  | .lookupM n =>
    match lookupB st n with
    | none => some (st, .undefined)
    | some b => some (st, .valM b.value (extID b.ext))

/-- a whole history: final stack and every answer, `none` if some `end` had no block to close -/
def run (st : Stack α) : List (Op α) → Option (Stack α × List (Res α))
  | [] => some (st, [])
  | op :: ops =>
    match step st op with
    | none => none
    | some (st', r) =>
      match run st' ops with
      | none => none
      | some (st'', rs) => some (st'', r :: rs)

/-! ### Syntactic conditions on histories -/

/-- depth after the history when started at depth `d`; `none` if an `end` occurs at depth 0 -/
def finalDepth : Nat → List (Op α) → Option Nat
  | d, [] => some d
  | d, op :: ops =>
    match op with
    | .beginScope => finalDepth (d + 1) ops
    | .endScope =>
      match d with
      | 0 => none
      | d' + 1 => finalDepth d' ops
    | _ => finalDepth d ops

/-- no block is closed that was not opened (the evaluator's use: every `EndScope` is the `defer` of a `BeginScope`) -/
def Balanced (d : Nat) (ops : List (Op α)) : Prop := (finalDepth d ops).isSome

instance (d : Nat) (ops : List (Op α)) : Decidable (Balanced d ops) :=
  inferInstanceAs (Decidable ((finalDepth d ops).isSome = true))

/-- imports happen at the module's top level only (the parser admits 导入 only in the leading import block) -/
def extAtRoot : Nat → List (Op α) → Bool
  | _, [] => true
  | d, op :: ops =>
    match op with
    | .beginScope => extAtRoot (d + 1) ops
    | .endScope => extAtRoot (d - 1) ops
    | .declareExternal _ _ _ => d == 0 && extAtRoot d ops
    | _ => extAtRoot d ops

def Op.isExt : Op α → Bool
  | .declareExternal _ _ _ => true
  | _ => false

/-- a block body: opens and closes only its own blocks and ends where it started -/
def Segment (ops : List (Op α)) : Prop := finalDepth 0 ops = some 0

instance (ops : List (Op α)) : Decidable (Segment ops) :=
  inferInstanceAs (Decidable (finalDepth 0 ops = some 0))

/-! ### Predefined names -/

structure VMSpec (α : Type) where
  globals : List (String × α)
  moduleID : Nat             -- the module whose top level this is
  stack : Stack α

def gfind : List (String × α) → String → Option α
  | [], _ => none
  | (k, v) :: rest, name => if k = name then some v else gfind rest name

/-- `errAny`: the property only says the assignment is rejected, not with which code -/
inductive VMRes (α : Type) where
  | res (r : Res α)
  | errAny
  deriving Repr

/-- how an answer of the module's own frame stack reads at the VM level: using an unbound name is an error (42);
an own (non-imported) symbol belongs to the current module -/
def liftRes (moduleID : Nat) : Res α → Res α
  | .undefined => .err 42
  | .valM v m => .valM v (if m ≥ 0 then m else (moduleID : Int))
  | r => r

def vmStep (s : VMSpec α) (op : Op α) : Option (VMSpec α × VMRes α) :=
  let inner : Option (VMSpec α × VMRes α) :=
    match step s.stack op with
    | none => none
    | some (st, r) => some ({ s with stack := st }, .res (liftRes s.moduleID r))
  match op with
  | .beginScope | .endScope => inner
  | .declare n _ | .declareConst n _ | .declareExternal n _ _ =>
    if (gfind s.globals n).isSome then some (s, .res (.err 43)) else inner
  | .assign n _ => if (gfind s.globals n).isSome then some (s, .errAny) else inner
  | .lookup n =>
    match gfind s.globals n with
    | some g => some (s, .res (.val g))
    | none => inner
  | .lookupM n =>
    match gfind s.globals n with
    | some g => some (s, .res (.valM g (-1)))       -- −1: predefined (native) name
    | none => inner

def vmRun (s : VMSpec α) : List (Op α) → Option (VMSpec α × List (VMRes α))
  | [] => some (s, [])
  | op :: ops =>
    match vmStep s op with
    | none => none
    | some (s', r) =>
      match vmRun s' ops with
      | none => none
      | some (s'', rs) => some (s'', r :: rs)

/-- an implementation answer meets a spec answer -/
def VMRes.agrees : VMRes α → Res α → Prop
  | .res r, r' => r = r'
  | .errAny, r' => ∃ c, r' = .err c

end ZnVerif.Spec.Scopes
