/-
Spec of the remaining text methods, on sequences of characters (no bytes here) — continues Spec/TextOps.lean.

The manual does not describe these methods; their meaning is the one their names state, read with C14's rule that
text operations count characters:

  替换：旧、新        every leftmost, non-overlapping occurrence of 旧 becomes 新; an empty 旧 is found before every
                     character and at the end
  匹配 / 匹配开头 / 匹配结尾   the argument occurs in / starts / ends the text
  去除空格            white space (Unicode White_Space) is removed at both ends
  转小写-英文 / 转大写-英文   the English letters A–Z / a–z change case, characters without case stay; what happens to
                     other cased letters is left open (`none`)
  拼接                the arguments are appended
  格式化              `{#k}` becomes the k-th argument, left to right, replaced text is not looked at again
  转换数值            the text read as a decimal numeral `[+-] digits [. digits] [e|E [+-] digits]` (at least one digit
                     in the mantissa) after `*^` / `*10^` became `e` (`numberRewrite`); anything else is an exception;
                     the spellings of infinities / not-a-number, hexadecimal numerals, digit separators and numerals
                     beyond the range of a double are left open
-/
import ZnVerif.Spec.TextOps
import ZnVerif.Model.TextMethods

namespace ZnVerif.Spec.TextOps

/-- 替换 with a non-empty pattern: `skip` characters of a found occurrence remain to be passed over -/
def replaceOn (pat rep : List Nat) : Nat → List Nat → List Nat
  | _, [] => []
  | skip + 1, _ :: rest => replaceOn pat rep skip rest
  | 0, c :: rest =>
    if pat.isPrefixOf (c :: rest) then rep ++ replaceOn pat rep (pat.length - 1) rest
    else c :: replaceOn pat rep 0 rest

def replaceAll (t pat rep : List Nat) : List Nat :=
  if pat = [] then rep ++ (t.map (fun c => c :: rep)).flatten else replaceOn pat rep 0 t

/-- `sub` occurs in `t`: at some position it is what follows -/
def occursIn (sub t : List Nat) : Bool := (List.range (t.length + 1)).any fun i => sub.isPrefixOf (t.drop i)

def startsWith (t sub : List Nat) : Bool := sub.isPrefixOf t

def endsWith (t sub : List Nat) : Bool := sub.isSuffixOf t

/-- the characters with the Unicode property White_Space -/
def whiteSpace : List Nat := [0x9, 0xA, 0xB, 0xC, 0xD, 0x20, 0x85, 0xA0, 0x1680, 0x2000, 0x2001, 0x2002, 0x2003, 0x2004,
  0x2005, 0x2006, 0x2007, 0x2008, 0x2009, 0x200A, 0x2028, 0x2029, 0x202F, 0x205F, 0x3000]

def isSpace (c : Nat) : Bool := whiteSpace.contains c

def trim (t : List Nat) : List Nat := ((t.dropWhile isSpace).reverse.dropWhile isSpace).reverse

/-- a character that is not an English letter and has no case (a table of Unicode, shared with the model) -/
def hasNoCase (c : Nat) : Bool := c < 0x80 || Model.TextOps.caseless c

def lowerLetter (c : Nat) : Nat := if 0x41 ≤ c ∧ c ≤ 0x5A then c + 32 else c
def upperLetter (c : Nat) : Nat := if 0x61 ≤ c ∧ c ≤ 0x7A then c - 32 else c

def toLower (t : List Nat) : Option (List Nat) := if t.all hasNoCase then some (t.map lowerLetter) else none
def toUpper (t : List Nat) : Option (List Nat) := if t.all hasNoCase then some (t.map upperLetter) else none

/-- the decimal spelling of `k` -/
def decimalDigits (k : Nat) : List Nat := (Nat.toDigits 10 k).map Char.toNat

/-- the placeholder `{#k}` -/
def placeholder (k : Nat) : List Nat := [0x7B, 0x23] ++ decimalDigits k ++ [0x7D]

/-- the placeholder of one of the arguments `k`, `k+1`, … that starts `t`: (its length, the argument) -/
def placeholderAt : Nat → List (List Nat) → List Nat → Option (Nat × List Nat)
  | _, [], _ => none
  | k, v :: vs, t => if (placeholder k).isPrefixOf t then some ((placeholder k).length, v) else placeholderAt (k + 1) vs t

def fillOn (vals : List (List Nat)) : Nat → List Nat → List Nat
  | _, [] => []
  | skip + 1, _ :: rest => fillOn vals skip rest
  | 0, c :: rest =>
    match placeholderAt 1 vals (c :: rest) with
    | some (n, v) => v ++ fillOn vals (n - 1) rest
    | none => c :: fillOn vals 0 rest

/-- 格式化 -/
def fill (t : List Nat) (vals : List (List Nat)) : List Nat := fillOn vals 0 t

/-! ### 转换数值 -/

inductive Numeral where
  /-- a decimal numeral within the range of a double -/
  | decimal
  /-- not a numeral: an exception -/
  | malformed
  /-- left open -/
  | open_
  deriving Repr, DecidableEq

def isDigit (c : Nat) : Bool := 0x30 ≤ c && c ≤ 0x39

def unsigned : List Nat → List Nat
  | 0x2B :: r => r
  | 0x2D :: r => r
  | t => t

/-- value of a digit string, saturating (only its size matters) -/
def digitsValue (ds : List Nat) : Nat := ds.foldl (fun e c => if e < 10000 then e * 10 + (c - 0x30) else e) 0

/-- the exponent part: empty, or `e`/`E`, an optional sign, one digit or more -/
def exponentOf : List Nat → Option Int
  | [] => some 0
  | c :: r =>
    if c == 0x65 || c == 0x45 then
      let ds := unsigned r
      if ds.isEmpty || !ds.all isDigit then none
      else some (match r with | 0x2D :: _ => -(digitsValue ds : Int) | _ => (digitsValue ds : Int))
    else none

/-- the spellings left open, recognisable by how the text (after its sign) begins: `i…` / `n…` (infinity, not-a-number, in
any letter case) and `0x…` / `0X…` (hexadecimal) -/
def opensSpecial : List Nat → Bool
  | c :: r => c == 0x69 || c == 0x49 || c == 0x6E || c == 0x4E ||
      (c == 0x30 && (match r with | x :: _ => x == 0x78 || x == 0x58 | [] => false))
  | [] => false

/-- what follows a decimal point, if the text starts with one -/
def afterPoint : List Nat → Option (List Nat)
  | 0x2E :: r => some r
  | _ => none

/-- an unsigned decimal numeral: digits, optionally a point and digits (one digit at least in all), optionally an
exponent part; `ip` are the digits before the point: the value is below 10^(|ip| + exponent) -/
def decimalKind (body : List Nat) : Numeral :=
  let ip := body.takeWhile isDigit
  let r1 := body.dropWhile isDigit
  let fp := match afterPoint r1 with | some r' => r'.takeWhile isDigit | none => []
  let r2 := match afterPoint r1 with | some r' => r'.dropWhile isDigit | none => r1
  if ip.isEmpty && fp.isEmpty then .malformed else
  match exponentOf r2 with
  | none => .malformed
  | some e => if (ip.length : Int) + e ≤ 308 then .decimal else .open_

/-- what kind of numeral a text (after `numberRewrite`) is -/
def numeralKind (t : List Nat) : Numeral :=
  if t.contains 0x5F then .open_
  else if opensSpecial (unsigned t) then .open_
  else decimalKind (unsigned t)

end ZnVerif.Spec.TextOps
