/-
C03 at character level, spec: a canonical TEXT rendering of a list of tokens with layout instructions.

An `RTok` is an item (what the token is) plus a layout instruction (`nl = none`: the token follows the previous one on the same line,
after exactly one space; `nl = some k`: the token starts a new line indented by `k` TABs).  `renderTokens` writes

    TAB^k₀ item₀ (SP item | LF TAB^k item)* LF

i.e. tokens on one line are separated by exactly one space, every line — the last one included — ends with LF, and a line starts
with `k` TABs.  Items and their canonical spelling:

  `kw sp ty`     a keyword of the documented list (Spec/Keywords; C04's `keyword_types_documented` ties it to the regenerated table)
  `punct ch ty`  a punctuation mark of the regenerated `punctuationTypeMap` (`， , 、 ： : ； ; ？ ? ！ ! 【 [ 】 ] （ ( ） ) { }`)
  `op sp ty`     an operator mark of `operatorTable` below (`& @ # = == < <= > >= | % + - * / /=`; the Go code has no table for
                 these — `parseOperators` is a chain of `switch` cases — so the table is written from the manual)
  `name cs`      a plain identifier or number: characters of the name alphabet (`NameChar`: every identifier character except 注 and
                 the operator marks — the alphabet of C04's `lex_is_greedy_segmentation_partial`) with no keyword inside (`kwFree`)
  `quoted cs`    an identifier written between back-ticks: any identifier characters, keywords included
  `text q t`     a text literal: `open ++ encodeSafe q t ++ close` of C13, for a text `t` without CR / LF (a line break inside a
                 literal is written as itself by `encodeSafe` and would add lines to the table)

What the rendering determines besides the text: the token list with start / end indices (`tokensOf`) and the line table
(`lineTable`: start index, indentation and `LineText` slice of every physical line; the text ends with LF, so there is a last, empty
line which holds only the EOF token) — together the `Layout` (`layoutOf`) against which `Spec/StmtSyntax`'s rendering relation
`LinProgram` is read.  Core Lean only.
-/
import ZnVerif.Model.Lexer
import ZnVerif.Spec.Keywords
import ZnVerif.Spec.Segment
import ZnVerif.Spec.Literal
import ZnVerif.Spec.StmtSyntax

namespace ZnVerif.Spec.RenderChars
open ZnVerif.Model ZnVerif.Generated ZnVerif.Generated.Tokens
open ZnVerif.Spec.Literal (Quote literalSafe)
open ZnVerif.Spec.StmtSyntax (Layout)

/-- operator marks: spelling ↦ token type (manual ch.1; `pkg/syntax/zh/tokens.go parseOperators`) -/
def operatorTable : List (List Nat × Nat) := [
  ([0x26], cTypeObjRef),            -- &
  ([0x40], cTypeAnnotationT),       -- @
  ([0x23], cTypeMapHash),           -- #
  ([0x3D], cTypeAssignMark),        -- =
  ([0x3D, 0x3D], cTypeEqualMark),   -- ==
  ([0x3C], cTypeLTMark),            -- <
  ([0x3C, 0x3D], cTypeLTEMark),     -- <=
  ([0x3E], cTypeGTMark),            -- >
  ([0x3E, 0x3D], cTypeGTEMark),     -- >=
  ([0x7C], cTypeIntDivMark),        -- |
  ([0x25], cTypeModuloMark),        -- %
  ([0x2B], cTypePlus),              -- +
  ([0x2D], cTypeMinus),             -- -
  ([0x2A], cTypeMultiply),          -- *
  ([0x2F], cTypeDivision),          -- /
  ([0x2F, 0x3D], cTypeNEMark)       -- /=
]

/-- `+ - * /` are operator tokens only before a delimiter: in the rendering they must be followed by a space (not end a line) -/
def tightMarks : List (List Nat) := [[0x2B], [0x2D], [0x2A], [0x2F]]

/-- the name alphabet: every identifier character except 注 and the operator marks (the same conjunction as C04's `SegChar`) -/
def NameChar (c : Nat) : Prop :=
  isIdentifierChar c = true ∧ isWhiteSpace c = false ∧ c ≠ cCharZHU ∧ markOperators.contains c = false ∧
  markPunctuations.contains c = false ∧ leftQuotes.contains c = false ∧ c ≠ cBackTick ∧
  identTerminatorsHead.contains c = false

instance (c : Nat) : Decidable (NameChar c) := by unfold NameChar; infer_instance

/-- no documented keyword starts at any position of the name -/
def kwFree : List Nat → Bool
  | [] => true
  | c :: r => (Segment.kwAt Keywords.documented (c :: r)).isNone && kwFree r

inductive Item where
  | kw (sp : List Nat) (ty : Nat)
  | punct (ch : Nat) (ty : Nat)
  | op (sp : List Nat) (ty : Nat)
  | name (cs : List Nat)
  | quoted (cs : List Nat)
  | text (q : Quote) (t : List Nat)
  deriving Repr, DecidableEq

namespace Item

/-- the canonical spelling -/
def spelling : Item → List Nat
  | kw sp _ => sp
  | punct ch _ => [ch]
  | op sp _ => sp
  | name cs => cs
  | quoted cs => cBackTick :: (cs ++ [cBackTick])
  | text q t => literalSafe q t

def type : Item → Nat
  | kw _ ty => ty
  | punct _ ty => ty
  | op _ ty => ty
  | name _ => cTypeIdentifier
  | quoted _ => cTypeIdentifier
  | text q _ => q.type

def literal : Item → List Nat
  | name cs => cs
  | quoted cs => cs
  | text _ t => t
  | _ => []

/-- the token of an item whose spelling starts at index `a` -/
def token (it : Item) (a : Nat) : Token :=
  { type := it.type, literal := it.literal, startIdx := a, endIdx := a + it.spelling.length }

/-- must be followed by a space -/
def tight : Item → Bool
  | op sp _ => tightMarks.contains sp
  | _ => false

/-- well-formed items -/
def WF : Item → Prop
  | kw sp ty => (sp, ty) ∈ Keywords.documented
  | punct ch ty => (ch, ty) ∈ punctuationTypeMap
  | op sp ty => (sp, ty) ∈ operatorTable
  | name cs => cs ≠ [] ∧ (∀ c ∈ cs, NameChar c) ∧ kwFree cs = true
  | quoted cs => ∀ c ∈ cs, isIdentifierChar c = true ∨ c ∈ IdRange.idContinue
  | text _ t => ∀ c ∈ t, c ≠ runeCR ∧ c ≠ runeLF

instance (it : Item) : Decidable it.WF := by cases it <;> unfold WF <;> infer_instance

end Item

/-- a rendered token: the item and where it goes (`none`: same line, after one space; `some k`: new line, `k` TABs) -/
structure RTok where
  item : Item
  nl : Option Nat := none
  deriving Repr, DecidableEq

/-- what is written before an item -/
def lead (first : Bool) : Option Nat → List Nat
  | none => [runeSP]
  | some k => (if first then [] else [runeLF]) ++ List.replicate k runeTAB

def renderFrom (first : Bool) : List RTok → List Nat
  | [] => [runeLF]
  | r :: rs => lead first r.nl ++ r.item.spelling ++ renderFrom false rs

/-- **the canonical text** -/
def renderTokens (rts : List RTok) : List Nat := renderFrom true rts

/-- the tokens with their positions in the text; `pos` = index where the lead of the next token begins -/
def toksFrom (first : Bool) (pos : Nat) : List RTok → List Token
  | [] => []
  | r :: rs =>
    r.item.token (pos + (lead first r.nl).length) ::
      toksFrom false (pos + (lead first r.nl).length + r.item.spelling.length) rs

def tokensOf (rts : List RTok) : List Token := toksFrom true 0 rts

/-- a physical line once it is complete: `LineText` is the slice from after the indentation to the line break -/
def closedLine (s k e : Nat) : LineInfo := { indents := k, startIdx := s, text := some (s + k, e) }

/-- the line table from a point inside the line that starts at `s` with indentation `k`; `pos` = index right after the last token
written (where the next lead begins) -/
def linesFrom (pos s k : Nat) : List RTok → List LineInfo
  | [] => [closedLine s k pos, closedLine (pos + 1) 0 (pos + 1)]
  | r :: rs =>
    match r.nl with
    | none => linesFrom (pos + 1 + r.item.spelling.length) s k rs
    | some k' => closedLine s k pos :: linesFrom (pos + 1 + k' + r.item.spelling.length) (pos + 1) k' rs

/-- the line table of the whole text (of a list whose first token starts a line) -/
def lineTable : List RTok → List LineInfo
  | [] => [closedLine 0 0 0]
  | r :: rs => linesFrom (r.nl.getD 0 + r.item.spelling.length) 0 (r.nl.getD 0) rs

theorem linesFrom_ne (pos s k : Nat) (rs : List RTok) : linesFrom pos s k rs ≠ [] := by
  induction rs generalizing pos s k with
  | nil => simp [linesFrom]
  | cons r rs ih =>
    unfold linesFrom
    split
    · exact ih _ _ _
    · simp

theorem lineTable_pos (rts : List RTok) : 0 < (lineTable rts).toArray.size := by
  cases rts with
  | nil => simp [lineTable]
  | cons r rs =>
    have := linesFrom_ne (r.nl.getD 0 + r.item.spelling.length) 0 (r.nl.getD 0) rs
    simp only [lineTable, List.size_toArray]
    exact List.length_pos_iff.mpr this

/-- **the layout the rendering determines**: line table and length of the text -/
def layoutOf (rts : List RTok) : Layout :=
  { lines := (lineTable rts).toArray, eofIdx := (renderTokens rts).length, ne := lineTable_pos rts }

/-- well-formed token lists: every item is well-formed; the first token starts a line; `+ - * /` do not end a line -/
def WFFrom : List RTok → Prop
  | [] => True
  | r :: rs => r.item.WF ∧ (r.item.tight = true → ∃ r' rs', rs = r' :: rs' ∧ r'.nl = none) ∧ WFFrom rs

def WF (rts : List RTok) : Prop := (∃ r rs k, rts = r :: rs ∧ r.nl = some k) ∧ WFFrom rts

def decWFFrom : (rs : List RTok) → Decidable (WFFrom rs)
  | [] => .isTrue trivial
  | r :: rs =>
    have : Decidable (WFFrom rs) := decWFFrom rs
    have : Decidable (∃ r' rs', rs = r' :: rs' ∧ r'.nl = none) :=
      match rs with
      | [] => .isFalse (by rintro ⟨_, _, h, _⟩; cases h)
      | r' :: rs' =>
        if h : r'.nl = none then .isTrue ⟨r', rs', rfl, h⟩
        else .isFalse (by rintro ⟨_, _, h1, h2⟩; cases h1; exact h h2)
    (inferInstance : Decidable (r.item.WF ∧ (r.item.tight = true → ∃ r' rs', rs = r' :: rs' ∧ r'.nl = none) ∧ WFFrom rs))

instance (rs : List RTok) : Decidable (WFFrom rs) := decWFFrom rs

instance (rts : List RTok) : Decidable (WF rts) :=
  match rts with
  | [] => .isFalse (by rintro ⟨⟨_, _, _, h, _⟩, _⟩; cases h)
  | r :: rs =>
    match hk : r.nl with
    | none => .isFalse (by rintro ⟨⟨_, _, _, h, h2⟩, _⟩; cases h; rw [hk] at h2; cases h2)
    | some k =>
      if h : WFFrom (r :: rs) then .isTrue ⟨⟨r, rs, k, rfl, hk⟩, h⟩ else .isFalse (fun h' => h h'.2)

end ZnVerif.Spec.RenderChars
