/-
C03 at character level, spec: a canonical TEXT rendering of a list of tokens with layout instructions.

An `RTok` is an item (what the token is) plus a layout instruction (`nl = none`: the token follows the previous one on the same line,
after exactly one space; `nl = some k`: the token starts a new line indented by `k` TABs).  `renderTokens` writes

    TAB^k₀ item₀ (SP item | LF TAB^k item)* LF

i.e. tokens on one line are separated by exactly one space, every line — the last one included — ends with LF, and a line starts
with `k` TABs.  Items and their canonical spelling:

  `kw sp ty`     a keyword of the documented list (Spec/Keywords; C04's `keyword_types_documented` ties it to the regenerated table)
  `punct ch ty`  a punctuation mark of the regenerated `punctuationTypeMap` (`， , 、 ： : ； ; ？ ? ！ ! 【 [ 】 ] （ ( ） ) { }`)
  `op sp ty`     an operator mark of `operatorTable` below (`& @ # = == < <= > >= | % + - * / /=`; the Go code has no table for
                 these — `parseOperators` is a chain of `switch` cases — so the table is written from the manual)
  `name cs`      a plain identifier or number: characters of the name alphabet (`NameChar`: every identifier character except 注 and
                 the operator marks — the alphabet of C04's `lex_is_greedy_segmentation_partial`) with no keyword inside (`kwFree`)
  `quoted cs`    an identifier written between back-ticks: any identifier characters, keywords included
  `text q t`     a text literal: `open ++ encodeSafe q t ++ close` of C13, for a text `t` without CR / LF (a line break inside a
                 literal is written as itself by `encodeSafe` and would add lines to the table)

What the rendering determines besides the text: the token list with start / end indices (`tokensOf`) and the line table
(`lineTable`: start index, indentation and `LineText` slice of every physical line; the text ends with LF, so there is a last, empty
line which holds only the EOF token) — together the `Layout` (`layoutOf`) against which `Spec/StmtSyntax`'s rendering relation
`LinProgram` is read.  Core Lean only.
-/
import ZnVerif.Model.Lexer
import ZnVerif.Spec.Keywords
import ZnVerif.Spec.Segment
import ZnVerif.Spec.Literal
import ZnVerif.Spec.Lines
import ZnVerif.Spec.StmtSyntax

namespace ZnVerif.Spec.RenderChars
open ZnVerif.Model ZnVerif.Generated ZnVerif.Generated.Tokens
open ZnVerif.Spec.Literal (Quote literalSafe)
open ZnVerif.Spec.StmtSyntax (Layout)

/-- operator marks: spelling ↦ token type (manual ch.1; `pkg/syntax/zh/tokens.go parseOperators`) -/
def operatorTable : List (List Nat × Nat) := [
  ([0x26], cTypeObjRef),            -- &
  ([0x40], cTypeAnnotationT),       -- @
  ([0x23], cTypeMapHash),           -- #
  ([0x3D], cTypeAssignMark),        -- =
  ([0x3D, 0x3D], cTypeEqualMark),   -- ==
  ([0x3C], cTypeLTMark),            -- <
  ([0x3C, 0x3D], cTypeLTEMark),     -- <=
  ([0x3E], cTypeGTMark),            -- >
  ([0x3E, 0x3D], cTypeGTEMark),     -- >=
  ([0x7C], cTypeIntDivMark),        -- |
  ([0x25], cTypeModuloMark),        -- %
  ([0x2B], cTypePlus),              -- +
  ([0x2D], cTypeMinus),             -- -
  ([0x2A], cTypeMultiply),          -- *
  ([0x2F], cTypeDivision),          -- /
  ([0x2F, 0x3D], cTypeNEMark)       -- /=
]

/-- `+ - * /` are operator tokens only before a delimiter: in the rendering they must be followed by a space (not end a line) -/
def tightMarks : List (List Nat) := [[0x2B], [0x2D], [0x2A], [0x2F]]

/-- the name alphabet: every identifier character except 注 and the operator marks (the same conjunction as C04's `SegChar`) -/
def NameChar (c : Nat) : Prop :=
  isIdentifierChar c = true ∧ isWhiteSpace c = false ∧ c ≠ cCharZHU ∧ markOperators.contains c = false ∧
  markPunctuations.contains c = false ∧ leftQuotes.contains c = false ∧ c ≠ cBackTick ∧
  identTerminatorsHead.contains c = false

instance (c : Nat) : Decidable (NameChar c) := by unfold NameChar; infer_instance

/-- no documented keyword starts at any position of the name -/
def kwFree : List Nat → Bool
  | [] => true
  | c :: r => (Segment.kwAt Keywords.documented (c :: r)).isNone && kwFree r

/-- a comment that stays on its line: `// …` and `注：…` / `注123：…` run to the end of the line, `/* … */` closes on the line -/
inductive Cmt where
  | line (body : List Nat)
  | block (body : List Nat)
  | note (digits body : List Nat)
  deriving Repr, DecidableEq

namespace Cmt

def spelling : Cmt → List Nat
  | line b => cSlashOp :: cSlashOp :: b
  | block b => cSlashOp :: cMultiplyOp :: (b ++ [cMultiplyOp, cSlashOp])
  | note ds b => cCharZHU :: (ds ++ cColon :: b)

/-- no NUL, no line break -/
def plainBody (b : List Nat) : Prop := ∀ c ∈ b, c ≠ 0 ∧ c ≠ runeCR ∧ c ≠ runeLF

/-- `*/` does not occur -/
def noClose : List Nat → Bool
  | a :: b :: r => !(a == cMultiplyOp && b == cSlashOp) && noClose (b :: r)
  | _ => true

def WF : Cmt → Prop
  | line b => plainBody b
  | block b => plainBody b ∧ noClose b = true
  | note ds b => (∀ d ∈ ds, isPureNumber d = true) ∧ plainBody b ∧ b.headD 0 ≠ cLeftDoubleQuoteI ∧ b.headD 0 ≠ cLeftDoubleQuoteII

instance (c : Cmt) : Decidable c.WF := by cases c <;> unfold WF plainBody <;> infer_instance

/-- `// …` and `注：…` end where the line ends -/
def Ends : Cmt → List Nat → Prop
  | block _, _ => True
  | _, rest => rest.headD 0 = 0 ∨ rest.headD 0 = runeCR ∨ rest.headD 0 = runeLF

instance (c : Cmt) (rest : List Nat) : Decidable (c.Ends rest) := by cases c <;> unfold Ends <;> infer_instance

end Cmt

inductive Item where
  | kw (sp : List Nat) (ty : Nat)
  | punct (ch : Nat) (ty : Nat)
  | op (sp : List Nat) (ty : Nat)
  | name (cs : List Nat)
  | quoted (cs : List Nat)
  | text (q : Quote) (t : List Nat)
  /-- a comment: a token for the lexer, dropped by the parser (free layout only: no canonical rendering has one) -/
  | cmt (c : Cmt)
  deriving Repr, DecidableEq

namespace Item

/-- the canonical spelling -/
def spelling : Item → List Nat
  | kw sp _ => sp
  | punct ch _ => [ch]
  | op sp _ => sp
  | name cs => cs
  | quoted cs => cBackTick :: (cs ++ [cBackTick])
  | text q t => literalSafe q t
  | cmt c => c.spelling

def type : Item → Nat
  | kw _ ty => ty
  | punct _ ty => ty
  | op _ ty => ty
  | name _ => cTypeIdentifier
  | quoted _ => cTypeIdentifier
  | text q _ => q.type
  | cmt _ => cTypeComment

def literal : Item → List Nat
  | name cs => cs
  | quoted cs => cs
  | text _ t => t
  | _ => []

/-- the token of an item whose spelling starts at index `a` -/
def token (it : Item) (a : Nat) : Token :=
  { type := it.type, literal := it.literal, startIdx := a, endIdx := a + it.spelling.length }

/-- must be followed by a space -/
def tight : Item → Bool
  | op sp _ => tightMarks.contains sp
  | _ => false

/-- well-formed items -/
def WF : Item → Prop
  | kw sp ty => (sp, ty) ∈ Keywords.documented
  | punct ch ty => (ch, ty) ∈ punctuationTypeMap
  | op sp ty => (sp, ty) ∈ operatorTable
  | name cs => cs ≠ [] ∧ (∀ c ∈ cs, NameChar c) ∧ kwFree cs = true
  | quoted cs => ∀ c ∈ cs, isIdentifierChar c = true ∨ c ∈ IdRange.idContinue
  | text _ t => ∀ c ∈ t, c ≠ runeCR ∧ c ≠ runeLF
  | cmt _ => False

instance (it : Item) : Decidable it.WF := by cases it <;> unfold WF <;> infer_instance

end Item

/-- a rendered token: the item and where it goes (`none`: same line, after one space; `some k`: new line, `k` TABs) -/
structure RTok where
  item : Item
  nl : Option Nat := none
  deriving Repr, DecidableEq

/-- what is written before an item -/
def lead (first : Bool) : Option Nat → List Nat
  | none => [runeSP]
  | some k => (if first then [] else [runeLF]) ++ List.replicate k runeTAB

def renderFrom (first : Bool) : List RTok → List Nat
  | [] => [runeLF]
  | r :: rs => lead first r.nl ++ r.item.spelling ++ renderFrom false rs

/-- **the canonical text** -/
def renderTokens (rts : List RTok) : List Nat := renderFrom true rts

/-- the tokens with their positions in the text; `pos` = index where the lead of the next token begins -/
def toksFrom (first : Bool) (pos : Nat) : List RTok → List Token
  | [] => []
  | r :: rs =>
    r.item.token (pos + (lead first r.nl).length) ::
      toksFrom false (pos + (lead first r.nl).length + r.item.spelling.length) rs

def tokensOf (rts : List RTok) : List Token := toksFrom true 0 rts

/-- a physical line once it is complete: `LineText` is the slice from after the indentation to the line break -/
def closedLine (s k e : Nat) : LineInfo := { indents := k, startIdx := s, text := some (s + k, e) }

/-- the line table from a point inside the line that starts at `s` with indentation `k`; `pos` = index right after the last token
written (where the next lead begins) -/
def linesFrom (pos s k : Nat) : List RTok → List LineInfo
  | [] => [closedLine s k pos, closedLine (pos + 1) 0 (pos + 1)]
  | r :: rs =>
    match r.nl with
    | none => linesFrom (pos + 1 + r.item.spelling.length) s k rs
    | some k' => closedLine s k pos :: linesFrom (pos + 1 + k' + r.item.spelling.length) (pos + 1) k' rs

/-- the line table of the whole text (of a list whose first token starts a line) -/
def lineTable : List RTok → List LineInfo
  | [] => [closedLine 0 0 0]
  | r :: rs => linesFrom (r.nl.getD 0 + r.item.spelling.length) 0 (r.nl.getD 0) rs

theorem linesFrom_ne (pos s k : Nat) (rs : List RTok) : linesFrom pos s k rs ≠ [] := by
  induction rs generalizing pos s k with
  | nil => simp [linesFrom]
  | cons r rs ih =>
    unfold linesFrom
    split
    · exact ih _ _ _
    · simp

theorem lineTable_pos (rts : List RTok) : 0 < (lineTable rts).toArray.size := by
  cases rts with
  | nil => simp [lineTable]
  | cons r rs =>
    have := linesFrom_ne (r.nl.getD 0 + r.item.spelling.length) 0 (r.nl.getD 0) rs
    simp only [lineTable, List.size_toArray]
    exact List.length_pos_iff.mpr this

/-- **the layout the rendering determines**: line table and length of the text -/
def layoutOf (rts : List RTok) : Layout :=
  { lines := (lineTable rts).toArray, eofIdx := (renderTokens rts).length, ne := lineTable_pos rts }

/-- well-formed token lists: every item is well-formed; the first token starts a line; `+ - * /` do not end a line -/
def WFFrom : List RTok → Prop
  | [] => True
  | r :: rs => r.item.WF ∧ (r.item.tight = true → ∃ r' rs', rs = r' :: rs' ∧ r'.nl = none) ∧ WFFrom rs

def WF (rts : List RTok) : Prop := (∃ r rs k, rts = r :: rs ∧ r.nl = some k) ∧ WFFrom rts

def decWFFrom : (rs : List RTok) → Decidable (WFFrom rs)
  | [] => .isTrue trivial
  | r :: rs =>
    have : Decidable (WFFrom rs) := decWFFrom rs
    have : Decidable (∃ r' rs', rs = r' :: rs' ∧ r'.nl = none) :=
      match rs with
      | [] => .isFalse (by rintro ⟨_, _, h, _⟩; cases h)
      | r' :: rs' =>
        if h : r'.nl = none then .isTrue ⟨r', rs', rfl, h⟩
        else .isFalse (by rintro ⟨_, _, h1, h2⟩; cases h1; exact h h2)
    (inferInstance : Decidable (r.item.WF ∧ (r.item.tight = true → ∃ r' rs', rs = r' :: rs' ∧ r'.nl = none) ∧ WFFrom rs))

instance (rs : List RTok) : Decidable (WFFrom rs) := decWFFrom rs

instance (rts : List RTok) : Decidable (WF rts) :=
  match rts with
  | [] => .isFalse (by rintro ⟨⟨_, _, _, h, _⟩, _⟩; cases h)
  | r :: rs =>
    match hk : r.nl with
    | none => .isFalse (by rintro ⟨⟨_, _, _, h, h2⟩, _⟩; cases h; rw [hk] at h2; cases h2)
    | some k =>
      if h : WFFrom (r :: rs) then .isTrue ⟨⟨r, rs, k, rfl, hk⟩, h⟩ else .isFalse (fun h' => h h'.2)

/-! ## Free layout: blanks, blank lines, any line end, either indentation

A text is now a list of ELEMENTS — items, single white-space characters, verbatim text literals (which may span lines), line breaks (LF, CR, CR LF
or LF CR, each followed by the indentation of the line it opens: `k` units of the text's one indent type, TAB or four spaces) — after the indentation of the first
line.  Nothing else is fixed: two items may touch (no blank between them) when the lexer cannot merge them (`Item.Ends`: what may
follow an item), blanks may stand anywhere, also before a line break; lines may be blank or hold only their indentation; the last line
needs no line break.  `RTok` lists are the special case `ofRToks`. -/

inductive Indent where
  | tab
  | sp4
  deriving Repr, DecidableEq

namespace Indent
def char : Indent → Nat
  | tab => runeTAB
  | sp4 => runeSP
/-- characters per indentation step -/
def width : Indent → Nat
  | tab => 1
  | sp4 => 4
/-- the lexer's `IndentType` -/
def code : Indent → Nat
  | tab => cIndentTab
  | sp4 => cIndentSpace
end Indent

/-- `k` steps of indentation -/
def units (ind : Indent) (k : Nat) : List Nat := List.replicate (ind.width * k) ind.char

inductive Break where
  | lf
  | cr
  | crlf
  | lfcr
  deriving Repr, DecidableEq

def Break.chars : Break → List Nat
  | .lf => [runeLF]
  | .cr => [runeCR]
  | .crlf => [runeCR, runeLF]
  | .lfcr => [runeLF, runeCR]

/-- a body character of a comment that may span lines: it neither ends the comment (`*/` of a `/* */` comment) nor is one of the
comment's own quote pair (quoted comments count nested pairs; nesting is not rendered) -/
def OKChar (cty c nxt : Nat) : Prop :=
  (cty = ccommentTypeSlash → ¬ (c = cMultiplyOp ∧ nxt = cSlashOp)) ∧
  (cty = ccommentTypeQuoteI → c ≠ cLeftDoubleQuoteI ∧ c ≠ cRightDoubleQuoteI) ∧
  (cty = ccommentTypeQuoteII → c ≠ cLeftDoubleQuoteII ∧ c ≠ cRightDoubleQuoteII)

instance (cty c nxt : Nat) : Decidable (OKChar cty c nxt) := by unfold OKChar; infer_instance

def BodyOK (cty : Nat) (post : List Nat) : List Nat → Prop
  | [] => True
  | c :: r => OKChar cty c ((r ++ post).headD 0) ∧ BodyOK cty post r

def decBodyOK (cty : Nat) (post : List Nat) : (b : List Nat) → Decidable (BodyOK cty post b)
  | [] => .isTrue trivial
  | c :: r =>
    have : Decidable (BodyOK cty post r) := decBodyOK cty post r
    (inferInstance : Decidable (OKChar cty c ((r ++ post).headD 0) ∧ BodyOK cty post r))

instance (cty : Nat) (post b : List Nat) : Decidable (BodyOK cty post b) := decBodyOK cty post b

/-- a comment that may span lines: `/* … */`, or `注：“…”` / `注：「…」` (optionally with digits after 注) -/
inductive MCmt where
  | block (body : List Nat)
  | quoted (curly : Bool) (digits body : List Nat)
  deriving Repr, DecidableEq

namespace MCmt
def pre : MCmt → List Nat
  | block _ => [cSlashOp, cMultiplyOp]
  | quoted curly ds _ => cCharZHU :: (ds ++ [cColon, if curly then cLeftDoubleQuoteII else cLeftDoubleQuoteI])
def body : MCmt → List Nat
  | block b => b
  | quoted _ _ b => b
def suf : MCmt → List Nat
  | block _ => [cMultiplyOp, cSlashOp]
  | quoted curly _ _ => [if curly then cRightDoubleQuoteII else cRightDoubleQuoteI]
def chars (c : MCmt) : List Nat := c.pre ++ (c.body ++ c.suf)
/-- the scanner's comment type -/
def cty : MCmt → Nat
  | block _ => ccommentTypeSlash
  | quoted curly _ _ => if curly then ccommentTypeQuoteII else ccommentTypeQuoteI
def WF (c : MCmt) : Prop :=
  (∀ x ∈ c.body, x ≠ 0) ∧ BodyOK c.cty c.suf c.body ∧
  (match c with | block _ => True | quoted _ ds _ => ∀ d ∈ ds, isPureNumber d = true)
instance (c : MCmt) : Decidable c.WF := by
  cases c <;> unfold WF <;> infer_instance
end MCmt

/-- an element of a text -/
inductive El where
  /-- a token -/
  | tok (it : Item)
  /-- one white-space character (space, TAB, NBSP, ideographic space, …: `whiteSpaces`) -/
  | ws (c : Nat)
  /-- a line break and the indentation (`k` steps) of the line it opens -/
  | br (b : Break) (k : Nat)
  /-- a text literal written verbatim (`Verbatim`: own quotes balanced, no back-tick, no NUL) — it may contain line breaks, and
  then is ONE token that spans lines -/
  | lit (q : Quote) (t : List Nat)
  /-- a comment that may span lines: ONE comment token; every line break inside adds a line to the table -/
  | mcmt (c : MCmt)
  deriving Repr, DecidableEq

def El.chars (ind : Indent) : El → List Nat
  | .tok it => it.spelling
  | .ws c => [c]
  | .br b k => b.chars ++ units ind k
  | .lit q t => q.opener :: (t ++ [q.closer])
  | .mcmt c => c.chars

def renderEls (ind : Indent) : List El → List Nat
  | [] => []
  | e :: es => e.chars ind ++ renderEls ind es

/-- **the text** of a document: indentation of the first line, then the elements -/
def renderDoc (ind : Indent) (k0 : Nat) (els : List El) : List Nat := units ind k0 ++ renderEls ind els

/-- the tokens with their positions; `pos` = index of the next element -/
def elToks (ind : Indent) (pos : Nat) : List El → List Token
  | [] => []
  | .tok it :: es => it.token pos :: elToks ind (pos + it.spelling.length) es
  | .lit q t :: es =>
    { type := q.type, literal := t, startIdx := pos, endIdx := pos + (t.length + 2) } :: elToks ind (pos + (t.length + 2)) es
  | .mcmt c :: es =>
    { type := cTypeComment, startIdx := pos, endIdx := pos + c.chars.length } :: elToks ind (pos + c.chars.length) es
  | e :: es => elToks ind (pos + (e.chars ind).length) es

def docTokens (ind : Indent) (k0 : Nat) (els : List El) : List Token := elToks ind (ind.width * k0) els

/-- a complete line: `LineText` from after the indentation to the line break (or the end of the text) -/
def closedLineI (ind : Indent) (s k e : Nat) : LineInfo := { indents := k, startIdx := s, text := some (s + ind.width * k, e) }

/-- the lines a literal leaves behind: the line it starts on (`s`, `k`) and every line that starts inside it but the last are
recorded WITHOUT `LineText` (the string scanner never sets it) and, from the second on, with indentation 0 whatever they begin with;
the last line that starts inside the literal is the current line afterwards.  `starts` = the line starts inside the literal. -/
def litLines (s k : Nat) : List Nat → List LineInfo × Nat × Nat
  | [] => ([], s, k)
  | x :: xs => ({ indents := k, startIdx := s } :: (litLines x 0 xs).1, (litLines x 0 xs).2)

/-- the line table from a point (`pos`) inside the line that starts at `s` with indentation `k` -/
def elLines (ind : Indent) (pos s k : Nat) : List El → List LineInfo
  | [] => [closedLineI ind s k pos]
  | .br b k' :: es =>
    closedLineI ind s k pos :: elLines ind (pos + b.chars.length + ind.width * k') (pos + b.chars.length) k' es
  | .lit _ t :: es =>
    (litLines s k (Lines.lineStarts (pos + 1) t)).1 ++
      elLines ind (pos + (t.length + 2)) (litLines s k (Lines.lineStarts (pos + 1) t)).2.1
        (litLines s k (Lines.lineStarts (pos + 1) t)).2.2 es
  | .mcmt c :: es =>
    (litLines s k (Lines.lineStarts (pos + c.pre.length) c.body)).1 ++
      elLines ind (pos + c.chars.length) (litLines s k (Lines.lineStarts (pos + c.pre.length) c.body)).2.1
        (litLines s k (Lines.lineStarts (pos + c.pre.length) c.body)).2.2 es
  | e :: es => elLines ind (pos + (e.chars ind).length) s k es

def docLines (ind : Indent) (k0 : Nat) (els : List El) : List LineInfo := elLines ind (ind.width * k0) 0 k0 els

theorem elLines_ne (ind : Indent) (pos s k : Nat) (els : List El) : elLines ind pos s k els ≠ [] := by
  induction els generalizing pos s k with
  | nil => simp [elLines]
  | cons e es ih =>
    cases e with
    | tok it => simp only [elLines]; exact ih _ _ _
    | ws c => simp only [elLines]; exact ih _ _ _
    | br b k' => simp [elLines]
    | lit q t => simp only [elLines]; intro h; exact ih _ _ _ (List.append_eq_nil_iff.mp h).2
    | mcmt c => simp only [elLines]; intro h; exact ih _ _ _ (List.append_eq_nil_iff.mp h).2

/-- **the layout the text determines** -/
def docLayout (ind : Indent) (k0 : Nat) (els : List El) : Layout :=
  { lines := (docLines ind k0 els).toArray, eofIdx := (renderDoc ind k0 els).length,
    ne := by
      simp only [List.size_toArray]
      exact List.length_pos_iff.mpr (elLines_ne ind _ _ _ els) }

/-- a delimiter after which `+ - * /` are operators: white space, punctuation, a quote character -/
def isDelim (d : Nat) : Bool := isWhiteSpace d || markPunctuations.contains d || markQuotes.contains d

/-- `= < >` must not be followed by `=` -/
def eqLeaders : List (List Nat) := [[0x3D], [0x3C], [0x3E]]

/-- where a name stops: before white space, a line break, the end of the text, a punctuation mark, one of `& @ # = < > |`,
a keyword, or `//`, `/*`, `/=` -/
def nameStop (rest : List Nat) : Bool :=
  isWhiteSpace (rest.headD 0) || (Segment.kwAt Keywords.documented rest).isSome ||
  (rest.headD 0 == cSlashOp && [cSlashOp, cMultiplyOp, cEqualOp].contains (rest.getD 1 0)) ||
  terminateMarkers.contains (rest.headD 0)

/-- no keyword starts inside the name, not even one that would run on into what follows -/
def kwFreeBefore (cs rest : List Nat) : Bool :=
  (List.range cs.length).all fun i => (Segment.kwAt Keywords.documented (cs.drop i ++ rest)).isNone

namespace Item

/-- well-formed items, without regard to what follows -/
def WF0 : Item → Prop
  | name cs => cs ≠ [] ∧ ∀ c ∈ cs, NameChar c
  | cmt c => c.WF
  | it => it.WF

instance (it : Item) : Decidable it.WF0 := by cases it <;> unfold WF0 <;> infer_instance

/-- what may follow an item (`rest` = the text after it) so that the lexer ends the token there: nothing is asked after keywords,
punctuation, back-tick names and literals; `+ - * /` need a delimiter, `= < >` no `=`; a name must stop (`nameStop`) and hold no
keyword (`kwFreeBefore`) -/
def Ends : Item → List Nat → Prop
  | op sp _, rest =>
    (tightMarks.contains sp = true → isDelim (rest.headD 0) = true) ∧ (eqLeaders.contains sp = true → rest.headD 0 ≠ cEqualOp)
  | name cs, rest => kwFreeBefore cs rest = true ∧ nameStop rest = true
  | cmt c, rest => c.Ends rest
  | _, _ => True

instance (it : Item) (rest : List Nat) : Decidable (it.Ends rest) := by cases it <;> unfold Ends <;> infer_instance

end Item

/-- after the indentation of a line: the next character does not continue it, and an unindented line starts with neither space nor TAB -/
def IndentOK (ind : Indent) (k : Nat) (tl : List Nat) : Prop :=
  tl.headD 0 ≠ ind.char ∧ (k = 0 → tl.headD 0 ≠ runeSP ∧ tl.headD 0 ≠ runeTAB)

instance (ind : Indent) (k : Nat) (tl : List Nat) : Decidable (IndentOK ind k tl) := by unfold IndentOK; infer_instance

/-- a lone LF is not followed by CR, a lone CR not by LF (they would pair) -/
def PairOK (b : Break) (tl : List Nat) : Prop :=
  match b with
  | .lf => tl.headD 0 ≠ runeCR
  | .cr => tl.headD 0 ≠ runeLF
  | _ => True

instance (b : Break) (tl : List Nat) : Decidable (PairOK b tl) := by cases b <;> unfold PairOK <;> infer_instance

def WFEls (ind : Indent) : List El → Prop
  | [] => True
  | .tok it :: es => it.WF0 ∧ it.Ends (renderEls ind es) ∧ WFEls ind es
  | .ws c :: es => isWhiteSpace c = true ∧ WFEls ind es
  | .br b k :: es => PairOK b (units ind k ++ renderEls ind es) ∧ IndentOK ind k (renderEls ind es) ∧ WFEls ind es
  | .lit q t :: es => Literal.Verbatim q t ∧ WFEls ind es
  | .mcmt c :: es => c.WF ∧ WFEls ind es

instance (q : Quote) (t : List Nat) : Decidable (Literal.Verbatim q t) := by unfold Literal.Verbatim; infer_instance

def decWFEls (ind : Indent) : (es : List El) → Decidable (WFEls ind es)
  | [] => .isTrue trivial
  | .tok it :: es =>
    have : Decidable (WFEls ind es) := decWFEls ind es
    (inferInstance : Decidable (it.WF0 ∧ it.Ends (renderEls ind es) ∧ WFEls ind es))
  | .ws c :: es =>
    have : Decidable (WFEls ind es) := decWFEls ind es
    (inferInstance : Decidable (isWhiteSpace c = true ∧ WFEls ind es))
  | .br b k :: es =>
    have : Decidable (WFEls ind es) := decWFEls ind es
    (inferInstance : Decidable (PairOK b (units ind k ++ renderEls ind es) ∧ IndentOK ind k (renderEls ind es) ∧ WFEls ind es))
  | .lit q t :: es =>
    have : Decidable (WFEls ind es) := decWFEls ind es
    (inferInstance : Decidable (Literal.Verbatim q t ∧ WFEls ind es))
  | .mcmt c :: es =>
    have : Decidable (WFEls ind es) := decWFEls ind es
    (inferInstance : Decidable (c.WF ∧ WFEls ind es))

instance (ind : Indent) (es : List El) : Decidable (WFEls ind es) := decWFEls ind es

/-- **well-formed documents**: the text is not empty, the first line's indentation is maximal, every element is well-formed in its
place -/
def DocWF (ind : Indent) (k0 : Nat) (els : List El) : Prop :=
  renderDoc ind k0 els ≠ [] ∧ IndentOK ind k0 (renderEls ind els) ∧ WFEls ind els

instance (ind : Indent) (k0 : Nat) (els : List El) : Decidable (DocWF ind k0 els) := by unfold DocWF; infer_instance

/-- the canonical rendering as a document: one space between the tokens of a line, LF and `k` TABs between lines, LF at the end -/
def ofRToks : List RTok → List El
  | [] => [.br .lf 0]
  | r :: rs =>
    (match r.nl with
     | none => [.ws runeSP, .tok r.item]
     | some k => [.br .lf k, .tok r.item]) ++ ofRToks rs

end ZnVerif.Spec.RenderChars
