/-
Spec for C15: what the manual and the property say about modules, written without ids, call frames, scope
depths or a dependency graph.

* a module name `A-B-C` denotes the file `A/B/C.zn` below the main file's directory, `@L` the registered library `L`;
  every part A, B, C is a plain file name (not empty, not `.` or `..`, no `/` or `\`): a name with any other part denotes
  no module at all (60), so different names never denote one file and no name reaches outside that directory;
* loading is a depth-first walk over the import statements, in order: a module's imports are loaded before its own
  statements run, a module that is already loaded is not run again, a module that is still being loaded (it is on
  the import stack) is a circular dependency (63), a missing file is 60, a missing library 64;
* an import makes the methods and types *defined by* the imported module — all of them, or the listed ones that
  exist — visible in the importer as read-only names; a name that is already imported is a redeclaration (43);
* a module's own definitions are visible in its whole body and hide imported names;
* a method or a type's constructor runs in the environment of the module that defines it (its own definitions,
  then its imports), whoever calls it.

`Imports`, `Reach`, `StaticCycle` give the static import relation the property's cycle clause speaks about.
`specRun` is the executable oracle answering `spec:modgraph`.  Core Lean only.
-/
import ZnVerif.Model.Modules

namespace ZnVerif.Spec.ModuleSem
open ZnVerif.Model.Modules (Name Kind Use Def Item Imp ModuleSrc Path Files Libs Err assoc)

/-! ## cycles in a dependency graph (edge list over module ids) -/

/-- a walk along the edges of `g` -/
inductive Walk (g : List (Nat × Nat)) : Nat → Nat → Prop
  | refl (a : Nat) : Walk g a a
  | cons {a b c : Nat} : (a, b) ∈ g → Walk g b c → Walk g a c

/-- `g` has a cycle: an edge `a → b` and a walk from `b` back to `a` (a self-loop counts) -/
def HasCycle (g : List (Nat × Nat)) : Prop := ∃ a b, (a, b) ∈ g ∧ Walk g b a

/-! ## names -/

/-- segments of a `-`-separated name (accumulator version, independent of the model's `splitOn`) -/
def segsAux (cur : Name) (acc : List Name) : List Nat → List Name
  | [] => (cur.reverse :: acc).reverse
  | c :: cs => if c = 0x2D then segsAux [] (cur.reverse :: acc) cs else segsAux (c :: cur) acc cs

def segments (n : Name) : List Name := segsAux [] [] n

inductive Target
  | file (p : Path)
  | lib (l : Name)
  | nothing             -- the name denotes no module
  deriving DecidableEq, Repr

/-- a plain directory or file name: not empty, not `.`, not `..`, without a path separator -/
def plainSegment (s : Name) : Bool :=
  match s with
  | [] => false
  | [0x2E] => false
  | [0x2E, 0x2E] => false
  | _ => !(s.contains 0x2F) && !(s.contains 0x5C)

/-- every `-`-separated part of the name is a plain file name -/
def plainName (n : Name) : Bool := (segments n).all plainSegment

/-- the last segment gets the extension -/
def withExt : List Name → Path
  | [] => []
  | [x] => [x ++ [0x2E, 0x7A, 0x6E]]
  | x :: r => x :: withExt r

/-- `@L` is the library `@L`; `A-B-C` with plain parts is the file `A/B/C.zn`; anything else is no module -/
def resolve (n : Name) : Target :=
  match n with
  | 0x40 :: _ => .lib n
  | _ => if plainName n then .file (withExt (segments n)) else .nothing

def isLibName (n : Name) : Bool :=
  match n with
  | 0x40 :: _ => true
  | _ => false

/-! ## the static import relation -/

/-- a module of a run: the main file, or a module named by an import -/
inductive Node
  | main
  | named (n : Name)
  deriving DecidableEq, Repr

def sourceOf (files : Files) (mainPath : Path) : Node → Option ModuleSrc
  | .main => assoc mainPath files
  | .named n => match resolve n with
    | .file p => assoc p files
    | .lib _ => none
    | .nothing => none

/-- `a` has an import statement naming the (non-library) module `b` -/
def Imports (files : Files) (mainPath : Path) (a : Node) (b : Node) : Prop :=
  ∃ src imp n, sourceOf files mainPath a = some src ∧ imp ∈ src.imports ∧ imp.name = n ∧ isLibName n = false ∧
    b = .named n

inductive Reach (files : Files) (mainPath : Path) : Node → Node → Prop
  | refl (a) : Reach files mainPath a a
  | step {a b c} : Reach files mainPath a b → Imports files mainPath b c → Reach files mainPath a c

/-- the import relation reachable from the main module has a cycle -/
def StaticCycle (files : Files) (mainPath : Path) : Prop :=
  ∃ a b, Reach files mainPath .main a ∧ Imports files mainPath a b ∧ Reach files mainPath b a

/-! ## exported and imported names -/

def defsOf (body : List Item) : List Def :=
  body.filterMap (fun it => match it with | .defn d => some d | _ => none)

/-- the names a module exports: its methods and types -/
def exportNames (src : ModuleSrc) : List Name := (defsOf src.body).map (·.name)

/-- what an import statement with the list `items` brings in from a module exporting `exports` -/
def selected (exports : List Name) (items : List Name) (n : Name) : Prop :=
  n ∈ exports ∧ (items = [] ∨ n ∈ items)

/-! ## the executable oracle -/

inductive SVal
  | defn (d : Def) (home : Node)
  | native
  deriving DecidableEq, Repr

abbrev Env := List (Name × SVal)

/-- a loaded module: own definitions and imported names -/
structure Loaded where
  node : Node
  defs : Env
  imports : Env
  deriving Repr

def Loaded.env (l : Loaded) : Env := l.defs ++ l.imports

structure SState where
  loaded : List Loaded
  trace : List Nat       -- most recent first
  deriving Repr

inductive SRes (α : Type)
  | ok (a : α)
  | err (e : Err) (st : SState)

def findLoaded (st : SState) (n : Node) : Option Loaded := st.loaded.find? (fun l => decide (l.node = n))

/-- environment of the module `home`, which is either the module whose body is running or a loaded one -/
def envOf (st : SState) (cur : Node) (curEnv : Env) (home : Node) : Env :=
  if home = cur then curEnv else
  match findLoaded st home with
  | some l => l.env
  | none => []

def methodErr : Err → Err
  | .code _ => .code 0
  | e => e

def specUses (rec : SState → Node → Env → Use → SRes SState) (st : SState) (cur : Node) (env : Env) :
    List Use → SRes SState
  | [] => .ok st
  | u :: us => match rec st cur env u with
    | .err e st' => .err e st'
    | .ok st' => specUses rec st' cur env us

/-- run `（n）` / `（新建 n）` in module `cur` whose environment is `env` -/
def specUse : Nat → SState → Node → Env → Use → SRes SState
  | 0, st, _, _, _ => .err .callFuel st
  | f + 1, st, cur, env, .call n =>
    match assoc n env with
    | none => .err (.code 42) st
    | some .native => .err .unsupported st
    | some (.defn d home) =>
      match d.kind with
      | .type => .err (.code 81) st
      | .method =>
        let st1 := { st with trace := d.mark :: st.trace }
        match specUses (specUse f) st1 home (envOf st cur env home) d.uses with
        | .err e st' => .err (methodErr e) st'
        | .ok st' => .ok st'
  | f + 1, st, cur, env, .new n =>
    match assoc n env with
    | none => .err (.code 42) st
    | some .native => .err (.code 82) st
    | some (.defn d home) =>
      match d.kind with
      | .method => .err (.code 82) st
      | .type =>
        let st1 := { st with trace := d.mark :: st.trace }
        specUses (specUse f) st1 home (envOf st cur env home) d.uses

/-- the definitions of a body, in order; a repeated name is a redeclaration -/
def collectDefs (home : Node) : Env → List Item → Option Env
  | acc, [] => some acc
  | acc, .defn d :: r =>
    match assoc d.name acc with
    | some _ => none
    | none => collectDefs home (acc ++ [(d.name, .defn d home)]) r
  | acc, _ :: r => collectDefs home acc r

def specItems (callFuel : Nat) (cur : Node) (env : Env) : SState → List Item → SRes SState
  | st, [] => .ok st
  | st, .marker k :: r => specItems callFuel cur env { st with trace := k :: st.trace } r
  | st, .defn _ :: r => specItems callFuel cur env st r
  | st, .use u :: r =>
    match specUse callFuel st cur env u with
    | .err e st' => .err e st'
    | .ok st' => specItems callFuel cur env st' r
  | st, .assign n :: _ =>
    match assoc n env with
    | none => .err (.code 42) st
    | some _ => .err (.code 44) st       -- every name of the fragment is read-only

/-- add the chosen names to the imported environment; a name imported before is a redeclaration -/
def bindAll (st : SState) : Env → List (Name × SVal) → SRes Env
  | env, [] => .ok env
  | env, (n, v) :: r =>
    match assoc n env with
    | some _ => .err (.code 43) st
    | none => bindAll st (env ++ [(n, v)]) r

def choose (exports : Env) (items : List Name) : List (Name × SVal) :=
  match items with
  | [] => exports
  | _ => items.filterMap (fun n => (assoc n exports).map (fun v => (n, v)))

/-- one import statement of the module being loaded (`stack` = modules being loaded, innermost first) -/
def specImport (libs : Libs) (load : SState → Name → SRes SState) (st : SState) (env : Env) (imp : Imp) :
    SRes (SState × Env) :=
  if isLibName imp.name then
    match assoc imp.name libs with
    | none => .err (.code 64) st
    | some names =>
      match bindAll st env (choose (names.map (fun n => (n, SVal.native))) imp.items) with
      | .err e st' => .err e st'
      | .ok env' => .ok (st, env')
  else
    match load st imp.name with
    | .err e st' => .err e st'
    | .ok st1 =>
      match findLoaded st1 (.named imp.name) with
      | none => .err .panic st1
      | some l =>
        match bindAll st1 env (choose l.defs imp.items) with
        | .err e st' => .err e st'
        | .ok env' => .ok (st1, env')

def specImports (libs : Libs) (load : SState → Name → SRes SState) : SState → Env → List Imp → SRes (SState × Env)
  | st, env, [] => .ok (st, env)
  | st, env, i :: r =>
    match specImport libs load st env i with
    | .err e st' => .err e st'
    | .ok (st1, env1) => specImports libs load st1 env1 r

/-- imports, then the body, of the module `node` -/
def specModule (libs : Libs) (callFuel : Nat) (load : SState → Name → SRes SState) (st : SState) (node : Node)
    (src : ModuleSrc) : SRes SState :=
  match specImports libs load st [] src.imports with
  | .err e st' => .err e st'
  | .ok (st1, imports) =>
    match collectDefs node [] src.body with
    | none => .err (.code 43) st1
    | some defs =>
      match specItems callFuel node (defs ++ imports) st1 src.body with
      | .err e st' => .err e st'
      | .ok st2 => .ok { st2 with loaded := ⟨node, defs, imports⟩ :: st2.loaded }

/-- make sure the module named `n` is loaded; `stack` = the modules being loaded -/
def specLoad (files : Files) (libs : Libs) (callFuel : Nat) : Nat → List Node → SState → Name → SRes SState
  | 0, _, st, _ => .err .loadFuel st
  | f + 1, stack, st, n =>
    if Node.named n ∈ stack then .err (.code 63) st
    else match findLoaded st (.named n) with
      | some _ => .ok st
      | none =>
        match resolve n with
        | .lib _ => .err (.code 60) st
        | .nothing => .err (.code 60) st
        | .file p =>
          match assoc p files with
          | none => .err (.code 60) st
          | some src =>
            specModule libs callFuel (specLoad files libs callFuel f (.named n :: stack)) st (.named n) src

structure SOutcome where
  trace : List Nat
  err : Option Err
  deriving Repr

def specRun (files : Files) (libs : Libs) (callFuel : Nat) (mainPath : Path) : SOutcome :=
  match assoc mainPath files with
  | none => ⟨[], some (.code 60)⟩
  | some src =>
    match specModule libs callFuel (specLoad files libs callFuel (files.length + 1) [.main]) ⟨[], []⟩ .main src with
    | .ok st => ⟨st.trace.reverse, none⟩
    | .err e st => ⟨st.trace.reverse, some e⟩

end ZnVerif.Spec.ModuleSem
