/-
Spec of the text operations named by C14, on sequences of characters (no bytes here).

A text is a sequence of characters; `长度` is their number; `字符组` lists them; `取样：i、j` takes the
characters at the 1-based positions i..j (both ends included) of that character array, where a negative
index counts from the end (−1 = last character); a start before the first character or an end past the
last one is an exception; start after end gives the empty text.  `分隔` cuts the text at every leftmost,
non-overlapping occurrence of the separator; an empty separator cuts between all characters.

A history applies steps to one text; the step vocabulary (`Step`: only syntax) is the model's.
-/
import ZnVerif.Model.TextOps

namespace ZnVerif.Spec.TextOps
open ZnVerif.Model.TextOps (Step)

inductive SliceErr where
  | startIndex | endIndex
  deriving Repr, DecidableEq

/-- position meant by an index of a sequence of length n: negative indices count from the end -/
def position (n : Nat) (k : Int) : Int := if k < 0 then (n : Int) + 1 + k else k

/-- keep the elements whose 1-based position p satisfies a ≤ p ≤ b -/
def pick {α : Type} (a b : Int) : Int → List α → List α
  | _, [] => []
  | p, c :: r => if a ≤ p ∧ p ≤ b then c :: pick a b (p + 1) r else pick a b (p + 1) r

/-- `取样：i、j` on any sequence (the text's characters, or its character array) -/
def slice {α : Type} (cs : List α) (i j : Int) : Except SliceErr (List α) :=
  let a := position cs.length i
  if a < 1 then .error .startIndex
  else if j > cs.length then .error .endIndex
  else .ok (pick a (position cs.length j) 1 cs)

/-- `分隔` with a non-empty separator: `skip` characters of a found separator remain to be passed over -/
def splitOn (sep : List Nat) : Nat → List Nat → List Nat → List (List Nat)
  | _, cur, [] => [cur]
  | skip + 1, cur, _ :: rest => splitOn sep skip cur rest
  | 0, cur, c :: rest =>
    if sep.isPrefixOf (c :: rest) then cur :: splitOn sep (sep.length - 1) [] rest
    else splitOn sep 0 (cur ++ [c]) rest

def split (t sep : List Nat) : List (List Nat) :=
  if sep = [] then t.map (fun c => [c]) else splitOn sep 0 [] t

/-- pieces joined by the separator -/
def join (sep : List Nat) : List (List Nat) → List Nat
  | [] => []
  | [p] => p
  | p :: q :: r => p ++ sep ++ join sep (q :: r)

/-- replace the first occurrence of `pat` (non-empty) by `rep` -/
def replaceFirst (pat rep : List Nat) : List Nat → List Nat
  | [] => []
  | c :: r => if pat.isPrefixOf (c :: r) then rep ++ (c :: r).drop pat.length else c :: replaceFirst pat rep r

/-- what `转换数值` leaves in the text it was applied to: the first `*^`, then the first `*10^`, become `e`
(the observables of a text are a function of its current characters, so this is all a history needs) -/
def numberRewrite (t : List Nat) : List Nat :=
  replaceFirst [0x2A, 0x31, 0x30, 0x5E] [0x65] (replaceFirst [0x2A, 0x5E] [0x65] t)

/-! ### one text over a history: every observable is a function of the text's CURRENT characters; the only step
that changes them is 转换数值 -/

/-- what a step shows (characters) -/
inductive SpecObs where
  | len (n : Nat)
  | chars (cs : List (List Nat))     -- the character array: one one-character text per character
  | slice (r : Except SliceErr (List Nat))
  | text (t : List Nat)
  | converted

/-- one step on the text `t`: (what it shows, the text afterwards) -/
def step (t : List Nat) : Step → SpecObs × List Nat
  | .len => (.len t.length, t)
  | .chars => (.chars (t.map fun c => [c]), t)
  | .slice i j => (.slice (slice t i j), t)
  | .text => (.text t, t)
  | .toNumber => (.converted, numberRewrite t)

/-- the text after a history -/
def stateAfter : List Step → List Nat → List Nat
  | [], t => t
  | st :: r, t => stateAfter r (step t st).2

/-- the observations of a history, in order -/
def runHistory : List Step → List Nat → List SpecObs
  | [], _ => []
  | st :: r, t => (step t st).1 :: runHistory r (step t st).2

end ZnVerif.Spec.TextOps
