/-
A FAMILY of text values derived from each other (C14, stream `textfam`).

A text value is an immutable sequence of characters: deriving a new text from it (拼接, a copy by 令 / =, 取样,
a piece of 分隔, 替换) makes a NEW member and leaves every existing member exactly as it was — whatever the
implementation shares behind the scenes.  The one exception is 转换数值, which rewrites the text it was applied to
(`Spec.TextOps.numberRewrite`, §12.3 / §12.8) and nothing else.

The step semantics is written once over a `TextAlg` (how a text is represented and what the primitive operations
do on that representation); `charAlg` is the spec (characters), the driver instantiates the same steps with the
byte-level model functions of `Model.TextOps`.
-/
import ZnVerif.Spec.TextOps

namespace ZnVerif.Spec.TextFamily

/-- the primitive text operations on some representation of a text (`List Nat`: characters, or bytes) -/
structure TextAlg where
  ofChars : List Nat → List Nat
  len : List Nat → Nat
  chars : List Nat → List (List Nat)
  slice : List Nat → Int → Int → Option (List Nat)
  split : List Nat → List Nat → List (List Nat)
  rewrite : List Nat → List Nat

/-- the spec: a text IS its characters -/
def charAlg : TextAlg where
  ofChars t := t
  len t := t.length
  chars t := t.map fun c => [c]
  slice t i j := match Spec.TextOps.slice t i j with | .ok r => some r | .error _ => none
  split := Spec.TextOps.split
  rewrite := Spec.TextOps.numberRewrite

/-- a derivation step; `k`, `ms` are member numbers (0 = the parent), literals are character sequences -/
inductive Step where
  | joinLits (k : Nat) (lits : List (List Nat))       -- 以Mk（拼接：lit、…）
  | joinMembers (k : Nat) (ms : List Nat)             -- 以Mk（拼接：Mm、…）
  | copy (k : Nat)                                    -- 令X=Mk
  | assign (k : Nat)                                  -- 令X=“”; X=Mk
  | slice (k : Nat) (i j : Int)                       -- 以Mk（取样：i、j）
  | piece (k : Nat) (sep : List Nat) (idx : Nat)      -- piece number idx (mod the number of pieces) of 以Mk（分隔：sep）
  | replace (k : Nat) (pat rep : List Nat)            -- 以Mk（替换：pat、rep）, pat non-empty: every occurrence
  | toNumber (k : Nat)                                -- 以Mk（转换数值）: rewrites Mk, makes no member
  deriving Repr

def getAll (fam : List (List Nat)) : List Nat → Option (List (List Nat))
  | [] => some []
  | m :: r => match fam[m]?, getAll fam r with
    | some t, some ts => some (t :: ts)
    | _, _ => none

/-- the NEW text a deriving step makes (none: the step is not executable / is `toNumber`) -/
def derived (A : TextAlg) (fam : List (List Nat)) : Step → Option (List Nat)
  | .joinLits k lits => (fam[k]?).map fun t => t ++ (lits.map A.ofChars).flatten
  | .joinMembers k ms => match fam[k]?, getAll fam ms with
    | some t, some ts => some (t ++ ts.flatten)
    | _, _ => none
  | .copy k => fam[k]?
  | .assign k => fam[k]?
  | .slice k i j => (fam[k]?).bind fun t => A.slice t i j
  | .piece k sep idx => (fam[k]?).bind fun t =>
      let ps := A.split t (A.ofChars sep)
      ps[idx % ps.length]?
  | .replace k pat rep => (fam[k]?).bind fun t =>
      if pat = [] then none else some (Spec.TextOps.join (A.ofChars rep) (A.split t (A.ofChars pat)))
  | .toNumber _ => none

/-- the family after a step -/
def apply (A : TextAlg) (fam : List (List Nat)) : Step → Option (List (List Nat))
  | .toNumber k => (fam[k]?).map fun t => fam.set k (A.rewrite t)
  | st => (derived A fam st).map fun t => fam ++ [t]

/-- the families seen over a script: the start family, then the family after each step, up to the first step that
cannot be executed (`false` then) -/
def run (A : TextAlg) : List (List Nat) → List Step → List (List (List Nat)) × Bool
  | fam, [] => ([fam], true)
  | fam, st :: r => match apply A fam st with
    | none => ([fam], false)
    | some fam' => let p := run A fam' r; (fam :: p.1, p.2)

/-! ### texts never change once made -/

/-- a deriving step appends exactly one member and leaves the existing ones as they were -/
theorem apply_deriving_extends (A : TextAlg) (fam fam' : List (List Nat)) (st : Step)
    (hn : ∀ k, st ≠ .toNumber k) (h : apply A fam st = some fam') :
    ∃ t, fam' = fam ++ [t] := by
  cases st with
  | toNumber k => exact absurd rfl (hn k)
  | joinLits k lits =>
    simp only [apply] at h
    cases hd : derived A fam (.joinLits k lits) with
    | none => simp [hd] at h
    | some t => simp [hd] at h; exact ⟨t, h.symm⟩
  | joinMembers k ms =>
    simp only [apply] at h
    cases hd : derived A fam (.joinMembers k ms) with
    | none => simp [hd] at h
    | some t => simp [hd] at h; exact ⟨t, h.symm⟩
  | copy k =>
    simp only [apply] at h
    cases hd : derived A fam (.copy k) with
    | none => simp [hd] at h
    | some t => simp [hd] at h; exact ⟨t, h.symm⟩
  | assign k =>
    simp only [apply] at h
    cases hd : derived A fam (.assign k) with
    | none => simp [hd] at h
    | some t => simp [hd] at h; exact ⟨t, h.symm⟩
  | slice k i j =>
    simp only [apply] at h
    cases hd : derived A fam (.slice k i j) with
    | none => simp [hd] at h
    | some t => simp [hd] at h; exact ⟨t, h.symm⟩
  | piece k sep idx =>
    simp only [apply] at h
    cases hd : derived A fam (.piece k sep idx) with
    | none => simp [hd] at h
    | some t => simp [hd] at h; exact ⟨t, h.symm⟩
  | replace k pat rep =>
    simp only [apply] at h
    cases hd : derived A fam (.replace k pat rep) with
    | none => simp [hd] at h
    | some t => simp [hd] at h; exact ⟨t, h.symm⟩

/-- every member that existed before a deriving step is the same text after it -/
theorem member_unchanged_by_deriving (A : TextAlg) (fam fam' : List (List Nat)) (st : Step)
    (hn : ∀ k, st ≠ .toNumber k) (h : apply A fam st = some fam') (m : Nat) (hm : m < fam.length) :
    fam'[m]? = fam[m]? := by
  obtain ⟨t, ht⟩ := apply_deriving_extends A fam fam' st hn h
  subst ht
  exact List.getElem?_append_left hm

/-- 转换数值 on member k changes no other member, and makes none -/
theorem toNumber_touches_only_its_receiver (A : TextAlg) (fam fam' : List (List Nat)) (k m : Nat)
    (h : apply A fam (.toNumber k) = some fam') (hkm : m ≠ k) :
    fam'[m]? = fam[m]? ∧ fam'.length = fam.length := by
  simp only [apply] at h
  cases hk : fam[k]? with
  | none => simp [hk] at h
  | some t =>
    simp [hk] at h
    subst h
    constructor
    · rw [List.getElem?_set_ne (Ne.symm hkm)]
    · simp

/-- joining literal texts to a member: the result's characters are the member's followed by the literals' — in
particular its first |member| characters are the member's own, whatever else was joined to that member before -/
theorem joinLits_chars (fam : List (List Nat)) (k : Nat) (lits : List (List Nat)) (t : List Nat)
    (hk : fam[k]? = some t) :
    derived charAlg fam (.joinLits k lits) = some (t ++ lits.flatten) := by
  simp [derived, hk, charAlg]

end ZnVerif.Spec.TextFamily
