/-
Spec semantics of Zn programs, written the way the manual reads (chapters 2–8), independent of the
Go mechanism: lists and dictionaries are *values* (copying is the identity on values, so "copied on
assignment" holds by construction), objects are references into an object store, control flow is an
outcome (`normal | break | continue | return | raise`), a name lives in the block that declared it,
exceptions are raised values that the nearest enclosing body with a matching handler catches.

It is defined on the same tree type as the model (Model.Ast) so that the generator's *intended* tree
can be executed by it.  Constructs whose meaning the manual and the properties leave open (what a
mutating built-in returns and whether that result aliases the receiver; mutation of a parameter
inside a method; structural mutation of a collection while iterating it; library calls) yield the
outcome `unspecified`, and the correspondence run skips (and counts) such cases.
-/
import ZnVerif.Model.Ast
import ZnVerif.Model.Num
import ZnVerif.Model.IdMatch
import ZnVerif.Spec.TextMethods
import ZnVerif.Spec.Seq

namespace ZnVerif.Spec
open ZnVerif.Model (Expr Stmt ExecBlock Program Ident NumOps)

inductive SVal (ν : Type) where
  | num (x : ν)
  | str (s : String)
  | bool (b : Bool)
  | null
  | list (xs : List (SVal ν))
  | dict (kvs : List (String × SVal ν))
  | obj (id : Nat)
  | fn (exec : Option ExecBlock)
  | builtinFn (name : String)
  | cls (name : String)
  | exc (msg : String)
  /-- a runtime fault seen as an exception (its message is the implementation's) -/
  | fault (code : Nat)

structure ClassDef (ν : Type) where
  name : String
  props : List (String × SVal ν)
  methods : List (String × Option ExecBlock)
  ctor : Option (Option ExecBlock) := none

structure Binding (ν : Type) where
  name : String
  const : Bool
  val : SVal ν

structure SState (ν : Type) where
  /-- blocks, innermost first -/
  env : List (List (Binding ν)) := [[]]
  objs : Array (String × List (String × SVal ν)) := #[]
  classes : List (ClassDef ν) := []
  /-- receivers of the active method calls, innermost first (`none` for plain functions / program) -/
  this : List (Option (SVal ν)) := [none]
  /-- value of 输出 of the innermost active body, if it has been executed -/
  out : List String := []

inductive R (ν : Type) (α : Type) where
  | ok (a : α)
  | brk
  | cont
  | ret (v : SVal ν)
  | raise (e : SVal ν)
  | fatal (code : Nat)
  | unspecified
  | fuel

abbrev SM (ν : Type) (α : Type) := SState ν → R ν α × SState ν

instance {ν} : Monad (SM ν) where
  pure a := fun s => (.ok a, s)
  bind m f := fun s =>
    match m s with
    | (.ok a, s') => f a s'
    | (.brk, s') => (.brk, s')
    | (.cont, s') => (.cont, s')
    | (.ret v, s') => (.ret v, s')
    | (.raise e, s') => (.raise e, s')
    | (.fatal c, s') => (.fatal c, s')
    | (.unspecified, s') => (.unspecified, s')
    | (.fuel, s') => (.fuel, s')

variable {ν : Type} [NumOps ν]

def sfail {α} (r : R ν α) : SM ν α := fun s => (r, s)
def fault {α} (code : Nat) : SM ν α := sfail (.raise (.fault code))
def unspec {α} : SM ν α := sfail .unspecified
def getS : SM ν (SState ν) := fun s => (.ok s, s)
def modS (f : SState ν → SState ν) : SM ν Unit := fun s => (.ok (), f s)
def catchR {α β} (m : SM ν α) (k : R ν α → SM ν β) : SM ν β := fun s => match m s with | (r, s') => k r s'

def lookupA {β} (k : String) : List (String × β) → Option β
  | [] => none
  | (k', v) :: rest => if k = k' then some v else lookupA k rest

def setA {β} (k : String) (v : β) : List (String × β) → List (String × β)
  | [] => [(k, v)]
  | (k', v') :: rest => if k = k' then (k, v) :: rest else (k', v') :: setA k v rest

/-! ### names -/

def predefined : List String := ["真", "假", "空", "异常", "显示", "取随机数", "数值"]

def predefVal (n : String) : Option (SVal ν) :=
  match n with
  | "真" => some (.bool true)
  | "假" => some (.bool false)
  | "空" => some .null
  | "异常" => some (.cls "异常")
  | "显示" => some (.builtinFn "显示")
  | "取随机数" => some (.builtinFn "取随机数")
  | "数值" => some (.num (NumOps.ofInt 0))
  | _ => none

def findB (n : String) : List (List (Binding ν)) → Option (Binding ν)
  | [] => none
  | blk :: rest => match blk.find? (·.name == n) with
    | some b => some b
    | none => findB n rest

def lookupName (n : String) : SM ν (SVal ν) := do
  match predefVal n with
  | some v => pure v
  | none =>
    match findB n (← getS).env with
    | some b => pure b.val
    | none => fault 42

/-- declare in the innermost block: predefined names cannot be redeclared (43), nor a name twice in one block (43) -/
def declare (n : String) (v : SVal ν) (const : Bool) : SM ν Unit := do
  if predefined.contains n then fault 43 else
  let s ← getS
  match s.env with
  | [] => fault 42
  | blk :: rest =>
    if blk.any (·.name == n) then fault 43
    else modS fun s => { s with env := ({ name := n, const, val := v } :: blk) :: rest }

def updB (n : String) (f : Binding ν → Option (Binding ν)) : List (List (Binding ν)) → Option (Option (List (List (Binding ν))))
  | [] => none
  | blk :: rest =>
    if blk.any (·.name == n) then
      let rec go : List (Binding ν) → Option (List (Binding ν))
        | [] => some []
        | b :: bs => if b.name == n then (f b).map (· :: bs) else (go bs).map (b :: ·)
      some ((go blk).map (· :: rest))
    else (updB n f rest).map fun r => r.map (blk :: ·)

/-- assignment to a name: undefined → 42, constant → 44 (value kept) -/
def assignName (n : String) (v : SVal ν) : SM ν Unit := do
  let s ← getS
  match updB n (fun b => if b.const then none else some { b with val := v }) s.env with
  | none => fault 42
  | some none => fault 44
  | some (some env) => modS fun s => { s with env }

def withBlock {α} (m : SM ν α) : SM ν α := do
  modS fun s => { s with env := [] :: s.env }
  catchR m fun r => do
    modS fun s => { s with env := s.env.drop 1 }
    sfail r

/-! ### identifiers and literals -/

def strCps (s : String) : List Nat := s.toList.map Char.toNat

inductive IdK (ν : Type) where
  | name (s : String)
  | number (x : ν)

def classifyId (lit : String) : SM ν (IdK ν) :=
  match Model.tryParseNumber (strCps lit) with
  | .error => sfail (.fatal 30)
  | .name => pure (.name lit)
  | .number => pure (.number (NumOps.parse (Model.parseFloatText (strCps lit))))

def idName (lit : String) : SM ν String := do
  match ← classifyId lit with
  | .name s => pure s
  | .number _ => sfail (.fatal 32)

def idNameOpt (i : Option Ident) : SM ν String :=
  match i with
  | some i => idName i.lit
  | none => unspec

/-! ### values -/

def joinWith (sep : String) : List String → String
  | [] => ""
  | [x] => x
  | x :: rest => x ++ sep ++ joinWith sep rest

/-- the displayed form of a value (manual ch.2/6) -/
def showV (objs : Array (String × List (String × SVal ν))) : Nat → SVal ν → String
  | 0, _ => "…"
  | n+1, v =>
    match v with
    | .num x => NumOps.fmt x
    | .str s => s
    | .bool b => if b then "真" else "假"
    | .null => "空"
    | .list xs => "[" ++ joinWith "，" (xs.map (showV objs n)) ++ "]"
    | .dict kvs => "[" ++ joinWith "，" (kvs.map fun kv => kv.1 ++ "=" ++ showV objs n kv.2) ++ "]"
    | .obj id => match objs[id]? with | some (c, _) => "‹对象·" ++ c ++ "›" | none => "‹对象›"
    | .fn _ | .builtinFn _ => "‹某方法›"
    | .cls name => "‹类型·" ++ name ++ "›"
    | .exc msg => "‹异常·" ++ msg ++ "›"
    | .fault code => "‹异常·‹rt:" ++ toString code ++ "››"

/-- structural equality of plain values (为 / == …): different types are unequal; objects, methods and
types are not comparable on the left (error 83) -/
def valEq : Nat → SVal ν → SVal ν → Option Bool
  | 0, _, _ => none
  | n+1, a, b =>
    match a, b with
    | .null, .null => some true
    | .null, _ => some false
    | .num x, .num y => some (NumOps.eq x y)
    | .num _, _ => some false
    | .str x, .str y => some (x == y)
    | .str _, _ => some false
    | .bool x, .bool y => some (x == y)
    | .bool _, _ => some false
    | .list xs, .list ys =>
      if xs.length ≠ ys.length then some false else
      (xs.zip ys).foldl (fun acc p => match acc with
        | some true => valEq n p.1 p.2
        | r => r) (some true)
    | .list _, _ => some false
    | .dict xs, .dict ys =>
      if xs.length ≠ ys.length then some false else
      xs.foldl (fun acc kv => match acc with
        | some true => match lookupA kv.1 ys with
          | some v => valEq n kv.2 v
          | none => some false
        | r => r) (some true)
    | .dict _, _ => some false
    | _, _ => none

/-- dictionary construction / write: a new key is appended, an existing key keeps its place -/
def dictSet (kvs : List (String × SVal ν)) (k : String) (v : SVal ν) : List (String × SVal ν) :=
  if kvs.any (·.1 == k) then kvs.map fun kv => if kv.1 == k then (k, v) else kv else kvs ++ [(k, v)]

/-! ### l-values: where an assignable expression lives -/

inductive Root (ν : Type) where
  | var (name : String)
  | objProp (id : Nat) (prop : String)
  | temp (v : SVal ν)

inductive Step where
  | idx (i : Int)
  | key (k : String)

/-- read through a path (1-based list positions; missing → fault 40 / 41) -/
def readPath : SVal ν → List Step → Except Nat (SVal ν)
  | v, [] => .ok v
  | .list xs, .idx i :: rest =>
    if i < 1 ∨ i > xs.length then .error 40 else
    match xs[(i - 1).toNat]? with
    | some x => readPath x rest
    | none => .error 40
  | .dict kvs, .key k :: rest =>
    match lookupA k kvs with
    | some x => readPath x rest
    | none => .error 41
  | _, _ => .error 80

/-- write through a path; writing a new dictionary key inserts it -/
def writePath : SVal ν → List Step → SVal ν → Except Nat (SVal ν)
  | _, [], nv => .ok nv
  | .list xs, .idx i :: rest, nv =>
    if i < 1 ∨ i > xs.length then .error 40 else
    match xs[(i - 1).toNat]? with
    | some x => do let x' ← writePath x rest nv; .ok (.list (xs.set (i - 1).toNat x'))
    | none => .error 40
  | .dict kvs, .key k :: rest, nv =>
    match lookupA k kvs, rest with
    | some x, _ => do let x' ← writePath x rest nv; .ok (.dict (dictSet kvs k x'))
    | none, [] => .ok (.dict (dictSet kvs k nv))
    | none, _ => .error 41
  | _, _, _ => .error 80

def readRoot : Root ν → SM ν (SVal ν)
  | .var n => lookupName n
  | .objProp id p => do
    match (← getS).objs[id]? with
    | some (_, props) => match lookupA p props with | some v => pure v | none => fault 45
    | none => unspec
  | .temp v => pure v

/-- store into a root.  Writing through a variable does not need it to be non-constant: a constant
name cannot be *re-bound*, its list/dictionary value may still be updated in place (as the manual's
恒为 only forbids assignment to the name). -/
def writeRoot (r : Root ν) (v : SVal ν) : SM ν Unit :=
  match r with
  | .var n => do
    let s ← getS
    match updB n (fun b => some { b with val := v }) s.env with
    | some (some env) => modS fun s => { s with env }
    | _ => if predefined.contains n then unspec else fault 42
  | .objProp id p => do
    let s ← getS
    match s.objs[id]? with
    | some (c, props) =>
      match lookupA p props with
      | some _ => modS fun s => { s with objs := s.objs.set! id (c, setA p v props) }
      | none => fault 45
    | none => unspec
  | .temp _ => pure ()

/-! ### the evaluator -/

def emitLine (l : String) : SM ν Unit := modS fun s => { s with out := l :: s.out }

def allocObj (c : String) (props : List (String × SVal ν)) : SM ν Nat := fun s =>
  (.ok s.objs.size, { s with objs := s.objs.push (c, props) })

def findClass (n : String) : SM ν (ClassDef ν) := do
  match (← getS).classes.find? (·.name == n) with
  | some c => pure c
  | none => unspec

def curThis : SM ν (Option (SVal ν)) := do
  match (← getS).this with
  | t :: _ => pure t
  | [] => pure none

/-- the documented method names of the built-in types (manual ch.2/5/6 and the standard library chapter) -/
def knownMethods : SVal ν → List String
  | .list _ => ["新增", "添加", "前增", "后增", "左移", "右移", "拼接", "合并", "包含", "寻找", "交换"]
  | .dict _ => ["读取", "写入", "移除"]
  | .num _ => ["加", "减", "乘", "除", "自增", "自减", "向下取整", "向上取整"]
  | .str _ => ["替换", "分隔", "匹配", "匹配开头", "匹配结尾", "取样", "去除空格", "转小写-英文", "转大写-英文", "拼接", "格式化", "转换数值"]
  | _ => []

def isMutator (m : String) : Bool :=
  ["新增", "添加", "前增", "后增", "左移", "右移", "合并", "交换", "写入", "移除", "自增", "自减", "转换数值"].contains m

/-- the text whose characters are these code points -/
def cpsStr (l : List Nat) : String := String.ofList (l.map Char.ofNat)

def allTexts (xs : List (SVal ν)) : Option (List String) :=
  xs.mapM fun x => match x with | .str t => some t | _ => none

/-- an exception raised by a built-in method itself; its message is the implementation's (like a runtime fault's) -/
def builtinException {α} : SM ν α := fault 0

/-- the non-mutating methods of a text (Spec/TextOps.lean, Spec/TextMethods.lean: on its characters): a wrong number of
arguments is error 53, an argument of the wrong type error 82 -/
def textPure (s : String) (m : String) (args : List (SVal ν)) : SM ν (SVal ν) :=
  let t := strCps s
  let oneText (k : String → SM ν (SVal ν)) : SM ν (SVal ν) :=
    match args with
    | [.str a] => k a
    | [_] => fault 82
    | _ => fault 53
  match m with
  | "替换" =>
    match args with
    | [.str o, .str nw] => pure (.str (cpsStr (TextOps.replaceAll t (strCps o) (strCps nw))))
    | [_, _] => fault 82
    | _ => fault 53
  | "分隔" => oneText fun sep => pure (.list ((TextOps.split t (strCps sep)).map fun p => .str (cpsStr p)))
  | "匹配" => oneText fun u => pure (.bool (TextOps.occursIn (strCps u) t))
  | "匹配开头" => oneText fun u => pure (.bool (TextOps.startsWith t (strCps u)))
  | "匹配结尾" => oneText fun u => pure (.bool (TextOps.endsWith t (strCps u)))
  | "取样" =>
    match args with
    | [.num i, .num j] =>
      match TextOps.slice t (NumOps.toInt i) (NumOps.toInt j) with
      | .ok r => pure (.str (cpsStr r))
      | .error _ => builtinException
    | [_, _] => fault 82
    | _ => fault 53
  | "去除空格" => pure (.str (cpsStr (TextOps.trim t)))
  | "转小写-英文" => match TextOps.toLower t with | some r => pure (.str (cpsStr r)) | none => unspec
  | "转大写-英文" => match TextOps.toUpper t with | some r => pure (.str (cpsStr r)) | none => unspec
  | "格式化" =>
    match allTexts args with
    | some vs => pure (.str (cpsStr (TextOps.fill t (vs.map strCps))))
    | none => fault 82
  | _ => if (knownMethods (SVal.str s : SVal ν)).contains m then unspec else fault 46

/-- 转换数值: (the text its receiver holds afterwards, the number).  The first `*^`, then the first `*10^`, of the receiver
become `e` (`numberRewrite`) and stay so; what a text that is no numeral holds after the failed attempt is left open -/
def textToNumber (s : String) : SM ν (SVal ν × SVal ν) :=
  let t := TextOps.numberRewrite (strCps s)
  match TextOps.numeralKind t with
  | .decimal => pure (.str (cpsStr t), .num (NumOps.parse t))
  | .malformed => if t = strCps s then builtinException else unspec
  | .open_ => unspec

/-- run `f` over the elements until it answers true (stop) -/
def untilS {α} (f : α → SM ν Bool) : List α → SM ν Unit
  | [] => pure ()
  | x :: xs => do if ← f x then pure () else untilS f xs

def whileS : Nat → SM ν Bool → SM ν Unit
  | 0, _ => sfail .fuel
  | k+1, step => do if ← step then whileS k step else pure ()

def firstS {α β} (f : α → SM ν (Option β)) (dflt : SM ν β) : List α → SM ν β
  | [] => dflt
  | x :: xs => do match ← f x with | some b => pure b | none => firstS f dflt xs

mutual

/-- the value of an expression -/
def evalE : Nat → Expr → SM ν (SVal ν)
  | 0, _ => sfail .fuel
  | n+1, e =>
    match e with
    | .str _ s => pure (.str s)
    | .id i => do
      match ← classifyId i.lit with
      | .name s => lookupName s
      | .number x => pure (.num x)
    | .arr _ items => do
      let vs ← items.mapM (evalE n)
      pure (.list vs)
    | .hm _ kvs => do
      let pairs ← kvs.mapM fun kv => do
        let k ← match kv.1 with
          | .str _ s => pure s
          | .id i => do let _ ← classifyId i.lit; pure i.lit
          | _ => fault 80
        let v ← evalE n kv.2
        pure (k, v)
      pure (.dict (pairs.foldl (fun acc kv => dictSet acc kv.1 kv.2) []))
    | .logic _ ty l r =>
      if ty == Model.LogicAND || ty == Model.LogicOR then do
        match ← evalE n l with
        | .bool lb =>
          -- the right operand is evaluated only when the left one does not decide
          if ty == Model.LogicAND && !lb then pure (.bool false)
          else if ty == Model.LogicOR && lb then pure (.bool true)
          else do
            match ← evalE n r with
            | .bool rb => pure (.bool rb)
            | _ => fault 80
        | _ => fault 80
      else do
        let a ← evalE n l
        let b ← evalE n r
        if ty == Model.LogicXEQ || ty == Model.LogicEQ || ty == Model.LogicXNEQ || ty == Model.LogicNEQ then
          match valEq n a b with
          | some eq => pure (.bool (if ty == Model.LogicXEQ || ty == Model.LogicEQ then eq else !eq))
          | none => fault 83
        else
          match a, b with
          | .num x, .num y =>
            pure (.bool (if ty == Model.LogicGT then NumOps.gt x y else if ty == Model.LogicGTE then NumOps.ge x y
                         else if ty == Model.LogicLT then NumOps.lt x y else NumOps.le x y))
          | _, _ => fault 83
    | .arith _ ty l r => do
      let a ← evalE n l
      -- arithmetic on a non-number is an error before the right operand matters (left to right)
      match a, ty == Model.ArithModulo with
      | .num x, _ => do
        match ← evalE n r with
        | .num y =>
          if ty == Model.ArithAdd then pure (.num (NumOps.add x y))
          else if ty == Model.ArithSub then pure (.num (NumOps.sub x y))
          else if ty == Model.ArithMul then pure (.num (NumOps.mul x y))
          else if NumOps.isZero y then fault 90
          else if ty == Model.ArithDiv then pure (.num (NumOps.div x y))
          else if ty == Model.ArithIntDiv then pure (.num (NumOps.floor (NumOps.div x y)))
          else pure (.num (NumOps.sub x (NumOps.mul (NumOps.floor (NumOps.div x y)) y)))
        | _ => fault 80
      | .str _, true => unspec      -- text formatting: C14
      | _, true => do let _ ← evalE n r; fault 80
      | _, false => fault 80
    | .assign _ target rhs => do
      let v ← evalE n rhs
      match target with
      | .id i => do
        let name ← idName i.lit
        if predefined.contains name then
          -- predefined names can be neither reassigned nor redeclared
          fault 42
        else do assignName name v; pure v
      | .member .. => do
        let (root, path) ← locOf n target
        match root with
        | .objProp id p =>
          if path.isEmpty then do writeRoot (Root.objProp id p) v; pure v
          else do
            let cur ← readRoot (Root.objProp id p)
            match writePath cur path v with
            | .ok nv => do writeRoot (Root.objProp id p) nv; pure v
            | .error c => fault c
        | _ => do
          let cur ← readRoot root
          match writePath cur path v with
          | .ok nv => do writeRoot root nv; pure v
          | .error c => fault c
      | _ => unspec
    | .member .. => do
      let (root, path) ← locOf n e
      let cur ← readRoot root
      match readPath cur path with
      | .ok v => pure v
      | .error c => fault c
    | .call _ name params yld => do
      let fname ← idNameOpt name
      let args ← params.mapM (evalE n)
      let f ← lookupName fname
      let res ← match f with
        | .fn exec => callBody n exec args none
        | .builtinFn "显示" => do
          let s ← getS
          emitLine (joinWith " " (args.map (showV s.objs 64)))
          pure SVal.null
        | .builtinFn _ => unspec
        | _ => fault 81
      match yld with
      | none => pure res
      | some y => do
        let yn ← idName y.lit
        declare yn res true
        pure res
    | .mcall _ root chain yld => do
      let last ← match chain with
        | [.call _ mname params _] => do
          let m ← idNameOpt mname
          let (rt, path) ← locOf n root
          let recv ← do
            let cur ← readRoot rt
            match readPath cur path with
            | .ok v => pure v
            | .error c => fault c
          let args ← params.mapM (evalE n)
          match recv with
          | .obj id => callMethod n id m args
          | _ =>
            if isMutator m then
              -- the effect on the receiver is specified (C12); what the call *returns* is left open
              match yld with
              | some _ => unspec
              | none => do
                let (nv, res) ← builtinMut recv m args
                match writePath (← readRoot rt) path nv with
                | .ok whole => do writeRoot rt whole; pure res
                | .error c => fault c
            else builtinPure n recv m args
        | _ => do
          -- chains: every result feeds the next call; only chains of object methods and pure built-ins are specified
          let rv ← evalE n root
          chain.foldlM (fun cur c =>
            match c with
            | .call _ mname params _ => do
              let m ← idNameOpt mname
              let args ← params.mapM (evalE n)
              match cur with
              | .obj id => callMethod n id m args
              | _ => if isMutator m then unspec else builtinPure n cur m args
            | _ => unspec) rv
      match yld with
      | none => pure last
      | some y => do
        let yn ← idName y.lit
        declare yn last true
        pure last
    | .new _ cls params => do
      let cname ← idNameOpt cls
      match ← lookupName cname with
      | .cls cn => do
        let args ← params.mapM (evalE n)
        construct n cn args
      | .num _ => unspec
      | _ => fault 82
    | .nil => unspec

/-- the location an l-value expression denotes: root + path -/
def locOf : Nat → Expr → SM ν (Root ν × List Step)
  | 0, _ => sfail .fuel
  | n+1, e =>
    match e with
    | .id i => do
      match ← classifyId i.lit with
      | .name s => do
        let _ ← lookupName s
        if predefined.contains s then do let v ← lookupName s; pure (.temp v, []) else pure (.var s, [])
      | .number x => pure (.temp (.num x), [])
    | .member _ rootType root memberType mid idx =>
      if rootType == 2 then do
        match ← curThis with
        | some (.obj id) =>
          match mid with
          | some m => if m.lit == "自身" then pure (.temp (.obj id), []) else pure (.objProp id m.lit, [])
          | none => unspec
        | some (.exc msg) =>
          match mid with
          | some m => if m.lit == "内容" then pure (.temp (.str msg), []) else fault 45
          | none => unspec
        | some (.fault _) => unspec   -- the message of a runtime fault is the implementation's
        | some _ => unspec
        | none => fault 48
      else if memberType == 1 then do
        -- a property of a value
        let (rt, path) ← locOf n root
        let cur ← readRoot rt
        match readPath cur path with
        | .error c => fault c
        | .ok (.obj id) =>
          match mid with
          | some m => if m.lit == "自身" then pure (.temp (.obj id), []) else pure (.objProp id m.lit, [])
          | none => unspec
        | .ok v =>
          match mid with
          | some m => do let pv ← builtinProp n v m.lit; pure (.temp pv, [])
          | none => unspec
      else do
        let (rt, path) ← locOf n root
        let iv ← evalE n idx
        let cur ← readRoot rt
        match readPath cur path with
        | .error c => fault c
        | .ok (.list _) =>
          match iv with
          | .num x => pure (rt, path ++ [.idx (NumOps.toInt x)])
          | _ => fault 80
        | .ok (.dict _) =>
          match iv with
          | .num x => pure (rt, path ++ [.key (NumOps.fmt x)])
          | .str s => pure (rt, path ++ [.key s])
          | _ => fault 80
        | .ok _ => fault 80
    | _ => do
      let v ← evalE n e
      pure (.temp v, [])

/-- documented read-only properties of built-in values -/
def builtinProp : Nat → SVal ν → String → SM ν (SVal ν)
  | _, v, p =>
    match v, p with
    | .list xs, "长度" | .list xs, "数目" => pure (.num (NumOps.ofInt xs.length))
    | .list xs, "首项" => pure (match xs with | [] => .null | x :: _ => x)
    | .list xs, "末项" => pure (match xs.getLast? with | none => .null | some x => x)
    | .list xs, "逆序" => pure (.list xs.reverse)
    | .list _, "文本" => do let s ← getS; pure (.str (showV s.objs 64 v))
    | .dict kvs, "长度" | .dict kvs, "数目" => pure (.num (NumOps.ofInt kvs.length))
    | .dict kvs, "所有索引" => pure (.list (kvs.map fun kv => .str kv.1))
    | .dict kvs, "所有值" => pure (.list (kvs.map (·.2)))
    | .str s, "长度" | .str s, "字数" => pure (.num (NumOps.ofInt s.length))
    | .str s, "文本" => pure (.str s)
    | .str s, "字符组" => pure (.list (s.toList.map fun c => .str (String.singleton c)))
    | .num x, "文本" => pure (.str (NumOps.fmt x))
    | .num x, "平方" => pure (.num (NumOps.mul x x))
    | .num x, "立方" => pure (.num (NumOps.mul (NumOps.mul x x) x))
    | .num x, "平方根" => if NumOps.leZero x then fault 91 else pure (.num (NumOps.sqrt x))
    | .bool b, "文本" => pure (.str (if b then "真" else "假"))
    | .exc m, "内容" => pure (.str m)
    | .fault _, "内容" => unspec
    | .fault _, _ => fault 45
    | _, _ => fault 45

/-- non-mutating methods of built-in values -/
def builtinPure : Nat → SVal ν → String → List (SVal ν) → SM ν (SVal ν)
  | n, recv, m, args =>
    match recv, m, args with
    | .list xs, "包含", [x] => do
      let rec go : List (SVal ν) → SM ν Bool
        | [] => pure false
        | y :: ys => match valEq n y x with
          | some true => pure true
          | some false => go ys
          | none => fault 83
      let b ← go xs; pure (.bool b)
    | .list xs, "寻找", [x] => do
      let rec goF : List (SVal ν) → Int → SM ν Int
        | [], _ => pure (-1)
        | y :: ys, k => match valEq n y x with
          | some true => pure k
          | some false => goF ys (k + 1)
          | none => fault 83
      let k ← goF xs 0; pure (.num (NumOps.ofInt k))
    | .list xs, "拼接", [.str sep] =>
      if xs.all (fun x => match x with | .str _ => true | _ => false) then
        pure (.str (joinWith sep (xs.filterMap fun x => match x with | .str s => some s | _ => none)))
      else fault 82
    | .dict _, "读取", ks =>
      if ks.all (fun x => match x with | .str _ => true | _ => false) then
        pure (ks.foldl (fun cur k => match cur, k with
          | .dict kvs, .str key => match lookupA key kvs with | some v => v | none => .null
          | _, _ => .null) recv)
      else fault 82
    | .num x, "加", ys | .num x, "减", ys | .num x, "乘", ys =>
      if ys.all (fun y => match y with | .num _ => true | _ => false) then
        pure (.num (ys.foldl (fun acc y => match y with
          | .num v => if m == "加" then NumOps.add acc v else if m == "减" then NumOps.sub acc v else NumOps.mul acc v
          | _ => acc) x))
      else fault 82
    | .num x, "除", ys =>
      if ys.all (fun y => match y with | .num _ => true | _ => false) then
        let rec goDiv : ν → List (SVal ν) → SM ν ν
          | acc, [] => pure acc
          | acc, .num v :: rest => if NumOps.isZero v then fault 90 else goDiv (NumOps.div acc v) rest
          | acc, _ :: rest => goDiv acc rest
        do let r ← goDiv x ys; pure (.num r)
      else fault 82
    | .num x, "向下取整", _ => pure (.num (NumOps.floor x))
    | .num x, "向上取整", _ => pure (.num (NumOps.ceil x))
    | .str s, "拼接", ys =>
      if ys.all (fun y => match y with | .str _ => true | _ => false) then
        pure (.str (ys.foldl (fun acc y => match y with | .str t => acc ++ t | _ => acc) s))
      else fault 82
    | .str s, _, _ => textPure s m args
    | _, _, _ =>
      -- a method the type does not have is an error (46); a documented one not specified here is left open
      if (knownMethods recv).contains m then unspec else fault 46

/-- mutating methods: (new receiver, result).  The sequence laws of C12. -/
def builtinMut (recv : SVal ν) (m : String) (args : List (SVal ν)) : SM ν (SVal ν × SVal ν) :=
  match recv, m, args with
  | .list xs, "后增", [x] => pure (.list (xs ++ [x]), .null)
  | .list xs, "前增", [x] => pure (.list (x :: xs), .null)
  -- 新增 / 添加 (草案07, Spec/Seq.lean `insertAt`): the item gets 0-based position `p` (past the end: at the end; `-N` counts
  -- from the end; before the first item: index error).  A position that is not a whole number is left open.
  | .list xs, "新增", [x, .num p] | .list xs, "添加", [x, .num p] =>
    if NumOps.eq (NumOps.floor p) p then
      match Spec.Seq.insertAt xs (NumOps.toInt p) x with
      | some ys => pure (.list ys, .null)
      | none => fault 40
    else unspec
  | .list xs, "左移", _ => pure (match xs with | [] => (.list [], .null) | y :: ys => (.list ys, y))
  | .list xs, "右移", _ => pure (match xs.getLast? with | none => (.list [], .null) | some y => (.list xs.dropLast, y))
  | .list xs, "合并", ys =>
    if ys.all (fun y => match y with | .list _ => true | _ => false) then
      pure (.list (xs ++ (ys.flatMap fun y => match y with | .list l => l | _ => [])), .null)
    else fault 82
  | .list xs, "交换", [.num p, .num q] =>
    let i := NumOps.toInt (NumOps.floor p)
    let j := NumOps.toInt (NumOps.floor q)
    if i < 1 ∨ i > xs.length ∨ j < 1 ∨ j > xs.length then fault 40 else
    match xs[(i-1).toNat]?, xs[(j-1).toNat]? with
    | some a, some b => pure (.list ((xs.set (i-1).toNat b).set (j-1).toNat a), .null)
    | _, _ => fault 40
  | .dict kvs, "写入", [.str k, v] => pure (.dict (dictSet kvs k v), v)
  | .dict kvs, "移除", [.str k] =>
    pure (match lookupA k kvs with
      | some v => (.dict (kvs.filter (·.1 != k)), v)
      | none => (.dict kvs, .null))
  -- numbers are changed in place by 自增 / 自减 (the receiver afterwards holds the sum / difference, which is also the result)
  | .num x, "自增", [.num y] => pure (.num (NumOps.add x y), .num (NumOps.add x y))
  | .num x, "自减", [.num y] => pure (.num (NumOps.sub x y), .num (NumOps.sub x y))
  | .str s, "转换数值", _ => textToNumber s
  | _, _, _ => unspec

/-- run a body (method / program): inputs bound in order as constants, handlers, result -/
def callBody : Nat → Option ExecBlock → List (SVal ν) → Option (SVal ν) → SM ν (SVal ν)
  | 0, _, _, _ => sfail .fuel
  | _+1, none, _, _ => unspec
  | n+1, some (.mk inputs body catches), args, this => do
    modS fun s => { s with this := this :: s.this }
    let r ← catchR (withBlock (do
      if args.length ≠ inputs.length then fault 51 else
      (inputs.zip args).forM fun p => do
        let nm ← idName p.1.lit
        declare nm p.2 true
      -- the protected part of the body
      -- 结束循环 / 继续循环 outside any loop of this body is an exception of this body
      catchR (catchR (runBlockHoisted n body) fun r =>
          match r with
          | .brk => sfail (.raise (.exc "收到「结束」中断信号"))
          | .cont => sfail (.raise (.exc "收到「继续」中断信号"))
          | r => sfail r) fun r =>
        match r with
        | .ok v => pure v
        | .ret v => pure v
        | .raise ex => do
          let cname : String := match ex with
            | .exc _ | .fault _ => "异常"
            | .obj _ => "obj"  -- refined below
            | _ => ""
          let s ← getS
          let cname := match ex with
            | .obj id => (match s.objs[id]? with | some (c, _) => c | none => "")
            | _ => cname
          firstS (fun (c : Option Ident × Option (List Stmt)) => do
              let hn ← idNameOpt c.1
              if cname ≠ "" && hn == cname then do
                -- the handler runs with 其 = the exception; its 输出 (空 if none) is the body's value
                modS fun s => { s with this := some ex :: s.this }
                let hv ← catchR (runBlock n c.2) fun hr => do
                  modS fun s => { s with this := s.this.drop 1 }
                  match hr with
                  | .ok _ => pure SVal.null
                  | .ret v => pure v
                  -- a loop signal raised by the handler block is an exception of this body too
                  | .brk => sfail (.raise (.exc "收到「结束」中断信号"))
                  | .cont => sfail (.raise (.exc "收到「继续」中断信号"))
                  | r => sfail r
                pure (some hv)
              else pure none) (sfail (.raise ex)) catches
        | r => sfail r)) fun r => do
      modS fun s => { s with this := s.this.drop 1 }
      sfail r
    pure r

/-- statements of a body, class / method definitions first -/
def runBlockHoisted : Nat → Option (List Stmt) → SM ν (SVal ν)
  | 0, _ => sfail .fuel
  | _+1, none => unspec
  | n+1, some stmts => do
    stmts.forM fun st =>
      match st with
      | .classDecl .. | .funcDecl .. => do let _ ← execS n st; pure ()
      | _ => pure ()
    runStmts n (stmts.filter fun st => match st with | .classDecl .. | .funcDecl .. => false | _ => true)

/-- a nested block: its own scope -/
def runBlock : Nat → Option (List Stmt) → SM ν (SVal ν)
  | 0, _ => sfail .fuel
  | _+1, none => unspec
  | n+1, some stmts =>
    withBlock (runStmts n (stmts.filter fun st => match st with | .classDecl .. | .funcDecl .. => false | _ => true))

/-- value of a statement list = value of its last statement (空 when empty) -/
def runStmts : Nat → List Stmt → SM ν (SVal ν)
  | 0, _ => sfail .fuel
  | n+1, stmts => stmts.foldlM (fun _ st => execS n st) SVal.null

def execS : Nat → Stmt → SM ν (SVal ν)
  | 0, _ => sfail .fuel
  | n+1, st =>
    match st with
    | .varDecl _ pairs => do
      pairs.forM fun p => do
        let (ty, vars, e) := p
        if ty == 1 || ty == 3 then do
          let v ← evalE n e
          vars.forM fun x => do
            let nm ← idName x.lit
            declare nm v (ty == 3)
        else pure ()
      pure .null
    | .branch _ ifE ifB others hasElse elseB => do
      match ← evalE n ifE with
      | .bool true => do let _ ← runBlock n ifB; pure .null
      | .bool false => do
        firstS (fun (o : Expr × Option (List Stmt)) => do
            match ← evalE n o.1 with
            | .bool true => do let _ ← runBlock n o.2; pure (some ())
            | .bool false => pure none
            | _ => fault 80)
          (if hasElse then do let _ ← runBlock n elseB; pure () else pure ()) others
        pure .null
      | _ => fault 80
    | .while _ cond body => do
      whileS n (do
        match ← evalE n cond with
        | .bool true =>
          catchR (runBlock n body) fun r =>
            match r with
            | .ok _ => pure true
            | .cont => pure true
            | .brk => pure false
            | r => do let _ ← (sfail r : SM ν (SVal ν)); pure false
        | .bool false => pure false
        | _ => fault 80)
      pure .null
    | .iterate _ e names body => do
      withBlock (do
        let target ← evalE n e
        let names' ← names.mapM fun x => idName x.lit
        if names'.length > 2 then fault 52 else
        names'.forM fun nm => declare nm SVal.null false
        let pass (k v : SVal ν) : SM ν Bool := do
          match names' with
          | [vn] => assignName vn v
          | [kn, vn] => do assignName kn k; assignName vn v
          | _ => pure ()
          catchR (runBlock n body) fun r =>
            match r with
            | .ok _ => pure false
            | .cont => pure false
            | .brk => pure true
            | r => do let _ ← (sfail r : SM ν (SVal ν)); pure true
        match target with
        | .list xs => untilS (fun (p : Nat × SVal ν) => pass (.num (NumOps.ofInt (p.1 + 1))) p.2) (xs.zipIdx.map fun p => (p.2, p.1))
        | .dict kvs => untilS (fun (kv : String × SVal ν) => pass (.str kv.1) kv.2) kvs
        | _ => fault 80)
      pure .null
    | .ret _ e => do
      let v ← evalE n e
      sfail (.ret v)
    | .break _ => sfail .brk
    | .continue _ => sfail .cont
    | .empty _ => pure .null
    | .throw _ cls params => do
      let cname ← idNameOpt cls
      match ← lookupName cname with
      | .cls cn => do
        let args ← params.mapM (evalE n)
        let ex ← construct n cn args
        sfail (.raise ex)
      | _ => fault 85
    | .funcDecl _ name declType exec => do
      let fname ← idNameOpt name
      if declType == 3 then do
        match ← lookupName fname with
        | .cls cn =>
          -- a constructor can only be given to a type the program defined itself
          if cn == "异常" then fault 87 else
          modS fun s => { s with classes := s.classes.map fun c => if c.name == cn then { c with ctor := some exec } else c }
        | _ => fault 87
      else declare fname (.fn exec) true
      pure .null
    | .classDecl _ name props methods _ => do
      let cname ← idNameOpt name
      let pvs ← props.mapM fun p => do
        match p.1 with
        | some pid => do let v ← evalE n p.2; pure (pid.lit, v)
        | none => unspec
      let ms ← methods.mapM fun m =>
        match m with
        | .funcDecl _ (some mn) _ exec => pure (mn.lit, exec)
        | _ => unspec
      declare cname (.cls cname) true
      modS fun s => { s with classes := { name := cname, props := pvs.foldl (fun acc kv => setA kv.1 kv.2 acc) [],
                                          methods := ms.foldl (fun acc kv => setA kv.1 kv.2 acc) [] } :: s.classes }
      pure .null
    | .expr e => evalE n e
    | .nil => unspec

/-- 新建: own copy of the defaults, then the constructor with the call's arguments, 其 = the new object -/
def construct : Nat → String → List (SVal ν) → SM ν (SVal ν)
  | 0, _, _ => sfail .fuel
  | n+1, cn, args =>
    if cn == "异常" then
      match args with
      | [.str msg] => pure (.exc msg)
      | [_] => fault 82
      | _ => fault 53
    else do
      let c ← findClass cn
      let id ← allocObj cn c.props
      match c.ctor with
      | none => pure (.obj id)
      | some exec => do
        let _ ← callBody n exec args (some (.obj id))
        pure (.obj id)

/-- a method of an object: 其 = the object -/
def callMethod : Nat → Nat → String → List (SVal ν) → SM ν (SVal ν)
  | 0, _, _, _ => sfail .fuel
  | n+1, id, m, args => do
    match (← getS).objs[id]? with
    | none => unspec
    | some (cn, _) => do
      let c ← findClass cn
      match lookupA m c.methods with
      | some exec => callBody n exec args (some (.obj id))
      | none => fault 46

end

/-- a whole program: inputs, body, handlers; the result of a program without 输出 is the value of its
final statement -/
def runProgram (fuel : Nat) (p : Program) (inputs : List (String × SVal ν)) : SM ν (SVal ν) :=
  if ¬ p.imports.isEmpty then unspec else
  match p.exec with
  | none => pure .null
  | some (.mk ins body catches) => do
    let args ← ins.mapM fun i => do
      let nm ← idName i.lit
      match lookupA nm inputs with
      | some v => pure v
      | none => sfail (.fatal 95)
    callBody fuel (some (.mk ins body catches)) args none

end ZnVerif.Spec
