/-
Spec for C04, "membership of a character in the identifier alphabet is the same for every code point however it is
looked up": the documented tokenisation of a text as a function of ONE membership predicate `member`, asked the same
way in every place a name character can stand (manual ch.1 「标识符」「标识符与关键词的切分逻辑」):

* a name starts with a character of the alphabet (`*`, `/` and `.` cannot start it) and goes on with characters of the
  alphabet and the marks `. * / %`; it ends at the end of the text, at a keyword, at a blank, or at one of the operator
  marks `& @ # = < > |`; `/` cannot be its last character;
* the text between two back-ticks is one name made of the same characters (no keyword is cut out of it);
* `& @ # | %` and `= == < <= > >=` are operator tokens wherever a token starts; `+ - * /` are operator tokens when a
  blank follows, otherwise they belong to the name that starts there;
* a character that is neither in the alphabet nor given another meaning by the manual is refused where it stands
  (error 25 "invalid character" at its position), whatever precedes it.

The answer is `undefined` for texts the sentences above do not cover: white space other than a plain blank inside the
text, line breaks, NUL, punctuation, quotes, comments (`注…`, `//`, `/*`, and `/=`), a back-tick that is not closed or
that stands inside a name, and a character with another meaning between back-ticks.  Parametric in the alphabet and the
keyword list; nothing here looks at how the lexer does it.  Core Lean only.
-/
import ZnVerif.Spec.Segment

namespace ZnVerif.Spec.NameChars
open ZnVerif.Spec.Segment

/-- the marks that may continue a name without being in the alphabet (manual: 12.345, 星标值*, 白卡纸/牛皮纸; `%` of the table) -/
def contMarks : List Nat := [0x2E, 0x2A, 0x2F, 0x25]

/-- operator marks that are a token of their own wherever they stand: & @ # = < > | -/
def cutMarks : List Nat := [0x26, 0x40, 0x23, 0x3D, 0x3C, 0x3E, 0x7C]

/-- white space of the manual (pkg/syntax/lexer.go lists the same 20), line breaks and NUL -/
def blanks : List Nat := [0x9, 0xB, 0xC, 0x20, 0xA0, 0x2000, 0x2001, 0x2002, 0x2003, 0x2004, 0x2005, 0x2006, 0x2007,
  0x2008, 0x2009, 0x200A, 0x200B, 0x202F, 0x205F, 0x3000, 0xA, 0xD, 0x0]

/-- punctuation marks: ， , 、 ： : ； ; ？ ? ！ ! 【 [ 】 ] （ ( ） ) { } -/
def punctuation : List Nat := [0xFF0C, 0x2C, 0x3001, 0xFF1A, 0x3A, 0xFF1B, 0x3B, 0xFF1F, 0x3F, 0xFF01, 0x21, 0x3010, 0x5B,
  0x3011, 0x5D, 0xFF08, 0x28, 0xFF09, 0x29, 0x7B, 0x7D]

/-- quotes: 《 》 「 」 “ ” 『 』 ‘ ’ -/
def quotes : List Nat := [0x300A, 0x300B, 0x300C, 0x300D, 0x201C, 0x201D, 0x300E, 0x300F, 0x2018, 0x2019]

def backTick : Nat := 0x60
def blank : Nat := 0x20
def noteGlyph : Nat := 0x6CE8

/-- the manual gives the character a meaning of its own (so "not in the alphabet ⇒ refused" says nothing about it) -/
def otherMeaning (c : Nat) : Bool :=
  blanks.contains c || punctuation.contains c || quotes.contains c || c == backTick

inductive Stop where
  | fine | bad | undef
  deriving Repr, DecidableEq

/-- the rest of a name after its first character: (characters taken, how the scan stopped).  The scan stops `fine` at
the end of the text, a keyword, a blank or a cut mark; `bad` at a character without any meaning; `undef` elsewhere. -/
def nameTail (kws : List (List Nat × Nat)) (member : Nat → Bool) : List Nat → List Nat × Stop
  | [] => ([], .fine)
  | c :: r =>
    if (kwAt kws (c :: r)).isSome then ([], .fine)
    else if c == blank then ([], .fine)
    else if cutMarks.contains c then ([], .fine)
    else if c == 0x2F && (r.head? == some 0x2F || r.head? == some 0x2A || r.head? == some 0x3D) then ([], .undef)
    else if otherMeaning c then ([], .undef)
    else if member c || contMarks.contains c then
      let (a, s) := nameTail kws member r
      (c :: a, s)
    else ([], .bad)

/-- the text between back-ticks: (characters up to the closing back-tick, how the scan stopped) -/
def quotedBody (member : Nat → Bool) : List Nat → List Nat × Stop
  | [] => ([], .undef)                       -- not closed
  | c :: r =>
    if c == backTick then ([], .fine)
    else if member c || contMarks.contains c then
      let (a, s) := quotedBody member r
      (c :: a, s)
    else if otherMeaning c || cutMarks.contains c then ([], .undef)
    else ([], .bad)

inductive Res where
  | tokens (ps : List Piece)
  | refused (ps : List Piece) (pos : Nat)
  | undefined
  deriving Repr, DecidableEq

def opType (c : Nat) : Nat :=
  if c == 0x26 then 15 else if c == 0x40 then 17 else if c == 0x23 then 18 else if c == 0x7C then 27
  else if c == 0x25 then 28 else if c == 0x2B then 36 else if c == 0x2D then 37 else if c == 0x2A then 38 else 39

/-- tokens of `s` (which starts at position `pos` of the whole text), `acc` = the tokens before it, reversed -/
def scan (kws : List (List Nat × Nat)) (member : Nat → Bool) : Nat → Nat → List Nat → List Piece → Res
  | 0, _, _, _ => .undefined
  | _, _, [], acc => .tokens acc.reverse
  | fuel + 1, pos, c :: r, acc =>
    if c == blank then
      if pos == 0 then .undefined else scan kws member fuel (pos + 1) r acc        -- a leading blank is indentation
    else if c == backTick then
      match quotedBody member r with
      | (inner, .fine) =>
        if inner.isEmpty then .undefined
        else scan kws member fuel (pos + inner.length + 2) (r.drop (inner.length + 1))
               (.name pos (pos + inner.length + 2) inner :: acc)
      | (inner, .bad) => .refused acc.reverse (pos + 1 + inner.length)
      | (_, .undef) => .undefined
    else if otherMeaning c || c == noteGlyph then .undefined
    else if c == 0x26 || c == 0x40 || c == 0x23 || c == 0x7C || c == 0x25 then
      scan kws member fuel (pos + 1) r (.kw (opType c) pos (pos + 1) :: acc)
    else if c == 0x3D || c == 0x3C || c == 0x3E then
      let one := if c == 0x3D then 29 else if c == 0x3C then 31 else 30
      let two := if c == 0x3D then 35 else if c == 0x3C then 33 else 32
      if r.head? == some 0x3D then scan kws member fuel (pos + 2) (r.drop 1) (.kw two pos (pos + 2) :: acc)
      else scan kws member fuel (pos + 1) r (.kw one pos (pos + 1) :: acc)
    else
      let arith := c == 0x2B || c == 0x2D || c == 0x2A || c == 0x2F
      if arith && r.head? == some blank then
        scan kws member fuel (pos + 1) r (.kw (opType c) pos (pos + 1) :: acc)
      else if arith && (match r.head? with | some n => otherMeaning n | none => false) then .undefined
      else if c == 0x2F && (r.head? == some 0x2F || r.head? == some 0x2A || r.head? == some 0x3D) then .undefined
      else match kwAt kws (c :: r) with
      | some (len, ty) => scan kws member fuel (pos + len) (r.drop (len - 1)) (.kw ty pos (pos + len) :: acc)
      | none =>
        if !member c then .refused acc.reverse pos
        else match nameTail kws member r with
        | (_, .undef) => .undefined
        | (tail, .bad) => .refused acc.reverse (pos + 1 + tail.length)
        | (tail, .fine) =>
          let chars := c :: tail
          let stop := pos + chars.length
          if chars.getLast? == some 0x2F then .refused acc.reverse (stop - 1)
          else scan kws member fuel stop (r.drop tail.length) (.name pos stop chars :: acc)

def tokenise (kws : List (List Nat × Nat)) (member : Nat → Bool) (s : List Nat) : Res :=
  scan kws member (s.length + 1) 0 s []

/-! Sanity instances over a toy alphabet {a..z, 甲, 乙, 为, +, -} and the keyword 为(41). -/
section examples
def toyMember (c : Nat) : Bool := (0x61 ≤ c && c ≤ 0x7A) || c == 0x7532 || c == 0x4E59 || c == 0x4E3A || c == 0x2B || c == 0x2D
def toyKws : List (List Nat × Nat) := [([0x4E3A], 41)]

example : tokenise toyKws toyMember [0x7532, 0x9FFD, 0x4E59] = .refused [] 1 := by decide
example : tokenise toyKws toyMember [0x60, 0x7532, 0x9FFD, 0x60] = .refused [] 2 := by decide
example : tokenise toyKws toyMember [0x7532, 0x2A, 0x4E59, 0x4E3A, 0x9FFD] =
    .refused [.name 0 3 [0x7532, 0x2A, 0x4E59], .kw 41 3 4] 4 := by decide
example : tokenise toyKws toyMember [0x3D, 0x3D, 0x61, 0x20, 0x2B, 0x20, 0x60, 0x4E3A, 0x61, 0x60] =
    .tokens [.kw 35 0 2, .name 2 3 [0x61], .kw 36 4 5, .name 6 10 [0x4E3A, 0x61]] := by decide
example : tokenise toyKws toyMember [0x2A, 0x61] = .refused [] 0 := by decide
example : tokenise toyKws toyMember [0x61, 0x2F] = .refused [] 1 := by decide
example : tokenise toyKws toyMember [0x61, 0xFF0C] = .undefined := by decide
end examples

end ZnVerif.Spec.NameChars
