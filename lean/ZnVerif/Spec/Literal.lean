/-
Spec for C13 — "every text value can be written as a literal and reads back exactly".
Written from the manual (ch.6 「特殊字符的表示」, 「引号的搭配」) and the property text, independent of how the lexer
does it: the quote styles, what a back-tick group denotes (`decodeEscape`), the two encoders (`encodeSafe`,
`encodeVerbatim`) and a reference decoder of whole literals (`decodeLiteral`), plus a looser second reading
(`decodeLiteralLoose`) used only to count the inputs on which the property's words alone would leave the result open.  Core Lean only.
-/
namespace ZnVerif.Spec.Literal

def backTick : Nat := 0x60
def cr : Nat := 0x0D
def lf : Nat := 0x0A

/-- the five quote pairs a literal can be opened with -/
inductive Quote where
  | dblCurly   -- “ ”
  | dblCorner  -- 「 」
  | sglCurly   -- ‘ ’
  | sglCorner  -- 『 』
  | lib        -- 《 》
  deriving Repr, DecidableEq

namespace Quote
def opener : Quote → Nat
  | dblCurly => 0x201C | dblCorner => 0x300C | sglCurly => 0x2018 | sglCorner => 0x300E | lib => 0x300A
def closer : Quote → Nat
  | dblCurly => 0x201D | dblCorner => 0x300D | sglCurly => 0x2019 | sglCorner => 0x300F | lib => 0x300B
/-- the family: text (2), enumeration text (6), library name (7) — the token type numbers documented in
pkg/syntax/zh/tokens.go (`TypeString`, `TypeEnumString`, `TypeLibString`) -/
def type : Quote → Nat
  | dblCurly => 2 | dblCorner => 2 | sglCurly => 6 | sglCorner => 6 | lib => 7
def all : List Quote := [dblCurly, dblCorner, sglCurly, sglCorner, lib]
end Quote

/-- the ten quote characters -/
def quoteChars : List Nat := [0x201C, 0x201D, 0x300C, 0x300D, 0x2018, 0x2019, 0x300E, 0x300F, 0x300A, 0x300B]

/-- a Unicode scalar value: a code point that is not a surrogate -/
def validScalar (c : Nat) : Bool := c < 0xD800 || (0xDFFF < c && c ≤ 0x10FFFF)
def ValidScalars (t : List Nat) : Prop := ∀ c ∈ t, validScalar c = true

/-! ### what a back-tick group denotes -/

/-- the named escapes of the manual's table: name (between the back-ticks) ↦ characters denoted -/
def namedEscapes : List (List Nat × List Nat) := [
  ([0x43, 0x52], [0x0D]),                     -- CR
  ([0x4C, 0x46], [0x0A]),                     -- LF
  ([0x43, 0x52, 0x4C, 0x46], [0x0D, 0x0A]),   -- CRLF
  ([0x54, 0x41, 0x42], [0x09]),               -- TAB
  ([0x53, 0x50], [0x20]),                     -- SP
  ([0x42, 0x4B], [0x60])                      -- BK
]

/-- hexadecimal digit `[0-9A-F]` (the manual admits upper case only) -/
def isHex (c : Nat) : Bool := (0x30 ≤ c && c ≤ 0x39) || (0x41 ≤ c && c ≤ 0x46)
def hexDigit (c : Nat) : Nat := if c ≤ 0x39 then c - 0x30 else c - 0x41 + 10
/-- value of a digit string, most significant first -/
def hexVal : List Nat → Nat
  | ds => ds.foldl (fun a d => 16 * a + hexDigit d) 0

/-- the meaning of the text `body` found between two back-ticks (`none` = not a documented escape):
a name of the table; `U+` and 1–8 hex digits denoting a valid code point; a single quote character -/
def decodeBody (body : List Nat) : Option (List Nat) :=
  match namedEscapes.lookup body with
  | some v => some v
  | none =>
    match body with
    | [q] => if quoteChars.contains q then some [q] else none
    | 0x55 :: 0x2B :: ds =>
      if 1 ≤ ds.length && ds.length ≤ 8 && ds.all isHex && validScalar (hexVal ds) then some [hexVal ds] else none
    | _ => none

/-- the same on a whole group `` `body` `` (both back-ticks included) -/
def decodeEscape (w : List Nat) : Option (List Nat) :=
  match w with
  | [] => none
  | b :: rest =>
    if b == backTick && rest.getLast? == some backTick && !(rest.dropLast.contains backTick) then decodeBody rest.dropLast
    else none

/-! ### the two encoders -/

/-- how one character of the text is written inside a literal opened with `q` so that nothing can disturb it:
a back-tick as `` `BK` ``, the opening and the closing quote of `q` wrapped in back-ticks (they would change
the nesting depth), NUL as `` `U+0` `` (inside a source text the code 0 means "end of text").  Every other
character — quotes of the other pairs, CR, LF, spaces, punctuation, letters — is written as itself. -/
def encodeChar (q : Quote) (c : Nat) : List Nat :=
  if c = backTick then [0x60, 0x42, 0x4B, 0x60]
  else if c = q.opener ∨ c = q.closer then [0x60, c, 0x60]
  else if c = 0 then [0x60, 0x55, 0x2B, 0x30, 0x60]
  else [c]

def encodeSafe (q : Quote) (t : List Nat) : List Nat := t.flatMap (encodeChar q)

/-- nesting of `q`'s own pair inside a text: `depth` open pairs pending; balanced = never closes below zero and
ends at zero -/
def balancedFrom (q : Quote) : Nat → List Nat → Bool
  | d, [] => d == 0
  | d, c :: rest =>
    if c = q.opener then balancedFrom q (d + 1) rest
    else if c = q.closer then (match d with | 0 => false | d' + 1 => balancedFrom q d' rest)
    else balancedFrom q d rest

/-- the nesting depth of `q`'s own pair after scanning `t` from depth `d`; `none` = `t` closes below zero -/
def depthAfter (q : Quote) : Nat → List Nat → Option Nat
  | d, [] => some d
  | d, c :: rest =>
    if c = q.opener then depthAfter q (d + 1) rest
    else if c = q.closer then (match d with | 0 => none | d' + 1 => depthAfter q d' rest)
    else depthAfter q d rest

/-- texts that may be written verbatim: own quotes nested in balanced pairs, no back-tick, no NUL -/
def Verbatim (q : Quote) (t : List Nat) : Prop :=
  balancedFrom q 0 t = true ∧ backTick ∉ t ∧ 0 ∉ t

/-- the verbatim encoder: the text itself -/
def encodeVerbatim (_ : Quote) (t : List Nat) : List Nat := t

def literalSafe (q : Quote) (t : List Nat) : List Nat := q.opener :: (encodeSafe q t ++ [q.closer])
def literalVerbatim (q : Quote) (t : List Nat) : List Nat := q.opener :: (encodeVerbatim q t ++ [q.closer])

/-! ### reference decoder of whole literals (spec oracle of the correspondence runs) -/

inductive Decoded where
  /-- the text, the family, the number of characters of the literal (both outer quotes included) -/
  | ok (text : List Nat) (type : Nat) (len : Nat)
  | unterminated
  | notLiteral
  deriving Repr, DecidableEq

/-- documented escape starting right after a back-tick: (characters denoted, characters consumed after the
back-tick, closing back-tick included) -/
def escapeAfterTick (rest : List Nat) : Option (List Nat × Nat) :=
  let body := rest.takeWhile (· != backTick)
  if body.length < rest.length then
    (decodeBody body).map (fun v => (v, body.length + 1))
  else none

/-- characters that cannot be part of a kept back-tick group in the *paired* reading -/
def groupStop (c : Nat) : Bool := c == backTick || quoteChars.contains c || c == cr || c == lf || c == 0

/-- the body scanner.  `paired = false`: a back-tick that does not start a documented escape is an ordinary
character.  `paired = true`: such a back-tick together with the following run of ordinary characters and a
closing back-tick, if there is one, is kept as a whole (the closing back-tick opens nothing). -/
def scan (q : Quote) (paired : Bool) : Nat → List Nat → Nat → List Nat → Nat → Decoded
  | 0, _, _, _, _ => .unterminated
  | fuel + 1, rest, depth, acc, pos =>
    match rest with
    | [] => .unterminated
    | c :: rest' =>
      if c = 0 then .unterminated
      else if c = backTick then
        match escapeAfterTick rest' with
        | some (v, k) => scan q paired fuel (rest'.drop k) depth (acc ++ v) (pos + 1 + k)
        | none =>
          let run := rest'.takeWhile (fun x => !groupStop x)
          if paired && (rest'.drop run.length).head? == some backTick then
            scan q paired fuel (rest'.drop (run.length + 1)) depth (acc ++ [backTick] ++ run ++ [backTick])
              (pos + run.length + 2)
          else scan q paired fuel rest' depth (acc ++ [backTick]) (pos + 1)
      else if c = q.opener then scan q paired fuel rest' (depth + 1) (acc ++ [c]) (pos + 1)
      else if c = q.closer then
        match depth with
        | 0 => .ok acc q.type (pos + 1)
        | d + 1 => scan q paired fuel rest' d (acc ++ [c]) (pos + 1)
      else scan q paired fuel rest' depth (acc ++ [c]) (pos + 1)

def quoteOfOpener (c : Nat) : Option Quote := Quote.all.find? (fun q => q.opener == c)

/-- a source text that starts with an opening quote, read as a literal -/
def decodeLiteralWith (paired : Bool) (src : List Nat) : Decoded :=
  match src with
  | [] => .notLiteral
  | c :: rest =>
    match quoteOfOpener c with
    | none => .notLiteral
    | some q => scan q paired (rest.length + 1) rest 0 [] 1

/-- **the reference decoder**: back-tick text is what stands between a back-tick and the next one; a group that is
not a documented escape is kept as a whole, so its closing back-tick opens nothing -/
def decodeLiteral (src : List Nat) : Decoded := decodeLiteralWith true src
/-- the looser reading (an undocumented opening back-tick is just a character, the next back-tick may open an
escape); only used to measure on how many generated inputs the property's wording alone would not decide -/
def decodeLiteralLoose (src : List Nat) : Decoded := decodeLiteralWith false src

def determined (src : List Nat) : Bool := decodeLiteral src == decodeLiteralLoose src

end ZnVerif.Spec.Literal
