/-
Spec oracle for operation histories on one list / one dictionary: the same operation vocabulary as the model
(`ListOp`, `DictOp`, `OpResult` are only syntax), interpreted on `Spec.Seq` and `Spec.OrderedMap`.
Core Lean only.
-/
import ZnVerif.Model.Containers
import ZnVerif.Spec.Seq
import ZnVerif.Spec.OrderedMap

namespace ZnVerif.Spec.CollHistory
open ZnVerif.Model.Containers (ListOp DictOp OpResult)
open ZnVerif.Spec

variable {α : Type}

def optResult : Option α → OpResult α
  | some a => .elem a
  | none => .null

/-- index error of the property text (code 40), missing key (code 41) -/
def indexError : OpResult α := .err 40
def keyError : OpResult α := .err 41

def listStep (eq : α → α → Bool) (l : List α) : ListOp α → List α × OpResult α
  | .getFirst => (l, optResult (Seq.first l))
  | .getLast => (l, optResult (Seq.last l))
  | .getLength => (l, .num l.length)
  | .getReverse => (l, .arr (Seq.reverse l))
  | .setFirst x => (Seq.setFirst l x, .unit)
  | .setLast x => (Seq.setLast l x, .unit)
  | .insert x idx => match Seq.insertAt l idx x with
    | some l' => (l', .self)
    | none => (l, indexError)
  | .prepend x => (Seq.prepend l x, .self)
  | .append x => (Seq.append l x, .self)
  | .shiftLeft => let r := Seq.shiftLeft l; (r.2, optResult r.1)
  | .shiftRight => let r := Seq.shiftRight l; (r.2, optResult r.1)
  | .merge args => let r := Seq.merge l args; (r, .arr r)
  | .contains x => (l, .bool (Seq.contains eq l x))
  | .find x => (l, .num (Seq.find eq l x))
  | .swap i j => match Seq.swap l i j with
    | some l' => (l', .self)
    | none => (l, indexError)
  | .ivRead i => match Seq.get1 l i with
    | some x => (l, .elem x)
    | none => (l, indexError)
  | .ivWrite i x => match Seq.set1 l i x with
    | some l' => (l', .unit)
    | none => (l, indexError)

def listRun (eq : α → α → Bool) : List α → List (ListOp α) → List (OpResult α × List α)
  | _, [] => []
  | l, op :: ops => let r := listStep eq l op; (r.2, r.1) :: listRun eq r.1 ops

/-- below the receiver a 读取 chain walks through other values: `sub v k` = lookup of `k` in the value `v` -/
def descend (sub : α → String → Option α) : α → List String → Option α
  | v, [] => some v
  | v, k :: ks => match sub v k with
    | none => none
    | some v' => descend sub v' ks

def dictStep (sub : α → String → Option α) (m : OrderedMap.OMap α) : DictOp α → OrderedMap.OMap α × OpResult α
  | .get [] => (m, .self)
  | .get (k :: ks) => (m, match OrderedMap.lookup m k with
      | none => .null
      | some v => optResult (descend sub v ks))
  | .set k v => (OrderedMap.insert m k v, .elem v)
  | .delete k => (OrderedMap.erase m k, optResult (OrderedMap.lookup m k))
  | .ivRead k => (m, match OrderedMap.lookup m k with
      | some v => .elem v
      | none => keyError)
  | .ivWrite k v => (OrderedMap.insert m k v, .unit)

def dictRun (sub : α → String → Option α) : OrderedMap.OMap α → List (DictOp α) → List (OpResult α × OrderedMap.OMap α)
  | _, [] => []
  | m, op :: ops => let r := dictStep sub m op; (r.2, r.1) :: dictRun sub r.1 ops

end ZnVerif.Spec.CollHistory
