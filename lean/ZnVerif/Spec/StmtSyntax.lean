/-
C03 spec, part 3: statements, blocks and programs at token level, WITH the layout.

A `Layout` is what the parser model reads from the lexer beside the tokens: the table of lines (indentation and first character
index of every line) and the position of the end of input.  The line a token is on is computed from its `startIdx` / `endIdx`
through that table by the model's own `findLineIdx` (`Layout.sl`, `Layout.el`), so "token with line / indent info" is exactly a
`Token` read against a `Layout`.  `layoutOps Y` is the token-level lexer that hands out a token list against the layout `Y`
(`tokenOps` of Model/Parser.lean is the special case of one line without indentation).

`LinX Y cfg k nd ts` — `ts` renders the expression node `nd` at precedence level `k` (`cfg` = the parser's `AsVarAssign`): operators,
                      assignments, member / index chains, `其 p`, calls with 得到, 新建, method-call chains, list and dictionary
                      literals, a `，` after an operand — with the `line` fields the parser stores (the line of the operator token,
                      of the leaf token, of the opening `{ （ 【 以`, of the `#` of an index, of the member NAME of `x 之 p` / `其 p`).  `LinE Y k e ts` is `LinX Y true k (.expr e) ts`.
`LinSimple Y s ts`  — `ts` renders the simple statement `s` (expression, `以 x（m）…`, `令 … 设为 …`, 输出, 抛出, 结束循环, 继续循环): one run of
                      glued tokens.
`LinN Y d nd ts`    — `ts` renders the node `nd` (a statement, the statements of a block — `；` included —, the 再如/否则 tail of a 如果,
                      the 拦截 handlers of a body, a function body, the members of a 定义) whose lines are indented by `d`.
`LinPairs`, `LinImport(s)` — the pairs of the block form `令：`, the 导入 statements (with the `；` that may follow each).
`LinStmt`, `LinBlock`, `LinExec`, `LinProgram` are the instances asked for.

The layout discipline, in one place:
 * inside a simple statement, and inside the header of a compound one, consecutive tokens are `Glued`: no statement line break
   between them (same line, or the first is one of `， 、 { 【 ： ？`, or the second one of `】 }` — `Layout.brk`);
 * consecutive statements of a block are `Sep`arated by a statement line break — or a simple statement is followed by `；`, which
   is an (empty) statement of the block itself and needs no line break after it — and each starts on a line indented by the
   block's indentation `d`;
 * the `：` / `？` that opens a block is on a line indented by `d`, the block's statements are indented by `d + 1`;
 * 再如 / 否则 / 拦截 start on a line indented like the statement they belong to.
Line fields: a statement holds the line of its first token (`令 如果 每当 遍历 以 输出 抛出 如何 定义 …`); an identifier the line of its token;
methods and getters of a 定义 and 导入 nodes hold 0 (the Go code never sets them); an expression statement holds what `LinE` says.
-/
import ZnVerif.Model.Parser

namespace ZnVerif.Spec.StmtSyntax
open ZnVerif.Model ZnVerif.Model.Parser ZnVerif.Generated.Tokens ZnVerif.Generated.ParserTables

/-- what the parser reads from the lexer beside the tokens -/
structure Layout where
  /-- `Lexer.Lines`: indentation and first character index of every line -/
  lines : Array LineInfo
  /-- position of the EOF token (the length of the source) -/
  eofIdx : Nat
  ne : 0 < lines.size

namespace Layout
variable (Y : Layout)

def eof : Token := { type := cTypeEOF, startIdx := Y.eofIdx, endIdx := Y.eofIdx }

/-- the line a token starts on (`FindLineIdx(StartIdx)`) -/
def sl (t : Token) : Nat := findLineIdx Y.lines t.startIdx 0
/-- the line a token ends on -/
def el (t : Token) : Nat := findLineIdx Y.lines t.endIdx 0
/-- indentation of line `k` -/
def indent (k : Nat) : Nat :=
  match Y.lines[k]? with
  | some li => li.indents
  | none => 0
/-- indentation of the line the token starts on -/
def ind (t : Token) : Nat := Y.indent (Y.sl t)

/-- the next token of a token list: its head, or EOF -/
def peek (ts : List Token) : Token := ts.headD Y.eof

/-- `meetStmtLineBreak` between a token and the one after it -/
def brk (t u : Token) : Bool := meetStmtLineBreak (some t) u (Y.sl u) (Y.el t)

/-- `brk` after an optional token (nothing consumed yet: no break) -/
def jf (a : Option Token) (u : Token) : Bool :=
  match a with
  | none => false
  | some t => Y.brk t u

/-- the tokens come in reading order (start lines and end lines do not decrease, the end of input comes last) and comments have
been dropped -/
def InOrder : List Token → Prop
  | [] => True
  | t :: r => t.type ≠ cTypeComment ∧ Y.sl t ≤ Y.sl (Y.peek r) ∧ Y.el t ≤ Y.el (Y.peek r) ∧ InOrder r

/-- no statement line break between consecutive tokens -/
def Glued : List Token → Prop
  | [] => True
  | [_] => True
  | t :: u :: r => Y.brk t u = false ∧ Glued (u :: r)

def decInOrder : (ts : List Token) → Decidable (Y.InOrder ts)
  | [] => .isTrue trivial
  | t :: r =>
    have : Decidable (Y.InOrder r) := decInOrder r
    (inferInstance : Decidable (t.type ≠ cTypeComment ∧ Y.sl t ≤ Y.sl (Y.peek r) ∧ Y.el t ≤ Y.el (Y.peek r) ∧ Y.InOrder r))

instance (ts : List Token) : Decidable (Y.InOrder ts) := Y.decInOrder ts

def decGlued : (ts : List Token) → Decidable (Y.Glued ts)
  | [] => .isTrue trivial
  | [_] => .isTrue trivial
  | t :: u :: r =>
    have : Decidable (Y.Glued (u :: r)) := decGlued (u :: r)
    (inferInstance : Decidable (Y.brk t u = false ∧ Y.Glued (u :: r)))

instance (ts : List Token) : Decidable (Y.Glued ts) := Y.decGlued ts

/-- a statement line break between the last token of `a` and the first of `b` (if there is a `b`) -/
def Sep (a b : List Token) : Prop := b = [] ∨ Y.jf a.getLast? (Y.peek b) = true

end Layout

/-- the token-level lexer against a layout -/
def layoutOps (Y : Layout) : LexOps (List Token) where
  nextToken
    | [] => (.tok Y.eof, [])
    | t :: r => (.tok t, r)
  lines _ := Y.lines

/-- `Parser.Parse` on a token list read against a layout -/
def parseLaidOut (v : Variant) (Y : Layout) (fuel : Nat) (ts : List Token) : Outcome := parseAST v (layoutOps Y) fuel ts

/-- the identifier node of a token -/
def Layout.idOf (Y : Layout) (t : Token) : Ident := ⟨Y.sl t, runesToString t.literal⟩

/-- an optional `得到 X` after a call -/
def yieldToks : Option (Token × Token) → List Token
  | none => []
  | some (g, x) => [g, x]

def Layout.yieldId (Y : Layout) : Option (Token × Token) → Option Ident
  | none => none
  | some (_, x) => some (Y.idOf x)

def YieldOK : Option (Token × Token) → Prop
  | none => True
  | some (g, x) => g.type = cTypeGetResultW ∧ x.type = cTypeIdentifier

/-- the token types that make an assignment: `为` everywhere, `=` too where the parser runs with `AsVarAssign` (everywhere but
directly inside `【 】`, where `=` separates key and value) -/
def lv4Types (cfg : Bool) : List Nat := if cfg then lv4ValidTypes ++ lv4VarAssignExtra else lv4ValidTypes

/-- the expression ends with a method-call chain that is still open: `以 x（m）` without 得到 at its right edge (a `、` after it
would continue the chain) -/
def openEnd : Expr → Bool
  | .mcall _ _ _ none => true
  | .logic _ _ _ b => openEnd b
  | .arith _ _ _ b => openEnd b
  | .assign _ _ b => openEnd b
  | _ => false

/-- the pieces of an expression that own a run of tokens -/
inductive ENode where
  | expr (e : Expr)
  /-- `e1、e2、e3`: the arguments of a call -/
  | args (es : List Expr)
  /-- `f：a、b）` / `f）`: what follows the `（` (and 新建) of a call -/
  | fcall (name : Ident) (params : List Expr)
  /-- `、（m：a）、（n）`: the further calls of a method-call chain -/
  | chain (cs : List Expr)
  /-- the items of a list literal after the first one -/
  | items (es : List Expr)
  /-- the `k = v` pairs of a dictionary literal after the first one -/
  | kvs (kvs : List (Expr × Expr))

/-- Expressions, with the lines the parser stores.  `LinX Y cfg k nd ts`: `ts` renders the node `nd`; for an expression, at
precedence level `k`:
   1  或   2  且   3  one comparison   4  one assignment (`为`; `=` too if `cfg`)   5  + −   6  * / | %, and an operand followed by a `，`
   7  member chains `x 之 p`, `x # i`, `x # { e }`, `其 p`, and the basic forms: identifier (numbers are identifiers), text, `{ e }`,
      calls `（f：a、b）得到 X`, `（新建 T：a）`, method calls `以 x（m：a）、（n）得到 X`, lists `【a b】`, dictionaries `【k = v …】`, `【】`, `【=】`.
`cfg` is the parser's `AsVarAssign` (false directly inside `【 】`); the other nodes have level 0. -/
inductive LinX (Y : Layout) : Bool → Nat → ENode → List Token → Prop
  | id {cfg : Bool} (t : Token) : t.type = cTypeIdentifier → LinX Y cfg 7 (.expr (.id (Y.idOf t))) [t]
  | str {cfg : Bool} (t : Token) : t.type = cTypeString → LinX Y cfg 7 (.expr (.str (Y.sl t) (runesToString t.literal))) [t]
  /-- `{ e }` is `e`, its top node on the line of the `{` -/
  | brace {cfg : Bool} (l r : Token) (e : Expr) (ts : List Token) :
      l.type = cTypeStmtQuoteL → r.type = cTypeStmtQuoteR → LinX Y true 1 (.expr e) ts →
      LinX Y cfg 7 (.expr (e.setLine (Y.sl l))) (l :: ts ++ [r])
  | up {cfg : Bool} (k : Nat) (e : Expr) (ts : List Token) : 1 ≤ k → LinX Y cfg (k + 1) (.expr e) ts → LinX Y cfg k (.expr e) ts
  | or {cfg : Bool} (t : Token) (a b : Expr) (ta tb : List Token) :
      t.type = cTypeLogicOrW → LinX Y cfg 1 (.expr a) ta → LinX Y cfg 2 (.expr b) tb →
      LinX Y cfg 1 (.expr (.logic (Y.sl t) cLogicOR a b)) (ta ++ t :: tb)
  | and {cfg : Bool} (t : Token) (a b : Expr) (ta tb : List Token) :
      t.type = cTypeLogicAndW → LinX Y cfg 2 (.expr a) ta → LinX Y cfg 3 (.expr b) tb →
      LinX Y cfg 2 (.expr (.logic (Y.sl t) cLogicAND a b)) (ta ++ t :: tb)
  | cmp {cfg : Bool} (t : Token) (a b : Expr) (ta tb : List Token) :
      t.type ∈ lv3ValidTypes → LinX Y cfg 4 (.expr a) ta → LinX Y cfg 4 (.expr b) tb →
      LinX Y cfg 3 (.expr (.logic (Y.sl t) (lookupD logicTypeMap t.type 0) a b)) (ta ++ t :: tb)
  | add {cfg : Bool} (t : Token) (a b : Expr) (ta tb : List Token) :
      t.type ∈ addSubTypes → LinX Y cfg 5 (.expr a) ta → LinX Y cfg 6 (.expr b) tb →
      LinX Y cfg 5 (.expr (.arith (Y.sl t) (lookupD addSubOverride t.type addSubDefault) a b)) (ta ++ t :: tb)
  | mul {cfg : Bool} (t : Token) (a b : Expr) (ta tb : List Token) :
      t.type ∈ mulDivTypes → LinX Y cfg 6 (.expr a) ta → LinX Y cfg 7 (.expr b) tb →
      LinX Y cfg 6 (.expr (.arith (Y.sl t) (lookupD mulDivTypeMap t.type 0) a b)) (ta ++ t :: tb)
  /-- `x 为 e`, `x = e`, `x # 1 = e`, `其 p = e`: the target is an identifier or a member expression; one assignment, no chain -/
  | assign {cfg : Bool} (t : Token) (a b : Expr) (ta tb : List Token) :
      t.type ∈ lv4Types cfg → a.isAssignable = true → LinX Y cfg 5 (.expr a) ta → LinX Y cfg 5 (.expr b) tb →
      LinX Y cfg 4 (.expr (.assign (Y.sl t) a b)) (ta ++ t :: tb)
  /-- an operand followed by a single `，` (the comma is swallowed when the parser looks for what continues the operand) -/
  | commaAfter {cfg : Bool} (c : Token) (e : Expr) (ts : List Token) :
      c.type = cTypeCommaSep → LinX Y cfg 7 (.expr e) ts → LinX Y cfg 6 (.expr e) (ts ++ [c])
  /-- `其 p`: on the line of the member-name token `p` -/
  | this {cfg : Bool} (kw p : Token) : kw.type = cTypeObjThisW → p.type = cTypeIdentifier →
      LinX Y cfg 7 (.expr (.member (Y.sl p) cRootTypeProp .nil cMemberID (some (Y.idOf p)) .nil)) [kw, p]
  /-- `x 之 p`: on the line of the member-name token `p` (not of the `之`) -/
  | dot {cfg : Bool} (d p : Token) (r : Expr) (tr : List Token) :
      d.type ∈ [cTypeObjDotW, cTypeObjDotIIW] → p.type = cTypeIdentifier → LinX Y cfg 7 (.expr r) tr →
      LinX Y cfg 7 (.expr (.member (Y.sl p) cRootTypeExpr r cMemberID (some (Y.idOf p)) .nil)) (tr ++ [d, p])
  /-- `x # i`, `i` an identifier (a number) -/
  | idxId {cfg : Bool} (h i : Token) (r : Expr) (tr : List Token) :
      h.type = cTypeMapHash → i.type = cTypeIdentifier → LinX Y cfg 7 (.expr r) tr →
      LinX Y cfg 7 (.expr (.member (Y.sl h) cRootTypeExpr r cMemberIndex none (.id (Y.idOf i)))) (tr ++ [h, i])
  /-- `x # "text"` -/
  | idxStr {cfg : Bool} (h i : Token) (r : Expr) (tr : List Token) :
      h.type = cTypeMapHash → i.type = cTypeString → LinX Y cfg 7 (.expr r) tr →
      LinX Y cfg 7 (.expr (.member (Y.sl h) cRootTypeExpr r cMemberIndex none (.str (Y.sl i) (runesToString i.literal))))
        (tr ++ [h, i])
  /-- `x # { e }` (the index keeps its own lines) -/
  | idxExpr {cfg : Bool} (h l rb : Token) (r : Expr) (tr : List Token) (e : Expr) (te : List Token) :
      h.type = cTypeMapHash → l.type = cTypeStmtQuoteL → rb.type = cTypeStmtQuoteR → LinX Y cfg 7 (.expr r) tr →
      LinX Y true 1 (.expr e) te →
      LinX Y cfg 7 (.expr (.member (Y.sl h) cRootTypeExpr r cMemberIndex none e)) (tr ++ h :: l :: te ++ [rb])
  /-- `（f：a、b）`, `（f）`, optionally `得到 X` -/
  | call {cfg : Bool} (l : Token) (n : Ident) (ps : List Expr) (tc : List Token) (yl : Option (Token × Token)) :
      l.type = cTypeFuncQuoteL → LinX Y true 0 (.fcall n ps) tc → YieldOK yl →
      LinX Y cfg 7 (.expr (.call (Y.sl l) (some n) ps (Y.yieldId yl))) (l :: tc ++ yieldToks yl)
  /-- `（新建 T：a、b）`, `（新建 T）` -/
  | new {cfg : Bool} (l nw : Token) (n : Ident) (ps : List Expr) (tc : List Token) :
      l.type = cTypeFuncQuoteL → nw.type = cTypeObjNewW → LinX Y true 0 (.fcall n ps) tc →
      LinX Y cfg 7 (.expr (.new (Y.sl l) (some n) ps)) (l :: nw :: tc)
  /-- `以 x（m：a）、（n）`, optionally `得到 X` (the calls of the chain hold line 0) -/
  | mcall {cfg : Bool} (kw l : Token) (root : Expr) (tr : List Token) (n : Ident) (ps : List Expr) (tc : List Token)
      (cs : List Expr) (tcs : List Token) (yl : Option (Token × Token)) :
      kw.type = cTypeVarOneW → LinX Y true 1 (.expr root) tr → l.type = cTypeFuncQuoteL → LinX Y true 0 (.fcall n ps) tc →
      LinX Y true 0 (.chain cs) tcs → YieldOK yl →
      LinX Y cfg 7 (.expr (.mcall (Y.sl kw) root (.call 0 (some n) ps none :: cs) (Y.yieldId yl)))
        (kw :: tr ++ l :: tc ++ tcs ++ yieldToks yl)
  /-- `【】` -/
  | arrEmpty {cfg : Bool} (l r : Token) : l.type = cTypeArrayQuoteL → r.type = cTypeArrayQuoteR →
      LinX Y cfg 7 (.expr (.arr (Y.sl l) [])) [l, r]
  /-- `【=】` -/
  | hmEmpty {cfg : Bool} (l eq r : Token) : l.type = cTypeArrayQuoteL → eq.type = cTypeAssignMark → r.type = cTypeArrayQuoteR →
      LinX Y cfg 7 (.expr (.hm (Y.sl l) [])) [l, eq, r]
  /-- `【a b c】` — items are juxtaposed; written `【a，b，c】` each item but the last ends with its `，` (`commaAfter`) -/
  | arr {cfg : Bool} (l r : Token) (e1 : Expr) (t1 : List Token) (es : List Expr) (ts : List Token) :
      l.type = cTypeArrayQuoteL → r.type = cTypeArrayQuoteR → LinX Y false 1 (.expr e1) t1 → LinX Y true 0 (.items es) ts →
      LinX Y cfg 7 (.expr (.arr (Y.sl l) (e1 :: es))) (l :: t1 ++ ts ++ [r])
  /-- `【k = v  k2 = v2】` (`【k = v，k2 = v2】`) -/
  | hm {cfg : Bool} (l eq r : Token) (k : Expr) (tk : List Token) (v : Expr) (tv : List Token) (kvs : List (Expr × Expr))
      (ts : List Token) :
      l.type = cTypeArrayQuoteL → eq.type = cTypeAssignMark → r.type = cTypeArrayQuoteR → LinX Y false 1 (.expr k) tk →
      LinX Y false 1 (.expr v) tv → LinX Y true 0 (.kvs kvs) ts →
      LinX Y cfg 7 (.expr (.hm (Y.sl l) ((k, v) :: kvs))) (l :: tk ++ eq :: tv ++ ts ++ [r])
  -- the other nodes
  | argsOne (e : Expr) (te : List Token) : LinX Y true 1 (.expr e) te → LinX Y true 0 (.args [e]) te
  /-- an argument that is followed by `、` must not end with an open method-call chain -/
  | argsCons (p : Token) (e : Expr) (te : List Token) (es : List Expr) (ts : List Token) :
      LinX Y true 1 (.expr e) te → openEnd e = false → p.type = cTypePauseCommaSep → LinX Y true 0 (.args es) ts →
      LinX Y true 0 (.args (e :: es)) (te ++ p :: ts)
  | fcall0 (f rp : Token) : f.type = cTypeIdentifier → rp.type = cTypeFuncQuoteR → LinX Y true 0 (.fcall (Y.idOf f) []) [f, rp]
  | fcallArgs (f colon rp : Token) (es : List Expr) (ta : List Token) :
      f.type = cTypeIdentifier → colon.type = cTypeFuncCall → rp.type = cTypeFuncQuoteR → LinX Y true 0 (.args es) ta →
      LinX Y true 0 (.fcall (Y.idOf f) es) (f :: colon :: ta ++ [rp])
  | chainNil : LinX Y true 0 (.chain []) []
  | chainCons (p l : Token) (n : Ident) (ps : List Expr) (tc : List Token) (cs : List Expr) (tcs : List Token) :
      p.type = cTypePauseCommaSep → l.type = cTypeFuncQuoteL → LinX Y true 0 (.fcall n ps) tc → LinX Y true 0 (.chain cs) tcs →
      LinX Y true 0 (.chain (.call 0 (some n) ps none :: cs)) (p :: l :: tc ++ tcs)
  | itemsNil : LinX Y true 0 (.items []) []
  | itemsCons (e : Expr) (te : List Token) (es : List Expr) (ts : List Token) :
      LinX Y false 1 (.expr e) te → LinX Y true 0 (.items es) ts → LinX Y true 0 (.items (e :: es)) (te ++ ts)
  | kvsNil : LinX Y true 0 (.kvs []) []
  | kvsCons (eq : Token) (k : Expr) (tk : List Token) (v : Expr) (tv : List Token) (kvs : List (Expr × Expr)) (ts : List Token) :
      eq.type = cTypeAssignMark → LinX Y false 1 (.expr k) tk → LinX Y false 1 (.expr v) tv → LinX Y true 0 (.kvs kvs) ts →
      LinX Y true 0 (.kvs ((k, v) :: kvs)) (tk ++ eq :: tv ++ ts)

/-- `ts` renders the expression `e` at precedence level `k` (where `=` assigns) -/
abbrev LinE (Y : Layout) (k : Nat) (e : Expr) (ts : List Token) : Prop := LinX Y true k (.expr e) ts

/-- `a、b、c`: identifiers separated by `、` -/
inductive LinIds (Y : Layout) : List Ident → List Token → Prop
  | one (t : Token) : t.type = cTypeIdentifier → LinIds Y [Y.idOf t] [t]
  | cons (t p : Token) (ids : List Ident) (ts : List Token) :
      t.type = cTypeIdentifier → p.type = cTypePauseCommaSep → LinIds Y ids ts → LinIds Y (Y.idOf t :: ids) (t :: p :: ts)

/-- `e1、e2、e3`: expressions separated by `、` -/
inductive LinArgs (Y : Layout) : List Expr → List Token → Prop
  | one (e : Expr) (ts : List Token) : LinE Y 1 e ts → LinArgs Y [e] ts
  /-- an expression that is followed by `、` must not end with an open method-call chain -/
  | cons (p : Token) (e : Expr) (te : List Token) (es : List Expr) (ts : List Token) :
      LinE Y 1 e te → openEnd e = false → p.type = cTypePauseCommaSep → LinArgs Y es ts → LinArgs Y (e :: es) (te ++ p :: ts)

/-- the pieces of tree that own a run of lines -/
inductive Node where
  | stmt (s : Stmt)
  /-- the statements of one block -/
  | block (ss : List Stmt)
  /-- what follows the first block of a 如果: the 再如 branches and the 否则 block -/
  | btail (others : List (Expr × Option (List Stmt))) (hasElse : Bool) (elseB : Option (List Stmt))
  /-- the 拦截 handlers that end a body -/
  | handlers (cs : List (Option Ident × Option (List Stmt)))
  /-- a function body / the program body: 输入 line, statements, handlers -/
  | exec (x : ExecBlock)
  /-- the members of a 定义: properties, methods, getters (each list in source order) -/
  | members (props : List (Option Ident × Expr)) (methods getters : List Stmt)

/-- the type code of a 令 pair: 恒为 declares a constant -/
def vdTypeOf (asg : Token) : Nat := if asg.type = cTypeAssignConstW then cVDTypeAssignConst else cVDTypeAssign

/-- (1) the simple statements: one run of glued tokens -/
inductive LinSimple (Y : Layout) : Stmt → List Token → Prop
  /-- an expression as a statement; a statement that starts with 以 is read as `以 … 遍历` or as a method-call statement (below) -/
  | exprStmt (e : Expr) (ts : List Token) : LinE Y 1 e ts → Y.Glued ts → (Y.peek ts).type ≠ cTypeVarOneW →
      LinSimple Y (.expr e) ts
  /-- `以 x（m：a）、（n）`, optionally `得到 X`, as a statement -/
  | mcallStmt (kw l : Token) (root : Expr) (tr : List Token) (n : Ident) (ps : List Expr) (tc : List Token)
      (cs : List Expr) (tcs : List Token) (yl : Option (Token × Token)) :
      kw.type = cTypeVarOneW → LinE Y 1 root tr → l.type = cTypeFuncQuoteL → LinX Y true 0 (.fcall n ps) tc →
      LinX Y true 0 (.chain cs) tcs → YieldOK yl → Y.Glued (kw :: tr ++ l :: tc ++ tcs ++ yieldToks yl) →
      LinSimple Y (.expr (.mcall (Y.sl kw) root (.call 0 (some n) ps none :: cs) (Y.yieldId yl)))
        (kw :: tr ++ l :: tc ++ tcs ++ yieldToks yl)
  /-- `令 a、b 设为 e` (`设为`, `=`, `恒为`) -/
  | declStmt (kw asg : Token) (ids : List Ident) (ti : List Token) (e : Expr) (te : List Token) :
      kw.type = cTypeDeclareW → LinIds Y ids ti → asg.type ∈ vdAssignKeywords → LinE Y 1 e te →
      Y.Glued (kw :: ti ++ asg :: te) →
      LinSimple Y (.varDecl (Y.sl kw) [(vdTypeOf asg, ids, e)]) (kw :: ti ++ asg :: te)
  /-- `输出 e` -/
  | retStmt (kw : Token) (e : Expr) (te : List Token) :
      kw.type = cTypeReturnW → LinE Y 1 e te → Y.Glued (kw :: te) → LinSimple Y (.ret (Y.sl kw) e) (kw :: te)
  /-- `抛出 类：e1、e2！` -/
  | throwStmt (kw cls colon bang : Token) (es : List Expr) (tes : List Token) :
      kw.type = cTypeThrowErrorW → cls.type = cTypeIdentifier → colon.type = cTypeFuncCall → LinArgs Y es tes →
      bang.type = cTypeExceptionT → Y.Glued (kw :: cls :: colon :: tes ++ [bang]) →
      LinSimple Y (.throw (Y.sl kw) (some (Y.idOf cls)) es) (kw :: cls :: colon :: tes ++ [bang])
  | breakStmt (kw : Token) : kw.type = cTypeBreakW → LinSimple Y (.break (Y.sl kw)) [kw]
  | continueStmt (kw : Token) : kw.type = cTypeContinueW → LinSimple Y (.continue (Y.sl kw)) [kw]

/-- the pairs of the block form of 令: one `a、b 设为 e` per line, each line indented by `d` -/
inductive LinPairs (Y : Layout) (d : Nat) : List (Nat × List Ident × Expr) → List Token → Prop
  | nil : LinPairs Y d [] []
  | cons (asg : Token) (ids : List Ident) (ti : List Token) (e : Expr) (te : List Token)
      (ps : List (Nat × List Ident × Expr)) (tp : List Token) :
      LinIds Y ids ti → asg.type ∈ vdAssignKeywords → LinE Y 1 e te → Y.Glued (ti ++ asg :: te) → Y.ind (Y.peek ti) = d →
      LinPairs Y d ps tp → Y.Sep (ti ++ asg :: te) tp →
      LinPairs Y d ((vdTypeOf asg, ids, e) :: ps) ((ti ++ asg :: te) ++ tp)

inductive LinN (Y : Layout) : Nat → Node → List Token → Prop
  -- (1) simple statements
  | simple (d : Nat) (s : Stmt) (ts : List Token) : LinSimple Y s ts → LinN Y d (.stmt s) ts
  -- (2) statements with an indented block
  /-- `令：` then one pair per line, one step deeper -/
  | declBlockStmt (d : Nat) (kw colon : Token) (ps : List (Nat × List Ident × Expr)) (tp : List Token) :
      kw.type = cTypeDeclareW → colon.type = cTypeFuncCall → Y.Glued [kw, colon] → Y.ind colon = d → tp ≠ [] →
      LinPairs Y (d + 1) ps tp → LinN Y d (.stmt (.varDecl (Y.sl kw) ps)) (kw :: colon :: tp)
  /-- `每当 c：` block -/
  | whileStmt (d : Nat) (kw colon : Token) (c : Expr) (tc : List Token) (b : List Stmt) (tb : List Token) :
      kw.type = cTypeWhileLoopW → LinE Y 1 c tc → colon.type = cTypeFuncCall → Y.Glued (kw :: tc ++ [colon]) →
      Y.ind colon = d → b ≠ [] → LinN Y (d + 1) (.block b) tb →
      LinN Y d (.stmt (.while (Y.sl kw) c (some b))) (kw :: tc ++ colon :: tb)
  /-- `遍历 e：` block -/
  | iter0Stmt (d : Nat) (kw colon : Token) (e : Expr) (te : List Token) (b : List Stmt) (tb : List Token) :
      kw.type = cTypeIteratorW → LinE Y 1 e te → colon.type = cTypeFuncCall → Y.Glued (kw :: te ++ [colon]) →
      Y.ind colon = d → b ≠ [] → LinN Y (d + 1) (.block b) tb →
      LinN Y d (.stmt (.iterate (Y.sl kw) e [] (some b))) (kw :: te ++ colon :: tb)
  /-- `以 a 遍历 e：` block -/
  | iter1Stmt (d : Nat) (kw a it colon : Token) (e : Expr) (te : List Token) (b : List Stmt) (tb : List Token) :
      kw.type = cTypeVarOneW → a.type = cTypeIdentifier → it.type = cTypeIteratorW → LinE Y 1 e te →
      colon.type = cTypeFuncCall → Y.Glued (kw :: a :: it :: te ++ [colon]) →
      Y.ind colon = d → b ≠ [] → LinN Y (d + 1) (.block b) tb →
      LinN Y d (.stmt (.iterate (Y.sl kw) e [Y.idOf a] (some b))) (kw :: a :: it :: te ++ colon :: tb)
  /-- `以 a、b 遍历 e：` block -/
  | iter2Stmt (d : Nat) (kw a p a2 it colon : Token) (e : Expr) (te : List Token) (b : List Stmt) (tb : List Token) :
      kw.type = cTypeVarOneW → a.type = cTypeIdentifier → p.type = cTypePauseCommaSep → a2.type = cTypeIdentifier →
      it.type = cTypeIteratorW → LinE Y 1 e te →
      colon.type = cTypeFuncCall → Y.Glued (kw :: a :: p :: a2 :: it :: te ++ [colon]) →
      Y.ind colon = d → b ≠ [] → LinN Y (d + 1) (.block b) tb →
      LinN Y d (.stmt (.iterate (Y.sl kw) e [Y.idOf a, Y.idOf a2] (some b))) (kw :: a :: p :: a2 :: it :: te ++ colon :: tb)
  /-- `如果 c：` block, then the 再如 / 否则 tail -/
  | branchStmt (d : Nat) (kw colon : Token) (c : Expr) (tc : List Token) (b : List Stmt) (tb : List Token)
      (os : List (Expr × Option (List Stmt))) (he : Bool) (eb : Option (List Stmt)) (tt : List Token) :
      kw.type = cTypeCondW → LinE Y 1 c tc → colon.type = cTypeFuncCall → Y.Glued (kw :: tc ++ [colon]) →
      Y.ind kw = d → Y.ind colon = d → b ≠ [] → LinN Y (d + 1) (.block b) tb →
      LinN Y d (.btail os he eb) tt → Y.Sep tb tt →
      LinN Y d (.stmt (.branch (Y.sl kw) c (some b) os he eb)) (kw :: tc ++ colon :: (tb ++ tt))
  | tailNil (d : Nat) : LinN Y d (.btail [] false none) []
  /-- `否则：` block -/
  | tailElse (d : Nat) (kw colon : Token) (b : List Stmt) (tb : List Token) :
      kw.type = cTypeCondElseW → colon.type = cTypeFuncCall → Y.Glued [kw, colon] →
      Y.ind kw = d → Y.ind colon = d → b ≠ [] → LinN Y (d + 1) (.block b) tb →
      LinN Y d (.btail [] true (some b)) (kw :: colon :: tb)
  /-- `再如 c：` block, then the rest of the tail -/
  | tailOther (d : Nat) (kw colon : Token) (c : Expr) (tc : List Token) (b : List Stmt) (tb : List Token)
      (os : List (Expr × Option (List Stmt))) (he : Bool) (eb : Option (List Stmt)) (tt : List Token) :
      kw.type = cTypeCondOtherW → LinE Y 1 c tc → colon.type = cTypeFuncCall → Y.Glued (kw :: tc ++ [colon]) →
      Y.ind kw = d → Y.ind colon = d → b ≠ [] → LinN Y (d + 1) (.block b) tb →
      LinN Y d (.btail os he eb) tt → Y.Sep tb tt →
      LinN Y d (.btail ((c, some b) :: os) he eb) (kw :: tc ++ colon :: (tb ++ tt))
  -- blocks: statements one per run of lines, each starting on a line indented by `d`
  | blockNil (d : Nat) : LinN Y d (.block []) []
  | blockCons (d : Nat) (s : Stmt) (ss : List Stmt) (t1 t2 : List Token) :
      LinN Y d (.stmt s) t1 → Y.ind (Y.peek t1) = d → LinN Y d (.block ss) t2 → Y.Sep t1 t2 →
      LinN Y d (.block (s :: ss)) (t1 ++ t2)
  /-- a simple statement directly followed by `；`: no line break is needed before the `；` -/
  | blockConsSemi (d : Nat) (s : Stmt) (ss : List Stmt) (t1 t2 : List Token) :
      LinSimple Y s t1 → Y.ind (Y.peek t1) = d → LinN Y d (.block ss) t2 → t2 ≠ [] → (Y.peek t2).type = cTypeStmtSep →
      LinN Y d (.block (s :: ss)) (t1 ++ t2)
  /-- a `；` where a statement could start is an empty statement (it holds line 0); what follows it needs no line break -/
  | blockEmpty (d : Nat) (semi : Token) (ss : List Stmt) (t2 : List Token) :
      semi.type = cTypeStmtSep → Y.ind semi = d → LinN Y d (.block ss) t2 → LinN Y d (.block (.empty 0 :: ss)) (semi :: t2)
  -- (3) declarations
  /-- `如何 名？` body -/
  | funcStmt (d : Nat) (kw name q : Token) (x : ExecBlock) (tx : List Token) :
      kw.type = cTypeFuncW → name.type = cTypeIdentifier → q.type = cTypeFuncDeclare → Y.Glued [kw, name, q] →
      Y.ind q = d → LinN Y (d + 1) (.exec x) tx →
      LinN Y d (.stmt (.funcDecl (Y.sl kw) (some (Y.idOf name)) cDeclareTypeFunc (some x))) (kw :: name :: q :: tx)
  /-- `如何新建 类？` body -/
  | ctorStmt (d : Nat) (kw nw name q : Token) (x : ExecBlock) (tx : List Token) :
      kw.type = cTypeFuncW → nw.type = cTypeObjNewW → name.type = cTypeIdentifier → q.type = cTypeFuncDeclare →
      Y.Glued [kw, nw, name, q] → Y.ind q = d → LinN Y (d + 1) (.exec x) tx →
      LinN Y d (.stmt (.funcDecl (Y.sl kw) (some (Y.idOf name)) cDeclareTypeConstructor (some x))) (kw :: nw :: name :: q :: tx)
  /-- `定义 类：` members -/
  | classStmt (d : Nat) (kw name colon : Token) (ps : List (Option Ident × Expr)) (ms gs : List Stmt) (tm : List Token) :
      kw.type = cTypeObjDefineW → name.type = cTypeIdentifier → colon.type = cTypeFuncCall → Y.Glued [kw, name, colon] →
      Y.ind colon = d → tm ≠ [] → LinN Y (d + 1) (.members ps ms gs) tm →
      LinN Y d (.stmt (.classDecl (Y.sl kw) (some (Y.idOf name)) ps ms gs)) (kw :: name :: colon :: tm)
  -- function bodies: an optional 输入 line, statements, 拦截 handlers
  | execPlain (d : Nat) (body : List Stmt) (tb : List Token) (cs : List (Option Ident × Option (List Stmt))) (tc : List Token) :
      LinN Y d (.block body) tb → LinN Y d (.handlers cs) tc → Y.Sep tb tc → tb ++ tc ≠ [] →
      LinN Y d (.exec (.mk [] (some body) cs)) (tb ++ tc)
  /-- `输入 a、b` first -/
  | execInput (d : Nat) (kw : Token) (ids : List Ident) (ti : List Token) (body : List Stmt) (tb : List Token)
      (cs : List (Option Ident × Option (List Stmt))) (tc : List Token) :
      kw.type = cTypeInputW → LinIds Y ids ti → Y.Glued (kw :: ti) → Y.ind kw = d →
      LinN Y d (.block body) tb → LinN Y d (.handlers cs) tc → Y.Sep (kw :: ti) (tb ++ tc) → Y.Sep tb tc → tb ++ tc ≠ [] →
      LinN Y d (.exec (.mk ids (some body) cs)) (kw :: ti ++ (tb ++ tc))
  | handNil (d : Nat) : LinN Y d (.handlers []) []
  /-- `拦截 类：` block -/
  | handCons (d : Nat) (kw cls colon : Token) (b : List Stmt) (tb : List Token)
      (cs : List (Option Ident × Option (List Stmt))) (tc : List Token) :
      kw.type = cTypeCatchErrorW → cls.type = cTypeIdentifier → colon.type = cTypeFuncCall → Y.Glued [kw, cls, colon] →
      Y.ind kw = d → Y.ind colon = d → b ≠ [] → LinN Y (d + 1) (.block b) tb → LinN Y d (.handlers cs) tc → Y.Sep tb tc →
      LinN Y d (.handlers ((some (Y.idOf cls), some b) :: cs)) (kw :: cls :: colon :: (tb ++ tc))
  -- members of a 定义
  | memNil (d : Nat) : LinN Y d (.members [] [] []) []
  /-- `其 名 为 e` -/
  | memProp (d : Nat) (kw name asg : Token) (e : Expr) (te : List Token)
      (ps : List (Option Ident × Expr)) (ms gs : List Stmt) (tm : List Token) :
      kw.type = cTypeObjThisW → name.type = cTypeIdentifier → asg.type ∈ [cTypeAssignW, cTypeAssignMark] → LinE Y 1 e te →
      Y.Glued (kw :: name :: asg :: te) → Y.ind kw = d → LinN Y d (.members ps ms gs) tm → Y.Sep (kw :: name :: asg :: te) tm →
      LinN Y d (.members ((some (Y.idOf name), e) :: ps) ms gs) (kw :: name :: asg :: te ++ tm)
  /-- `如何 名？` body (a method: its node holds line 0) -/
  | memMethod (d : Nat) (kw name q : Token) (x : ExecBlock) (tx : List Token)
      (ps : List (Option Ident × Expr)) (ms gs : List Stmt) (tm : List Token) :
      kw.type = cTypeFuncW → name.type = cTypeIdentifier → q.type = cTypeFuncDeclare → Y.Glued [kw, name, q] →
      Y.ind kw = d → Y.ind q = d → LinN Y (d + 1) (.exec x) tx → LinN Y d (.members ps ms gs) tm → Y.Sep tx tm →
      LinN Y d (.members ps (.funcDecl 0 (some (Y.idOf name)) cDeclareTypeFunc (some x) :: ms) gs) (kw :: name :: q :: (tx ++ tm))
  /-- `何为 名？` body (a getter) -/
  | memGetter (d : Nat) (kw name q : Token) (x : ExecBlock) (tx : List Token)
      (ps : List (Option Ident × Expr)) (ms gs : List Stmt) (tm : List Token) :
      kw.type = cTypeGetterW → name.type = cTypeIdentifier → q.type = cTypeFuncDeclare → Y.Glued [kw, name, q] →
      Y.ind kw = d → Y.ind q = d → LinN Y (d + 1) (.exec x) tx → LinN Y d (.members ps ms gs) tm → Y.Sep tx tm →
      LinN Y d (.members ps ms (.funcDecl 0 (some (Y.idOf name)) cDeclareTypeGetter (some x) :: gs)) (kw :: name :: q :: (tx ++ tm))

/-- `ts` renders the statement `s`, its lines indented by `d` -/
def LinStmt (Y : Layout) (s : Stmt) (d : Nat) (ts : List Token) : Prop := LinN Y d (.stmt s) ts
/-- `ts` renders the statements `ss` of a block indented by `d` -/
def LinBlock (Y : Layout) (ss : List Stmt) (d : Nat) (ts : List Token) : Prop := LinN Y d (.block ss) ts
/-- `ts` renders the body `x` (输入 line, statements, handlers) indented by `d` -/
def LinExec (Y : Layout) (x : ExecBlock) (d : Nat) (ts : List Token) : Prop := LinN Y d (.exec x) ts

/-- the library type of an import: `《…》` is a standard library, a string a file -/
def libTypeOf (nm : Token) : Nat := if nm.type = cTypeLibString then cLibTypeStd else cLibTypeCustom

/-- `导入 《库》` / `导入 "文件"`, optionally `之 a、b`; the node holds the line of the 导入 token (`ParseProgram`:
`setStmtCurrentLine(stmt, tk)` — before that repair the line stayed 0) -/
inductive LinImport (Y : Layout) : Import → List Token → Prop
  | plain (kw nm : Token) : kw.type = cTypeImportW → nm.type ∈ [cTypeLibString, cTypeString] → Y.Glued [kw, nm] →
      LinImport Y { line := Y.sl kw, libType := libTypeOf nm, name := some (runesToString nm.literal), items := [] } [kw, nm]
  | items (kw nm dot : Token) (ids : List Ident) (ti : List Token) :
      kw.type = cTypeImportW → nm.type ∈ [cTypeLibString, cTypeString] → dot.type ∈ [cTypeObjDotW, cTypeObjDotIIW] →
      LinIds Y ids ti → Y.Glued (kw :: nm :: dot :: ti) →
      LinImport Y { line := Y.sl kw, libType := libTypeOf nm, name := some (runesToString nm.literal), items := ids }
        (kw :: nm :: dot :: ti)

/-- a run of `；` tokens, each NOT separated by a statement line break from the token before it (`a` = the token before the first):
what `ParseProgram`'s loop `for { tryConsume(；) }` swallows after a 导入 statement -/
inductive SepRun (Y : Layout) : Option Token → List Token → Prop
  | nil (a : Option Token) : SepRun Y a []
  | cons (a : Option Token) (t : Token) (r : List Token) :
      t.type = cTypeStmtSep → Y.jf a t = false → SepRun Y (some t) r → SepRun Y a (t :: r)

/-- the 导入 statements that open a program, each starting on a line indented by `d` (they need not be on separate lines), each
followed by any number of `；` on the line of its last token (‹导入语句› [‹间隔符› ‹导入语句›]*: `导入《甲》；导入《乙》；`) -/
inductive LinImports (Y : Layout) (d : Nat) : List Import → List Token → Prop
  | nil : LinImports Y d [] []
  | cons (im : Import) (t1 seps : List Token) (ims : List Import) (t2 : List Token) :
      LinImport Y im t1 → Y.ind (Y.peek t1) = d → SepRun Y t1.getLast? seps → LinImports Y d ims t2 →
      LinImports Y d (im :: ims) (t1 ++ (seps ++ t2))

/-- `ts` renders the program `p`: nothing; or 导入 statements, then (possibly) a body — all indented like the first line.  A body
that follows 导入 statements starts with a `；` (an empty statement) only after a statement line break: a `；` on the line of the
last 导入 statement belongs to the import section (it is swallowed, no empty statement). -/
inductive LinProgram (Y : Layout) : Program → List Token → Prop
  | empty : LinProgram Y { imports := [], exec := none } []
  | body (d : Nat) (x : ExecBlock) (ts : List Token) : LinN Y d (.exec x) ts → LinProgram Y { imports := [], exec := some x } ts
  | importsOnly (d : Nat) (ims : List Import) (ti : List Token) : ti ≠ [] → LinImports Y d ims ti →
      LinProgram Y { imports := ims, exec := none } ti
  | importsBody (d : Nat) (ims : List Import) (ti : List Token) (x : ExecBlock) (tx : List Token) : ti ≠ [] →
      LinImports Y d ims ti → LinN Y d (.exec x) tx →
      ((Y.peek tx).type = cTypeStmtSep → Y.jf ti.getLast? (Y.peek tx) = true) →
      LinProgram Y { imports := ims, exec := some x } (ti ++ tx)

end ZnVerif.Spec.StmtSyntax
