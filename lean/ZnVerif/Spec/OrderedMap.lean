/-
Spec: a Zn dictionary is an insertion-ordered map: a list of (key, value) pairs without duplicate keys.
Overwriting a key keeps its place, deleting removes the pair, writing an absent key (new, or removed before)
appends it.  Every observation (display, 所有索引, 所有值, 长度, iteration) follows the list's order.
Written from the property text; independent of pkg/value/hashmap.go.  Core Lean only.
-/
namespace ZnVerif.Spec.OrderedMap

variable {α : Type}

abbrev OMap (α : Type) := List (String × α)

def keys (m : OMap α) : List String := m.map (·.1)
def vals (m : OMap α) : List α := m.map (·.2)
def size (m : OMap α) : Nat := m.length

/-- well-formed: no key twice -/
def WF (m : OMap α) : Prop := (keys m).Nodup

def lookup (m : OMap α) (k : String) : Option α := (m.find? (fun p => p.1 = k)).map (·.2)

def insert (m : OMap α) (k : String) (v : α) : OMap α :=
  if k ∈ keys m then m.map (fun p => if p.1 = k then (k, v) else p) else m ++ [(k, v)]

def erase (m : OMap α) (k : String) : OMap α := m.filter (fun p => p.1 ≠ k)

/-- construction from a literal, duplicate keys allowed: later values win, first occurrence fixes the place -/
def ofList (kvs : List (String × α)) : OMap α := kvs.foldl (fun m kv => insert m kv.1 kv.2) []

end ZnVerif.Spec.OrderedMap
