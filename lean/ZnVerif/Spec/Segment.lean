/-
Spec for C04, keyword/name segmentation of unspaced text (manual ch.1 「关键词」「标识符」): reading left to right, at
each position the keyword that matches there is cut out, otherwise the character extends the current name.
Parametric in the keyword list `(spelling, token type)`; the property instantiates it with the documented list
`Spec.Keywords.documented`.  Independent of how the lexer does it.  Core Lean only.
-/
import ZnVerif.Spec.Keywords

namespace ZnVerif.Spec.Segment

/-- a piece of the segmentation, with its position `[start, stop)` in the text -/
inductive Piece where
  | kw (type : Nat) (start stop : Nat)
  | name (start stop : Nat) (chars : List Nat)
  deriving Repr, DecidableEq

/-- the keyword that matches at the head of `s`: (number of glyphs, token type) -/
def kwAt (kws : List (List Nat × Nat)) (s : List Nat) : Option (Nat × Nat) :=
  (kws.find? (fun k => k.1.isPrefixOf s)).map (fun k => (k.1.length, k.2))

/-- the pending name, if any, ends at `pos` -/
def flush (pos : Nat) (pend : List Nat) : List Piece :=
  if pend.isEmpty then [] else [.name (pos - pend.length) pos pend]

/-- left-to-right scan, one character per step: `pos` = position of the head of the remaining text, `pend` = the
current name, `skip` = how many more glyphs belong to the keyword that was just cut out -/
def segAux (kws : List (List Nat × Nat)) : Nat → Nat → List Nat → List Nat → List Piece
  | _, pos, pend, [] => flush pos pend
  | skip + 1, pos, pend, _ :: r => segAux kws skip (pos + 1) pend r
  | 0, pos, pend, c :: r =>
    match kwAt kws (c :: r) with
    | some (len, ty) => flush pos pend ++ [.kw ty pos (pos + len)] ++ segAux kws (len - 1) (pos + 1) [] r
    | none => segAux kws 0 (pos + 1) (pend ++ [c]) r

def segment (kws : List (List Nat × Nat)) (s : List Nat) : List Piece := segAux kws 0 0 [] s

end ZnVerif.Spec.Segment
