/-
Spec of the two lines a syntax error shows under its head line (C05 `display_total`, C18 `caret_under_offender`):

    ␠␠␠␠<the source line of the error, without its indentation>
    ␠␠␠␠<as many columns as the characters before the error occupy>^

* A *physical line* is a maximal run of characters without CR (U+000D) / LF (U+000A); EVERY CR and every
  LF is one break (`physicalLines "a\r\nb" = ["a", "", "b"]`).  CRLF is deliberately not merged: the only
  effect of merging would be to remove the empty line between the CR and the LF from `physicalLines`, and
  that line is never quoted (a cursor on a break char is moved back over all break chars, see `anchor`).
* The *anchor* of a cursor is the cursor itself (clamped to `[0, length]`) unless it sits on a break char:
  then it is the nearest position before it that is not a break char (position 0 if there is none).  So a
  cursor on the break(s) ending a line (LF, CR, CRLF, or blank lines after it) quotes the line before it.
* The quoted line is the physical line containing the anchor without its leading SP / TAB.
* The caret column is the sum of the display widths of the characters of that line from the end of the
  indentation up to (excluding) the cursor: 0 when the cursor is inside the indentation, the whole line when
  the cursor is on a break after it.  Widths: the table regenerated from `calcCursorOffset`
  (0 for U+000E/U+000F, else the width of the first class whose border is ≥ the code point, else 1).

Everything here is on `List Nat` (code points) and natural-number positions; nothing refers to the model.
-/
import ZnVerif.Generated.Widths

namespace ZnVerif.Spec.ErrorLine

open ZnVerif.Generated

/-- CR or LF -/
def isBreak (c : Nat) : Bool := c == 0xD || c == 0xA

/-- SP or TAB -/
def isIndent (c : Nat) : Bool := c == 0x20 || c == 0x9

def notBreak (c : Nat) : Bool := !isBreak c

/-! ### physical lines -/

/-- put a character in front of the first line -/
def consHead (c : Nat) : List (List Nat) → List (List Nat)
  | [] => [[c]]
  | l :: ls => (c :: l) :: ls

/-- split at every CR / LF (the break characters belong to no line) -/
def physicalLines : List Nat → List (List Nat)
  | [] => [[]]
  | c :: cs => if isBreak c then [] :: physicalLines cs else consHead c (physicalLines cs)

/-- `line` is the physical line of `src` that contains position `pos`
(`pre`/`post` are what comes before/after it; a break char belongs to the line it ends) -/
structure IsLineAt (src : List Nat) (pos : Nat) (pre line post : List Nat) : Prop where
  split : src = pre ++ line ++ post
  pre_ok : pre = [] ∨ ∃ p b, pre = p ++ [b] ∧ isBreak b = true
  post_ok : post = [] ∨ ∃ b q, post = b :: q ∧ isBreak b = true
  line_ok : ∀ c ∈ line, isBreak c = false
  inside : pre.length ≤ pos ∧ pos ≤ pre.length + line.length

/-! ### anchor -/

/-- the character at position `i` is a break (the end of input, `i = length`, is not) -/
def breakAt (src : List Nat) (i : Nat) : Bool :=
  match src[i]? with
  | some c => isBreak c
  | none => false

/-- `a` is the anchor of the (clamped) cursor `c` -/
structure IsAnchor (src : List Nat) (c a : Nat) : Prop where
  le : a ≤ c
  stop : a = 0 ∨ breakAt src a = false
  skipped : ∀ i, a < i → i ≤ c → breakAt src i = true

/-- executable anchor -/
def anchor (src : List Nat) : Nat → Nat
  | 0 => 0
  | c + 1 => if breakAt src (c + 1) then anchor src c else c + 1

/-- first position of the physical line containing position `a` -/
def lineStart (src : List Nat) : Nat → Nat
  | 0 => 0
  | a + 1 => if breakAt src a then a + 1 else lineStart src a

/-! ### display width -/

/-- first class whose (inclusive) upper border is ≥ `c` -/
def widthIn (c : Nat) : List (Nat × Nat) → Nat
  | [] => Widths.widthDefault
  | (b, w) :: rest => if c ≤ b then w else widthIn c rest

/-- display width of a code point -/
def width (c : Nat) : Nat :=
  if c ∈ Widths.zeroWidthSpecials then Widths.specialWidth
  else widthIn c (Widths.widthBorders.zip Widths.widths)

/-! ### the oracle -/

/-- cursor clamped into `[0, length]` -/
def clamp (src : List Nat) (cursor : Int) : Nat := min cursor.toNat src.length

structure Shown where
  pre : List Nat          -- everything before the line
  indent : List Nat       -- its leading SP/TAB
  quoted : List Nat       -- the line without them
  post : List Nat         -- everything after the line (starts with its break char)
  caretCol : Nat

/-- what the error display must show for `cursor` -/
def shown (src : List Nat) (cursor : Int) : Shown :=
  let c := clamp src cursor
  let a := anchor src c
  let s := lineStart src a
  let rest := src.drop s
  let line := rest.takeWhile notBreak
  let indent := line.takeWhile isIndent
  let quoted := line.dropWhile isIndent
  { pre := src.take s, indent := indent, quoted := quoted, post := rest.dropWhile notBreak,
    caretCol := ((quoted.take (c - (s + indent.length))).map width).sum }

def quotedLine (src : List Nat) (cursor : Int) : List Nat := (shown src cursor).quoted
def caretCol (src : List Nat) (cursor : Int) : Nat := (shown src cursor).caretCol

end ZnVerif.Spec.ErrorLine
