/-
Spec for C17 — "source files are decoded losslessly or rejected".

Written from the Unicode Standard (ch. 3, D92 UTF-8 encoding form, Table 3-6 bit distribution), not from
the Go code and without any notion of reads, blocks or carried bytes:

* `encode c`        the UTF-8 code unit sequence of a Unicode scalar value,
* `decodeOne bs`    the only strict way to read one character off the front of `bs`: the lead byte
                    announces a length, the payload bits give a candidate `c`, and the candidate is accepted
                    iff it is a scalar value whose *canonical* encoding is exactly those bytes
                    (this excludes overlong forms, surrogates, values above U+10FFFF, stray continuation
                    bytes, 0xF8.. lead bytes, truncated sequences and "bytes" ≥ 256 all at once),
* `decodeStrict bs` all characters or an error,
* `decodeAll bs`    `decodeStrict` with one leading U+FEFF dropped — what a source *file* means.

Bytes are `Nat` (the protocol's hex pairs); every number ≥ 256 is simply not part of any encoding.
Core Lean only.
-/
namespace ZnVerif.Spec

/-- Unicode scalar value: a code point that is not a surrogate -/
def IsScalar (c : Nat) : Prop := c < 0xD800 ∨ (0xE000 ≤ c ∧ c ≤ 0x10FFFF)

instance (c : Nat) : Decidable (IsScalar c) := by unfold IsScalar; infer_instance

/-- UTF-8 encoding form (Table 3-6). Only meaningful on scalar values. -/
def encode (c : Nat) : List Nat :=
  if c < 0x80 then [c]
  else if c < 0x800 then [0xC0 + c / 0x40, 0x80 + c % 0x40]
  else if c < 0x10000 then [0xE0 + c / 0x1000, 0x80 + c / 0x40 % 0x40, 0x80 + c % 0x40]
  else [0xF0 + c / 0x40000, 0x80 + c / 0x1000 % 0x40, 0x80 + c / 0x40 % 0x40, 0x80 + c % 0x40]

def encodeAll (cps : List Nat) : List Nat := cps.flatMap encode

/-- U+FEFF, byte order mark when it is the first character of a file -/
def bom : Nat := 0xFEFF

inductive DecodeError where
  | invalidUtf8
  deriving DecidableEq, Repr

/-- sequence length announced by a lead byte (0 = not a lead byte) -/
def seqLen (b0 : Nat) : Nat :=
  if b0 < 0x80 then 1
  else if 0xC0 ≤ b0 ∧ b0 < 0xE0 then 2
  else if 0xE0 ≤ b0 ∧ b0 < 0xF0 then 3
  else if 0xF0 ≤ b0 ∧ b0 < 0xF8 then 4
  else 0

/-- payload bits of a 1–4 byte sequence (low 7/5/4/3 bits of the lead byte, low 6 of the others) -/
def payload : List Nat → Nat
  | [b0] => b0
  | [b0, b1] => b0 % 0x20 * 0x40 + b1 % 0x40
  | [b0, b1, b2] => b0 % 0x10 * 0x1000 + b1 % 0x40 * 0x40 + b2 % 0x40
  | [b0, b1, b2, b3] => b0 % 8 * 0x40000 + b1 % 0x40 * 0x1000 + b2 % 0x40 * 0x40 + b3 % 0x40
  | _ => 0

/-- one character off the front, strictly: accepted iff the bytes are the canonical encoding of a scalar -/
def decodeOne (bytes : List Nat) : Option (Nat × List Nat) :=
  match bytes with
  | [] => none
  | b0 :: _ =>
    let n := seqLen b0
    let c := payload (bytes.take n)
    if 0 < n ∧ IsScalar c ∧ encode c = bytes.take n then some (c, bytes.drop n) else none

theorem decodeOne_length {bytes : List Nat} {c : Nat} {rest : List Nat}
    (h : decodeOne bytes = some (c, rest)) : rest.length < bytes.length := by
  unfold decodeOne at h
  split at h
  · cases h
  · simp only [] at h
    split at h
    · cases h
      simp only [List.length_drop, List.length_cons]
      omega
    · cases h

/-- strict UTF-8: every byte belongs to the canonical encoding of a scalar value, or the text is rejected -/
def decodeStrict (bytes : List Nat) : Except DecodeError (List Nat) :=
  if bytes = [] then .ok [] else
  match _h : decodeOne bytes with
  | none => .error .invalidUtf8
  | some (c, rest) =>
    match decodeStrict rest with
    | .ok cs => .ok (c :: cs)
    | .error e => .error e
termination_by bytes.length
decreasing_by exact decodeOne_length _h

/-- what a source file means: strict UTF-8, one leading byte order mark removed (only one, only leading) -/
def decodeAll (bytes : List Nat) : Except DecodeError (List Nat) :=
  match decodeStrict bytes with
  | .ok (c :: cs) => if c = bom then .ok cs else .ok (c :: cs)
  | r => r

end ZnVerif.Spec
