/-
Spec: a Zn list is a 1-indexed finite sequence (`List α`).  Written from the property text and the manual
(doc/zh-cn/proposals/草案07), independently of pkg/value/array.go.

Positions run 1 … length.  Reading/writing position `i` is defined only for `1 ≤ i ≤ length`.
The *methods* of 草案07 that take an index (新增 and, by the same convention, 寻找's answer) count from 0:
`【6，9】之（新增：54，1） → 【6，54，9】`, 前增 = 新增 at 0, 后增 = 新增 at 长度.
Core Lean only.
-/
namespace ZnVerif.Spec.Seq

variable {α : Type}

/-- `1 ≤ i ≤ length` -/
def InRange (l : List α) (i : Int) : Prop := 1 ≤ i ∧ i ≤ (l.length : Int)

instance (l : List α) (i : Int) : Decidable (InRange l i) := by unfold InRange; exact inferInstance

/-- element at 1-based position `i` (`none` = index error) -/
def get1 (l : List α) (i : Int) : Option α :=
  if InRange l i then l[(i - 1).toNat]? else none

/-- sequence with position `i` replaced (`none` = index error, nothing changes) -/
def set1 (l : List α) (i : Int) (x : α) : Option (List α) :=
  if InRange l i then some (l.set (i - 1).toNat x) else none

def first (l : List α) : Option α := l.head?
def last (l : List α) : Option α := l.getLast?

/-- setting 首项 of an empty list yields the one-element list -/
def setFirst : List α → α → List α
  | [], x => [x]
  | _ :: t, x => x :: t

def setLast : List α → α → List α
  | [], x => [x]
  | h :: t, x => (h :: t).dropLast ++ [x]

def prepend (l : List α) (x : α) : List α := x :: l
def append (l : List α) (x : α) : List α := l ++ [x]

/-- 左移: removed first element (`none` = 空 on the empty list) and the rest -/
def shiftLeft : List α → Option α × List α
  | [] => (none, [])
  | h :: t => (some h, t)

/-- 右移 -/
def shiftRight (l : List α) : Option α × List α := (l.getLast?, l.dropLast)

/-- `x` placed so that it has 0-based position `n` (positions past the end: at the end) -/
def insertNth (x : α) : Nat → List α → List α
  | 0, l => x :: l
  | _ + 1, [] => [x]
  | n + 1, h :: t => h :: insertNth x n t

/-- 新增 as the manual words it: index ≥ length → at the end; index `-N` → the new element gets 1-based position
`length + index + 1`, i.e. 0-based `length + index`; when that is not a position of the list (`length + index < 0`)
it is an index error like every other position outside the list: `none`, nothing changes -/
def insertAt (l : List α) (idx : Int) (x : α) : Option (List α) :=
  if 0 ≤ idx then some (insertNth x idx.toNat l)
  else if 0 ≤ (l.length : Int) + idx then some (insertNth x ((l.length : Int) + idx).toNat l)
  else none

def reverse (l : List α) : List α := l.reverse

/-- 合并 -/
def merge (l : List α) (args : List (List α)) : List α := l ++ args.flatten

/-- 包含 -/
def contains (eq : α → α → Bool) (l : List α) (x : α) : Bool := l.any (fun item => eq item x)

/-- 寻找: 0-based index of the first equal element, −1 when there is none -/
def find (eq : α → α → Bool) (l : List α) (x : α) : Int :=
  match l.findIdx? (fun item => eq item x) with
  | some i => (i : Int)
  | none => -1

/-- 交换 of the 1-based positions `i`, `j` (`none` = index error) -/
def swap (l : List α) (i j : Int) : Option (List α) :=
  if InRange l i ∧ InRange l j then
    match get1 l i, get1 l j with
    | some a, some b => some ((l.set (i - 1).toNat b).set (j - 1).toNat a)
    | _, _ => none
  else none

/-- 拼接 (`none` = type error: some element is not a text) -/
def join (str : α → Option String) (l : List α) (sep : String) : Option String :=
  (l.mapM str).map (fun ss => sep.intercalate ss)

end ZnVerif.Spec.Seq
