/-
C03 / C01 spec, part 2: the expression grammar at token level.

`Lin k e ts` — the token list `ts` is a rendering of the expression tree `e` at precedence level `k`:
   1  或 (left associative)    2  且 (left associative)    3  one comparison, operands of level 4 — comparisons do not chain
   4  (assignment level; no assignment in this fragment)   5  + −  (left associative)   6  * / | %  (left associative)
   7  identifier (numbers are identifiers), string, `{ expression }`
Any spelling of an operator that the generated tables map to the node's operator code is allowed (synonyms), braces may be added
anywhere (`brace`), an expression of a tighter level may stand where a looser one is expected (`up`).  Precedence and
associativity are exactly the level arithmetic of the constructors: the right operand of a left-associative operator is one level
tighter than the left one.
Independent of how the parser works; tokens are arbitrary `Token`s of the right type (positions and literals unconstrained).
-/
import ZnVerif.Model.Parser

namespace ZnVerif.Spec.ExprSyntax
open ZnVerif.Model ZnVerif.Model.Parser ZnVerif.Generated.Tokens ZnVerif.Generated.ParserTables

inductive Lin : Nat → Expr → List Token → Prop
  | id (t : Token) : t.type = cTypeIdentifier → Lin 7 (.id ⟨0, runesToString t.literal⟩) [t]
  | str (t : Token) : t.type = cTypeString → Lin 7 (.str 0 (runesToString t.literal)) [t]
  | brace (l r : Token) (e : Expr) (ts : List Token) :
      l.type = cTypeStmtQuoteL → r.type = cTypeStmtQuoteR → Lin 1 e ts → Lin 7 e (l :: ts ++ [r])
  | up (k : Nat) (e : Expr) (ts : List Token) : 1 ≤ k → Lin (k + 1) e ts → Lin k e ts
  | or (t : Token) (a b : Expr) (ta tb : List Token) :
      t.type = cTypeLogicOrW → Lin 1 a ta → Lin 2 b tb → Lin 1 (.logic 0 cLogicOR a b) (ta ++ t :: tb)
  | and (t : Token) (a b : Expr) (ta tb : List Token) :
      t.type = cTypeLogicAndW → Lin 2 a ta → Lin 3 b tb → Lin 2 (.logic 0 cLogicAND a b) (ta ++ t :: tb)
  | cmp (t : Token) (a b : Expr) (ta tb : List Token) :
      t.type ∈ lv3ValidTypes → Lin 4 a ta → Lin 4 b tb →
      Lin 3 (.logic 0 (lookupD logicTypeMap t.type 0) a b) (ta ++ t :: tb)
  | add (t : Token) (a b : Expr) (ta tb : List Token) :
      t.type ∈ addSubTypes → Lin 5 a ta → Lin 6 b tb →
      Lin 5 (.arith 0 (lookupD addSubOverride t.type addSubDefault) a b) (ta ++ t :: tb)
  | mul (t : Token) (a b : Expr) (ta tb : List Token) :
      t.type ∈ mulDivTypes → Lin 6 a ta → Lin 7 b tb →
      Lin 6 (.arith 0 (lookupD mulDivTypeMap t.type 0) a b) (ta ++ t :: tb)

/-- the program consisting of the one expression statement `e` -/
def exprProgram (e : Expr) : Program := { imports := [], exec := some (.mk [] (some [.expr e]) []) }

end ZnVerif.Spec.ExprSyntax
