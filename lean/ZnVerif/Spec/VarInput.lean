/-
Input-variable text (C05: "for every finite sequence of Unicode characters given as program source or as
input-variable text, compilation yields either a syntax tree or a single syntax error … never a half-built tree").

What the two entry points owe, said on the COMPILER's answer for the text (`none` = the compiler rejected it):

* `varInput`   (exec.ExecVarInputText / Interpreter.ExecuteVarInputText): the entry point binds names  ⇔  the compiler
  accepts the whole text and the tree is nothing but a block of plain assignments `‹name› = ‹value›` (`；` separators
  allowed); it then binds exactly the names of ALL assignments of the text, in order (a later assignment to the same
  name wins), each to the value of its expression (`Spec.evalE`, one state for the whole text).  Anything else is
  rejected and binds nothing.
* `exprInput`  (exec.ExecExpressionInputText): every entry is a text whose tree is exactly one expression.

Left open (`unspecified`): a target spelled like a number, an evaluation the expression semantics leaves open.
A text without any statement (blank / comments only) may bind nothing or be rejected (`emptyOrRejected`).
Independent of how the Go code walks the tree.
-/
import ZnVerif.Spec.Sem

namespace ZnVerif.Spec.VarInput
open ZnVerif.Model (Expr Stmt ExecBlock Program Ident NumOps)
open ZnVerif.Spec

inductive Outcome (ν : Type) where
  /-- the names bound, each once, with the value of its LAST assignment -/
  | bound (kvs : List (String × SVal ν))
  /-- the compiler rejected the text, or the tree is not a block of plain assignments / not a single expression -/
  | rejected
  /-- the tree carries parts that are no assignment although the statement block alone would pass: import lines,
      an 输入 line, 拦截 handlers — not a block of plain assignments, hence to be rejected -/
  | rejectedParts
  /-- no statement at all -/
  | emptyOrRejected
  /-- an expression of the text raises -/
  | failed
  | unspecified

/-- the (target, value) pairs of a statement list made of plain assignments and `；` only -/
def assignments : List Stmt → Option (List (Expr × Expr))
  | [] => some []
  | .expr (.assign _ t e) :: rest => (assignments rest).map ((t, e) :: ·)
  | .empty _ :: rest => assignments rest
  | _ => none

/-- a target is a plain name: an identifier that does not read as a number -/
inductive Target where
  | name (s : String)
  | numeric
  | notAName

def target : Expr → Target
  | .id i =>
    match ZnVerif.Model.tryParseNumber (strCps i.lit) with
    | .name => .name i.lit
    | _ => .numeric
  | _ => .notAName

variable {ν : Type} [NumOps ν]

def evalAll (fuel : Nat) : List (String × Expr) → List (String × SVal ν) → SState ν → Outcome ν × SState ν
  | [], acc, s => (.bound acc, s)
  | (n, e) :: rest, acc, s =>
    match evalE fuel e s with
    | (.ok v, s') => evalAll fuel rest (setA n v acc) s'
    | (.raise _, s') => (.failed, s')
    | (.fatal _, s') => (.failed, s')
    | (_, s') => (.unspecified, s')

/-- names of the targets; `none` when some target is not a name -/
def targetNames : List (Expr × Expr) → Option (Option (List (String × Expr)))
  | [] => some (some [])
  | (t, e) :: rest =>
    match target t, targetNames rest with
    | .notAName, _ => none
    | _, none => none
    | .numeric, some _ => some none
    | .name _, some none => some none
    | .name n, some (some l) => some (some ((n, e) :: l))

def hasOtherParts (p : Program) : Bool :=
  !p.imports.isEmpty ||
  match p.exec with
  | some (.mk ins _ cs) => !ins.isEmpty || !cs.isEmpty
  | none => false

/-- the statement list of a program that HAS statements -/
def statements (p : Program) : Option (List Stmt) :=
  match p.exec with
  | some (.mk _ (some ss) _) => some ss
  | _ => none

/-- input-variable text, given what the compiler made of the whole text -/
def varInput (fuel : Nat) (compiled : Option Program) : Outcome ν :=
  match compiled with
  | none => .rejected
  | some p =>
    match statements p with
    | none => if hasOtherParts p then .rejectedParts else .emptyOrRejected
    | some ss =>
      match assignments ss with
      | none => .rejected
      | some pairs =>
        match targetNames pairs with
        | none => .rejected
        | some none => .unspecified
        | some (some named) =>
          if hasOtherParts p then .rejectedParts
          else (evalAll fuel named [] {}).1

/-- the one expression a text stands for -/
def singleExpr (p : Program) : Option Expr :=
  match statements p with
  | some [.expr e] => (match e with | .nil => none | _ => some e)
  | _ => none

/-- expression entries `name ↦ compiled text`, evaluated in the order given, one state for all -/
def exprInput (fuel : Nat) (entries : List (String × Option Program)) : Outcome ν :=
  let rec collect : List (String × Option Program) → Option (Bool × List (String × Expr))
    | [] => some (false, [])
    | (_, none) :: _ => none
    | (n, some p) :: rest =>
      match singleExpr p, collect rest with
      | some e, some (parts, l) => some (parts || hasOtherParts p, (n, e) :: l)
      | _, _ => none
  match collect entries with
  | none => .rejected
  | some (true, _) => .rejectedParts
  | some (false, named) => (evalAll fuel named [] {}).1

end ZnVerif.Spec.VarInput
