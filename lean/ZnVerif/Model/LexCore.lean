/-
Model of the character-access core of pkg/syntax/lexer.go: the `Lexer` struct, `getChar`, `Next`,
`Peek`, `Peek2`, `Peek3`, `GetCurrentChar`, `SetCursor`.  Code points are `Nat`; `RuneEOF = 0`.
The cursor is a Go `int` that is never negative on any path (it only grows by `Next` or is reset to an
earlier value of itself), hence `Nat`.
-/
import ZnVerif.Model.Chars

namespace ZnVerif.Model

structure LineInfo where
  indents : Nat
  startIdx : Nat
  /-- `LineText` is a sub-slice `Source[a:b]` once set; `none` = still nil -/
  text : Option (Nat × Nat) := none
  deriving Repr, DecidableEq

structure Lexer where
  src : Array Nat
  indentType : Nat := 0
  lines : Array LineInfo := #[]
  cursor : Nat := 0
  beginLex : Bool := true
  deriving Repr

def runeEOF : Nat := 0
def runeSP : Nat := 0x20
def runeTAB : Nat := 0x09
def runeCR : Nat := 0x0D
def runeLF : Nat := 0x0A

namespace Lexer

def getChar (l : Lexer) (idx : Nat) : Nat :=
  if h : idx < l.src.size then l.src[idx] else runeEOF

def cur (l : Lexer) : Nat := l.getChar l.cursor
def peek (l : Lexer) : Nat := l.getChar (l.cursor + 1)
def peek2 (l : Lexer) : Nat := l.getChar (l.cursor + 2)
def peek3 (l : Lexer) : Nat := l.getChar (l.cursor + 3)

/-- `Next`: advance, return the new current char -/
def next (l : Lexer) : Lexer × Nat :=
  let l' := { l with cursor := l.cursor + 1 }
  (l', l'.cur)

def adv (l : Lexer) : Lexer := { l with cursor := l.cursor + 1 }

def setCursor (l : Lexer) (c : Nat) : Lexer := { l with cursor := c }

def pushLine (l : Lexer) (li : LineInfo) : Lexer := { l with lines := l.lines.push li }

end Lexer

/-- a syntax error: code 20–27 and cursor -/
structure SynErr where
  code : Nat
  cursor : Nat
  deriving Repr, DecidableEq

structure Token where
  type : Nat
  literal : List Nat := []
  startIdx : Nat
  endIdx : Nat
  deriving Repr, DecidableEq

end ZnVerif.Model
