/-
Numbers are abstract (DESIGN §3): model and spec are generic over `NumOps ν`, no laws assumed.
The driver instantiates ν := Float (Ops/FloatNum.lean); theorems hold for every ν.
-/
namespace ZnVerif.Model

class NumOps (ν : Type) where
  add : ν → ν → ν
  sub : ν → ν → ν
  mul : ν → ν → ν
  div : ν → ν → ν
  floor : ν → ν
  ceil : ν → ν
  sqrt : ν → ν
  /-- Go `==` on float64 -/
  eq : ν → ν → Bool
  lt : ν → ν → Bool
  gt : ν → ν → Bool
  le : ν → ν → Bool
  ge : ν → ν → Bool
  /-- `x == 0` -/
  isZero : ν → Bool
  /-- `x <= 0` -/
  leZero : ν → Bool
  /-- `float64(n)` for a length / index -/
  ofInt : Int → ν
  /-- Go `int(x)` (implementation-defined outside the int64 range) -/
  toInt : ν → Int
  /-- strconv.ParseFloat of the text produced by `parseFloatText`; errors ignored as in Go (`f, _ :=`) -/
  parse : List Nat → ν
  /-- fmt.Sprintf("%v", x) -/
  fmt : ν → String

end ZnVerif.Model
