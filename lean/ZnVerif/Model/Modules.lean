/-
Model of the module loader of DemoHn/Zn (property C15), independent of the evaluator model.

Mirrors, as repaired by patches/fix-c15-cycle-edge.patch and patches/fix-c15-module-exports.patch; the finder of
`LoadFile` has two variants: `Variant.repaired` = with fix 420e70b (a module name with a part that is empty, `.`, `..` or
contains `/` or `\` is ModuleNotFound before any path is built), `Variant.pinned` = before it (any name is joined and
cleaned by `filepath.Join`, so several names denote one file and `..` leaves the main file's directory):

  pkg/runtime/module.go   ParseLibName, ModuleGraph (AddModule, AddDependency, GetIDFromName),
                          checkCircularDepedencyDFS
  pkg/runtime/vm.go       AllocateModule, FindModuleByName, AddModuleDependency, CheckDepedency, PushCallFrame,
                          PopCallFrame, BeginScope/EndScope, FindElementWithModule, FindElement,
                          DeclareConstElement, DeclareExternalElement, SetElement
  pkg/runtime/scope.go    Scope (locals, currentDepth, externalRefs keyed by symbol id)
  pkg/exec/interpreter.go LoadFile's finder (name → path), Execute
  pkg/exec/eval.go        EvalMainModule, evalProgram, evalExecBlock/evalStmtBlock/evalPureStmtBlock (scope levels,
                          hoisted definitions), evalImportStmt, execAnotherModule, execDirectFunction, evalNewObject,
                          the constructor closure of evalConstructorDeclareStmt
  pkg/value/function.go   Function.Exec (a runtime error leaving a method becomes an exception: code 0)

The source fragment: a module = import statements, then a body of items
  marker k          （显示：k）
  defn d            如何 d.name？ / 定义 d.name + 如何新建 d.name？   body = display d.mark, then the listed uses
  use (call n)      （n）
  use (new n)       （新建 n）
  assign n          n = 1
Go maps are association lists; the two `range` sites over maps take an explicit order oracle (`Oracle`).
Unbounded recursion runs on fuel (`Err.loadFuel`, `Err.callFuel`); Go panics are `Err.panic`.
Core Lean only.
-/
namespace ZnVerif.Model.Modules

/-- texts are code-point lists -/
abbrev Name := List Nat

/-- association list read with Go-map semantics (first hit) -/
def assoc {α β} [DecidableEq α] (k : α) : List (α × β) → Option β
  | [] => none
  | (a, b) :: r => if a = k then some b else assoc k r

/-- map write: replace the binding of `k`, or add one -/
def aset {α β} [DecidableEq α] (k : α) (v : β) : List (α × β) → List (α × β)
  | [] => [(k, v)]
  | (a, b) :: r => if a = k then (k, v) :: r else (a, b) :: aset k v r

/-! ## source fragment -/

inductive Kind | method | type
  deriving DecidableEq, Repr

inductive Use
  | call (n : Name)
  | new (n : Name)
  deriving DecidableEq, Repr

structure Def where
  name : Name
  kind : Kind
  mark : Nat
  uses : List Use
  deriving DecidableEq, Repr

inductive Item
  | marker (k : Nat)
  | defn (d : Def)
  | use (u : Use)
  | assign (n : Name)
  deriving DecidableEq, Repr

structure Imp where
  name : Name
  items : List Name
  deriving DecidableEq, Repr

/-- `syntax.Program`: ImportBlock, then the statements of the ExecBlock -/
structure ModuleSrc where
  imports : List Imp
  body : List Item
  deriving DecidableEq, Repr

/-- path below the main file's directory: directory segments, then the file name -/
abbrev Path := List Name
abbrev Files := List (Path × ModuleSrc)
/-- registered libraries: name as written in the import (with `@`) ↦ exported names -/
abbrev Libs := List (Name × List Name)

/-! ## ParseLibName and the finder of LoadFile -/

/-- `strings.Split(s, sep)` for a one-character separator -/
def splitOn (sep : Nat) : List Nat → List (List Nat)
  | [] => [[]]
  | c :: cs =>
    if c = sep then [] :: splitOn sep cs
    else match splitOn sep cs with
      | [] => [[c]]
      | h :: t => (c :: h) :: t

inductive LibType | std | vendor | custom
  deriving DecidableEq, Repr

structure LibNameInfo where
  originalName : Name
  libType : LibType
  libPath : List Name
  deriving DecidableEq, Repr

def chAt : Nat := 0x40
def chDash : Nat := 0x2D

def parseLibName (n : Name) : LibNameInfo :=
  match n with
  | c :: rest => if c = chAt then ⟨n, .std, splitOn chDash rest⟩ else ⟨n, .custom, splitOn chDash n⟩
  | [] => ⟨n, .custom, splitOn chDash n⟩

/-- ".zn" -/
def znSuffix : Name := [0x2E, 0x7A, 0x6E]

/-- `dirs[len(dirs)-1] += ".zn"`; `none` = index panic on an empty slice (Split never returns one) -/
def addZn : List Name → Option Path
  | [] => none
  | [x] => some [x ++ znSuffix]
  | x :: y :: r => (addZn (y :: r)).map (x :: ·)

/-- what the finder answers for a non-main module -/
inductive Found
  | src (s : ModuleSrc)
  | emptySrc          -- LIB_TYPE_STD: empty source
  | notFound          -- ModuleNotFound: the name is rejected, or os.Stat says the file does not exist
  | panic

/-- which tree the finder of `LoadFile` mirrors: `pinned` builds the path of any name with `filepath.Join` (which cleans
    it); `repaired` (fix 420e70b) first rejects a name with a part that is not a plain file name -/
inductive Variant
  | pinned
  | repaired
  deriving DecidableEq, Repr

def chSlash : Nat := 0x2F
def chBackslash : Nat := 0x5C
/-- "." -/
def dot : Name := [0x2E]
/-- ".." -/
def dotdot : Name := [0x2E, 0x2E]

/-- the test of the repaired `LoadFile` on one part of the name:
    `part == "" || part == "." || part == ".." || strings.ContainsAny(part, "/\\")` is a rejection -/
def validPart (p : Name) : Bool :=
  !(p == [] || p == dot || p == dotdot || p.contains chSlash || p.contains chBackslash)

/-- `for _, part := range dirs { if … { return nil, ModuleNotFound } }` -/
def validParts (parts : List Name) : Bool := parts.all validPart

/-- one component in `filepath.Clean`, on the components seen so far (last one first): an empty component and `.` are
    dropped, `..` removes the component before it — or stays when there is none left (the path leaves the directory) -/
def cleanStep (stack : List Name) (c : Name) : List Name :=
  if c = [] ∨ c = dot then stack
  else if c = dotdot then
    match stack with
    | [] => [dotdot]
    | t :: r => if t = dotdot then dotdot :: t :: r else r
  else c :: stack

/-- `filepath.Join(rootDir, filepath.Join(dirs...))` read relative to `rootDir` (Linux: `/` is the only separator): the
    elements are cut at every `/`, then cleaned.  Leading `..` components of the result denote directories ABOVE the
    main file's directory (as deep as `rootDir` has parents; that a path may come back into `rootDir` through the
    directory's own name is not modelled). -/
def cleanPath (p : Path) : Path := ((p.flatMap (splitOn chSlash)).foldl cleanStep []).reverse

/-- what `LoadFile` does with the parts of a custom module name before it looks at the file system -/
inductive Resolved
  | path (p : Path)     -- the file it will stat, relative to the main file's directory
  | rejected            -- ModuleNotFound before any path is built (repaired tree only)
  | panic               -- `dirs[len(dirs)-1]` on an empty slice
  deriving DecidableEq, Repr

def resolveParts (v : Variant) (parts : List Name) : Resolved :=
  match v with
  | .repaired =>
    if validParts parts then
      match addZn parts with
      | some p => .path p       -- `filepath.Join` leaves such a path as it is (Proofs.ModulesFile.cleanPath_valid)
      | none => .panic
    else .rejected
  | .pinned =>
    match addZn parts with
    | some p => .path (cleanPath p)
    | none => .panic

/-- LoadFile's finder with isMain = false, over a file table keyed by the path relative to the main file's directory
    (a key may start with `..` components: a file outside that directory, which only the pinned finder can reach) -/
def finder (v : Variant) (files : Files) (info : LibNameInfo) : Found :=
  match info.libType with
  | .std => .emptySrc
  | .vendor => .notFound      -- moduleFullPath = "" : os.Stat("") does not exist
  | .custom =>
    match resolveParts v info.libPath with
    | .panic => .panic
    | .rejected => .notFound
    | .path p => match assoc p files with
      | some s => .src s
      | none => .notFound

/-- the file a module name denotes for the finder, if any (`none` for a library name, a rejected name, a panic) -/
def resolveName (v : Variant) (n : Name) : Option Path :=
  match (parseLibName n).libType with
  | .custom =>
    match resolveParts v (parseLibName n).libPath with
    | .path p => some p
    | _ => none
  | _ => none

/-! ## checkCircularDepedencyDFS -/

abbrev Graph := List (Nat × Nat)

inductive Colour | white | grey | black
  deriving DecidableEq, Repr

/-- `adj[u]` after the building loop: the targets of u's edges, in edge order -/
def adjOf (g : Graph) (u : Nat) : List Nat :=
  g.filterMap (fun e => if e.1 = u then some e.2 else none)

/-- the keys of `adj` (every end point of every edge; repetitions are harmless, a Go map has each key once) -/
def nodes (g : Graph) : List Nat := g.flatMap (fun e => [e.1, e.2])

/-- the `color` map: writes are prepended, a read takes the first hit, an absent key reads 0 (white) -/
abbrev Colours := List (Nat × Colour)

def look (c : Colours) (u : Nat) : Colour :=
  match c with
  | [] => .white
  | (k, v) :: r => if k = u then v else look r u

/-- the `for _, v := range adj[u]` loop of the closure `dfs`; `rec` is the recursive call -/
def dfsChildren (rec : Colours → Nat → Option (Bool × Colours)) : Colours → List Nat → Option (Bool × Colours)
  | c, [] => some (false, c)
  | c, v :: vs =>
    match look c v with
    | .grey => some (true, c)
    | .white =>
      match rec c v with
      | none => none
      | some (true, c') => some (true, c')
      | some (false, c') => dfsChildren rec c' vs
    | .black => dfsChildren rec c vs

/-- the closure `dfs(u)`; `none` = out of fuel -/
def dfsNode (g : Graph) : Nat → Colours → Nat → Option (Bool × Colours)
  | 0, _, _ => none
  | f + 1, c, u =>
    match dfsChildren (dfsNode g f) ((u, .grey) :: c) (adjOf g u) with
    | none => none
    | some (true, c') => some (true, c')
    | some (false, c') => some (false, (u, .black) :: c')

/-- `for node := range adj { if color[node] == 0 { if dfs(node) { return true } } }` in the order `π` -/
def dfsLoop (g : Graph) (fuel : Nat) : Colours → List Nat → Option Bool
  | _, [] => some false
  | c, n :: ns =>
    match look c n with
    | .white =>
      match dfsNode g fuel c n with
      | none => none
      | some (true, _) => some true
      | some (false, c') => dfsLoop g fuel c' ns
    | _ => dfsLoop g fuel c ns

/-- `checkCircularDepedencyDFS`, the map range taken in the order `π` -/
def checkCircular (g : Graph) (π : List Nat) : Option Bool :=
  dfsLoop g ((nodes g).length + 1) [] π

/-! ## values, scopes -/

inductive Val
  | fn (d : Def)                  -- *value.Function compiled from `如何 d.name？`
  | cls (d : Def) (home : Nat)    -- *value.ClassModel; its constructor closure captured the module `home`
  | native                        -- a library function
  deriving DecidableEq, Repr

structure Sym where
  name : Name
  depth : Int
  isConst : Bool
  val : Val
  deriving DecidableEq, Repr

/-- `runtime.Scope`.  `locals` = `locals[0:localCount]`, most recent first, so the symbol id of an entry is the
    number of entries below it; `extRefs` = `externalRefs` (symbol id ↦ module id). -/
structure Scope where
  locals : List Sym
  depth : Int
  extRefs : List (Nat × Nat)
  deriving DecidableEq, Repr

namespace Scope

def new : Scope := ⟨[], 0, []⟩

def begin (s : Scope) : Scope := { s with depth := s.depth + 1 }

/-- EndScope: `currentDepth--`, then pop every deeper symbol -/
def «end» (s : Scope) : Scope :=
  { s with depth := s.depth - 1, locals := s.locals.dropWhile (fun y => decide (y.depth > s.depth - 1)) }

/-- the search loop of `declareValue` -/
def redeclaredIn (d : Int) (name : Name) : List Sym → Bool
  | [] => false
  | y :: r =>
    if y.depth < d then false
    else if y.name = name ∧ y.depth = d then true
    else redeclaredIn d name r

def declare (s : Scope) (name : Name) (v : Val) (isConst : Bool) : Option Scope :=
  if redeclaredIn s.depth name s.locals then none
  else some { s with locals := ⟨name, s.depth, isConst, v⟩ :: s.locals }

/-- DeclareExternalValue: declared as a constant, then `externalRefs[localCount-1] = moduleID` -/
def declareExternal (s : Scope) (name : Name) (v : Val) (mid : Nat) : Option Scope :=
  match s.declare name v true with
  | none => none
  | some s' => some { s' with extRefs := aset s.locals.length mid s'.extRefs }

/-- getSymbolID: the latest symbol of that name, with its id -/
def findIn (name : Name) : List Sym → Option (Sym × Nat)
  | [] => none
  | y :: r => if y.name = name then some (y, r.length) else findIn name r

def find (s : Scope) (name : Name) : Option (Sym × Nat) := findIn name s.locals

/-- GetValueWithModuleID -/
def getValueWithModuleID (s : Scope) (name : Name) : Option (Val × Option Nat) :=
  match s.find name with
  | none => none
  | some (y, id) => some (y.val, assoc id s.extRefs)

/-- SetValue on a name: 44 for a constant, 42 for an unknown name (`none` = the write succeeds; no item of the
    fragment declares a variable, so the new value is not kept) -/
def setValueCode (s : Scope) (name : Name) : Option Nat :=
  match s.find name with
  | none => some 42
  | some (y, _) => if y.isConst then some 44 else none

end Scope

/-! ## the VM -/

structure Module where
  name : Name
  exports : List (Name × Val)     -- exportValues
  deriving DecidableEq, Repr

/-- program points recorded for the theorems (not observable in Go except through body markers) -/
inductive Ev
  | enter (m : Nat)   -- module allocated, its imports start
  | body (m : Nat)    -- its own statements start
  | done (m : Nat)    -- its body has ended
  | lib (m : Nat)     -- a library module has been made available
  deriving DecidableEq, Repr

structure VM where
  modules : List Module           -- ModuleGraph.modules, id = index
  graph : Graph                   -- ModuleGraph.graph
  nameMap : List (Name × Nat)     -- ModuleGraph.moduleNameMap
  scopes : List (Nat × Scope)     -- valueStack
  stack : List Nat                -- callStack (module id of each frame), top first
  cs : Option Nat                 -- csModuleID (`none` = -1)
  trace : List Nat                -- displayed markers, most recent first
  log : List Ev                   -- most recent first
  deriving Repr

inductive Err
  | code (n : Nat)
  | panic
  | loadFuel
  | callFuel
  | unsupported      -- a library function called (outside the fragment)
  deriving DecidableEq, Repr

/-- a failed step carries the VM at the point of failure (trace, graph, log) -/
inductive Res (α : Type)
  | ok (a : α)
  | err (e : Err) (vm : VM)

/-- "主模块" -/
def mainName : Name := [0x4E3B, 0x6A21, 0x5757]

namespace VM

def init : VM := ⟨[], [], [], [], [], none, [], []⟩

def findModuleByName (vm : VM) (name : Name) : Option Nat := assoc name vm.nameMap

/-- ModuleGraph.AddModule -/
def addModule (vm : VM) (src : Option Nat) (name : Name) : VM × Nat :=
  let id := vm.modules.length
  ({ vm with
      modules := vm.modules ++ [⟨name, []⟩]
      graph := match src with
        | some s => vm.graph ++ [(s, id)]
        | none => vm.graph
      nameMap := aset name id vm.nameMap }, id)

/-- VM.AllocateModule -/
def allocateModule (vm : VM) (name : Name) : VM × Nat :=
  match vm.findModuleByName name with
  | some id => (vm, id)
  | none =>
    let r := vm.addModule vm.cs name
    ({ r.1 with cs := some r.2 }, r.2)

/-- VM.AddModuleDependency → ModuleGraph.AddDependency (repaired code: called for an import of an already
    allocated module) -/
def addModuleDependency (vm : VM) (name : Name) : VM :=
  match assoc name vm.nameMap with
  | none => vm
  | some id =>
    match vm.cs with
    | some s => { vm with graph := vm.graph ++ [(s, id)], nameMap := aset name id vm.nameMap }
    | none => { vm with nameMap := aset name id vm.nameMap }   -- [2]int{-1, id}: never happens (a frame is always active)

def pushFrame (vm : VM) (mid : Nat) : VM :=
  { vm with
      stack := mid :: vm.stack
      cs := some mid
      scopes := match assoc mid vm.scopes with
        | some _ => vm.scopes
        | none => aset mid Scope.new vm.scopes }

/-- PopCallFrame; `none` = slice-bounds panic on an empty stack -/
def popFrame (vm : VM) : Option VM :=
  match vm.stack with
  | [] => none
  | _ :: r => some { vm with stack := r, cs := r.head? }

def curScope (vm : VM) : Option (Nat × Scope) :=
  match vm.cs with
  | none => none
  | some m => match assoc m vm.scopes with
    | none => none
    | some s => some (m, s)

def setScope (vm : VM) (m : Nat) (s : Scope) : VM := { vm with scopes := aset m s vm.scopes }

def beginScope (vm : VM) : VM :=
  match vm.curScope with
  | none => vm
  | some (m, s) => vm.setScope m s.begin

def endScope (vm : VM) : VM :=
  match vm.curScope with
  | none => vm
  | some (m, s) => vm.setScope m s.end

def display (vm : VM) (k : Nat) : VM := { vm with trace := k :: vm.trace }
def record (vm : VM) (e : Ev) : VM := { vm with log := e :: vm.log }

/-- DeclareConstElement (predefined global names are outside the fragment) -/
def declareConst (vm : VM) (name : Name) (v : Val) : Res VM :=
  match vm.curScope with
  | none => .err (.code 42) vm
  | some (m, s) => match s.declare name v true with
    | none => .err (.code 43) vm
    | some s' => .ok (vm.setScope m s')

/-- DeclareExternalElement -/
def declareExternal (vm : VM) (name : Name) (v : Val) (mid : Nat) : Res VM :=
  match vm.curScope with
  | none => .err (.code 42) vm
  | some (m, s) => match s.declareExternal name v mid with
    | none => .err (.code 43) vm
    | some s' => .ok (vm.setScope m s')

/-- FindElementWithModule: the value and the id of the module a frame for it is routed to -/
def findWithModule (vm : VM) (name : Name) : Option (Val × Nat) :=
  match vm.curScope with
  | none => none
  | some (m, s) => match s.getValueWithModuleID name with
    | none => none
    | some (v, some ext) => some (v, ext)
    | some (v, none) => some (v, m)

/-- FindElement -/
def findElement (vm : VM) (name : Name) : Option Val :=
  match vm.curScope with
  | none => none
  | some (_, s) => (s.find name).map (fun p => p.1.val)

def addExport (vm : VM) (m : Nat) (name : Name) (v : Val) : Option VM :=
  match vm.modules[m]? with
  | none => none
  | some md =>
    match assoc name md.exports with
    | some _ => none
    | none => some { vm with modules := vm.modules.set m { md with exports := md.exports ++ [(name, v)] } }

def exportsOf (vm : VM) (m : Nat) : List (Name × Val) :=
  match vm.modules[m]? with
  | none => []
  | some md => md.exports

end VM

/-- order oracles for the two kinds of `range` over a Go map -/
structure Oracle where
  dfsOrder : Graph → List Nat                              -- `for node := range adj`
  exportOrder : List (Name × Val) → List (Name × Val)      -- `for name, val := range exportValues`

/-! ## statements of a body -/

/-- a method body / constructor body: two scope levels (evalExecBlock, evalPureStmtBlock), the marker, the uses -/
def runUses (rec : VM → Use → Res VM) : VM → List Use → Res VM
  | vm, [] => .ok vm
  | vm, u :: us => match rec vm u with
    | .err e vm' => .err e vm'
    | .ok vm' => runUses rec vm' us

/-- Function.Exec: a `*zerr.RuntimeError` leaving a method is turned into an exception (displayed without a code) -/
def methodErr : Err → Err
  | .code _ => .code 0
  | e => e

/-- `（n）` (execDirectFunction) and `（新建 n）` (evalNewObject + the constructor closure) -/
def useName : Nat → VM → Use → Res VM
  | 0, vm, _ => .err .callFuel vm
  | f + 1, vm, .call n =>
    match vm.findWithModule n with
    | none => .err (.code 42) vm
    | some (v, home) =>
      let vm1 := vm.pushFrame home
      match v with
      | .fn d =>
        let vm2 := (vm1.beginScope.beginScope).display d.mark
        match runUses (useName f) vm2 d.uses with
        | .err e vm' => .err (methodErr e) vm'
        | .ok vm3 =>
          match (vm3.endScope.endScope).popFrame with
          | none => .err .panic vm3
          | some vm4 => .ok vm4
      | .cls _ _ => .err (.code 81) vm1
      | .native => .err .unsupported vm1
  | f + 1, vm, .new n =>
    match vm.findElement n with
    | none => .err (.code 42) vm
    | some (.cls d home) =>
      let vm1 := vm.pushFrame home
      let vm2 := (vm1.beginScope.beginScope).display d.mark
      match runUses (useName f) vm2 d.uses with
      | .err e vm' => .err e vm'
      | .ok vm3 =>
        match (vm3.endScope.endScope).popFrame with
        | none => .err .panic vm3
        | some vm4 => .ok vm4
    | some _ => .err (.code 82) vm

/-- the value a definition evaluates to in module `m`: a function, or a class whose constructor captured `m` -/
def valOfDef (d : Def) (m : Nat) : Val :=
  match d.kind with
  | .method => Val.fn d
  | .type => Val.cls d m

/-- first pass of evalStmtBlock: declare every method / type of the block, in order -/
def hoistDefs : VM → List Item → Res VM
  | vm, [] => .ok vm
  | vm, .defn d :: r =>
    match vm.cs with
    | none => .err .panic vm                 -- GetCurrentModule() = nil
    | some m =>
      match vm.declareConst d.name (valOfDef d m) with
      | .err e vm' => .err e vm'
      | .ok vm1 =>
        match vm1.addExport m d.name (valOfDef d m) with
        | none => .err (.code 43) vm1
        | some vm2 => hoistDefs vm2 r
  | vm, _ :: r => hoistDefs vm r

/-- evalPureStmtBlock over the remaining statements -/
def runItems (callFuel : Nat) : VM → List Item → Res VM
  | vm, [] => .ok vm
  | vm, .marker k :: r => runItems callFuel (vm.display k) r
  | vm, .defn _ :: r => runItems callFuel vm r
  | vm, .use u :: r =>
    match useName callFuel vm u with
    | .err e vm' => .err e vm'
    | .ok vm' => runItems callFuel vm' r
  | vm, .assign n :: r =>
    match vm.curScope with
    | none => .err (.code 42) vm
    | some (_, s) => match s.setValueCode n with
      | some c => .err (.code c) vm
      | none => runItems callFuel vm r

/-- evalExecBlock of a module body (no parameters, no handlers); the deferred EndScope calls of a failing block
    are not modelled, a failure ends the run -/
def evalBody (callFuel : Nat) (vm : VM) (body : List Item) : Res VM :=
  match body with
  | [] => .ok vm                                 -- program.ExecBlock == nil
  | _ =>
    match hoistDefs vm.beginScope body with
    | .err e vm' => .err e vm'
    | .ok vm1 =>
      match runItems callFuel vm1.beginScope body with
      | .err e vm' => .err e vm'
      | .ok vm2 => .ok vm2.endScope.endScope

/-! ## imports -/

def declareExternals (mid : Nat) : VM → List (Name × Val) → Res VM
  | vm, [] => .ok vm
  | vm, (n, v) :: r =>
    match vm.declareExternal n v mid with
    | .err e vm' => .err e vm'
    | .ok vm' => declareExternals mid vm' r

/-- the selected export values, in the order of the import list (unknown names are skipped) -/
def selectExports (exports : List (Name × Val)) : List Name → List (Name × Val)
  | [] => []
  | n :: r => match assoc n exports with
    | some v => (n, v) :: selectExports exports r
    | none => selectExports exports r

/-- last part of evalImportStmt: bring the names into the importer's scope -/
def bindImports (O : Oracle) (vm : VM) (mid : Nat) (items : List Name) : Res VM :=
  match items with
  | [] => declareExternals mid vm (O.exportOrder (vm.exportsOf mid))
  | _ => declareExternals mid vm (selectExports (vm.exportsOf mid) items)

/-- VM.CheckDepedency -/
def checkDependency (O : Oracle) (vm : VM) (name : Name) : Res VM :=
  match assoc name vm.nameMap with
  | none => .ok vm
  | some _ =>
    match checkCircular vm.graph (O.dfsOrder vm.graph) with
    | none => .err .loadFuel vm
    | some true => .err (.code 63) vm
    | some false => .ok vm

def addExportsIgnoringDup (m : Nat) : VM → List (Name × Val) → VM
  | vm, [] => vm
  | vm, (n, v) :: r => match vm.addExport m n v with
    | some vm' => addExportsIgnoringDup m vm' r
    | none => addExportsIgnoringDup m vm r

/-- evalImportStmt; `load` = execAnotherModule -/
def evalImport (O : Oracle) (libs : Libs) (load : VM → LibNameInfo → Res (VM × Nat)) (vm : VM) (imp : Imp) : Res VM :=
  let info := parseLibName imp.name
  match info.libType with
  | .std =>
    let a := vm.allocateModule imp.name
    match assoc imp.name libs with
    | none => .err (.code 64) a.1
    | some names =>
      let vm1 := a.1.pushFrame a.2
      let vm2 := addExportsIgnoringDup a.2 vm1 (O.exportOrder (names.map (fun n => (n, Val.native))))
      match vm2.popFrame with
      | none => .err .panic vm2
      | some vm3 => bindImports O (vm3.record (.lib a.2)) a.2 imp.items
  | .vendor => .ok vm
  | .custom =>
    match vm.findModuleByName imp.name with
    | none =>
      match load vm info with
      | .err e vm' => .err e vm'
      | .ok (vm1, mid) =>
        match checkDependency O vm1 imp.name with
        | .err e vm' => .err e vm'
        | .ok vm2 => bindImports O vm2 mid imp.items
    | some mid =>
      match checkDependency O (vm.addModuleDependency imp.name) imp.name with
      | .err e vm' => .err e vm'
      | .ok vm2 => bindImports O vm2 mid imp.items

def evalImports (O : Oracle) (libs : Libs) (load : VM → LibNameInfo → Res (VM × Nat)) : VM → List Imp → Res VM
  | vm, [] => .ok vm
  | vm, i :: r =>
    match evalImport O libs load vm i with
    | .err e vm' => .err e vm'
    | .ok vm' => evalImports O libs load vm' r

/-- evalProgram for the module whose frame is on top (`m` only names the program points) -/
def evalProgram (O : Oracle) (libs : Libs) (callFuel : Nat) (load : VM → LibNameInfo → Res (VM × Nat))
    (vm : VM) (m : Nat) (src : ModuleSrc) : Res VM :=
  match evalImports O libs load vm src.imports with
  | .err e vm' => .err e vm'
  | .ok vm1 =>
    match evalBody callFuel (vm1.record (.body m)) src.body with
    | .err e vm' => .err e vm'
    | .ok vm2 => .ok (vm2.record (.done m))

/-- after the body (repaired code): one more scope level in the module's own scope, holding its methods and types -/
def redeclareExports : VM → List (Name × Val) → Res VM
  | vm, [] => .ok vm
  | vm, (n, v) :: r =>
    match vm.declareConst n v with
    | .err e vm' => .err e vm'
    | .ok vm' => redeclareExports vm' r

/-- execAnotherModule -/
def loadModule (v : Variant) (O : Oracle) (files : Files) (libs : Libs) (callFuel : Nat) :
    Nat → VM → LibNameInfo → Res (VM × Nat)
  | 0, vm, _ => .err .loadFuel vm
  | f + 1, vm, info =>
    match finder v files info with
    | .panic => .err .panic vm
    | .notFound => .err (.code 60) vm
    | .emptySrc => .err (.code 60) vm      -- not reached: evalImportStmt never loads a std name this way
    | .src src =>
      let a := vm.allocateModule info.originalName
      let vm1 := (a.1.pushFrame a.2).record (.enter a.2)
      match evalProgram O libs callFuel (loadModule v O files libs callFuel f) vm1 a.2 src with
      | .err e vm' => .err e vm'
      | .ok vm2 =>
        match redeclareExports vm2.beginScope (O.exportOrder (vm2.exportsOf a.2)) with
        | .err e vm' => .err e vm'
        | .ok vm3 =>
          match vm3.popFrame with
          | none => .err .panic vm3
          | some vm4 => .ok (vm4, a.2)

/-! ## Interpreter.Execute on a file -/

structure Outcome where
  trace : List Nat          -- in display order
  err : Option Err
  vm : VM

def finish (r : Res VM) : Outcome :=
  match r with
  | .ok vm => ⟨vm.trace.reverse, none, vm⟩
  | .err e vm => ⟨vm.trace.reverse, some e, vm⟩

/-- EvalMainModule on the file `mainPath` -/
def runWith (v : Variant) (O : Oracle) (files : Files) (libs : Libs) (loadFuel callFuel : Nat) (mainSrc : ModuleSrc) :
    Res VM :=
  let a := VM.init.allocateModule mainName
  let vm1 := (a.1.pushFrame a.2).record (.enter a.2)
  match evalProgram O libs callFuel (loadModule v O files libs callFuel loadFuel) vm1 a.2 mainSrc with
  | .err e vm' => .err e vm'
  | .ok vm2 =>
    match vm2.popFrame with
    | none => .err .panic vm2
    | some vm3 => .ok vm3

/-- enough for every load of the repaired tree: each nested load allocates a new module whose file exists, and different
    names have different files (on the pinned tree several names share one file, so this bound is not enough there: such a
    run may end with `Err.loadFuel`) -/
def loadFuelFor (files : Files) : Nat := files.length + 1

def run (v : Variant) (O : Oracle) (files : Files) (libs : Libs) (callFuel : Nat) (mainPath : Path) : Outcome :=
  match assoc mainPath files with
  | none => ⟨[], some (.code 60), VM.init⟩
  | some src => finish (runWith v O files libs (loadFuelFor files) callFuel src)

/-- the identity oracle used by the driver: DFS starts in first-occurrence order, exports in insertion order -/
def Oracle.default : Oracle := ⟨fun g => nodes g, fun l => l⟩

end ZnVerif.Model.Modules
