/-
Model of the recursive-descent parser: pkg/syntax/zh/zh_parser.go (token window, `next`, `meetStmtLineBreak`,
`tryConsume`, `consume`, `expectBlockIndent`, error builders), every production of pkg/syntax/zh/zh_ast.go, and
`Parser.Parse` of pkg/syntax/parser.go (the `recover`).

* The lexer is a parameter: `LexOps σ` gives `nextToken` and the `Lines` table *as known so far* of a lexer state `σ`
  (the parser reads `Lines` lazily through `FindLineIdx` / `GetLineInfo`).
* The ~35 mutually recursive Go functions (and their local closures / `for` loops) are ONE function
  `parse : Nat → (nt : NT) → PM σ nt.Out`, the tag `NT` carrying the arguments and loop accumulators; `parse (n+1) = step n (parse n)`
  where `step` is not recursive (every recursive call goes through its argument `rec`).  Each production is its own
  definition taking `rec`, so that a property is proved per production and lifted by one induction on the fuel.
* Outcomes: `ok`, `err e` (a `panic(*SyntaxError)`, returned by `Parse` as that error), `panic` (a Go run-time panic:
  nil dereference; `Parse`'s `recover` turns it into an `error` that is not a `*SyntaxError`), `fuel` (out of fuel = the
  Go code would still be running).
* `Variant` switches the three repairs (patches/fix-c05-*.patch, fix-c03-*.patch) on and off; `Variant.fixed` mirrors the repaired
  tree, `Variant.legacy` the pinned one.
* Two later repairs of *positions* (no change of what is accepted, nor of the shape of the tree):
  (4) `ParseAST`'s "tokens remain after the top-level block" error is built with `getInvalidSyntaxPeek` (the first left-over
  token) instead of `getInvalidSyntaxCurr` (the last accepted token, on the line before) — under the variant (`leftoverFix`): no
  rendering reaches that place, so the theorems stated for every variant keep holding for every variant;
  (5) `ParseProgram` records the line of a 导入 statement (`setStmtCurrentLine(stmt, tk)`, `tk` = the 导入 token; before, the line
  stayed 0) — NOT under the variant: it changes the tree that is returned, and the round-trip theorems of C03 are stated for every
  variant against ONE rendering relation (`LinProgram`), which now says "the line of the 导入 token".  In this single line field
  `Variant.legacy` therefore is the repaired code, not the pinned one;
  (6) `ParseProgram` swallows every `；` that directly follows a 导入 statement (`for { tryConsume(TypeStmtSep) }`; before, the `；`
  ended the import section: a following 导入 was syntax error 20, a following statement had an empty statement before it) — NOT
  under the variant either, for the same reason: it changes which texts are accepted and the tree, and `LinImports` (one relation for
  every variant) now renders `导入《甲》；导入《乙》`;
  (7) `calleeTailParser` (inside `ParseMemberExpr`) records the line of a member expression `x 之 p` / `其 p`
  (`setStmtCurrentLine(memberExpr, tk)`, `tk` = the member-name token; before, the line stayed 0, so an error raised by the statement
  `A之不存在` was reported at line 1) — NOT under the variant, for the reason of (5): it changes the tree that is returned, and
  `LinX` (one relation for every variant) now says "the line of the member-name token" in its clauses `this` and `dot`.  In this
  line field, too, `Variant.legacy` is the repaired code;
  (8) `ParseExecBlock`'s "the block ended while still in its 输入 section" error is built with `getInvalidSyntaxPeek` (the token
  that ended the block: an over-indented or dedented line right after the 输入 line, or the end of the text) instead of
  `getInvalidSyntaxCurr` (the last token of the 输入 line) — under the variant (`inputStateFix`), like (4): no rendering reaches
  that place, so the theorems stated for every variant keep holding for every variant.
-/
import ZnVerif.Model.LexCore
import ZnVerif.Model.Ast
import ZnVerif.Generated.Tokens
import ZnVerif.Generated.ParserTables

namespace ZnVerif.Model.Parser
open ZnVerif.Model
open ZnVerif.Generated.Tokens ZnVerif.Generated.ParserTables

/-- what one call of `zh.NextToken` gives: a token, a `*SyntaxError`, or a Go run-time panic inside the lexer -/
inductive TokRes where
  | tok (t : Token)
  | err (e : SynErr)
  | panic
  deriving Repr, DecidableEq

/-- what the parser needs from the lexer -/
structure LexOps (σ : Type) where
  /-- `zh.NextToken(l)` and the lexer afterwards -/
  nextToken : σ → TokRes × σ
  /-- `l.Lines` as known in this state -/
  lines : σ → Array LineInfo

structure Variant where
  /-- fix (1): a statement after a 拦截 block is a syntax error (legacy: the loop consumes nothing, forever) -/
  catchFix : Bool
  /-- fix (2): 如果 must be followed by its condition even at end of input (legacy: empty BranchStmt) -/
  ifFix : Bool
  /-- fix (3): the error builders tolerate a missing current token (legacy: nil dereference) -/
  nilFix : Bool
  /-- fix (4): the error for tokens left over after the top-level block is positioned at the first left-over token
  (legacy: at the last accepted token) -/
  leftoverFix : Bool
  /-- fix (8): the error for an exec block that ends while still in its 输入 section is positioned at the token that ended
  the block, or at the end of the text (legacy: at the last accepted token — the last token of the 输入 line) -/
  inputStateFix : Bool
  deriving Repr, DecidableEq

def Variant.fixed : Variant := ⟨true, true, true, true, true⟩
def Variant.legacy : Variant := ⟨false, false, false, false, false⟩

/-- `ParserZH` after its first `next()` (before it `TokenP2` is nil and nothing reads it) -/
structure PState (σ : Type) where
  lex : σ
  /-- `TokenP1` — nil until the second `next()` -/
  p1 : Option Token
  /-- `TokenP2` -/
  p2 : Token
  sl1 : Nat
  el1 : Nat
  sl2 : Nat
  el2 : Nat
  flag : Bool

inductive Res (σ : Type) (α : Type) where
  | ok (a : α) (s : PState σ)
  | err (e : SynErr)
  | panic
  | fuel

abbrev PM (σ : Type) (α : Type) := PState σ → Res σ α

@[inline] def PM.pure {σ α} (a : α) : PM σ α := fun s => .ok a s
@[inline] def PM.bind {σ α β} (x : PM σ α) (f : α → PM σ β) : PM σ β := fun s =>
  match x s with
  | .ok a s' => f a s'
  | .err e => .err e
  | .panic => .panic
  | .fuel => .fuel

instance {σ} : Monad (PM σ) where
  pure := PM.pure
  bind := PM.bind

def getS {σ} : PM σ (PState σ) := fun s => .ok s s
def modifyS {σ} (f : PState σ → PState σ) : PM σ Unit := fun s => .ok () (f s)
def throwErr {σ α} (e : SynErr) : PM σ α := fun _ => .err e
def goPanic {σ α} : PM σ α := fun _ => .panic

/-- the loop of `Lexer.FindLineIdx`; `k` bounds the passes (each pass advances `i`, and `i + 1 < len` ends the loop) -/
def findLineIdxAux (lines : Array LineInfo) (cursor : Nat) : Nat → Nat → Nat
  | 0, i => i
  | k + 1, i =>
    if h : i + 1 < lines.size then
      if cursor < lines[i + 1].startIdx then i else findLineIdxAux lines cursor k (i + 1)
    else i

/-- `Lexer.FindLineIdx(cursor, startLoopIdx)` -/
def findLineIdx (lines : Array LineInfo) (cursor : Nat) (i : Nat) : Nat :=
  findLineIdxAux lines cursor (lines.size - i) i

/-- `[]rune → string`: code points that are not Unicode scalar values become U+FFFD -/
def runesToString (l : List Nat) : String :=
  String.ofList (l.map fun n => if n < 0xD800 ∨ (0xDFFF < n ∧ n < 0x110000) then Char.ofNat n else Char.ofNat 0xFFFD)

def lookupD (m : List (Nat × Nat)) (k : Nat) (d : Nat) : Nat :=
  match m.find? (fun p => p.1 == k) with
  | some p => p.2
  | none => d

/-- `meetStmtLineBreak` on the window -/
def meetStmtLineBreak (p1 : Option Token) (p2 : Token) (sl2 el1 : Nat) : Bool :=
  match p1 with
  | none => false
  | some cur =>
    if cur.type = cTypeEOF ∨ p2.type = cTypeEOF then true
    else if sl2 > el1 then
      if exceptCurrentTokenTypes.contains cur.type then false
      else if exceptFollowingTokenTypes.contains p2.type then false
      else true
    else false

/-- `meetStmtBreak` -/
def meetStmtBreak {σ} (s : PState σ) : Bool := s.p2.type = cTypeStmtSep ∨ s.p2.type = cTypeEOF

inductive Fetch (σ : Type) where
  | ok (tk : Token) (l : σ)
  | err (e : SynErr)
  | panic
  | fuel

/-- the head of `next()`: `NextToken` until the token is not a comment -/
def fetch {σ} (ops : LexOps σ) : Nat → σ → Fetch σ
  | 0, _ => .fuel
  | n + 1, l =>
    match ops.nextToken l with
    | (.err e, _) => .err e
    | (.panic, _) => .panic
    | (.tok tk, l') => if tk.type = cTypeComment then fetch ops n l' else .ok tk l'

/-- `ParseAST`'s first `next()`: the window is empty, `meetStmtLineBreak` sees a nil current token -/
def initState {σ} (ops : LexOps σ) (fuel : Nat) (l : σ) : Res σ Unit :=
  match fetch ops fuel l with
  | .fuel => .fuel
  | .err e => .err e
  | .panic => .panic
  | .ok tk l' =>
    let lines := ops.lines l'
    .ok () { lex := l', p1 := none, p2 := tk, sl1 := 0, el1 := 0,
             sl2 := findLineIdx lines tk.startIdx 0, el2 := findLineIdx lines tk.endIdx 0, flag := false }

section
variable {σ : Type} (v : Variant) (ops : LexOps σ) (fuel : Nat)

/-- `next()` -/
def next : PM σ Unit := fun s =>
  match fetch ops fuel s.lex with
  | .fuel => .fuel
  | .err e => .err e
  | .panic => .panic
  | .ok tk l' =>
    let lines := ops.lines l'
    let sl2 := findLineIdx lines tk.startIdx s.sl2
    let el2 := findLineIdx lines tk.endIdx s.el2
    .ok () { lex := l', p1 := some s.p2, p2 := tk, sl1 := s.sl2, el1 := s.el2, sl2 := sl2, el2 := el2,
             flag := s.flag || meetStmtLineBreak (some s.p2) tk sl2 s.el2 }

def unsetFlag : PM σ Unit := modifyS fun s => { s with flag := false }
def setFlag : PM σ Unit := modifyS fun s => { s with flag := true }

/-- `tryConsume` after its comma step: give up if the statement is complete, else consume a token of a listed type -/
def tryConsumeCore (tys : List Nat) : PM σ (Option Token) := do
  let s ← getS
  if s.flag then pure none
  else if tys.contains s.p2.type then do
    next ops fuel
    pure (some s.p2)
  else pure none

/-- `tryConsume`: swallow ONE comma, then `tryConsumeCore` -/
def tryConsume (tys : List Nat) : PM σ (Option Token) := do
  let s0 ← getS
  if s0.p2.type = cTypeCommaSep then do
    next ops fuel
    tryConsumeCore ops fuel tys
  else tryConsumeCore ops fuel tys

/-- `for { if match, _ := p.tryConsume(tys…); !match { break } }`: swallow tokens of the listed types as long as `tryConsume`
hands one out.  `k` bounds the passes (each pass consumes a token, so the Go loop ends; out of passes = the Go code would still
be running). -/
def swallowAll (tys : List Nat) : Nat → PM σ Unit
  | 0 => fun _ => .fuel
  | k + 1 => do
    match ← tryConsume ops fuel tys with
    | some _ => swallowAll tys k
    | none => pure ()

/-- start index used by `getInvalidSyntaxPeek` & co.: `TokenP1.StartIdx` is read first (nil dereference in the legacy
code), then `TokenP2.StartIdx` wins -/
def errPeek {α} (code : Nat) : PM σ α := fun s =>
  match s.p1 with
  | none => if v.nilFix then .err ⟨code, s.p2.startIdx⟩ else .panic
  | some _ => .err ⟨code, s.p2.startIdx⟩

/-- `getInvalidSyntaxCurr` -/
def errCurr {α} : PM σ α := fun s =>
  match s.p1 with
  | none => if v.nilFix then .err ⟨20, s.p2.startIdx⟩ else .panic
  | some t => .err ⟨20, t.startIdx⟩

/-- `consume` -/
def consume (tys : List Nat) : PM σ Unit := do
  match ← tryConsume ops fuel tys with
  | some _ => pure ()
  | none => errPeek v 20

/-- `expectBlockIndent`: `GetLineInfo(i).Indents` dereferences nil when `i` is not a known line -/
def expectBlockIndent : PM σ (Option Nat) := fun s =>
  let lines := ops.lines s.lex
  match lines[s.sl2]?, lines[s.sl1]? with
  | some pl, some cl => .ok (if pl.indents = cl.indents + 1 then some pl.indents else none) s
  | _, _ => .panic

def peekIndentOf (s : PState σ) : Nat :=
  match (ops.lines s.lex)[s.sl2]? with
  | some li => li.indents
  | none => 0

def currIndentOf (s : PState σ) : Nat :=
  match (ops.lines s.lex)[s.sl1]? with
  | some li => li.indents
  | none => 0

/-- the line `setStmtCurrentLine(·, tk)` stores -/
def lineOf (tk : Token) : PM σ Nat := fun s => .ok (findLineIdx (ops.lines s.lex) tk.startIdx 0) s

def newID (tk : Token) : PM σ Ident := do
  let l ← lineOf ops tk
  pure { line := l, lit := runesToString tk.literal }

def newString (tk : Token) : PM σ Expr := do
  let l ← lineOf ops tk
  pure (.str l (runesToString tk.literal))

/-- `parseID` / `parseFuncID` (identical bodies) -/
def parseID : PM σ Ident := do
  match ← tryConsume ops fuel [cTypeIdentifier] with
  | some tk => newID ops tk
  | none => errPeek v 20

/-- condition of `parseItemListBlock`'s loop -/
def blockCond (indent : Nat) (s : PState σ) : Bool :=
  s.p2.type ≠ cTypeEOF && peekIndentOf ops s == indent

/-- "a complete statement occupies a line or is followed by ；" -/
def endOfStmt : PM σ Unit := fun s =>
  if s.flag || meetStmtBreak s then .ok () s else errPeek v 20 s

end

/-- states of ParseBranchStmt -/
inductive BrSt where
  | init | ifB | elseB | other
  deriving DecidableEq, Repr

/-- states of ParseExecBlock -/
inductive ExSt where
  | input | stmt | catch_
  deriving DecidableEq, Repr

structure BranchAcc where
  ifE : Expr := .nil
  ifB : Option (List Stmt) := none
  others : List (Expr × Option (List Stmt)) := []
  hasElse : Bool := false
  elseB : Option (List Stmt) := none

def BranchAcc.toStmt (b : BranchAcc) : Stmt := .branch 0 b.ifE b.ifB b.others b.hasElse b.elseB

/-- one tag per Go function / closure / loop, with its arguments and accumulators -/
inductive NT where
  | program
  | programLoop (indent : Nat) (inExec : Bool) (imports : List Import) (exec : Option ExecBlock)
  | statement
  | expr (asVarAssign : Bool)
  | lv1Tail (cfg : Bool) (el : Expr)
  | lv2 (cfg : Bool)
  | lv2Tail (cfg : Bool) (el : Expr)
  | lv3 (cfg : Bool)
  | lv4 (cfg : Bool)
  | arith
  | arithTail (el : Expr)
  | mulDiv
  | mulDivTail (el : Expr)
  | member
  | memberTail (e : Expr)
  | basic
  | array
  | arrayLoop (items : List Expr)
  | hashLoop (kvs : List (Expr × Expr))
  | funcCall (yieldResult : Bool)
  | commaExprs (acc : List Expr)
  | commaIds (acc : List Ident)
  | memberFuncCall
  | chainLoop (chain : List Expr)
  | varDecl
  | varDeclLoop (indent : Nat) (pairs : List (Nat × List Ident × Expr))
  | vdPair
  | objNew
  | whileLoop
  | block (indent : Nat)
  | blockLoop (indent : Nat) (acc : List Stmt)
  | branch
  | branchLoop (mainIndent : Nat) (st : BrSt) (acc : BranchAcc)
  | functionBlock
  | execBlock (indent : Nat)
  | execLoop (indent : Nat) (st : ExSt) (inputs : List Ident) (stmts : List Stmt)
      (catches : List (Option Ident × Option (List Stmt)))
  | varOneLead
  | iteratorRest (ids : List Ident)
  | throwStmt
  | throwLoop (acc : List Expr)
  | catchStmt
  | importStmt
  | classDecl
  | classLoop (indent : Nat) (props : List (Option Ident × Expr)) (methods : List Stmt) (getters : List Stmt)
  | propertyDecl

@[reducible] def NT.Out : NT → Type
  | .program | .programLoop .. => Program
  | .statement | .varDecl | .whileLoop | .branch | .branchLoop .. | .varOneLead | .iteratorRest _
  | .throwStmt | .classDecl => Stmt
  | .classLoop .. => List (Option Ident × Expr) × List Stmt × List Stmt
  | .expr _ | .lv1Tail .. | .lv2 _ | .lv2Tail .. | .lv3 _ | .lv4 _ | .arith | .arithTail _ | .mulDiv | .mulDivTail _
  | .member | .memberTail _ | .basic | .array | .arrayLoop _ | .hashLoop _ | .funcCall _ | .memberFuncCall
  | .objNew => Expr
  | .commaExprs _ | .chainLoop _ | .throwLoop _ => List Expr
  | .commaIds _ => List Ident
  | .varDeclLoop .. => List (Nat × List Ident × Expr)
  | .vdPair => Nat × List Ident × Expr
  | .block _ | .blockLoop .. => List Stmt
  | .functionBlock => Ident × ExecBlock
  | .execBlock _ | .execLoop .. => ExecBlock
  | .catchStmt => Option Ident × Option (List Stmt)
  | .importStmt => Import
  | .propertyDecl => Option Ident × Expr

abbrev Rec (σ : Type) := (nt : NT) → PM σ nt.Out

section productions
variable {σ : Type} (v : Variant) (ops : LexOps σ) (fuel : Nat) (rec : Rec σ)

-- ParseProgram
def pProgram : PM σ Program := do
  let s ← getS
  rec (.programLoop (peekIndentOf ops s) false [] none)

def pProgramLoop (indent : Nat) (inExec : Bool) (imports : List Import) (exec : Option ExecBlock) : PM σ Program := do
  let s ← getS
  if blockCond ops indent s then do
    unsetFlag
    if inExec then do
      let x ← rec (.execBlock indent)
      rec (.programLoop indent true imports (some x))
    else do
      match ← tryConsume ops fuel [cTypeImportW] with
      | some tk => do
        let im ← rec .importStmt
        let l ← lineOf ops tk   -- `p.setStmtCurrentLine(stmt, tk)`, after `ParseImportStmt` has returned
        -- ‹导入语句› [‹间隔符› ‹导入语句›]*: every `；` that directly follows is swallowed (`tryConsume`: not across a statement
        -- line break, and one comma before each is swallowed too)
        swallowAll ops fuel [cTypeStmtSep] fuel
        rec (.programLoop indent false (imports ++ [{ im with line := l }]) exec)
      | none => rec (.programLoop indent true imports exec)
  else pure { imports := imports, exec := exec }

/-- `optional 得到 ID` -/
def optYield : PM σ (Option Ident) := do
  match ← tryConsume ops fuel [cTypeGetResultW] with
  | some _ => do
    let i ← parseID v ops fuel
    pure (some i)
  | none => pure none

-- ParseStatement
def pStatement : PM σ Stmt := do
  unsetFlag
  match ← tryConsume ops fuel stmtValidTypes with
  | some tk =>
    if tk.type = cTypeStmtSep then pure (.empty 0)
    else do
      let body : PM σ Stmt :=
        if tk.type = cTypeDeclareW then rec .varDecl
        else if tk.type = cTypeCondW then rec .branch
        else if tk.type = cTypeFuncW then do
          match ← tryConsume ops fuel [cTypeObjNewW] with
          | some _ => do
            let r ← rec .functionBlock
            pure (.funcDecl 0 (some r.1) cDeclareTypeConstructor (some r.2))
          | none => do
            let r ← rec .functionBlock
            pure (.funcDecl 0 (some r.1) cDeclareTypeFunc (some r.2))
        else if tk.type = cTypeReturnW then do
          let e ← rec (.expr true)
          pure (.ret 0 e)
        else if tk.type = cTypeWhileLoopW then rec .whileLoop
        else if tk.type = cTypeVarOneW then rec .varOneLead
        else if tk.type = cTypeIteratorW then rec (.iteratorRest [])
        else if tk.type = cTypeObjDefineW then rec .classDecl
        else if tk.type = cTypeThrowErrorW then rec .throwStmt
        else if tk.type = cTypeBreakW then pure (.break 0)
        else if tk.type = cTypeContinueW then pure (.continue 0)
        else goPanic   -- `s` stays a nil interface: `s.SetCurrentLine` panics
      let st ← body
      let l ← lineOf ops tk
      endOfStmt v
      pure (st.setLine l)
  | none => do
    let e ← rec (.expr true)
    endOfStmt v
    pure (.expr e)

-- parseExpressionLv1 … Lv4
def pLv1 (cfg : Bool) : PM σ Expr := do
  let l ← rec (.lv2 cfg)
  rec (.lv1Tail cfg l)

def pLv1Tail (cfg : Bool) (el : Expr) : PM σ Expr := do
  match ← tryConsume ops fuel [cTypeLogicOrW] with
  | some tk => do
    let r ← rec (.lv2 cfg)
    let l ← lineOf ops tk
    rec (.lv1Tail cfg (.logic l cLogicOR el r))
  | none => pure el

def pLv2 (cfg : Bool) : PM σ Expr := do
  let l ← rec (.lv3 cfg)
  rec (.lv2Tail cfg l)

def pLv2Tail (cfg : Bool) (el : Expr) : PM σ Expr := do
  match ← tryConsume ops fuel [cTypeLogicAndW] with
  | some tk => do
    let r ← rec (.lv3 cfg)
    let l ← lineOf ops tk
    rec (.lv2Tail cfg (.logic l cLogicAND el r))
  | none => pure el

def pLv3 (cfg : Bool) : PM σ Expr := do
  let el ← rec (.lv4 cfg)
  match ← tryConsume ops fuel lv3ValidTypes with
  | some tk => do
    let r ← rec (.lv4 cfg)
    let l ← lineOf ops tk
    pure (.logic l (lookupD logicTypeMap tk.type 0) el r)
  | none => pure el

def pLv4 (cfg : Bool) : PM σ Expr := do
  let el ← rec .arith
  match ← tryConsume ops fuel (if cfg then lv4ValidTypes ++ lv4VarAssignExtra else lv4ValidTypes) with
  | some tk =>
    if el.isAssignable then do
      let r ← rec .arith
      let l ← lineOf ops tk
      pure (.assign l el r)
    else errPeek v 22
  | none => pure el

-- ParseArithExpr / parseArithMulDivExpr
def pArith : PM σ Expr := do
  let l ← rec .mulDiv
  rec (.arithTail l)

def pArithTail (el : Expr) : PM σ Expr := do
  match ← tryConsume ops fuel addSubTypes with
  | some tk => do
    let r ← rec .mulDiv
    let l ← lineOf ops tk
    rec (.arithTail (.arith l (lookupD addSubOverride tk.type addSubDefault) el r))
  | none => pure el

def pMulDiv : PM σ Expr := do
  let l ← rec .member
  rec (.mulDivTail l)

def pMulDivTail (el : Expr) : PM σ Expr := do
  match ← tryConsume ops fuel mulDivTypes with
  | some tk => do
    let r ← rec .member
    let l ← lineOf ops tk
    rec (.mulDivTail (.arith l (lookupD mulDivTypeMap tk.type 0) el r))
  | none => pure el

-- ParseMemberExpr
/-- `calleeTailParser`: the node it builds gets the line of the member-name token (`p.setStmtCurrentLine(memberExpr, tk)`, repair
(7) of the header; before, it never got a line) -/
def calleeTail (hasRoot : Bool) (rootType : Nat) (root : Expr) : PM σ Expr := do
  match ← tryConsume ops fuel [cTypeIdentifier] with
  | some tk => do
    let i ← newID ops tk
    let l ← lineOf ops tk
    pure (.member l rootType (if hasRoot then root else .nil) cMemberID (some i) .nil)
  | none => errPeek v 20

def pMember : PM σ Expr := do
  match ← tryConsume ops fuel [cTypeObjThisW] with
  | some _ => do
    let e ← calleeTail v ops fuel false cRootTypeProp .nil
    rec (.memberTail e)
  | none => do
    let e ← rec .basic
    rec (.memberTail e)

def pMemberTail (e : Expr) : PM σ Expr := do
  match ← tryConsume ops fuel [cTypeMapHash, cTypeObjDotW, cTypeObjDotIIW] with
  | none => pure e
  | some tk => do
    let l ← lineOf ops tk
    if tk.type = cTypeMapHash then do
      match ← tryConsume ops fuel [cTypeIdentifier, cTypeString, cTypeStmtQuoteL] with
      | some tk2 => do
        let idx : PM σ Expr :=
          if tk2.type = cTypeIdentifier then do
            let i ← newID ops tk2
            pure (.id i)
          else if tk2.type = cTypeString then newString ops tk2
          else if tk2.type = cTypeStmtQuoteL then do
            let x ← rec (.expr true)
            consume v ops fuel [cTypeStmtQuoteR]
            pure x
          else pure .nil
        let x ← idx
        rec (.memberTail (.member l cRootTypeExpr e cMemberIndex none x))
      | none => errPeek v 20
    else if tk.type = cTypeObjDotW ∨ tk.type = cTypeObjDotIIW then do
      let ne ← calleeTail v ops fuel true cRootTypeExpr e
      rec (.memberTail ne)
    else errPeek v 20

-- ParseBasicExpr
def pBasic : PM σ Expr := do
  match ← tryConsume ops fuel basicValidTypes with
  | some tk => do
    let body : PM σ Expr :=
      if tk.type = cTypeIdentifier then do
        let i ← newID ops tk
        pure (.id i)
      else if tk.type = cTypeString then newString ops tk
      else if tk.type = cTypeArrayQuoteL then rec .array
      else if tk.type = cTypeStmtQuoteL then do
        let x ← rec (.expr true)
        consume v ops fuel [cTypeStmtQuoteR]
        pure x
      else if tk.type = cTypeFuncQuoteL then do
        match ← tryConsume ops fuel [cTypeObjNewW] with
        | some _ => rec .objNew
        | none => rec (.funcCall true)
      else if tk.type = cTypeVarOneW then rec .memberFuncCall
      else goPanic   -- `e` stays a nil interface: `e.SetCurrentLine` panics
    let e ← body
    let l ← lineOf ops tk
    pure (e.setLine l)
  | none => errPeek v 20

-- ParseArrayExpr / tryParseEmptyMapList
def pArrayNonEmpty : PM σ Expr := do
  let e1 ← rec (.expr false)
  match ← tryConsume ops fuel [cTypeAssignMark, cTypeArrayQuoteR] with
  | some tk =>
    if tk.type = cTypeArrayQuoteR then pure (.arr 0 [e1])
    else if tk.type = cTypeAssignMark then do
      let r ← rec (.expr false)
      unsetFlag
      rec (.hashLoop [(e1, r)])
    else rec (.arrayLoop [])
  | none => rec (.arrayLoop [e1])

def pArray : PM σ Expr := do
  match ← tryConsume ops fuel emptyTrialTypes with
  | some tk =>
    if tk.type = cTypeArrayQuoteR then do
      let l ← lineOf ops tk
      pure (.arr l [])
    else if tk.type = cTypeAssignMark then do
      consume v ops fuel [cTypeArrayQuoteR]
      let l ← lineOf ops tk
      pure (.hm l [])
    else pArrayNonEmpty ops fuel rec
  | none => pArrayNonEmpty ops fuel rec

def pArrayLoop (items : List Expr) : PM σ Expr := do
  let e ← rec (.expr false)
  match ← tryConsume ops fuel [cTypeArrayQuoteR] with
  | some _ => pure (.arr 0 (items ++ [e]))
  | none => rec (.arrayLoop (items ++ [e]))

def pHashLoop (kvs : List (Expr × Expr)) : PM σ Expr := do
  match ← tryConsume ops fuel [cTypeArrayQuoteR] with
  | some _ => pure (.hm 0 kvs)
  | none => do
    let k ← rec (.expr false)
    consume v ops fuel [cTypeAssignMark]
    let x ← rec (.expr false)
    unsetFlag
    rec (.hashLoop (kvs ++ [(k, x)]))

-- ParseFuncCallExpr
def pFuncCall (yieldResult : Bool) : PM σ Expr := do
  let name ← parseID v ops fuel
  let params ← (do
    match ← tryConsume ops fuel [cTypeFuncCall] with
    | some _ => rec (.commaExprs [])
    | none => pure [])
  consume v ops fuel [cTypeFuncQuoteR]
  let y ← (if yieldResult then optYield v ops fuel else pure none)
  pure (.call 0 (some name) params y)

/-- `parsePauseCommaList` with the consumer `ParseExpression` -/
def pCommaExprs (acc : List Expr) : PM σ (List Expr) := do
  let e ← rec (.expr true)
  match ← tryConsume ops fuel [cTypePauseCommaSep] with
  | some _ => rec (.commaExprs (acc ++ [e]))
  | none => pure (acc ++ [e])

/-- `parsePauseCommaList` with the consumer `parseID` / `parseFuncID` -/
def pCommaIds (acc : List Ident) : PM σ (List Ident) := do
  let i ← parseID v ops fuel
  match ← tryConsume ops fuel [cTypePauseCommaSep] with
  | some _ => rec (.commaIds (acc ++ [i]))
  | none => pure (acc ++ [i])

-- ParseMemberFuncCallExpr (以 … inside an expression)
def pMemberFuncCall : PM σ Expr := do
  let root ← rec (.expr true)
  consume v ops fuel [cTypeFuncQuoteL]
  let f ← rec (.funcCall false)
  let chain ← rec (.chainLoop [f])
  let y ← optYield v ops fuel
  pure (.mcall 0 root chain y)

/-- `for { 、 （ FuncCall }` -/
def pChainLoop (chain : List Expr) : PM σ (List Expr) := do
  match ← tryConsume ops fuel [cTypePauseCommaSep] with
  | none => pure chain
  | some _ => do
    consume v ops fuel [cTypeFuncQuoteL]
    let f ← rec (.funcCall false)
    rec (.chainLoop (chain ++ [f]))

-- ParseVarDeclareStmt / parseVDAssignPair
def pVarDecl : PM σ Stmt := do
  match ← tryConsume ops fuel [cTypeFuncCall] with
  | some _ => do
    match ← expectBlockIndent ops with
    | none => errCurr v
    | some bi => do
      let ps ← rec (.varDeclLoop bi [])
      pure (.varDecl 0 ps)
  | none => do
    let p ← rec .vdPair
    pure (.varDecl 0 [p])

def pVarDeclLoop (indent : Nat) (pairs : List (Nat × List Ident × Expr)) : PM σ (List (Nat × List Ident × Expr)) := do
  let s ← getS
  if blockCond ops indent s then do
    unsetFlag
    match ← tryConsume ops fuel [cTypeStmtSep] with
    | some _ => rec (.varDeclLoop indent pairs)
    | none => do
      let p ← rec .vdPair
      endOfStmt v
      rec (.varDeclLoop indent (pairs ++ [p]))
  else pure pairs

def pVdPair : PM σ (Nat × List Ident × Expr) := do
  let ids ← rec (.commaIds [])
  match ← tryConsume ops fuel vdAssignKeywords with
  | some tk => do
    let e ← rec (.expr true)
    pure (if tk.type = cTypeAssignConstW then cVDTypeAssignConst else cVDTypeAssign, ids, e)
  | none => errPeek v 20

-- ParseObjNewExpr
def pObjNew : PM σ Expr := do
  let cls ← parseID v ops fuel
  match ← tryConsume ops fuel [cTypeFuncCall] with
  | some _ => do
    let ps ← rec (.commaExprs [])
    consume v ops fuel [cTypeFuncQuoteR]
    pure (.new 0 (some cls) ps)
  | none => do
    consume v ops fuel [cTypeFuncQuoteR]
    pure (.new 0 (some cls) [])

-- ParseWhileLoopStmt
def pWhileLoop : PM σ Stmt := do
  let e ← rec (.expr true)
  consume v ops fuel [cTypeFuncCall]
  match ← expectBlockIndent ops with
  | none => errPeek v 20
  | some bi => do
    let b ← rec (.block bi)
    pure (.while 0 e (some b))

-- ParseBlockStmt
def pBlock (indent : Nat) : PM σ (List Stmt) := rec (.blockLoop indent [])

def pBlockLoop (indent : Nat) (acc : List Stmt) : PM σ (List Stmt) := do
  let s ← getS
  if blockCond ops indent s then do
    let st ← rec .statement
    rec (.blockLoop indent (acc ++ [st]))
  else pure acc

-- ParseBranchStmt
def pBranch : PM σ Stmt := do
  let s ← getS
  rec (.branchLoop (currIndentOf ops s) .init {})

/-- header of one pass of ParseBranchStmt's loop: `none` = `return stmt`, `some st'` = go on in state `st'` -/
def branchHeader (mainIndent : Nat) (st : BrSt) : PM σ (Option BrSt) := do
  match st with
  | .init => pure (some .ifB)
  | .ifB | .other => do
    let s ← getS
    if peekIndentOf ops s ≠ mainIndent then pure none
    else do
      unsetFlag
      match ← tryConsume ops fuel condKeywords with
      | some tk => pure (some (if tk.type = cTypeCondOtherW then .other else .elseB))
      | none => do
        setFlag
        pure none
  | .elseB => do
    let s ← getS
    if peekIndentOf ops s ≠ mainIndent then pure none
    else do
      match ← tryConsume ops fuel [cTypeCondElseW] with
      | some _ => pure (some .elseB)
      | none => pure none

def pBranchLoop (mainIndent : Nat) (st : BrSt) (acc : BranchAcc) : PM σ Stmt := do
  let s ← getS
  if (v.ifFix && st == .init) || s.p2.type ≠ cTypeEOF then do
    match ← branchHeader ops fuel mainIndent st with
    | none => pure acc.toStmt
    | some st' => do
      let cond ← (if st' ≠ .elseB then rec (.expr true) else pure Expr.nil)
      consume v ops fuel [cTypeFuncCall]
      match ← expectBlockIndent ops with
      | none => errPeek v 21
      | some bi => do
        let blk ← rec (.block bi)
        match st' with
        | .ifB => rec (.branchLoop mainIndent .ifB { acc with ifE := cond, ifB := some blk })
        | .other => rec (.branchLoop mainIndent .other { acc with others := acc.others ++ [(cond, some blk)] })
        | .elseB => pure ({ acc with hasElse := true, elseB := some blk } : BranchAcc).toStmt
        | .init => rec (.branchLoop mainIndent .init acc)
  else pure acc.toStmt

-- parseFunctionBlock
def pFunctionBlock : PM σ (Ident × ExecBlock) := do
  let i ← parseID v ops fuel
  consume v ops fuel [cTypeFuncDeclare]
  match ← expectBlockIndent ops with
  | none => errPeek v 21
  | some bi => do
    let x ← rec (.execBlock bi)
    pure (i, x)

-- ParseExecBlock
def pExecBlock (indent : Nat) : PM σ ExecBlock := rec (.execLoop indent .input [] [] [])

def pExecLoop (indent : Nat) (st : ExSt) (inputs : List Ident) (stmts : List Stmt)
    (catches : List (Option Ident × Option (List Stmt))) : PM σ ExecBlock := do
  let s ← getS
  if blockCond ops indent s then
    match st with
    | .input => do
      match ← tryConsume ops fuel [cTypeInputW] with
      | some _ => do
        let ids ← rec (.commaIds inputs)
        rec (.execLoop indent .input ids stmts catches)
      | none => rec (.execLoop indent .stmt inputs stmts catches)
    | .stmt => do
      unsetFlag
      match ← tryConsume ops fuel [cTypeCatchErrorW] with
      | some _ => do
        let c ← rec .catchStmt
        rec (.execLoop indent .catch_ inputs stmts (catches ++ [c]))
      | none => do
        let x ← rec .statement
        rec (.execLoop indent .stmt inputs (stmts ++ [x]) catches)
    | .catch_ => do
      unsetFlag
      match ← tryConsume ops fuel [cTypeCatchErrorW] with
      | some _ => do
        let c ← rec .catchStmt
        rec (.execLoop indent .catch_ inputs stmts (catches ++ [c]))
      | none =>
        if v.catchFix then errPeek v 20
        else rec (.execLoop indent .catch_ inputs stmts catches)   -- legacy: nothing consumed, same state
  else if st = .input then (if v.inputStateFix then errPeek v 20 else errCurr v)
  else pure (.mk inputs (some stmts) catches)

-- ParseVarOneLeadStmt
def pVarOneSecond (e1 : Expr) : PM σ Stmt := do
  consume v ops fuel [cTypePauseCommaSep]
  let e2 ← rec (.expr true)
  match ← tryConsume ops fuel [cTypeIteratorW] with
  | some _ =>
    match e1, e2 with
    | .id a, .id b => rec (.iteratorRest [a, b])
    | _, _ => errPeek v 20
  | none => errPeek v 20

def pVarOneLead : PM σ Stmt := do
  let e1 ← rec (.expr true)
  match ← tryConsume ops fuel [cTypeIteratorW, cTypeFuncQuoteL] with
  | some tk =>
    if tk.type = cTypeIteratorW then
      match e1 with
      | .id a => rec (.iteratorRest [a])
      | _ => errPeek v 20
    else if tk.type = cTypeFuncQuoteL then do
      let f ← rec (.funcCall false)
      let chain ← rec (.chainLoop [f])
      let y ← optYield v ops fuel
      pure (.expr (.mcall 0 e1 chain y))
    else pVarOneSecond v ops fuel rec e1
  | none => pVarOneSecond v ops fuel rec e1

-- parseIteratorStmtRest
def pIteratorRest (ids : List Ident) : PM σ Stmt := do
  let e ← rec (.expr true)
  consume v ops fuel [cTypeFuncCall]
  match ← expectBlockIndent ops with
  | none => errPeek v 20
  | some bi => do
    let b ← rec (.block bi)
    pure (.iterate 0 e ids (some b))

-- ParseThrowExceptionStmt
def pThrow : PM σ Stmt := do
  let cls ← parseID v ops fuel
  consume v ops fuel [cTypeFuncCall]
  let e ← rec (.expr true)
  let es ← rec (.throwLoop [e])
  consume v ops fuel [cTypeExceptionT]
  pure (.throw 0 (some cls) es)

def pThrowLoop (acc : List Expr) : PM σ (List Expr) := do
  match ← tryConsume ops fuel [cTypePauseCommaSep] with
  | some _ => do
    let e ← rec (.expr true)
    rec (.throwLoop (acc ++ [e]))
  | none => pure acc

-- ParseCatchErrorStmt
def pCatchStmt : PM σ (Option Ident × Option (List Stmt)) := do
  let cls ← parseID v ops fuel
  consume v ops fuel [cTypeFuncCall]
  match ← expectBlockIndent ops with
  | none => errPeek v 21
  | some bi => do
    let b ← rec (.block bi)
    pure (some cls, some b)

-- ParseImportStmt (the node's line stays 0 here; `ParseProgram` sets it)
def pImportStmt : PM σ Import := do
  match ← tryConsume ops fuel [cTypeLibString, cTypeString] with
  | none => errPeek v 20
  | some tk => do
    let ty := if tk.type = cTypeLibString then cLibTypeStd else cLibTypeCustom
    let name := runesToString tk.literal
    match ← tryConsume ops fuel [cTypeObjDotW, cTypeObjDotIIW] with
    | none => pure { line := 0, libType := ty, name := some name, items := [] }
    | some _ => do
      let ids ← rec (.commaIds [])
      pure { line := 0, libType := ty, name := some name, items := ids }

-- ParseClassDeclareStmt
def pClassDecl : PM σ Stmt := do
  let cls ← parseID v ops fuel
  consume v ops fuel [cTypeFuncCall]
  match ← expectBlockIndent ops with
  | none => errPeek v 20
  | some bi => do
    let r ← rec (.classLoop bi [] [] [])
    pure (.classDecl 0 (some cls) r.1 r.2.1 r.2.2)

def pClassLoop (indent : Nat) (props : List (Option Ident × Expr)) (methods getters : List Stmt) :
    PM σ (List (Option Ident × Expr) × List Stmt × List Stmt) := do
  let s ← getS
  if blockCond ops indent s then do
    unsetFlag
    match ← tryConsume ops fuel classChildTypes with
    | none => errPeek v 20
    | some tk =>
      if tk.type = cTypeFuncW then do
        let r ← rec .functionBlock
        rec (.classLoop indent props (methods ++ [.funcDecl 0 (some r.1) cDeclareTypeFunc (some r.2)]) getters)
      else if tk.type = cTypeGetterW then do
        let r ← rec .functionBlock
        rec (.classLoop indent props methods (getters ++ [.funcDecl 0 (some r.1) cDeclareTypeGetter (some r.2)]))
      else if tk.type = cTypeObjThisW then do
        let p ← rec .propertyDecl
        rec (.classLoop indent (props ++ [p]) methods getters)
      else rec (.classLoop indent props methods getters)
  else pure (props, methods, getters)

-- parsePropertyDeclareStmt
def pPropertyDecl : PM σ (Option Ident × Expr) := do
  let i ← parseID v ops fuel
  consume v ops fuel [cTypeAssignW, cTypeAssignMark]
  let e ← rec (.expr true)
  pure (some i, e)

/-- one unfolding of every production; all recursion goes through `rec` -/
def step : (nt : NT) → PM σ nt.Out
  | .program => pProgram ops rec
  | .programLoop i x im e => pProgramLoop ops fuel rec i x im e
  | .statement => pStatement v ops fuel rec
  | .expr cfg => pLv1 rec cfg
  | .lv1Tail cfg el => pLv1Tail ops fuel rec cfg el
  | .lv2 cfg => pLv2 rec cfg
  | .lv2Tail cfg el => pLv2Tail ops fuel rec cfg el
  | .lv3 cfg => pLv3 ops fuel rec cfg
  | .lv4 cfg => pLv4 v ops fuel rec cfg
  | .arith => pArith rec
  | .arithTail el => pArithTail ops fuel rec el
  | .mulDiv => pMulDiv rec
  | .mulDivTail el => pMulDivTail ops fuel rec el
  | .member => pMember v ops fuel rec
  | .memberTail e => pMemberTail v ops fuel rec e
  | .basic => pBasic v ops fuel rec
  | .array => pArray v ops fuel rec
  | .arrayLoop items => pArrayLoop ops fuel rec items
  | .hashLoop kvs => pHashLoop v ops fuel rec kvs
  | .funcCall y => pFuncCall v ops fuel rec y
  | .commaExprs acc => pCommaExprs ops fuel rec acc
  | .commaIds acc => pCommaIds v ops fuel rec acc
  | .memberFuncCall => pMemberFuncCall v ops fuel rec
  | .chainLoop c => pChainLoop v ops fuel rec c
  | .varDecl => pVarDecl v ops fuel rec
  | .varDeclLoop i ps => pVarDeclLoop v ops fuel rec i ps
  | .vdPair => pVdPair v ops fuel rec
  | .objNew => pObjNew v ops fuel rec
  | .whileLoop => pWhileLoop v ops fuel rec
  | .block i => pBlock rec i
  | .blockLoop i acc => pBlockLoop ops rec i acc
  | .branch => pBranch ops rec
  | .branchLoop m st acc => pBranchLoop v ops fuel rec m st acc
  | .functionBlock => pFunctionBlock v ops fuel rec
  | .execBlock i => pExecBlock rec i
  | .execLoop i st ins ss cs => pExecLoop v ops fuel rec i st ins ss cs
  | .varOneLead => pVarOneLead v ops fuel rec
  | .iteratorRest ids => pIteratorRest v ops fuel rec ids
  | .throwStmt => pThrow v ops fuel rec
  | .throwLoop acc => pThrowLoop ops fuel rec acc
  | .catchStmt => pCatchStmt v ops fuel rec
  | .importStmt => pImportStmt v ops fuel rec
  | .classDecl => pClassDecl v ops fuel rec
  | .classLoop i ps ms gs => pClassLoop v ops fuel rec i ps ms gs
  | .propertyDecl => pPropertyDecl v ops fuel rec

end productions

/-- the tagged parser: `fuel` bounds the depth of the Go call stack plus the loop passes -/
def parse {σ : Type} (v : Variant) (ops : LexOps σ) : Nat → Rec σ
  | 0 => fun _ _ => .fuel
  | n + 1 => step v ops n (parse v ops n)

/-- what `Parser.Parse()` returns -/
inductive Outcome where
  | tree (p : Program)
  /-- a `*SyntaxError` -/
  | synErr (e : SynErr)
  /-- a recovered Go run-time panic: an `error` that is not a `*SyntaxError` -/
  | otherErr
  /-- the Go code would still be running -/
  | outOfFuel

/-- `ParserZH.ParseAST` under `Parser.Parse`'s `recover` -/
def parseAST {σ : Type} (v : Variant) (ops : LexOps σ) (fuel : Nat) (l : σ) : Outcome :=
  match initState ops fuel l with
  | .fuel => .outOfFuel
  | .err e => .synErr e
  | .panic => .otherErr
  | .ok _ s0 =>
    match parse v ops fuel .program s0 with
    | .fuel => .outOfFuel
    | .err e => .synErr e
    | .panic => .otherErr
    | .ok pg s =>
      if s.p2.type ≠ cTypeEOF then
        match ((if v.leftoverFix then errPeek v 20 else errCurr v) : PM σ Unit) s with
        | .err e => .synErr e
        | .panic => .otherErr
        | _ => .otherErr
      else .tree pg

/-- the token-level lexer: hands out a given token list, all on one line, then EOF forever -/
def tokenOps : LexOps (List Token) where
  nextToken
    | [] => (.tok { type := cTypeEOF, startIdx := 0, endIdx := 0 }, [])
    | t :: r => (.tok t, r)
  lines _ := #[{ indents := 0, startIdx := 0 }]

/-- `Parser.Parse` on a token list -/
def parseTokens (v : Variant) (fuel : Nat) (ts : List Token) : Outcome := parseAST v tokenOps fuel ts

end ZnVerif.Model.Parser
