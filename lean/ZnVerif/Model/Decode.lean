/-
Model of pkg/io (input.go `readRune`, file_stream.go `FileStream.read/ReadAll`, byte_stream.go
`ByteStream.Read/ReadAll`) as repaired by patches/fix-c17-strict-utf8-decoding.patch.

The reader is a script: a list of chunks, one per `r.Read(p)` call that returned `(len chunk, nil)` — empty
chunks allowed — followed by one last call that returned `(len last, io.EOF)` (`last = []` is the usual
`(0, io.EOF)`).  Nothing is assumed about where the chunk borders fall.  A reader error other than EOF is
outside the model (it is returned as is).

Go's `readRune` also returns the runes decoded before an error; every caller drops them
(`return []rune{}, err`), so the model's error carries no data.
Core Lean only.
-/
import ZnVerif.Model.Utf8

namespace ZnVerif.Model

/-- `*zerr.IOError` values pkg/io can produce while decoding (code 13 `ErrInvalidEncoding`) -/
inductive IOError where
  | invalidEncoding
  deriving DecidableEq, Repr

def IOError.code : IOError → Nat
  | .invalidEncoding => 13

theorem utf8DecodeRune_size_pos (p0 : Nat) (rest : List Nat) : 0 < (utf8DecodeRune (p0 :: rest)).2 := by
  simp only [utf8DecodeRune]
  repeat' split
  all_goals simp

/-- the `for len(buf) > 0` loop of `readRune` on `buf = append(remains, p[:t]...)`:
returns (runes, new remains).
* `!utf8.FullRune(buf)`: an incomplete character — an error if the stream has ended, else carried;
* `ru == RuneError && size == 1`: invalid UTF-8 — an error (a legitimate U+FFFD has size 3);
* otherwise the rune is appended and `buf = buf[size:]`. -/
def decodeBuf (eof : Bool) (buf : List Nat) : Except IOError (List Nat × List Nat) :=
  match buf with
  | [] => .ok ([], [])
  | p0 :: rest =>
    if !fullRune (p0 :: rest) then
      if eof then .error .invalidEncoding else .ok ([], p0 :: rest)
    else
      let d := utf8DecodeRune (p0 :: rest)
      if d.1 = runeError ∧ d.2 = 1 then .error .invalidEncoding
      else
        match decodeBuf eof ((p0 :: rest).drop d.2) with
        | .ok (rs, rem) => .ok (d.1 :: rs, rem)
        | .error e => .error e
termination_by buf.length
decreasing_by
  have := utf8DecodeRune_size_pos p0 rest
  simp only [List.length_drop, List.length_cons]
  omega

/-- `readRune(r, remains, b)` for one scripted read: `chunk` = `p[:t]`, `eof` = `err == io.EOF` -/
def readRune (remains chunk : List Nat) (eof : Bool) : Except IOError (List Nat × List Nat) :=
  decodeBuf eof (remains ++ chunk)

/-! ### FileStream -/

def BOM : Nat := 0xFEFF

structure FileStream where
  encBuffer : List Nat
  hasRead : Bool
  deriving Repr, DecidableEq

/-- `NewFileStream` / `NewFileStreamFromReader` -/
def FileStream.new : FileStream := { encBuffer := [], hasRead := false }

/-- `(*FileStream).read(n)`: decoded runes (BOM removed if it is the first character of the stream —
`hasRead` turns true with the first rune, which may arrive only after several reads) and the new state -/
def FileStream.read (f : FileStream) (chunk : List Nat) (eof : Bool) : Except IOError (List Nat × FileStream) :=
  match readRune f.encBuffer chunk eof with
  | .error e => .error e
  | .ok (data, remains) =>
    if !f.hasRead then
      match data with
      | [] => .ok ([], { encBuffer := remains, hasRead := false })
      | c :: cs => .ok (if c = BOM then cs else c :: cs, { encBuffer := remains, hasRead := true })
    else .ok (data, { encBuffer := remains, hasRead := true })

/-- the loop of `(*FileStream).ReadAll()`: read blocks until the reader reports EOF -/
def FileStream.readAllLoop (f : FileStream) : List (List Nat) → List Nat → Except IOError (List Nat)
  | [], last =>
    match f.read last true with
    | .error e => .error e
    | .ok (res, _) => .ok res
  | c :: cs, last =>
    match f.read c false with
    | .error e => .error e
    | .ok (res, f') =>
      match f'.readAllLoop cs last with
      | .error e => .error e
      | .ok more => .ok (res ++ more)

/-- `NewFileStream(path).ReadAll()` over the read script `chunks` then `(last, EOF)` -/
def fileReadAllWith (chunks : List (List Nat)) (last : List Nat) : Except IOError (List Nat) :=
  FileStream.new.readAllLoop chunks last

/-- the usual script: data reads, then `(0, io.EOF)` -/
def readAll (chunks : List (List Nat)) : Except IOError (List Nat) := fileReadAllWith chunks []

/-! ### ByteStream (no BOM handling in the code) -/

structure ByteStream where
  encBuffer : List Nat
  deriving Repr, DecidableEq

def ByteStream.read (b : ByteStream) (chunk : List Nat) (eof : Bool) : Except IOError (List Nat × ByteStream) :=
  match readRune b.encBuffer chunk eof with
  | .error e => .error e
  | .ok (data, remains) => .ok (data, { encBuffer := remains })

/-- the loop of `(*ByteStream).ReadAll()`, and equally a caller's sequence of `Read(n)` calls up to the end -/
def ByteStream.readAllLoop (b : ByteStream) : List (List Nat) → List Nat → Except IOError (List Nat)
  | [], last =>
    match b.read last true with
    | .error e => .error e
    | .ok (res, _) => .ok res
  | c :: cs, last =>
    match b.read c false with
    | .error e => .error e
    | .ok (res, b') =>
      match b'.readAllLoop cs last with
      | .error e => .error e
      | .ok more => .ok (res ++ more)

/-- what `bytes.Reader` does with a buffer of `len(bytes)`: everything in one read (none if empty), then EOF -/
def bytesReaderScript (bytes : List Nat) : List (List Nat) := if bytes.isEmpty then [] else [bytes]

/-- `NewByteStream(bytes).ReadAll()` -/
def byteStreamReadAll (bytes : List Nat) : Except IOError (List Nat) :=
  ByteStream.readAllLoop { encBuffer := [] } (bytesReaderScript bytes) []

/-- a reader that hands out at most `n` bytes per call (`n ≥ 1`): the chunking `Read(n)` sequences and
block-limited readers produce -/
def splitEvery (n : Nat) (bytes : List Nat) : List (List Nat) :=
  if _h : n = 0 ∨ bytes = [] then [] else bytes.take n :: splitEvery n (bytes.drop n)
termination_by bytes.length
decreasing_by
  have : bytes ≠ [] := fun e => _h (Or.inr e)
  have : 0 < bytes.length := List.length_pos_iff.mpr this
  simp only [List.length_drop]; omega

end ZnVerif.Model
