/-
Model of the two value classes of pkg/common: http_request.go (`CLASS_HttpRequest`, `httpRequestConsturctor`) and http_resp.go
(`CLASS_HttpResponse`, `httpResponseConstructor`), on the heap of Model/Interp.lean.

  * a class is a `.cls` cell holding its name and the default values of its properties (`DefineProperty`); the two classes define
    properties only — no method, no computed property — so the members of their objects are exactly `Object.GetProperty` /
    `SetProperty` / `ExecMethod` of Model/Interp.lean (`getProperty`, `setProperty`; any method name → MethodNotFound);
  * `ClassModel.Construct(params)` = `NewObject(cm, {})` (every default copied with `DuplicateValue`) followed by the Go
    constructor, modelled below statement by statement: `value.ValidateLeastParams` through Model/Validate.lean (the repaired
    code: commit ac9b960 — before it `values[idx]` indexed past the end when fewer than two arguments were given), the
    `values[0]`, `values[1]`, `values[2]` index expressions as list patterns whose missing case is `goPanic`, `SetProperty` with
    its error DROPPED (the Go code ignores it), the one-entry header dictionaries `value.NewHashMap([]KVPair{…})`, and
    `HashMapToJSONString` / `ElementToJSONString` through Model/Json.lean (`elementToJSONString` on the value read off the heap);
  * arguments are stored as they are (no copy): the object shares them with the caller, as in Go.

Numbers stay abstract: `NumOps ν` for the values, `Json.NumCodec ν` for the float encoder of `encoding/json`.  Core Lean only.
-/
import ZnVerif.Model.Interp
import ZnVerif.Model.Validate
import ZnVerif.Model.Json

namespace ZnVerif.Model.HttpValues
open ZnVerif.Model

variable {ν : Type} [NumOps ν]

def requestClassName : String := "HTTP请求"
def responseClassName : String := "HTTP响应"

/-- property names, in the order of the `DefineProperty` calls (Generated/Members `classes`) -/
def requestProps : List String := ["URL", "路径", "方法", "头部", "查询参数", "内容"]
def responseProps : List String := ["状态码", "头部", "内容"]

def requestPatterns : List String := ["string", "string", "any?"]
def responsePatterns : List String := ["number", "any", "hashmap?"]

/-- `CLASS_HttpRequest`: the class cell with freshly allocated defaults -/
def mkRequestClass : M ν Addr := do
  let url ← newStr ""
  let path ← newStr ""
  let method ← newStr "GET"
  let hd ← alloc (newHashMapCell [])
  let q ← alloc (newHashMapCell [])
  let body ← newStr ""
  alloc (.cls requestClassName .default
    [("URL", url), ("路径", path), ("方法", method), ("头部", hd), ("查询参数", q), ("内容", body)] [])

/-- `CLASS_HttpResponse` -/
def mkResponseClass : M ν Addr := do
  let code ← newNum (NumOps.ofInt 200)
  let hd ← alloc (newHashMapCell [])
  let body ← newStr ""
  alloc (.cls responseClassName .default [("状态码", code), ("头部", hd), ("内容", body)] [])

/-- what `validateOneParam` sees of a value (the same table as `typeMatches` of Model/Interp.lean) -/
def vkind : Cell ν → Validate.VKind
  | .num _ => .number
  | .str _ => .string
  | .arr _ => .array
  | .hm _ _ => .hashmap
  | .bool _ => .bool
  | .obj _ _ => .object
  | .fn _ => .function
  | _ => .other

/-- `value.ValidateLeastParams(values, pats…)`, repaired code (both guards present) -/
def validateLeastM (vals : List Addr) (pats : List String) : M ν Unit := do
  let cells ← vals.mapM getCell
  match Validate.validateLeast true true (cells.map vkind) pats with
  | .ok => pure ()
  | .err c => rtErr c
  | .panic => goPanic

/-- `NewObject(cm, r.ElementMap{})`: every default of the class copied -/
def newObject (n : Nat) (cv : Addr) : M ν Addr := do
  match ← getCell cv with
  | .cls _ _ props _ => do
    let props' ← props.mapM fun p => do let v ← dup n p.2; pure (p.1, v)
    alloc (.obj cv props')
  | _ => goPanic

/-- `self.SetProperty(name, v)` as the constructors call it: the returned error is not looked at -/
def setPropIgnore (self : Addr) (name : String) (v : Addr) : M ν Unit :=
  tryCatch (setProperty self name v) fun r =>
    match r with
    | .ok _ => pure ()
    | .err _ => pure ()
    | .panic => goPanic
    | .fuel => outOfFuel
    | .unmodelled => notModelled

/-- `value.NewHashMap([]value.KVPair{{Key: "Content-Type", Value: value.NewString(ct)}})` -/
def contentTypeHeader (ct : String) : M ν Addr := do
  let v ← newStr ct
  alloc (newHashMapCell [("Content-Type", v)])

/-- a value as the JSON code sees it (`buildPlainValueFromElement` walks the element): lists and dictionaries (in key order) are
    followed, anything that is not one of the six JSON kinds is `other`.  A value that contains itself would not end in Go
    (stack exhaustion, outside C10's quantifier): fuel. -/
def reify : Nat → Addr → M ν (Json.JV ν)
  | 0, _ => outOfFuel
  | n+1, a => do
    match ← getCell a with
    | .null => pure .null
    | .bool b => pure (.bool b)
    | .num x => pure (.num x)
    | .str s => pure (.str (strCps s))
    | .arr items => do
      let xs ← items.mapM (reify n)
      pure (.list xs)
    | .hm vals order => do
      let kvs ← order.mapM fun k =>
        match lookup k vals with
        | some v => do let j ← reify n v; pure (strCps k, j)
        | none => goPanic
      pure (.dict kvs)
    | _ => pure (.other 0)

def textToString (t : Json.Text) : String := String.ofList (t.map Char.ofNat)

/-- `ElementToJSONString(elem)` / `HashMapToJSONString(hm)`: a fresh text, or the exception `生成JSON失败 - …` (a number that is
    NaN or ±Inf) -/
def elementToJSON (C : Json.NumCodec ν) (n : Nat) (a : Addr) : M ν Addr := do
  let jv ← reify n a
  match Json.elementToJSONString C jv with
  | .ok (.str t) => newStr (textToString t)
  | .ok _ => goPanic
  | .raise _ => throwException "生成JSON失败"
  | .rtError c => rtErr c
  | .panic => goPanic

/-- the `if len(values) == 3 { switch v := values[2].(type) … }` of `httpRequestConsturctor` (`rest` = `values[2:]`) -/
def requestBody (C : Json.NumCodec ν) (n : Nat) (self : Addr) (values rest : List Addr) : M ν Unit :=
  if values.length == 3 then
    match rest with
    | v2 :: _ => do
      match ← getCell v2 with
      | .str _ => do
        let hd ← contentTypeHeader "text/plain"
        setPropIgnore self "头部" hd
        setPropIgnore self "内容" v2
      | .hm _ _ => do
        let body ← elementToJSON C n v2
        let hd ← contentTypeHeader "application/json"
        setPropIgnore self "头部" hd
        setPropIgnore self "内容" body
      | _ => pure ()
    | [] => goPanic          -- `values[2]` with `len(values) == 3`
  else pure ()

/-- `httpRequestConsturctor(self, values)` -/
def requestCtor (C : Json.NumCodec ν) (n : Nat) (self : Addr) (values : List Addr) : M ν Addr := do
  validateLeastM values requestPatterns
  match values with
  | v0 :: v1 :: rest => do
    setPropIgnore self "方法" v0
    setPropIgnore self "URL" v1
    requestBody C n self values rest
    pure self
  | _ => goPanic               -- `values[0]` / `values[1]` of a shorter slice: index out of range

/-- the `switch v := values[1].(type)` of `httpResponseConstructor`: content and default content type -/
def responseBody (C : Json.NumCodec ν) (n : Nat) (self v1 : Addr) : M ν Unit := do
  match ← getCell v1 with
  | .str _ => do
    let hd ← contentTypeHeader "text/plain"
    setPropIgnore self "头部" hd
    setPropIgnore self "内容" v1
  | .hm _ _ | .arr _ => do
    let body ← elementToJSON C n v1
    let hd ← contentTypeHeader "application/json"
    setPropIgnore self "头部" hd
    setPropIgnore self "内容" body
  | _ => do
    let body ← elementToJSON C n v1
    let hd ← contentTypeHeader "text/plain"
    setPropIgnore self "头部" hd
    setPropIgnore self "内容" body

/-- `if len(values) == 3 { self.SetProperty("头部", values[2]) }` -/
def overrideHeaders (self : Addr) (values rest : List Addr) : M ν Unit :=
  if values.length == 3 then
    match rest with
    | v2 :: _ => setPropIgnore self "头部" v2
    | [] => goPanic
  else pure ()

/-- `httpResponseConstructor(self, values)` -/
def responseCtor (C : Json.NumCodec ν) (n : Nat) (self : Addr) (values : List Addr) : M ν Addr := do
  validateLeastM values responsePatterns
  match values with
  | v0 :: v1 :: rest => do
    setPropIgnore self "状态码" v0
    responseBody C n self v1
    overrideHeaders self values rest
    pure self
  | _ => goPanic

/-- `CLASS_HttpRequest.Construct(params)` -/
def requestConstruct (C : Json.NumCodec ν) (n : Nat) (cv : Addr) (params : List Addr) : M ν Addr := do
  let inst ← newObject n cv
  requestCtor C n inst params

/-- `CLASS_HttpResponse.Construct(params)` -/
def responseConstruct (C : Json.NumCodec ν) (n : Nat) (cv : Addr) (params : List Addr) : M ν Addr := do
  let inst ← newObject n cv
  responseCtor C n inst params

/-- the member tables of the two classes as the model has them: (class name, properties, constructor patterns) -/
def classTable : List (String × List String × List String) :=
  [(requestClassName, requestProps, requestPatterns), (responseClassName, responseProps, responsePatterns)]

end ZnVerif.Model.HttpValues
