/-
Model of pkg/exec/id_match.go: `tryParseNumber` (the hand-written DFA, table regenerated from the Go
switch), `MatchIDType` classification, and the text handed to strconv.ParseFloat
(`parseIDNumberToFloat64`: strings.Replace "*^"→"e" once, then "*10^"→"e" once).
-/
import ZnVerif.Generated.NumberDFA

namespace ZnVerif.Model
open ZnVerif.Generated

/-- one step of the Go double switch: outer `switch ch`, inner `switch state`; `none` = `goto end` -/
def dfaStep (st ch : Nat) : Option Nat :=
  match NumberDFA.transitions.find? (fun t => t.1.contains ch) with
  | none => none
  | some (_, trs) => (trs.find? (fun tr => tr.1.contains st)).map (·.2)

/-- the `for _, ch := range charArr` loop: (final state, parsedChars) -/
def dfaScan : Nat → Nat → List Nat → Nat × Nat
  | st, n, [] => (st, n)
  | st, n, ch :: rest =>
    match dfaStep st ch with
    | none => (st, n)
    | some st' => dfaScan st' (n + 1) rest

inductive IdClass where
  | name | number | error
  deriving Repr, DecidableEq

/-- the code after label `end:` -/
def tryParseNumber (s : List Nat) : IdClass :=
  let r := dfaScan NumberDFA.beginState 0 s
  if r.2 = 0 then .name
  else if r.1 = NumberDFA.signOnlyState then .name
  else if !(NumberDFA.endStates.contains r.1) then .error
  else if r.2 < s.length then .error
  else .number

/-- `strings.Replace(s, old, new, 1)` on code-point lists (old non-empty) -/
def replaceFirst (old new : List Nat) : List Nat → List Nat
  | [] => []
  | c :: rest =>
    if old.isPrefixOf (c :: rest) then new ++ (c :: rest).drop old.length
    else c :: replaceFirst old new rest

/-- text given to strconv.ParseFloat by `parseIDNumberToFloat64` -/
def parseFloatText (s : List Nat) : List Nat :=
  replaceFirst [0x2A, 0x31, 0x30, 0x5E] [0x65] (replaceFirst [0x2A, 0x5E] [0x65] s)

end ZnVerif.Model
