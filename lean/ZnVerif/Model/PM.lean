/-
Model of the prefork master's bookkeeping — pkg/server/pm_server.go
(`StartMaster`, `spawnProcess`, `maintainChildState` and its three channel handlers), and of the worker
loop (`StartWorker`, `writeProcState`).  Core Lean only.

What is state here and where it lives in the Go code

* `childs`     `zns.childs : map[int]workerState` — kept as an association list in insertion order (the only
               `range` over it asks "is there an IDLE entry", so iteration order is irrelevant).  Each entry also
               carries whether the process is still running: that bit belongs to the OS, not to the master, and
               no handler reads it.
* `refCount`   `zns.refCount : int` (a Go `int`, hence `Int`: `refCount -= 1` is not truncated).
* `batches`    the goroutines started by the `update` and `del` handlers (and the start-up loop of `StartMaster`),
               each with the number of `spawnProcess` calls it still has to make; `delayed` marks the refill
               goroutine, which sleeps 100 ms before every call.
* `unreg`      processes for which `cmd.Start()` has returned inside `spawnProcess` but whose `addChan` message has
               not been received by the loop yet, with their running bit.
* `nextPid`    the OS hands out a pid that no tracked process has (assumption: no pid reuse while the master still
               tracks the old process).

The model is slightly more permissive than the code: a batch goroutine starts its next process only after the
previous one was registered (the channel send blocks); here `spawnStart` and `add` of one batch may interleave freely.
Every real interleaving is a model interleaving, so theorems over all model traces cover the real ones.

Not modelled: the named pipe and `readNamedPipe` (the goroutine that turns 5-byte packets into `update` events — here
`update` simply happens), the listener, `exec`; and the master process is assumed to stay up.  (On the pinned tree it
did not: with every pipe writer gone `readNamedPipe` got EOF and `log.Fatalf`ed — found and checked end to end by the
`pmreal` replay, repaired by patches/fix-c20-pipe-eof-kills-master.patch.)

`Variant.asWritten` is the pinned tree: `add` does `refCount = len(childs)` and `StartMaster` starts with
`refCount = 0`.  `Variant.repaired` is the tree after patches/fix-c20-refcount-reservation.patch: `StartMaster`
reserves `InitProcs` in `refCount` before the loop starts and `add` leaves `refCount` alone.
-/
namespace ZnVerif.Model.PM

/-- `WORKER_STATE_IDLE | BUSY | STOPPED` (the handlers only ever test `== WORKER_STATE_IDLE`) -/
inductive WState where
  | idle | busy | stopped
deriving DecidableEq, Repr, Inhabited

inductive Variant where
  | asWritten | repaired
deriving DecidableEq, Repr

/-- `ZnPMServerConfig` (`InitProcs`, `MaxProcs`) and the batch constant (`currentNum + 10`) -/
structure Config where
  init : Nat
  max : Nat
  batch : Nat := 10
deriving DecidableEq, Repr

structure Child where
  pid : Nat
  st : WState
  alive : Bool
deriving DecidableEq, Repr

structure Batch where
  remaining : Nat
  delayed : Bool
deriving DecidableEq, Repr

structure State where
  childs : List Child
  refCount : Int
  batches : List Batch
  unreg : List (Nat × Bool)
  nextPid : Nat
deriving DecidableEq, Repr

inductive Ev where
  /-- batch `b` (position in `batches`) gets through `cmd.Start()` once more -/
  | spawnStart (b : Nat)
  /-- the loop receives the `addChan` message of started process `pid` -/
  | add (pid : Nat)
  /-- the loop receives a state report (5-byte pipe packet) -/
  | update (pid : Nat) (st : WState)
  /-- process `pid` stops running (crash, kill, `os.Exit`) -/
  | exit (pid : Nat)
  /-- the loop receives `pid` on `delChan` (sent after `cmd.Wait()` returned) -/
  | del (pid : Nat)
  /-- worker-side time-out of `StartWorker`: report STOPPED, then `os.Exit(1)` -/
  | timeoutKill (pid : Nat)
deriving DecidableEq, Repr

/-- `StartMaster` up to the start-up loop: nothing registered, one undelayed batch of `InitProcs` -/
def init (v : Variant) (c : Config) : State :=
  { childs := [], refCount := (match v with | .asWritten => 0 | .repaired => (c.init : Int)),
    batches := [⟨c.init, false⟩], unreg := [], nextPid := 1 }

/-! ### small list helpers (explicit recursion, so that the proofs are plain inductions) -/

/-- batch `i` makes one more `spawnProcess` call; `none` if there is no such batch or it is finished -/
def decAt : Nat → List Batch → Option (List Batch)
  | _, [] => none
  | 0, b :: bs => if 0 < b.remaining then some ({ b with remaining := b.remaining - 1 } :: bs) else none
  | i + 1, b :: bs => (decAt i bs).map (b :: ·)

/-- remove the first entry with this pid from `unreg`, returning its running bit -/
def takeUnreg (pid : Nat) : List (Nat × Bool) → Option (Bool × List (Nat × Bool))
  | [] => none
  | u :: us => if u.1 = pid then some (u.2, us) else (takeUnreg pid us).map fun (a, r) => (a, u :: r)

def hasKey (cs : List Child) (pid : Nat) : Bool := cs.any (fun ch => ch.pid == pid)

/-- `zns.childs[aw.pid] = aw` with `aw.state = IDLE` -/
def setChild (cs : List Child) (pid : Nat) (alive : Bool) : List Child :=
  if hasKey cs pid then cs.map (fun ch => if ch.pid = pid then ⟨pid, .idle, alive⟩ else ch)
  else cs ++ [⟨pid, .idle, alive⟩]

/-- `if old, ok := zns.childs[pid]; ok { zns.childs[pid] = {pid, state, old.cmd} }` -/
def setState (cs : List Child) (pid : Nat) (st : WState) : List Child :=
  cs.map (fun ch => if ch.pid = pid then { ch with st := st } else ch)

/-- `delete(zns.childs, pid)` -/
def delChild (pid : Nat) : List Child → List Child
  | [] => []
  | ch :: cs => if ch.pid = pid then cs else ch :: delChild pid cs

def hasIdle (cs : List Child) : Bool := cs.any (fun ch => ch.st == .idle)

def markDead (pid : Nat) (cs : List Child) : List Child :=
  cs.map (fun ch => if ch.pid = pid then { ch with alive := false } else ch)

def markDeadU (pid : Nat) (us : List (Nat × Bool)) : List (Nat × Bool) :=
  us.map (fun u => if u.1 = pid then (u.1, false) else u)

def isAlive (s : State) (pid : Nat) : Bool :=
  s.childs.any (fun ch => ch.pid == pid && ch.alive) || s.unreg.any (fun u => u.1 == pid && u.2)

/-- registered, no longer running: `cmd.Wait()` has returned, the `delChan` message is on its way -/
def isDeadChild (s : State) (pid : Nat) : Bool := s.childs.any (fun ch => ch.pid == pid && !ch.alive)

/-! ### the three handlers of `maintainChildState`, as written -/

/-- `case aw := <-zns.addChan` -/
def addH (v : Variant) (s : State) (pid : Nat) (alive : Bool) (unreg' : List (Nat × Bool)) : State :=
  let childs := setChild s.childs pid alive
  match v with
  | .asWritten => { s with childs := childs, unreg := unreg', refCount := (childs.length : Int) }
  | .repaired => { s with childs := childs, unreg := unreg' }

/-- `case uw := <-zns.updateChan` -/
def updateH (c : Config) (s : State) (pid : Nat) (st : WState) : State :=
  let childs := setState s.childs pid st
  if hasIdle childs then { s with childs := childs }
  else
    let currentNum := s.refCount
    let finalProcNum : Int := if currentNum + c.batch > c.max then c.max else currentNum + c.batch
    let addNum := finalProcNum - currentNum
    -- `for i := 0; i < addNum; i++` runs `addNum.toNat` times (not at all when addNum ≤ 0)
    { s with childs := childs, refCount := finalProcNum, batches := s.batches ++ [⟨addNum.toNat, false⟩] }

/-- `case pid := <-zns.delChan` -/
def delH (c : Config) (s : State) (pid : Nat) : State :=
  let childs := delChild pid s.childs
  let refCount := s.refCount - 1
  if refCount < c.init then
    let numsToSpawn := (c.init : Int) - refCount
    { s with childs := childs, refCount := refCount + numsToSpawn,
             batches := s.batches ++ [⟨numsToSpawn.toNat, true⟩] }
  else { s with childs := childs, refCount := refCount }

def exitH (s : State) (pid : Nat) : State :=
  { s with childs := markDead pid s.childs, unreg := markDeadU pid s.unreg }

/-- one event; `none` when the event cannot happen in `s` -/
def step (v : Variant) (c : Config) (s : State) : Ev → Option State
  | .spawnStart b =>
    (decAt b s.batches).map fun bs =>
      { s with batches := bs, unreg := s.unreg ++ [(s.nextPid, true)], nextPid := s.nextPid + 1 }
  | .add pid =>
    (takeUnreg pid s.unreg).map fun (alive, us) => addH v s pid alive us
  | .update pid st => some (updateH c s pid st)
  | .exit pid => if isAlive s pid then some (exitH s pid) else none
  | .del pid => if isDeadChild s pid then some (delH c s pid) else none
  | .timeoutKill pid => if isAlive s pid then some (exitH (updateH c s pid .stopped) pid) else none

def run (v : Variant) (c : Config) : State → List Ev → Option State
  | s, [] => some s
  | s, e :: es => match step v c s e with
    | some s' => run v c s' es
    | none => none

/-- `s` is reached from the start-up state by a finite sequence of events, each enabled when it happens -/
def Reachable (v : Variant) (c : Config) (s : State) : Prop := ∃ evs, run v c (init v c) evs = some s

/-! ### observables -/

/-- live worker processes: registered or not, running -/
def aliveCount (s : State) : Nat := s.childs.countP (·.alive) + s.unreg.countP (·.2)

def alivePids (s : State) : List Nat :=
  (s.childs.filter (·.alive)).map (·.pid) ++ (s.unreg.filter (·.2)).map (·.1)

/-- `spawnProcess` calls still owed by unfinished batches -/
def reserved : List Batch → Nat
  | [] => 0
  | b :: bs => b.remaining + reserved bs

/-- nothing left for the master to do by itself: every batch finished, every started process registered,
every exited process deleted.  Only requests (state reports) and faults (exits) can happen next. -/
def quiet (s : State) : Bool :=
  reserved s.batches == 0 && s.unreg.isEmpty && s.childs.all (·.alive)

/-! ### the master's own work, run to completion -/

/-- position of the first batch that still owes a start -/
def firstOpen : List Batch → Option Nat
  | [] => none
  | b :: bs => if 0 < b.remaining then some 0 else (firstOpen bs).map (· + 1)

/-- one of the master's own events that can happen now (registration first, then a start, then a deletion) -/
def nextInternal (s : State) : Option Ev :=
  match s.unreg with
  | u :: _ => some (.add u.1)
  | [] => match firstOpen s.batches with
    | some i => some (.spawnStart i)
    | none => match s.childs.find? (fun ch => !ch.alive) with
      | some ch => some (.del ch.pid)
      | none => none

/-- the events `drain` performs -/
def drainTrace (v : Variant) (c : Config) : Nat → State → List Ev
  | 0, _ => []
  | n + 1, s => match nextInternal s with
    | none => []
    | some e => match step v c s e with
      | some s' => e :: drainTrace v c n s'
      | none => []

/-- let the master finish what it has started (no further reports, no further faults) -/
def drain (v : Variant) (c : Config) : Nat → State → State
  | 0, s => s
  | n + 1, s => match nextInternal s with
    | none => s
    | some e => match step v c s e with
      | some s' => drain v c n s'
      | none => s

def Ev.internal : Ev → Bool
  | .spawnStart _ | .add _ | .del _ => true
  | _ => false

def deadCount (s : State) : Nat := s.childs.countP (fun ch => !ch.alive) + s.unreg.countP (fun u => !u.2)

/-- bounds the number of own events the master can still perform -/
def workLeft (s : State) : Nat := 2 * reserved s.batches + s.unreg.length + 3 * deadCount s

/-! ### the worker loop (`StartWorker`) as a small machine, and a pool of workers sharing one listener -/

/-- where a worker is in its `for { Accept … }` loop.  `serving r` is the only state holding a request, and the
loop returns to `Accept` only from there: one request at a time by construction. -/
inductive WPhase where
  | accepting
  | serving (req : Nat)
  | exited
deriving DecidableEq, Repr

structure Worker where
  phase : WPhase
  /-- state reports written to the pipe, oldest first -/
  reports : List WState
  /-- requests answered (`waitSig` received) -/
  served : List Nat
  /-- requests abandoned (time-out branch, or the process died while serving) -/
  dropped : List Nat
deriving DecidableEq, Repr

def Worker.fresh : Worker := ⟨.accepting, [], [], []⟩

inductive WEv where
  /-- `lc.Accept()` returns the connection of request `req`; BUSY is reported -/
  | accept (req : Nat)
  /-- the handler goroutine signals `waitSig`; IDLE is reported, the connection closed -/
  | finish
  /-- `time.After(timeout)` fires first; STOPPED is reported, the process exits -/
  | timeout
  /-- the process dies for another reason -/
  | crash
deriving DecidableEq, Repr

def Worker.step (w : Worker) : WEv → Option Worker
  | .accept r => match w.phase with
    | .accepting => some { w with phase := .serving r, reports := w.reports ++ [.busy] }
    | _ => none
  | .finish => match w.phase with
    | .serving r => some { w with phase := .accepting, reports := w.reports ++ [.idle], served := w.served ++ [r] }
    | _ => none
  | .timeout => match w.phase with
    | .serving r => some { w with phase := .exited, reports := w.reports ++ [.stopped], dropped := w.dropped ++ [r] }
    | _ => none
  | .crash => match w.phase with
    | .exited => none
    | .serving r => some { w with phase := .exited, dropped := w.dropped ++ [r] }
    | .accepting => some { w with phase := .exited }

/-- requests a worker has taken from the listener so far -/
def Worker.taken (w : Worker) : List Nat :=
  w.served ++ (match w.phase with | .serving r => [r] | _ => []) ++ w.dropped

/-- a pool: the kernel's accept queue of the shared listener and the workers.  The queue hands every connection to
exactly one `Accept` call — that is the OS's contract for a listening socket and is assumed here. -/
structure Pool where
  queue : List Nat
  workers : List Worker
deriving DecidableEq, Repr

inductive PEv where
  /-- worker `i` accepts the connection at the head of the queue -/
  | accept (i : Nat)
  | finish (i : Nat)
  | timeout (i : Nat)
  | crash (i : Nat)
  /-- the master starts one more worker -/
  | spawn
deriving DecidableEq, Repr

def modifyAt (f : Worker → Option Worker) : Nat → List Worker → Option (List Worker)
  | _, [] => none
  | 0, w :: ws => (f w).map (· :: ws)
  | i + 1, w :: ws => (modifyAt f i ws).map (w :: ·)

def Pool.step (p : Pool) : PEv → Option Pool
  | .accept i => match p.queue with
    | [] => none
    | r :: q => (modifyAt (·.step (.accept r)) i p.workers).map fun ws => ⟨q, ws⟩
  | .finish i => (modifyAt (·.step .finish) i p.workers).map fun ws => { p with workers := ws }
  | .timeout i => (modifyAt (·.step .timeout) i p.workers).map fun ws => { p with workers := ws }
  | .crash i => (modifyAt (·.step .crash) i p.workers).map fun ws => { p with workers := ws }
  | .spawn => some { p with workers := p.workers ++ [Worker.fresh] }

def Pool.run : Pool → List PEv → Option Pool
  | p, [] => some p
  | p, e :: es => match p.step e with
    | some p' => Pool.run p' es
    | none => none

/-- every request the pool was given: still queued, or taken by some worker -/
def Pool.all (p : Pool) : List Nat := (p.workers.map Worker.taken).flatten ++ p.queue

end ZnVerif.Model.PM
