/-
Model of the text methods of pkg/value/string.go that wrap Go's `strings` / `strconv` packages:
`strExecReplace` (替换: strings.ReplaceAll), `strExecMatch` / `strExecMatchStart` / `strExecMatchEnd` (匹配 / 匹配开头 /
匹配结尾: strings.Contains / HasPrefix / HasSuffix), `strExecStripWhitespaces` (去除空格: strings.TrimSpace),
`strExecToLowerCase` / `strExecToUpperCase` (转小写-英文 / 转大写-英文: strings.ToLower / ToUpper), `strExecFormat`
(格式化: strings.NewReplacer on the keys `{#1}` … `{#n}`), `strExecAtoi` (转换数值: strconv.ParseFloat).

Like Model/TextOps.lean (whose namespace it continues) everything works on the BYTES of a Go string.

What is NOT modelled, and answered `none` / `.special` so that the evaluator says `notModelled`:
  * case mapping of a text that holds a character outside ASCII and outside `caselessRanges` (Go maps every
    cased Unicode letter: `É`→`é`, `Σ`→`σ`, fullwidth `Ａ`→`ａ`, and `ı`→`I`, `ſ`→`S`, `K`(U+212A)→`k` into ASCII);
  * `strconv.ParseFloat` outside the plain decimal fragment: `inf` / `infinity` / `nan` spellings, hexadecimal
    floats, digit-separating underscores, and decimal numerals big enough to overflow (a range error in Go).
-/
import ZnVerif.Model.TextOps

namespace ZnVerif.Model.TextOps

/-! ### 替换: `strings.ReplaceAll(s, old, new)` -/

/-- non-empty `old`: every leftmost non-overlapping occurrence (`j += Index(s[start:], old)`, `start = j + len(old)`).
`skip` = bytes of the occurrence just replaced that are still to be passed over -/
def replaceGo (pat rep : List Nat) : Nat → List Nat → List Nat
  | _, [] => []
  | skip + 1, _ :: rest => replaceGo pat rep skip rest
  | 0, b :: rest =>
    if pat.isPrefixOf (b :: rest) then rep ++ replaceGo pat rep (pat.length - 1) rest
    else b :: replaceGo pat rep 0 rest

/-- `strings.ReplaceAll`.  An empty `old` "matches at the beginning of the string and after each UTF-8 sequence"
(`utf8.RuneCountInString(s) + 1` replacements, each step `utf8.DecodeRuneInString` wide) -/
def replaceAll (s pat rep : List Nat) : List Nat :=
  if pat = [] then rep ++ ((explode s).map (· ++ rep)).flatten
  else replaceGo pat rep 0 s

/-! ### 匹配 / 匹配开头 / 匹配结尾 -/

/-- `strings.Contains(s, sub)` = `Index(s, sub) >= 0` -/
def containsGo (sub : List Nat) : List Nat → Bool
  | [] => sub.isPrefixOf []
  | b :: rest => sub.isPrefixOf (b :: rest) || containsGo sub rest

/-- `strings.HasPrefix` -/
def hasPrefix (s sub : List Nat) : Bool := sub.isPrefixOf s

/-- `strings.HasSuffix`: `len(s) >= len(suffix) && s[len(s)-len(suffix):] == suffix` -/
def hasSuffix (s sub : List Nat) : Bool := sub.length ≤ s.length && s.drop (s.length - sub.length) == sub

/-! ### 去除空格: `strings.TrimSpace` -/

/-- `unicode.IsSpace` (the ASCII fast path `asciiSpace` of TrimSpace is its restriction to bytes below 0x80) -/
def isSpaceRune (c : Nat) : Bool :=
  (9 ≤ c && c ≤ 13) || c == 0x20 || c == 0x85 || c == 0xA0 || c == 0x1680 || (0x2000 ≤ c && c ≤ 0x200A) ||
  c == 0x2028 || c == 0x2029 || c == 0x202F || c == 0x205F || c == 0x3000

/-- `TrimFunc(s, unicode.IsSpace)` = `TrimRightFunc(TrimLeftFunc(s, f), f)`: UTF-8 sequences are decoded from the left
(`DecodeRuneInString`) and dropped while they are spaces; then the same from the right.  From the right Go uses
`DecodeLastRuneInString`; on valid UTF-8 — all the texts of the evaluator model are — that is the same sequence of
characters read backwards, which is what this model does. -/
def trimSpace (s : List Nat) : List Nat :=
  let ps := (decodeLoop s.length s).dropWhile (fun p => isSpaceRune p.1)
  (((ps.reverse.dropWhile (fun p => isSpaceRune p.1)).reverse).map (·.2)).flatten

/-! ### 转小写-英文 / 转大写-英文: `strings.ToLower` / `strings.ToUpper` -/

/-- ranges of code points that have no case mapping at all in Go's `unicode` tables (`unicode.ToUpper(r) == r` and
`unicode.ToLower(r) == r` for every `r` in them): verified against the real tables on every run by the harness op
`caseless` (check C14, stream `unicode-tables`).  Not all such code points — a conservative set of big ranges. -/
def caselessRanges : List (Nat × Nat) := [
  (0x80, 0xB4), (0x2B0, 0x344), (0x590, 0x109F), (0x2000, 0x2125), (0x2190, 0x24B5), (0x24EA, 0x2BFF),
  (0x2E00, 0xA63F), (0xAC00, 0xFF20), (0xFF5B, 0x103FF), (0x1E944, 0x10FFFF)]

def caseless (c : Nat) : Bool := caselessRanges.any fun r => r.1 ≤ c && c ≤ r.2

/-- `unicode.ToLower` on ASCII (`'A' <= c && c <= 'Z'` → `c + 'a' - 'A'`) and on code points without case -/
def lowerRune (c : Nat) : Nat := if 0x41 ≤ c ∧ c ≤ 0x5A then c + 32 else c

/-- `unicode.ToUpper` on ASCII and on code points without case -/
def upperRune (c : Nat) : Nat := if 0x61 ≤ c ∧ c ≤ 0x7A then c - 32 else c

/-- `strings.Map(mapping, s)` for a text all of whose characters are ASCII or without case (also the result of the
ASCII fast paths of ToLower / ToUpper); `none` = a character whose mapping this model does not know -/
def mapCase (f : Nat → Nat) (s : List Nat) : Option (List Nat) :=
  let rs := runes s
  if rs.all (fun c => c < 0x80 || caseless c) then some (encode (rs.map f)) else none

def toLower (s : List Nat) : Option (List Nat) := mapCase lowerRune s
def toUpper (s : List Nat) : Option (List Nat) := mapCase upperRune s

/-! ### 格式化: `strings.NewReplacer("{#1}", v1, "{#2}", v2, …).Replace(s)` -/

/-- `fmt.Sprintf("{#%d}", k)` -/
def formatKey (k : Nat) : List Nat := [0x7B, 0x23] ++ (Nat.toDigits 10 k).map Char.toNat ++ [0x7D]

/-- the key that starts the string, if any: (its length, its value).  The keys `{#k}`, `{#k+1}`, … of the values
`vals`; no key is a prefix of another (each ends with its only `}`), so at most one matches and the replacer's
priority rule (argument order) never has to decide -/
def keyAt : Nat → List (List Nat) → List Nat → Option (Nat × List Nat)
  | _, [], _ => none
  | k, v :: vs, s => if (formatKey k).isPrefixOf s then some ((formatKey k).length, v) else keyAt (k + 1) vs s

/-- the generic (and, for one pair, the single-string) replacer: left to right, a key found at the current position
is replaced by its value and matching resumes after the key; replaced text is not scanned again -/
def formatGo (vals : List (List Nat)) : Nat → List Nat → List Nat
  | _, [] => []
  | skip + 1, _ :: rest => formatGo vals skip rest
  | 0, b :: rest =>
    match keyAt 1 vals (b :: rest) with
    | some (klen, v) => v ++ formatGo vals (klen - 1) rest
    | none => b :: formatGo vals 0 rest

/-- `strExecFormat` after validation -/
def format (s : List Nat) (vals : List (List Nat)) : List Nat := formatGo vals 0 s

/-! ### 转换数值: `strconv.ParseFloat(s, 64)` on the rewritten text (`atoiRewrite`) -/

inductive AtofClass where
  /-- a decimal numeral that cannot overflow: the value is `ParseFloat`'s (a parameter of the model: `NumOps.parse`) -/
  | number
  /-- `ParseFloat` answers `ErrSyntax` -/
  | syntaxErr
  /-- not modelled: `special` (inf / infinity / nan), a hexadecimal mantissa, underscores, possible `ErrRange` -/
  | special
  deriving Repr, DecidableEq

def isDigitB (c : Nat) : Bool := 0x30 ≤ c && c ≤ 0x39

def stripSign : List Nat → List Nat
  | 0x2B :: r => r
  | 0x2D :: r => r
  | s => s

/-- the mantissa loop of `readFloat` (base 10): digits and at most one `.`; answers (sawdot, digits before the dot,
sawdigits, rest) -/
def mantLoop : Bool → Nat → Bool → List Nat → Bool × Nat × Bool × List Nat
  | sawdot, nint, sawdigits, [] => (sawdot, nint, sawdigits, [])
  | sawdot, nint, sawdigits, c :: r =>
    if c == 0x2E then
      if sawdot then (sawdot, nint, sawdigits, c :: r) else mantLoop true nint sawdigits r
    else if isDigitB c then mantLoop sawdot (if sawdot then nint else nint + 1) true r
    else (sawdot, nint, sawdigits, c :: r)

/-- the exponent value as `readFloat` accumulates it (`if e < 10000 { e = e*10 + digit }`) -/
def expValue (ds : List Nat) : Nat := ds.foldl (fun e c => if e < 10000 then e * 10 + (c - 0x30) else e) 0

/-- the optional sign of the exponent: (negative?, what follows it) -/
def expSign : List Nat → Bool × List Nat
  | 0x2B :: t => (false, t)
  | 0x2D :: t => (true, t)
  | t => (false, t)

/-- the optional exponent part and the end-of-input test of `ParseFloat` (`n != len(s)` → ErrSyntax);
`some e` = well-formed with exponent `e` -/
def expPart : List Nat → Option Int
  | [] => some 0
  | c :: r =>
    if c == 0x65 || c == 0x45 then
      let ds := (expSign r).2
      if ds.isEmpty || !ds.all isDigitB then none
      else some (if (expSign r).1 then -(expValue ds : Int) else (expValue ds : Int))
    else none

/-- `x` / `X` next: after a leading `0`, a hexadecimal mantissa -/
def hexMark : List Nat → Bool
  | x :: _ => x == 0x78 || x == 0x58
  | [] => false

/-- decided by the first characters (after the sign): `special` — inf / infinity / nan in any letter case — or `0x` / `0X` -/
def specialHead : List Nat → Bool
  | c :: r => c == 0x69 || c == 0x49 || c == 0x6E || c == 0x4E || (c == 0x30 && hexMark r)
  | [] => false

/-- `readFloat` in base 10 and the end test of `ParseFloat`; the value is below 10^(nint + e): no `ErrRange` when that is
at most 10^308 -/
def decimalClass (body : List Nat) : AtofClass :=
  match mantLoop false 0 false body with
  | (_, nint, sawdigits, rest) =>
    if !sawdigits then .syntaxErr else
    match expPart rest with
    | none => .syntaxErr
    | some e => if (nint : Int) + e ≤ 308 then .number else .special

/-- classification of the text given to `strconv.ParseFloat` -/
def atofClass (s : List Nat) : AtofClass :=
  if s.contains 0x5F then .special
  else if specialHead (stripSign s) then .special
  else decimalClass (stripSign s)

end ZnVerif.Model.TextOps
