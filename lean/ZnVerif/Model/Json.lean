/-
C19 — JSON.  Model of the repository's own JSON code and a reference RFC 8259 codec.  Core Lean only.

Go mirrored (after patches/fix-c19-{1,2,3}-*.patch):

  pkg/common/elem2json.go   plainObject / plainMember, HashMapToJSONString, ElementToJSONString,
                            JSONStringToElement, buildPlainValueFromElement, marshalPlainValue / writePlainValue,
                            unmarshalPlainValue / decodePlainValue (walk over `json.Decoder.Token()`),
                            buildElementFromPlainValue (integer cases and `%v` fallback as written)
  pkg/value/hashmap.go      AppendKVPair (on an association list in key order)
  pkg/value/value_util.go   ValidateExactParams / validateOneParam, ThrowException
  stdlib/json/json.go       FN_parseJson, FN_generateJson

`encoding/json` itself is a parameter: scalars are written by `json.Marshal` and the token stream comes from
`json.Decoder`; the model instantiates both with the reference codec below (`printStr goStyle`, `refParse`), which the
correspondence runs compare with the real library byte for byte / value for value.  Numbers are abstract
(`NumCodec ν`: `strconv` formatting and parsing); the one law the round trip needs, `parseNum (fmtNum x) = some x`
for finite `x`, is the structure `NumCodec.Lawful`, a hypothesis of the theorems and never an axiom.

Texts are lists of code points; where Go works on bytes (`[]byte(jsonStr.GetValue())`, `string(data)`) the model
goes through `utf8Encode` / `utf8DecodeLossy`, which mirror `unicode/utf8` (`RuneError, 1` on every invalid byte).
-/
namespace ZnVerif.Model.Json

abbrev Text := List Nat

/-! ## plain values (`any` as built by the repository's JSON code) -/

/-- what JSON can say: `nil`, `bool`, `float64`, `string`, `[]any`, `plainObject` (members in order, duplicates kept) -/
inductive PV (ν : Type) where
  | null
  | bool (b : Bool)
  | num (x : ν)
  | str (s : Text)
  | arr (xs : List (PV ν))
  | obj (kvs : List (Text × PV ν))
  deriving Repr, Inhabited

/-! ## numbers: abstract `strconv` -/

/-- `strconv` as used by `encoding/json`: `fmtNum` = the `float64` encoder (`AppendFloat(…, 'f'|'e', -1, 64)` with the
exponent clean-up), `parseNum` = `ParseFloat(token, 64)` on a token the scanner accepted (`none` = out of range),
`isFinite` = not NaN/±Inf, `ofInt` = `float64(int64)`. -/
structure NumCodec (ν : Type) where
  isFinite : ν → Bool
  fmtNum : ν → Text
  parseNum : Text → Option ν
  ofInt : Int → ν

/-- states of the number part of `encoding/json`'s scanner (`stateNeg state0 state1 stateDot stateDot0 stateE
stateESign stateE0`), RFC 8259 §6: `-? (0 | [1-9][0-9]*) (\. [0-9]+)? ([eE] [+-]? [0-9]+)?` -/
inductive NumState where
  | start | neg | zero | int | dot | frac | e | esign | exp | dead
  deriving DecidableEq, Repr

def isDigit (c : Nat) : Bool := decide (0x30 ≤ c ∧ c ≤ 0x39)
def isNumChar (c : Nat) : Bool :=
  isDigit c || decide (c = 0x2D) || decide (c = 0x2B) || decide (c = 0x2E) || decide (c = 0x65) || decide (c = 0x45)

def numStep : NumState → Nat → NumState
  | .start, c => if c = 0x2D then .neg else if c = 0x30 then .zero else if isDigit c then .int else .dead
  | .neg, c => if c = 0x30 then .zero else if isDigit c then .int else .dead
  | .zero, c => if c = 0x2E then .dot else if c = 0x65 ∨ c = 0x45 then .e else .dead
  | .int, c => if isDigit c then .int else if c = 0x2E then .dot else if c = 0x65 ∨ c = 0x45 then .e else .dead
  | .dot, c => if isDigit c then .frac else .dead
  | .frac, c => if isDigit c then .frac else if c = 0x65 ∨ c = 0x45 then .e else .dead
  | .e, c => if c = 0x2B ∨ c = 0x2D then .esign else if isDigit c then .exp else .dead
  | .esign, c => if isDigit c then .exp else .dead
  | .exp, c => if isDigit c then .exp else .dead
  | .dead, _ => .dead

def numAccepting : NumState → Bool
  | .zero | .int | .frac | .exp => true
  | _ => false

/-- the text is one RFC 8259 number -/
def isJsonNumber (t : Text) : Bool := numAccepting (t.foldl numStep .start)

/-- what the theorems assume of the runtime's number formatting and parsing -/
structure NumCodec.Lawful {ν : Type} (C : NumCodec ν) : Prop where
  /-- a finite number is written as an RFC 8259 number -/
  token : ∀ x, C.isFinite x = true → isJsonNumber (C.fmtNum x) = true
  /-- … which reads back as the same number (shortest round-trip formatting + correctly rounded parsing) -/
  roundtrip : ∀ x, C.isFinite x = true → C.parseNum (C.fmtNum x) = some x

/-! ## reference printer (RFC 8259 §7 strings, every allowed spelling) -/

/-- how one character of a string is spelt -/
inductive EscForm where
  | lit                 -- the character itself
  | short               -- \" \\ \/ \b \f \n \r \t
  | uni (upper : Bool)  -- \uXXXX, a surrogate pair above U+FFFF; hex digits in upper or lower case
  deriving DecidableEq, Repr

/-- a printing style: the spelling of each character and the white space at every place the grammar allows it -/
structure Style where
  esc : Nat → EscForm
  outerLead : Text := []
  outerTrail : Text := []
  afterOpen : Text := []
  beforeClose : Text := []
  inEmpty : Text := []
  beforeComma : Text := []
  afterComma : Text := []
  beforeColon : Text := []
  afterColon : Text := []

def isWs (c : Nat) : Bool := decide (c = 0x20) || decide (c = 0x09) || decide (c = 0x0A) || decide (c = 0x0D)

def isSurrogate (c : Nat) : Bool := decide (0xD800 ≤ c ∧ c < 0xE000)

/-- the character `\x` stands for -/
def shortCode (c : Nat) : Option Nat :=
  if c = 0x22 then some 0x22 else if c = 0x5C then some 0x5C else if c = 0x2F then some 0x2F
  else if c = 0x08 then some 0x62 else if c = 0x0C then some 0x66 else if c = 0x0A then some 0x6E
  else if c = 0x0D then some 0x72 else if c = 0x09 then some 0x74 else none

/-- may character `c` be spelt in this form? -/
def formOk (c : Nat) : EscForm → Bool
  | .lit => decide (0x20 ≤ c ∧ c ≠ 0x22 ∧ c ≠ 0x5C)
  | .short => (shortCode c).isSome
  | .uni _ => decide (c < 0x110000) && !isSurrogate c

structure StyleOk (st : Style) : Prop where
  esc : ∀ c, formOk c (st.esc c) = true
  outerLead : st.outerLead.all isWs = true
  outerTrail : st.outerTrail.all isWs = true
  afterOpen : st.afterOpen.all isWs = true
  beforeClose : st.beforeClose.all isWs = true
  inEmpty : st.inEmpty.all isWs = true
  beforeComma : st.beforeComma.all isWs = true
  afterComma : st.afterComma.all isWs = true
  beforeColon : st.beforeColon.all isWs = true
  afterColon : st.afterColon.all isWs = true

def hexChar (upper : Bool) (d : Nat) : Nat :=
  if d < 10 then 0x30 + d else if upper then 0x41 + (d - 10) else 0x61 + (d - 10)

def hex4 (upper : Bool) (n : Nat) : Text :=
  [hexChar upper (n / 4096 % 16), hexChar upper (n / 256 % 16), hexChar upper (n / 16 % 16), hexChar upper (n % 16)]

def escChar (f : EscForm) (c : Nat) : Text :=
  match f with
  | .lit => [c]
  | .short => match shortCode c with
    | some x => [0x5C, x]
    | none => [c]
  | .uni up =>
    if c < 0x10000 then 0x5C :: 0x75 :: hex4 up c
    else 0x5C :: 0x75 :: hex4 up (0xD800 + (c - 0x10000) / 0x400) ++ 0x5C :: 0x75 :: hex4 up (0xDC00 + (c - 0x10000) % 0x400)

def printStrBody (st : Style) : Text → Text
  | [] => []
  | c :: s => escChar (st.esc c) c ++ printStrBody st s

def printStr (st : Style) (s : Text) : Text := 0x22 :: printStrBody st s ++ [0x22]

variable {ν : Type}

mutual
def print (C : NumCodec ν) (st : Style) : PV ν → Text
  | .null => [0x6E, 0x75, 0x6C, 0x6C]
  | .bool true => [0x74, 0x72, 0x75, 0x65]
  | .bool false => [0x66, 0x61, 0x6C, 0x73, 0x65]
  | .num x => C.fmtNum x
  | .str s => printStr st s
  | .arr [] => 0x5B :: st.inEmpty ++ [0x5D]
  | .arr (x :: xs) => 0x5B :: st.afterOpen ++ print C st x ++ printTail C st xs ++ st.beforeClose ++ [0x5D]
  | .obj [] => 0x7B :: st.inEmpty ++ [0x7D]
  | .obj ((k, v) :: kvs) =>
    0x7B :: st.afterOpen ++ printStr st k ++ st.beforeColon ++ 0x3A :: st.afterColon ++ print C st v
      ++ printMTail C st kvs ++ st.beforeClose ++ [0x7D]
def printTail (C : NumCodec ν) (st : Style) : List (PV ν) → Text
  | [] => []
  | x :: xs => st.beforeComma ++ 0x2C :: st.afterComma ++ print C st x ++ printTail C st xs
def printMTail (C : NumCodec ν) (st : Style) : List (Text × PV ν) → Text
  | [] => []
  | (k, v) :: kvs =>
    st.beforeComma ++ 0x2C :: st.afterComma ++ printStr st k ++ st.beforeColon ++ 0x3A :: st.afterColon ++ print C st v
      ++ printMTail C st kvs
end

/-- the reference printer: any JSON text a conforming generator may produce for `p` -/
def refPrint (C : NumCodec ν) (st : Style) (p : PV ν) : Text := st.outerLead ++ print C st p ++ st.outerTrail

/-! ## reference parser -/

inductive Err where
  | eof | badChar | badLiteral | badNumber | numberRange | badEscape | ctrlInString | depth | trailing | fuel
  deriving DecidableEq, Repr

def skipWs : Text → Text
  | [] => []
  | c :: r => if isWs c then skipWs r else c :: r

def hexVal (c : Nat) : Option Nat :=
  if 0x30 ≤ c ∧ c ≤ 0x39 then some (c - 0x30)
  else if 0x61 ≤ c ∧ c ≤ 0x66 then some (c - 0x61 + 10)
  else if 0x41 ≤ c ∧ c ≤ 0x46 then some (c - 0x41 + 10)
  else none

/-- `getu4` without the leading `\u` -/
def hex4? : Text → Option (Nat × Text)
  | a :: b :: c :: d :: r =>
    match hexVal a, hexVal b, hexVal c, hexVal d with
    | some a, some b, some c, some d => some (a * 4096 + b * 256 + c * 16 + d, r)
    | _, _, _, _ => none
  | _ => none

/-- `getu4`: `\uXXXX` at the head of the text -/
def getu4 : Text → Option (Nat × Text)
  | a :: b :: r => if a = 0x5C ∧ b = 0x75 then hex4? r else none
  | _ => none

def unShort (e : Nat) : Option Nat :=
  if e = 0x22 then some 0x22 else if e = 0x5C then some 0x5C else if e = 0x2F then some 0x2F
  else if e = 0x62 then some 0x08 else if e = 0x66 then some 0x0C else if e = 0x6E then some 0x0A
  else if e = 0x72 then some 0x0D else if e = 0x74 then some 0x09 else none

/-- string body after the opening quote (`unquote`): result and the text after the closing quote.
An unpaired surrogate escape becomes U+FFFD and only that escape is consumed, as in `encoding/json`. -/
def parseStrBody : Nat → Text → Text → Except Err (Text × Text)
  | 0, _, _ => .error .fuel
  | _ + 1, [], _ => .error .eof
  | f + 1, c :: rest, acc =>
    if c = 0x22 then .ok (acc.reverse, rest)
    else if c = 0x5C then
      match rest with
      | [] => .error .eof
      | e :: rest2 =>
        if e = 0x75 then
          match hex4? rest2 with
          | none => .error .badEscape
          | some (u, rest3) =>
            if isSurrogate u then
              match getu4 rest3 with
              | some (u2, rest4) =>
                if u < 0xDC00 ∧ 0xDC00 ≤ u2 ∧ u2 < 0xE000 then
                  parseStrBody f rest4 (((u - 0xD800) * 0x400 + (u2 - 0xDC00) + 0x10000) :: acc)
                else parseStrBody f rest3 (0xFFFD :: acc)
              | none => parseStrBody f rest3 (0xFFFD :: acc)
            else parseStrBody f rest3 (u :: acc)
        else match unShort e with
          | some x => parseStrBody f rest2 (x :: acc)
          | none => .error .badEscape
    else if c < 0x20 then .error .ctrlInString
    else parseStrBody f rest (c :: acc)

/-- a string token: opening quote already consumed -/
def parseStr (s : Text) : Except Err (Text × Text) := parseStrBody (s.length + 1) s []

/-- `"key" :` at the head of the text (white space allowed before both) -/
def parseKey (s : Text) : Except Err (Text × Text) :=
  match skipWs s with
  | [] => .error .eof
  | c :: r =>
    if c = 0x22 then
      match parseStr r with
      | .error e => .error e
      | .ok (k, r2) =>
        match skipWs r2 with
        | [] => .error .eof
        | c2 :: r3 => if c2 = 0x3A then .ok (k, r3) else .error .badChar
    else .error .badChar

def stripPrefix : Text → Text → Option Text
  | [], s => some s
  | _ :: _, [] => none
  | a :: l, b :: s => if a = b then stripPrefix l s else none

/-- a number token: the longest run of number characters must be one RFC 8259 number in `float64` range -/
def scanNumber (C : NumCodec ν) (s : Text) : Except Err (PV ν × Text) :=
  let tok := s.takeWhile isNumChar
  if isJsonNumber tok then
    match C.parseNum tok with
    | some x => .ok (.num x, s.dropWhile isNumChar)
    | none => .error .numberRange
  else .error .badNumber

/-- where the recursive-descent parser is: before a value, inside a list after an element (elements so far,
reversed), inside an object after a member (members so far, reversed) -/
inductive Mode (ν : Type) where
  | value
  | elems (acc : List (PV ν))
  | members (acc : List (Text × PV ν))

/-- recursive descent on fuel; `d` = how many more levels of `[`/`{` may be opened -/
def parse (C : NumCodec ν) : Nat → Mode ν → Nat → Text → Except Err (PV ν × Text)
  | 0, _, _, _ => .error .fuel
  | f + 1, .value, d, s =>
    match skipWs s with
    | [] => .error .eof
    | c :: r =>
      if c = 0x5B then
        if d = 0 then .error .depth else
        match skipWs r with
        | [] => .error .eof
        | c2 :: r2 =>
          if c2 = 0x5D then .ok (.arr [], r2)
          else match parse C f .value (d - 1) r with
            | .error e => .error e
            | .ok (v, r3) => parse C f (.elems [v]) (d - 1) r3
      else if c = 0x7B then
        if d = 0 then .error .depth else
        match skipWs r with
        | [] => .error .eof
        | c2 :: r2 =>
          if c2 = 0x7D then .ok (.obj [], r2)
          else match parseKey r with
            | .error e => .error e
            | .ok (k, r3) =>
              match parse C f .value (d - 1) r3 with
              | .error e => .error e
              | .ok (v, r4) => parse C f (.members [(k, v)]) (d - 1) r4
      else if c = 0x22 then
        match parseStr r with
        | .error e => .error e
        | .ok (t, r2) => .ok (.str t, r2)
      else if c = 0x74 then
        match stripPrefix [0x72, 0x75, 0x65] r with
        | some r2 => .ok (.bool true, r2)
        | none => .error .badLiteral
      else if c = 0x66 then
        match stripPrefix [0x61, 0x6C, 0x73, 0x65] r with
        | some r2 => .ok (.bool false, r2)
        | none => .error .badLiteral
      else if c = 0x6E then
        match stripPrefix [0x75, 0x6C, 0x6C] r with
        | some r2 => .ok (.null, r2)
        | none => .error .badLiteral
      else if c = 0x2D ∨ isDigit c = true then scanNumber C (c :: r)
      else .error .badChar
  | f + 1, .elems acc, d, s =>
    match skipWs s with
    | [] => .error .eof
    | c :: r =>
      if c = 0x2C then
        match parse C f .value d r with
        | .error e => .error e
        | .ok (v, r2) => parse C f (.elems (v :: acc)) d r2
      else if c = 0x5D then .ok (.arr acc.reverse, r)
      else .error .badChar
  | f + 1, .members acc, d, s =>
    match skipWs s with
    | [] => .error .eof
    | c :: r =>
      if c = 0x2C then
        match parseKey r with
        | .error e => .error e
        | .ok (k, r2) =>
          match parse C f .value d r2 with
          | .error e => .error e
          | .ok (v, r3) => parse C f (.members ((k, v) :: acc)) d r3
      else if c = 0x7D then .ok (.obj acc.reverse, r)
      else .error .badChar

/-- the reference parser: exactly one JSON value, containers nested at most `maxDepth` deep, white space around it -/
def refParse (C : NumCodec ν) (maxDepth : Nat) (s : Text) : Except Err (PV ν) :=
  match parse C (s.length + 1) .value maxDepth s with
  | .error e => .error e
  | .ok (v, r) => if skipWs r = [] then .ok v else .error .trailing

/-! ## measures and side conditions on plain values -/

mutual
/-- fuel the parser needs -/
def PV.size : PV ν → Nat
  | .arr xs => 1 + sizeL xs
  | .obj kvs => 1 + sizeM kvs
  | _ => 1
def sizeL : List (PV ν) → Nat
  | [] => 1
  | x :: xs => x.size + sizeL xs
def sizeM : List (Text × PV ν) → Nat
  | [] => 1
  | (_, v) :: kvs => v.size + sizeM kvs
end

mutual
/-- nesting depth of lists and objects -/
def PV.depth : PV ν → Nat
  | .arr xs => 1 + depthL xs
  | .obj kvs => 1 + depthM kvs
  | _ => 0
def depthL : List (PV ν) → Nat
  | [] => 0
  | x :: xs => max x.depth (depthL xs)
def depthM : List (Text × PV ν) → Nat
  | [] => 0
  | (_, v) :: kvs => max v.depth (depthM kvs)
end

mutual
/-- every number in the value is finite -/
def PV.finite (C : NumCodec ν) : PV ν → Bool
  | .num x => C.isFinite x
  | .arr xs => finiteL C xs
  | .obj kvs => finiteM C kvs
  | _ => true
def finiteL (C : NumCodec ν) : List (PV ν) → Bool
  | [] => true
  | x :: xs => x.finite C && finiteL C xs
def finiteM (C : NumCodec ν) : List (Text × PV ν) → Bool
  | [] => true
  | (_, v) :: kvs => v.finite C && finiteM C kvs
end

/-! ## UTF-8 (`unicode/utf8`) -/

/-- `utf8.EncodeRune` / `string(rune)`: surrogates and values above U+10FFFF become U+FFFD -/
def utf8EncodeCp (c : Nat) : List Nat :=
  if c < 0x80 then [c]
  else if c < 0x800 then [0xC0 + c / 64, 0x80 + c % 64]
  else if c < 0x10000 then
    if isSurrogate c then [0xEF, 0xBF, 0xBD]
    else [0xE0 + c / 4096, 0x80 + c / 64 % 64, 0x80 + c % 64]
  else if c < 0x110000 then [0xF0 + c / 262144, 0x80 + c / 4096 % 64, 0x80 + c / 64 % 64, 0x80 + c % 64]
  else [0xEF, 0xBF, 0xBD]

def utf8Encode : Text → List Nat
  | [] => []
  | c :: s => utf8EncodeCp c ++ utf8Encode s

def isCont (b : Nat) : Bool := decide (0x80 ≤ b ∧ b ≤ 0xBF)

/-- `utf8.DecodeRune` on `b0 :: r`: the rune and how many bytes of `r` it also consumed.
(`first[]` / `acceptRanges` of `unicode/utf8`: C2–DF, E0 A0–BF, E1–EC/EE–EF, ED 80–9F, F0 90–BF, F1–F3, F4 80–8F) -/
def utf8DecodeRune (b0 : Nat) (r : List Nat) : Nat × Nat :=
  if b0 < 0x80 then (b0, 0)
  else if 0xC2 ≤ b0 ∧ b0 ≤ 0xDF then
    match r with
    | b1 :: _ => if isCont b1 then ((b0 - 0xC0) * 64 + (b1 - 0x80), 1) else (0xFFFD, 0)
    | _ => (0xFFFD, 0)
  else if 0xE0 ≤ b0 ∧ b0 ≤ 0xEF then
    match r with
    | b1 :: b2 :: _ =>
      if (if b0 = 0xE0 then 0xA0 else 0x80) ≤ b1 ∧ b1 ≤ (if b0 = 0xED then 0x9F else 0xBF) ∧ isCont b2 = true then
        ((b0 - 0xE0) * 4096 + (b1 - 0x80) * 64 + (b2 - 0x80), 2)
      else (0xFFFD, 0)
    | _ => (0xFFFD, 0)
  else if 0xF0 ≤ b0 ∧ b0 ≤ 0xF4 then
    match r with
    | b1 :: b2 :: b3 :: _ =>
      if (if b0 = 0xF0 then 0x90 else 0x80) ≤ b1 ∧ b1 ≤ (if b0 = 0xF4 then 0x8F else 0xBF) ∧ isCont b2 = true
          ∧ isCont b3 = true then
        ((b0 - 0xF0) * 262144 + (b1 - 0x80) * 4096 + (b2 - 0x80) * 64 + (b3 - 0x80), 3)
      else (0xFFFD, 0)
    | _ => (0xFFFD, 0)
  else (0xFFFD, 0)

/-- bytes to code points the way `encoding/json` (and `for range string`) reads them: every byte that does not start
a valid sequence is one U+FFFD -/
def utf8DecodeLossy : List Nat → Text
  | [] => []
  | b0 :: r =>
    let d := utf8DecodeRune b0 r
    d.1 :: utf8DecodeLossy (r.drop d.2)
termination_by bs => bs.length
decreasing_by simp [List.length_drop]; omega

def isScalar (c : Nat) : Bool := decide (c < 0x110000) && !isSurrogate c

/-! ## Zn values as far as JSON is concerned -/

/-- `r.Element`: the six kinds JSON knows, and everything else (objects, functions, classes, exceptions, Go values).
A dictionary is its members in `keyOrder`. -/
inductive JV (ν : Type) where
  | null
  | bool (b : Bool)
  | num (x : ν)
  | str (s : Text)
  | list (xs : List (JV ν))
  | dict (kvs : List (Text × JV ν))
  | other (tag : Nat)
  deriving Repr, Inhabited

/-- the Go types `buildElementFromPlainValue` names in its integer cases -/
inductive IntKind where
  | uint | uint8 | uint16 | uint32 | uint64 | int | int8 | int16 | int32 | int64
  deriving DecidableEq, Repr

/-- `any` as `buildElementFromPlainValue` may meet it: the plain values, and what only other Go code could pass -/
inductive Plain (ν : Type) where
  | null
  | bool (b : Bool)
  | num (x : ν)
  | str (s : Text)
  | arr (xs : List (Plain ν))
  | obj (kvs : List (Text × Plain ν))
  | int (k : IntKind) (i : Int)
  | runes (s : Text)
  | unknown (shown : Text)   -- any other type; `shown` = what `fmt.Sprintf("%v", item)` prints
  deriving Repr, Inhabited

mutual
def PV.toPlain : PV ν → Plain ν
  | .null => .null
  | .bool b => .bool b
  | .num x => .num x
  | .str s => .str s
  | .arr xs => .arr (toPlainL xs)
  | .obj kvs => .obj (toPlainM kvs)
def toPlainL : List (PV ν) → List (Plain ν)
  | [] => []
  | x :: xs => x.toPlain :: toPlainL xs
def toPlainM : List (Text × PV ν) → List (Text × Plain ν)
  | [] => []
  | (k, v) :: kvs => (k, v.toPlain) :: toPlainM kvs
end

mutual
/-- `buildPlainValueFromElement` (fixed): dictionaries walk `GetKeyOrder()`, an empty list is an empty slice, any
other element kind falls out of the switch: `return nil` -/
def buildPlainValueFromElement : JV ν → PV ν
  | .null => .null
  | .str s => .str s
  | .bool b => .bool b
  | .num x => .num x
  | .list xs => .arr (buildPlainL xs)
  | .dict kvs => .obj (buildPlainM kvs)
  | .other _ => .null
def buildPlainL : List (JV ν) → List (PV ν)
  | [] => []
  | x :: xs => buildPlainValueFromElement x :: buildPlainL xs
def buildPlainM : List (Text × JV ν) → List (Text × PV ν)
  | [] => []
  | (k, v) :: kvs => (k, buildPlainValueFromElement v) :: buildPlainM kvs
end

/-- `HashMap.AppendKVPair`: an existing key keeps its place and takes the new value, a new key goes last -/
def appendKV {α : Type} (kvs : List (Text × α)) (k : Text) (v : α) : List (Text × α) :=
  if kvs.any (fun p => p.1 == k) then kvs.map (fun p => if p.1 == k then (p.1, v) else p)
  else kvs ++ [(k, v)]

def appendAll {α : Type} (acc : List (Text × α)) (kvs : List (Text × α)) : List (Text × α) :=
  kvs.foldl (fun a p => appendKV a p.1 p.2) acc

def keysOf {α : Type} (kvs : List (Text × α)) : List Text := kvs.map (fun p => p.1)

/-- the value a dictionary holds under a key -/
def getV {α : Type} (kvs : List (Text × α)) (k : Text) : Option α := (kvs.find? (fun p => p.1 == k)).map (fun p => p.2)

/-- keys in order of first occurrence -/
def firstOccurrences : List Text → List Text
  | [] => []
  | k :: ks => k :: (firstOccurrences ks).filter (fun x => x != k)

/-- the value of the last member with this key -/
def lastValue {α : Type} : List (Text × α) → Text → Option α
  | [], _ => none
  | (k1, v1) :: t, k =>
    match lastValue t k with
    | some v => some v
    | none => if k1 == k then some v1 else none

def decimalText (i : Int) : Text := (toString i).toList.map Char.toNat

mutual
/-- `buildElementFromPlainValue`.  In Go an empty `case` does not fall through: `uint … int32` leave the switch and
reach the `%v` fallback (a text), only `int64` becomes a number. -/
def buildElementFromPlainValue (C : NumCodec ν) : Plain ν → JV ν
  | .null => .null
  | .int .int64 i => .num (C.ofInt i)
  | .int _ i => .str (decimalText i)
  | .num x => .num x
  | .runes s => .str s
  | .str s => .str s
  | .bool b => .bool b
  | .obj kvs => .dict (appendAll [] (buildElemM C kvs))
  | .arr xs => .list (buildElemL C xs)
  | .unknown shown => .str shown
def buildElemL (C : NumCodec ν) : List (Plain ν) → List (JV ν)
  | [] => []
  | x :: xs => buildElementFromPlainValue C x :: buildElemL C xs
def buildElemM (C : NumCodec ν) : List (Text × Plain ν) → List (Text × JV ν)
  | [] => []
  | (k, v) :: kvs => (k, buildElementFromPlainValue C v) :: buildElemM C kvs
end

/-! ## the encoder as written (`writePlainValue`) -/

/-- what `encoding/json` writes: lower-case `\u00XX` for control characters other than `\b \f \n \r \t`, HTML-safe
`< > &`, U+2028 and U+2029, everything else as it is; no white space -/
def goEsc (c : Nat) : EscForm :=
  if c = 0x22 ∨ c = 0x5C ∨ c = 0x08 ∨ c = 0x0C ∨ c = 0x0A ∨ c = 0x0D ∨ c = 0x09 then .short
  else if c < 0x20 ∨ c = 0x3C ∨ c = 0x3E ∨ c = 0x26 ∨ c = 0x2028 ∨ c = 0x2029 then .uni false
  else .lit

def goStyle : Style := { esc := goEsc }

/-- `json.UnsupportedValueError` (NaN, ±Inf) -/
inductive MarshalErr where
  | unsupportedValue
  deriving DecidableEq, Repr

/-- `json.Marshal` of a scalar: `nil`, `bool`, `float64`, `string` -/
def marshalScalar (C : NumCodec ν) : PV ν → Except MarshalErr Text
  | .num x => if C.isFinite x then .ok (C.fmtNum x) else .error .unsupportedValue
  | .str s => .ok (printStr goStyle s)
  | .bool true => .ok [0x74, 0x72, 0x75, 0x65]
  | .bool false => .ok [0x66, 0x61, 0x6C, 0x73, 0x65]
  | _ => .ok [0x6E, 0x75, 0x6C, 0x6C]

mutual
def writePlainValue (C : NumCodec ν) : PV ν → Except MarshalErr Text
  | .obj kvs =>
    match writeMembers C kvs true with
    | .error e => .error e
    | .ok body => .ok (0x7B :: body ++ [0x7D])
  | .arr xs =>
    match writeElems C xs true with
    | .error e => .error e
    | .ok body => .ok (0x5B :: body ++ [0x5D])
  | .null => marshalScalar C .null
  | .bool b => marshalScalar C (.bool b)
  | .num x => marshalScalar C (.num x)
  | .str s => marshalScalar C (.str s)
/-- `for idx, vi := range vv { if idx > 0 { ',' }; write vi }`, `first` = `idx == 0` -/
def writeElems (C : NumCodec ν) : List (PV ν) → Bool → Except MarshalErr Text
  | [], _ => .ok []
  | x :: xs, first =>
    match writePlainValue C x with
    | .error e => .error e
    | .ok a =>
      match writeElems C xs false with
      | .error e => .error e
      | .ok b => .ok ((if first then [] else [0x2C]) ++ a ++ b)
def writeMembers (C : NumCodec ν) : List (Text × PV ν) → Bool → Except MarshalErr Text
  | [], _ => .ok []
  | (k, v) :: kvs, first =>
    match writePlainValue C v with
    | .error e => .error e
    | .ok a =>
      match writeMembers C kvs false with
      | .error e => .error e
      | .ok b => .ok ((if first then [] else [0x2C]) ++ printStr goStyle k ++ 0x3A :: a ++ b)
end

/-! ## outcomes, parameter validation, the two library functions -/

/-- a native function's result: a value, an exception signal of some class, a runtime error code, a Go panic -/
inductive Outcome (α : Type) where
  | ok (a : α)
  | raise (cls : String)
  | rtError (code : Nat)
  | panic
  deriving Repr

/-- `value.ThrowException`: a `*value.Exception`, which `拦截异常` matches (`EVConstExceptionClassName`) -/
def exceptionClass : String := "异常"

def errExactParams : Nat := 53
def errInvalidParamType : Nat := 82

inductive ParamType where
  | string | hashmap
  deriving DecidableEq, Repr

def validateOneParam : JV ν → ParamType → Bool
  | .str _, .string => true
  | .dict _, .hashmap => true
  | _, _ => false

/-- `ValidateExactParams`: the error code, if any -/
def validateExactParams (values : List (JV ν)) (types : List ParamType) : Option Nat :=
  if values.length ≠ types.length then some errExactParams
  else if (values.zip types).all (fun p => validateOneParam p.1 p.2) then none
  else some errInvalidParamType

/-- same bound as `encoding/json` (`maxNestingDepth`) -/
def maxJSONNestingDepth : Nat := 10000

/-- `ElementToJSONString`: the JSON text as code points -/
def marshalElement (C : NumCodec ν) (e : JV ν) : Except MarshalErr Text :=
  writePlainValue C (buildPlainValueFromElement e)

/-- `ElementToJSONString` / `HashMapToJSONString`: `value.NewString(string(data))`, or the wrapped error -/
def elementToJSONString (C : NumCodec ν) (e : JV ν) : Outcome (JV ν) :=
  match marshalElement C e with
  | .error _ => .raise exceptionClass
  | .ok t => .ok (.str (utf8DecodeLossy (utf8Encode t)))

/-- `unmarshalPlainValue` on the bytes of the text -/
def unmarshalPlainValue (C : NumCodec ν) (bytes : List Nat) : Except Err (PV ν) :=
  refParse C maxJSONNestingDepth (utf8DecodeLossy bytes)

/-- `JSONStringToElement` on bytes -/
def jsonBytesToElement (C : NumCodec ν) (bytes : List Nat) : Outcome (JV ν) :=
  match unmarshalPlainValue C bytes with
  | .error _ => .raise exceptionClass
  | .ok (.obj kvs) => .ok (buildElementFromPlainValue C (PV.obj kvs).toPlain)
  | .ok _ => .raise exceptionClass

/-- `FN_generateJson` -/
def FN_generateJson (C : NumCodec ν) (values : List (JV ν)) : Outcome (JV ν) :=
  match validateExactParams values [.hashmap] with
  | some code => .rtError code
  | none =>
    match values with
    | [.dict kvs] => elementToJSONString C (.dict kvs)
    | _ => .panic   -- `values[0].(*value.HashMap)`

/-- `FN_parseJson` -/
def FN_parseJson (C : NumCodec ν) (values : List (JV ν)) : Outcome (JV ν) :=
  match validateExactParams values [.string] with
  | some code => .rtError code
  | none =>
    match values with
    | [.str s] => jsonBytesToElement C (utf8Encode s)
    | _ => .panic   -- `values[0].(*value.String)`

/-! ## what the round trip is claimed for -/

mutual
/-- only the six kinds JSON knows -/
def JV.noOther : JV ν → Bool
  | .list xs => noOtherL xs
  | .dict kvs => noOtherM kvs
  | .other _ => false
  | _ => true
def noOtherL : List (JV ν) → Bool
  | [] => true
  | x :: xs => x.noOther && noOtherL xs
def noOtherM : List (Text × JV ν) → Bool
  | [] => true
  | (_, v) :: kvs => v.noOther && noOtherM kvs
end

mutual
/-- every text and every key is a list of Unicode scalar values (what a Zn text holds: valid UTF-8) -/
def PV.scalarTexts : PV ν → Bool
  | .str s => s.all isScalar
  | .arr xs => scalarTextsL xs
  | .obj kvs => scalarTextsM kvs
  | _ => true
def scalarTextsL : List (PV ν) → Bool
  | [] => true
  | x :: xs => x.scalarTexts && scalarTextsL xs
def scalarTextsM : List (Text × PV ν) → Bool
  | [] => true
  | (k, v) :: kvs => k.all isScalar && v.scalarTexts && scalarTextsM kvs
end

def distinctKeys {α : Type} : List (Text × α) → Bool
  | [] => true
  | (k, _) :: kvs => !(kvs.any (fun p => p.1 == k)) && distinctKeys kvs

mutual
/-- every dictionary inside has distinct keys (the invariant of `value.HashMap`, C12) -/
def JV.keysDistinct : JV ν → Bool
  | .list xs => keysDistinctL xs
  | .dict kvs => distinctKeys kvs && keysDistinctM kvs
  | _ => true
def keysDistinctL : List (JV ν) → Bool
  | [] => true
  | x :: xs => x.keysDistinct && keysDistinctL xs
def keysDistinctM : List (Text × JV ν) → Bool
  | [] => true
  | (_, v) :: kvs => v.keysDistinct && keysDistinctM kvs
end

/-- a JSON-representable value: real dictionaries, texts of Unicode scalar values, finite numbers, only the six JSON
kinds, nested no deeper than the parser's bound -/
def Representable (C : NumCodec ν) (e : JV ν) : Bool :=
  e.noOther && e.keysDistinct && (buildPlainValueFromElement e).scalarTexts && (buildPlainValueFromElement e).finite C
    && decide ((buildPlainValueFromElement e).depth ≤ maxJSONNestingDepth)

end ZnVerif.Model.Json
