/-
Model of pkg/syntax/id_range.go `IdInRange` (the literal binary-search loop), pkg/syntax/lexer.go
`IsWhiteSpace`, pkg/syntax/util.go `containsRune`.  Tables come from Generated (regenerated from /repo).
-/
import ZnVerif.Generated.IdRange
import ZnVerif.Generated.Tokens

namespace ZnVerif.Model

open ZnVerif.Generated

/-- Outcome of a Go computation that may index out of range. -/
inductive Out (α : Type) where
  | ok : α → Out α
  | panic : Out α
  | outOfFuel : Out α
  deriving Repr, DecidableEq

/-- The loop of `IdInRange` over an arbitrary table:
```
e := len(tbl); s := 0
for { i = (e+s)/2
      if num < tbl[i][0] { if i == e {break}; e = i }
      else if num > tbl[i][1] { if i == s {break}; s = i }
      else {return true} }
return false
```
`tbl[i]` with `i ≥ len` is a Go panic. -/
def bsLoop (tbl : Array (Nat × Nat)) (num : Nat) : Nat → Nat → Nat → Out Bool
  | 0, _, _ => .outOfFuel
  | fuel+1, s, e =>
    let i := (e + s) / 2
    match tbl[i]? with
    | none => .panic
    | some (lo, hi) =>
      if num < lo then
        if i = e then .ok false else bsLoop tbl num fuel s i
      else if num > hi then
        if i = s then .ok false else bsLoop tbl num fuel i e
      else .ok true

/-- `IdInRange`: the guard `num > idMax || num < 0` then the loop.  Code points are `Nat` (the harness
only passes non-negative runes; `num < 0` is unreachable from `[]rune` produced by decoding). -/
def idInRangeTbl (tbl : Array (Nat × Nat)) (maxCp : Nat) (num : Nat) : Out Bool :=
  if num > maxCp then .ok false else bsLoop tbl num (tbl.size + 2) 0 tbl.size

def idRangeArr : Array (Nat × Nat) := IdRange.idRange.toArray

def idInRange (c : Nat) : Out Bool := idInRangeTbl idRangeArr IdRange.idMax c

/-- boolean view used by the lexer model (`isIdentifierChar`) -/
def isIdentifierChar (c : Nat) : Bool :=
  match idInRange c with
  | .ok b => b
  | _ => false

def isWhiteSpace (c : Nat) : Bool := Tokens.whiteSpaces.contains c

end ZnVerif.Model
