/-
The parser model instantiated with the lexer model: `Parser.Parse` on a source text, end to end.
-/
import ZnVerif.Model.Parser
import ZnVerif.Model.Lexer

namespace ZnVerif.Model.Parser
open ZnVerif.Model

/-- `zh.NextToken` of Model/Lexer.lean as the parser's lexer; `Lines` is the lexer's own table -/
def realOps : LexOps Lexer where
  nextToken l :=
    match ZnVerif.Model.nextToken l with
    | (.ok t, l') => (.tok t, l')
    | (.err e, l') => (.err e, l')
    | (.panic, l') => (.panic, l')
  lines l := l.lines

/-- `syntax.NewParser(src, zh.NewParserZH()).Parse()` -/
def parseSource (v : Variant) (fuel : Nat) (src : List Nat) : Outcome :=
  parseAST v realOps fuel (mkLexer src)

end ZnVerif.Model.Parser
