/-
Model of pkg/runtime/scope.go (the symbol table of one module) and of the name-handling wrappers of
pkg/runtime/vm.go (`FindElement`, `FindElementWithModule`'s scope part, `DeclareElement`,
`DeclareConstElement`, `DeclareExternalElement`, `SetElement`, `BeginScope`, `EndScope`).

Core Lean only, generic in the element type `α` (Go: `runtime.Element`, an interface; the model never
inspects it).  Every function mirrors the Go code as written:

* `locals`/`values` are slices that are never shrunk: `EndScope` only lowers `localCount`, the next
  declaration does `append(sp.locals[:sp.localCount], …)`, i.e. truncates and pushes.
* every `for i := sp.localCount-1; i >= 0; i--` loop is a recursion on `n = i+1`; `sp.locals[i]` and
  `sp.values[i] = v` with `i ≥ len` are Go panics (`GoRes.panic`), `sp.locals[:n]` with `n > len` likewise
  (Go's bound is the capacity, which is not modelled; capacity ≥ length, so the model panics at least as
  often as Go would; `Proofs/Scope.lean` shows it never happens from `NewScope`).
* `currentDepth` is a Go `int`: `EndScope` at depth 0 makes it −1 (no guard in the Go code) — hence `Int`.
* `externalRefs` is a Go `map[int]int`; here an association list read by first match (`refLookup`), written by
  consing.  `EndScope` does not delete entries, so an entry can outlive the symbol it was written for.
* Go `error` values are kept by code only: 42 NameNotDefined, 43 NameRedeclared, 44 AssignToConstant.
-/
namespace ZnVerif.SymTab

/-- Result of a Go method that may return an `error` (by code) or panic. -/
inductive GoRes (β : Type) where
  | ok (v : β)
  | err (code : Nat)
  | panic
  deriving Repr

def errNameNotDefined : Nat := 42
def errNameRedeclared : Nat := 43
def errAssignToConstant : Nat := 44

/-- `type LocalSymbol struct { name string; depth int; isConst bool }` -/
structure LocalSymbol where
  name : String
  depth : Int
  isConst : Bool
  deriving Repr, DecidableEq

/-- `type Scope struct { locals []LocalSymbol; localCount int; currentDepth int; values []Element;
externalRefs map[int]int }`.  `localCount` is only decremented under the guard `localCount > 0`, so `Nat`. -/
structure Scope (α : Type) where
  locals : Array LocalSymbol
  localCount : Nat
  currentDepth : Int
  values : Array α
  externalRefs : List (Nat × Nat)

/-- `m[k]` with the comma-ok form on the association-list reading of `map[int]int` -/
def refLookup : List (Nat × Nat) → Nat → Option Nat
  | [], _ => none
  | (k, m) :: rest, i => if k = i then some m else refLookup rest i

namespace Scope
variable {α : Type}

/-- `NewScope()` -/
def new : Scope α := ⟨#[], 0, 0, #[], []⟩

/-- `BeginScope`: `sp.currentDepth++` -/
def beginScope (sp : Scope α) : Scope α := { sp with currentDepth := sp.currentDepth + 1 }

/-- `for sp.localCount > 0 && sp.locals[sp.localCount-1].depth > sp.currentDepth { sp.localCount-- }`
with `n = localCount`, `d = currentDepth` (already decremented); returns the new `localCount`. -/
def popLoop (locals : Array LocalSymbol) (d : Int) : Nat → GoRes Nat
  | 0 => .ok 0
  | n + 1 =>
    match locals[n]? with
    | none => .panic
    | some s => if s.depth > d then popLoop locals d n else .ok (n + 1)

/-- `EndScope`: `sp.currentDepth--` (no guard: below 0 it goes negative), then the pop loop. -/
def endScope (sp : Scope α) : GoRes (Scope α) :=
  let d := sp.currentDepth - 1
  match popLoop sp.locals d sp.localCount with
  | .ok n => .ok { sp with currentDepth := d, localCount := n }
  | .err c => .err c
  | .panic => .panic

/-- `for i := n-1; i >= 0; i-- { if sp.locals[i].name == name { return i } }; return -1` (`none` = −1) -/
def findLoop (locals : Array LocalSymbol) (name : String) : Nat → GoRes (Option Nat)
  | 0 => .ok none
  | n + 1 =>
    match locals[n]? with
    | none => .panic
    | some s => if s.name = name then .ok (some n) else findLoop locals name n

/-- `getSymbolID` -/
def getSymbolID (sp : Scope α) (name : String) : GoRes (Option Nat) :=
  findLoop sp.locals name sp.localCount

/-- `GetValue`: `nil` (here `none`) when the name is not found or `symbolID ≥ len(sp.values)`. -/
def getValue (sp : Scope α) (name : String) : GoRes (Option α) :=
  match sp.getSymbolID name with
  | .ok (some i) => .ok sp.values[i]?      -- `symbolID >= 0 && symbolID < len(sp.values)` else nil
  | .ok none => .ok none
  | .err c => .err c
  | .panic => .panic

/-- `GetValueWithModuleID`: `(elem, moduleID)` with `moduleID = -1` when `externalRefs` has no entry for the
symbol id; `(nil, -1)` when not found. -/
def getValueWithModuleID (sp : Scope α) (name : String) : GoRes (Option α × Int) :=
  match sp.getSymbolID name with
  | .ok (some i) =>
    match sp.values[i]? with
    | some v =>
      match refLookup sp.externalRefs i with
      | some m => .ok (some v, (m : Int))
      | none => .ok (some v, -1)
    | none => .ok (none, -1)
  | .ok none => .ok (none, -1)
  | .err c => .err c
  | .panic => .panic

/-- the loop of `SetValue` -/
def setLoop (sp : Scope α) (name : String) (v : α) : Nat → GoRes (Scope α)
  | 0 => .err errNameNotDefined
  | n + 1 =>
    match sp.locals[n]? with
    | none => .panic
    | some s =>
      if s.name = name then
        if s.isConst then .err errAssignToConstant
        else if h : n < sp.values.size then .ok { sp with values := sp.values.set n v h }
        else .panic                                     -- `sp.values[i] = value` out of range
      else setLoop sp name v n

/-- `SetValue` -/
def setValue (sp : Scope α) (name : String) (v : α) : GoRes (Scope α) :=
  setLoop sp name v sp.localCount

/-- the redeclaration loop of `declareValue`:
```
for i := sp.localCount - 1; i >= 0; i-- {
  if sp.locals[i].depth < sp.currentDepth { break }
  if sp.locals[i].name == name { if sp.locals[i].depth == sp.currentDepth { return NameRedeclared } } }
``` -/
def declCheck (locals : Array LocalSymbol) (name : String) (d : Int) : Nat → GoRes Unit
  | 0 => .ok ()
  | n + 1 =>
    match locals[n]? with
    | none => .panic
    | some s =>
      if s.depth < d then .ok ()
      else if s.name = name ∧ s.depth = d then .err errNameRedeclared
      else declCheck locals name d n

/-- `declareValue`: check, then `sp.locals = append(sp.locals[:sp.localCount], sym)`,
`sp.values = append(sp.values[:sp.localCount], value)`, `sp.localCount++`. -/
def declareValueC (sp : Scope α) (name : String) (v : α) (isConst : Bool) : GoRes (Scope α) :=
  match declCheck sp.locals name sp.currentDepth sp.localCount with
  | .err c => .err c
  | .panic => .panic
  | .ok () =>
    if sp.localCount ≤ sp.locals.size ∧ sp.localCount ≤ sp.values.size then
      .ok { sp with
        locals := (sp.locals.extract 0 sp.localCount).push ⟨name, sp.currentDepth, isConst⟩
        values := (sp.values.extract 0 sp.localCount).push v
        localCount := sp.localCount + 1 }
    else .panic                                         -- slice bounds out of range

/-- `DeclareValue` -/
def declareValue (sp : Scope α) (name : String) (v : α) : GoRes (Scope α) := sp.declareValueC name v false

/-- `DeclareConstValue` -/
def declareConstValue (sp : Scope α) (name : String) (v : α) : GoRes (Scope α) := sp.declareValueC name v true

/-- `DeclareExternalValue`: const declaration, then `sp.externalRefs[sp.localCount-1] = moduleID`. -/
def declareExternalValue (sp : Scope α) (name : String) (v : α) (moduleID : Nat) : GoRes (Scope α) :=
  match sp.declareValueC name v true with
  | .ok sp' => .ok { sp' with externalRefs := (sp'.localCount - 1, moduleID) :: sp'.externalRefs }
  | .err c => .err c
  | .panic => .panic

end Scope

/-! ### The VM's wrappers (pkg/runtime/vm.go)

`vm.globals` is a `map[string]Element` that is never written after `InitVM`; `getCurrentScope()` is
`vm.valueStack[vm.csModuleID]` and may be `nil` (no call frame pushed yet). -/

structure VMScope (α : Type) where
  globals : List (String × α)
  moduleID : Nat                 -- `vm.csModuleID` while a frame of that module is on top
  scope : Option (Scope α)

def globalLookup {α : Type} : List (String × α) → String → Option α
  | [], _ => none
  | (k, v) :: rest, name => if k = name then some v else globalLookup rest name

namespace VMScope
variable {α : Type}

/-- `vm.BeginScope`: nothing when there is no current scope -/
def beginScope (vm : VMScope α) : VMScope α :=
  match vm.scope with
  | some sp => { vm with scope := some sp.beginScope }
  | none => vm

/-- `vm.EndScope` -/
def endScope (vm : VMScope α) : GoRes (VMScope α) :=
  match vm.scope with
  | some sp =>
    match sp.endScope with
    | .ok sp' => .ok { vm with scope := some sp' }
    | .err c => .err c
    | .panic => .panic
  | none => .ok vm

/-- `FindElement`: globals first; no current scope → NameNotDefined; then `scope.GetValue(name)`, a nil
element is NameNotDefined. -/
def findElement (vm : VMScope α) (name : String) : GoRes α :=
  match globalLookup vm.globals name with
  | some g => .ok g
  | none =>
    match vm.scope with
    | none => .err errNameNotDefined
    | some sp =>
      match sp.getValue name with
      | .ok (some v) => .ok v
      | .ok none => .err errNameNotDefined
      | .err c => .err c
      | .panic => .panic

/-- `FindElementWithModule`, returning the id of the module it picks: `NativeCodeModule` (id −1) for a
global, the recorded module for an external symbol (`moduleID >= 0`), else the current module. -/
def findElementWithModuleID (vm : VMScope α) (name : String) : GoRes (α × Int) :=
  match globalLookup vm.globals name with
  | some g => .ok (g, -1)
  | none =>
    match vm.scope with
    | none => .err errNameNotDefined
    | some sp =>
      match sp.getValueWithModuleID name with
      | .ok (some v, m) => .ok (v, if m ≥ 0 then m else (vm.moduleID : Int))
      | .ok (none, _) => .err errNameNotDefined
      | .err c => .err c
      | .panic => .panic

/-- common shape of `DeclareElement` / `DeclareConstElement` / `DeclareExternalElement`:
nil scope → NameNotDefined; a global of that name → NameRedeclared; else the scope's method. -/
def declareWith (vm : VMScope α) (name : String) (f : Scope α → GoRes (Scope α)) : GoRes (VMScope α) :=
  match vm.scope with
  | none => .err errNameNotDefined
  | some sp =>
    match globalLookup vm.globals name with
    | some _ => .err errNameRedeclared
    | none =>
      match f sp with
      | .ok sp' => .ok { vm with scope := some sp' }
      | .err c => .err c
      | .panic => .panic

def declareElement (vm : VMScope α) (name : String) (v : α) : GoRes (VMScope α) :=
  vm.declareWith name (·.declareValue name v)

def declareConstElement (vm : VMScope α) (name : String) (v : α) : GoRes (VMScope α) :=
  vm.declareWith name (·.declareConstValue name v)

def declareExternalElement (vm : VMScope α) (name : String) (v : α) (moduleID : Nat) : GoRes (VMScope α) :=
  vm.declareWith name (·.declareExternalValue name v moduleID)

/-- `SetElement`: nil scope → NameNotDefined; otherwise straight to `scope.SetValue` — `vm.globals` is NOT
consulted.  Assigning a predefined name therefore fails only because no local of that name can exist
(`declareWith` refuses it) and the failure is reported as NameNotDefined (42). -/
def setElement (vm : VMScope α) (name : String) (v : α) : GoRes (VMScope α) :=
  match vm.scope with
  | none => .err errNameNotDefined
  | some sp =>
    match sp.setValue name v with
    | .ok sp' => .ok { vm with scope := some sp' }
    | .err c => .err c
    | .panic => .panic

end VMScope

end ZnVerif.SymTab
