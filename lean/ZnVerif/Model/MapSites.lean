/-
C11 — models of the `range`-over-map sites of the interpreter (DESIGN §3: a Go map is an association list plus, at
every `range`, an explicit order oracle).  Core Lean only.

A Go map `m` is `GoMap κ α = List (κ × α)` with pairwise distinct keys (`WF m`).  A `range m` yields the entries in
an order chosen by the runtime: any list `es` with `RangeOrder m es` (a permutation of `m`).  Reads `m[k]` are
`get? k m` (the zero value of a missing key is `none`), writes `m[k] = v` are `put k v m`.

Each site function takes the yielded sequence `es` as an argument — this is the oracle `π`.  The functions mirror the
Go loops as written (after the `fix:` patches of C11, which sort the collected keys); the loops as they were BEFORE
the patches are kept beside them (`…Range`) so that Properties/C11.lean can state why the patches were needed.

  newObject          pkg/value/object.go      NewObject: `for prop, elem := range model.GetPropList()`
  libraryCopy        pkg/exec/eval.go         evalImportStmt: `for k, v := range library.GetAllExportValues()`
  sortedKeyLoop      pkg/exec/eval.go         evalImportStmt import-all (collect names, sort.Strings, declare each)
                     pkg/exec/exec_varinput.go ExecExpressionInputText (collect keys, sort, evaluate each)
  firstValueDict     pkg/server/http_handler.go buildFirstValueDict (collect keys, sort, first value of each)
  xeq                pkg/exec/eval.go compareLogicXEQ = pkg/value/value_util.go CompareValues(CmpEq), on a pure
                     tree type mirroring Model/Interp.lean `compareXEQ` without the heap
-/
import ZnVerif.Generated.Facts

namespace ZnVerif.Model.MapSites

/-! ### Go maps and the order oracle -/

abbrev GoMap (κ : Type) (α : Type) := List (κ × α)

variable {κ : Type} {α : Type} {β : Type} {σ : Type} {ε : Type}

def keys (m : GoMap κ α) : List κ := m.map Prod.fst

/-- a Go map holds one entry per key -/
def WF (m : GoMap κ α) : Prop := (keys m).Nodup

/-- the admissible yield sequences of `range m`: every permutation of the entries -/
def RangeOrder (m es : GoMap κ α) : Prop := es.Perm m

/-- `m[k]` (with `ok`): first matching entry -/
def get? [DecidableEq κ] (k : κ) : GoMap κ α → Option α
  | [] => none
  | (k', v) :: rest => if k' = k then some v else get? k rest

/-- `m[k] = v` -/
def put [DecidableEq κ] (k : κ) (v : α) (m : GoMap κ α) : GoMap κ α :=
  (k, v) :: m.filter (fun p => !decide (p.1 = k))

/-! ### NewObject (object.go)

    objPropList := make(map[string]r.Element)
    for prop, elem := range model.GetPropList() {
        if initValue, ok := initProps[prop]; ok { objPropList[prop] = initValue }
        else { objPropList[prop] = DuplicateValue(elem) }
    }

`dup` is `DuplicateValue`: a pure function of the element up to the identity of the fresh cells it allocates, which no
program can observe (there is no address-of, and `ptrCompares` in the inventory lists the only identity test). -/
def objValue [DecidableEq κ] (dup : α → α) (init : GoMap κ α) (k : κ) (e : α) : α :=
  match get? k init with | some v => v | none => dup e

def newObject [DecidableEq κ] (dup : α → α) (init : GoMap κ α) (es : GoMap κ α) : GoMap κ α :=
  es.foldl (fun acc p => put p.1 (objValue dup init p.1 p.2) acc) []

/-! ### library export copy (eval.go, LIB_TYPE_STD)

    for k, v := range library.GetAllExportValues() { extModule.AddExportValue(k, v) }

`AddExportValue` refuses a name already present and the loop drops that error. -/
def addExportValue [DecidableEq κ] (m : GoMap κ α) (k : κ) (v : α) : GoMap κ α :=
  match get? k m with
  | some _ => m
  | none => put k v m

def libraryCopy [DecidableEq κ] (m0 : GoMap κ α) (es : GoMap κ α) : GoMap κ α :=
  es.foldl (fun m p => addExportValue m p.1 p.2) m0

/-! ### loops with an early exit: import-all, ExecExpressionInputText

`step s k v` is `vm.DeclareExternalElement(name, val, module)` resp. `evalExpressionText(vm, v); result[k] = …`:
any function of the state, the key and the value read from the map — it may fail, and the first failure ends the loop.
The value handed over is `m[k]`, the map read (a missing key reads as Go's zero value: `none`). -/
def runSteps (step : σ → κ → Option α → Except ε σ) : List (κ × Option α) → σ → Except ε σ
  | [], s => .ok s
  | (k, v) :: rest, s =>
    match step s k v with
    | .error e => .error e
    | .ok s' => runSteps step rest s'

/-- what `sort.Strings` relies on: byte-wise `<=` on Go strings is a total order -/
structure TotalOrder (le : κ → κ → Bool) : Prop where
  trans : ∀ a b c, le a b = true → le b c = true → le a c = true
  total : ∀ a b, (le a b || le b a) = true
  antisymm : ∀ a b, le a b = true → le b a = true → a = b

/-- the loop as it was: the body runs directly in yield order -/
def keyLoopRange (step : σ → κ → Option α → Except ε σ) (es : GoMap κ α) (s : σ) : Except ε σ :=
  runSteps step (es.map fun p => (p.1, some p.2)) s

/-- the loop as repaired: `names := keys in yield order; sort.Strings(names); for _, name := range names { … m[name] … }` -/
def sortedKeyLoop [DecidableEq κ] (le : κ → κ → Bool) (step : σ → κ → Option α → Except ε σ)
    (m es : GoMap κ α) (s : σ) : Except ε σ :=
  runSteps step (((keys es).mergeSort le).map fun k => (k, get? k m)) s

/-! ### request dictionaries (http_handler.go buildFirstValueDict, after the repair)

    keys := …range values…; sort.Strings(keys)
    for _, k := range keys { if v := values[k]; len(v) > 0 { dict.AppendKVPair({k, NewString(v[0])}) } }

The result is an insertion-ordered dictionary: a list of pairs (keys are distinct, so `AppendKVPair` only appends). -/
def firstValue (m : GoMap κ (List β)) [DecidableEq κ] (k : κ) : Option (κ × β) :=
  match get? k m with
  | some (v :: _) => some (k, v)
  | _ => none

def firstValueDict [DecidableEq κ] (le : κ → κ → Bool) (m es : GoMap κ (List β)) : List (κ × β) :=
  ((keys es).mergeSort le).filterMap (firstValue m)

/-- before the repair: `for k, v := range r.Header { if len(v) > 0 { AppendKVPair … } }` -/
def firstValueDictRange (es : GoMap κ (List β)) : List (κ × β) :=
  es.filterMap fun p => match p.2 with | v :: _ => some (p.1, v) | [] => none

/-! ### dictionary equality on pure trees

`PV` is a value without heap: what `content h a` reads off a plain value in Model/Interp.lean.  A dictionary is the
Go map (`vals`) together with `keyOrder` (`order`).  `other` stands for every value that is not comparable (object,
function, class, exception): as the LEFT operand it makes `compareLogicXEQ` fail with error 83.
`xeq` is `compareXEQ` of Model/Interp.lean line by line, with `getCell` replaced by pattern matching. -/
inductive PV (ν : Type) where
  | null
  | num (x : ν)
  | str (s : String)
  | bool (b : Bool)
  | arr (xs : List (PV ν))
  | hm (vals : List (String × PV ν)) (order : List String)
  | other (tag : Nat)

inductive Res where
  | ok (b : Bool)
  | err (code : Nat)
  | panic
  | fuel
  deriving DecidableEq, Repr

variable {ν : Type}

/-- `for idx := range vla { cmp(vla[idx], vra[idx]) }` after the length test -/
def allPairs (rec : PV ν → PV ν → Res) : List (PV ν) → List (PV ν) → Res
  | x :: xs, y :: ys =>
    match rec x y with
    | .ok true => allPairs rec xs ys
    | r => r
  | _, _ => .ok true

/-- `for _, idx := range vl.GetKeyOrder() { vrr, ok := vra[idx]; if !ok {return false}; cmp(vla[idx], vrr) … }` -/
def allKeys (rec : PV ν → PV ν → Res) (lv rv : List (String × PV ν)) : List String → Res
  | [] => .ok true
  | k :: ks =>
    match get? k rv with
    | none => .ok false
    | some b =>
      match get? k lv with
      | none => .panic   -- keyOrder names a key the map does not hold: Go hands a nil Element to the comparison
      | some a =>
        match rec a b with
        | .ok true => allKeys rec lv rv ks
        | r => r

def xeq (eqν : ν → ν → Bool) : Nat → PV ν → PV ν → Res
  | 0, _, _ => .fuel
  | n+1, l, r =>
    match l with
    | .null => .ok (match r with | .null => true | _ => false)
    | .num x => .ok (match r with | .num y => eqν x y | _ => false)
    | .str x => .ok (match r with | .str y => decide (x = y) | _ => false)
    | .bool x => .ok (match r with | .bool y => decide (x = y) | _ => false)
    | .arr xs =>
      match r with
      | .arr ys => if xs.length ≠ ys.length then .ok false else allPairs (xeq eqν n) xs ys
      | _ => .ok false
    | .hm lv lo =>
      match r with
      | .hm rv _ => if lv.length ≠ rv.length then .ok false else allKeys (xeq eqν n) lv rv lo
      | _ => .ok false
    | .other _ => .err 83

/-- what the code did before commit "dictionary equality compares every key": the verdict of the FIRST yielded key -/
def xeqFirstKey (eqν : ν → ν → Bool) (n : Nat) (lv rv : List (String × PV ν)) (es : List (String × PV ν)) : Res :=
  if lv.length ≠ rv.length then .ok false
  else match es with
    | [] => .ok true
    | (k, a) :: _ =>
      match get? k rv with
      | none => .ok false
      | some b => xeq eqν n a b

/-- a dictionary value is well formed when keyOrder lists exactly the keys of the map, once each (C12's invariant) -/
def DictWF (vals : List (String × PV ν)) (order : List String) : Prop :=
  (keys vals).Nodup ∧ order.Nodup ∧ ∀ k, k ∈ order ↔ k ∈ keys vals

/-- "the same contents": equal as trees of finite maps, whatever the key orders and the layout of the Go maps.
Numbers must be the same number (`eqν` has no laws: NaN ≠ NaN), lists agree position by position, dictionaries hold
the same keys with the same contents under each key. -/
inductive Same : PV ν → PV ν → Prop where
  | null : Same .null .null
  | num (x : ν) : Same (.num x) (.num x)
  | str (s : String) : Same (.str s) (.str s)
  | bool (b : Bool) : Same (.bool b) (.bool b)
  | arr {xs ys : List (PV ν)} : xs.length = ys.length → (∀ a b, (a, b) ∈ xs.zip ys → Same a b) → Same (.arr xs) (.arr ys)
  | hm {lv lv' : List (String × PV ν)} {lo lo' : List String} :
      DictWF lv lo → DictWF lv' lo' →
      (∀ k, k ∈ keys lv ↔ k ∈ keys lv') →
      (∀ k a b, get? k lv = some a → get? k lv' = some b → Same a b) →
      Same (.hm lv lo) (.hm lv' lo')

/-! ### the inventory: how each `range`-over-map site of the source is accounted for

Hand-written.  `Generated.Facts.mapRangeSites` is regenerated from the working tree on every run (go/types); the
obligation `sites_all_classified` (Properties/C11.lean) demands that every regenerated site — keyed by file, function,
ranged expression, number of occurrences and loop shape — is one of the entries below.  A new `range` over a map, a
second loop over the same expression, or a collect-and-sort loop that stops sorting makes the obligation fail. -/

inductive SiteClass where
  /-- the loop body commutes: the theorem named here proves the result independent of the yield order -/
  | orderIrrelevant (theorem_ : String)
  /-- the loop only collects the keys and sorts them before any use (shape `collect-sort`, checked by the extractor);
  the theorem named here proves the loop that follows independent of the yield order -/
  | sortedBeforeUse (theorem_ : String)
  /-- owned by another property's machinery -/
  | external (owner : String)
  deriving Repr

open ZnVerif.Generated.Facts in
def modelledSites : List (Site × SiteClass) := [
  (⟨"pkg/value/object.go", "NewObject", "model.GetPropList()", 1, "body"⟩,
    .orderIrrelevant "newObject_order_independent"),
  (⟨"pkg/exec/eval.go", "evalImportStmt", "library.GetAllExportValues()", 1, "body"⟩,
    .orderIrrelevant "libraryCopy_order_independent"),
  (⟨"pkg/exec/eval.go", "evalImportStmt", "exportValues", 1, "collect-sort"⟩,
    .sortedBeforeUse "importAll_order_independent"),
  -- the same collect-names / sort / declare-each loop, re-declaring a loaded module's own names (C15 repair)
  (⟨"pkg/exec/eval.go", "execAnotherModule", "exportValues", 1, "collect-sort"⟩,
    .sortedBeforeUse "sortedKeyLoop_order_independent"),
  (⟨"pkg/exec/exec_varinput.go", "ExecExpressionInputText", "exprStrMap", 1, "collect-sort"⟩,
    .sortedBeforeUse "exprInput_order_independent"),
  (⟨"pkg/server/http_handler.go", "buildFirstValueDict", "values", 1, "collect-sort"⟩,
    .sortedBeforeUse "requestDict_order_independent"),
  (⟨"pkg/runtime/module.go", "(*ModuleGraph).checkCircularDepedencyDFS", "adj", 1, "body"⟩,
    .external "C15: dfs_order_independent (a cycle is found from every start order)"),
  (⟨"pkg/common/elem2json.go", "buildElementFromPlainValue", "vv", 1, "body"⟩,
    .external "C19: order-preserving JSON decoder (site expected to disappear)"),
  (⟨"pkg/common/elem2json.go", "buildPlainValueFromElement", "vv.GetValue()", 1, "body"⟩,
    .external "C19: order-preserving JSON encoder (site expected to disappear)"),
  (⟨"pkg/server/pm_server.go", "(*ZnPMServer).StartMaster", "zns.childs", 1, "body"⟩,
    .external "C20: process manager (kills every child; not on the path of a program execution)"),
  (⟨"pkg/server/pm_server.go", "(*ZnPMServer).maintainChildState", "zns.childs", 1, "body"⟩,
    .external "C20: process manager (signals every child; not on the path of a program execution)")]

def classified : List ZnVerif.Generated.Facts.Site := modelledSites.map Prod.fst

/-- files of the prefork process manager: they run beside, never inside, the execution of a program (C20) -/
def processManagerFiles : List String := ["pkg/server/pm_server.go", "pkg/server/name_pipe_linux.go"]

def inExecPath (s : ZnVerif.Generated.Facts.Site) : Bool := !processManagerFiles.contains s.file

end ZnVerif.Model.MapSites
