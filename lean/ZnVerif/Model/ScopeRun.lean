/-
Histories on the model: one `Spec.Scopes.Op` = one call of the corresponding `runtime.Scope` method (this is
exactly what the harness op `scope` does with the real object), answers in the spec's `Res` vocabulary.
A Go panic anywhere makes the whole history `panic`.  Core Lean only.
-/
import ZnVerif.Model.Scope
import ZnVerif.Spec.Scopes

namespace ZnVerif.SymTab
open ZnVerif.Spec.Scopes (Op Res)

variable {α : Type}

/-- a method returning `error`: nil → `done`, an error keeps the receiver as it was -/
def Scope.ofErr (sp : Scope α) : GoRes (Scope α) → GoRes (Scope α × Res α)
  | .ok sp' => .ok (sp', .done)
  | .err c => .ok (sp, .err c)
  | .panic => .panic

def Scope.step (sp : Scope α) : Op α → GoRes (Scope α × Res α)
  | .beginScope => .ok (sp.beginScope, .done)
  | .endScope =>
    match sp.endScope with
    | .ok sp' => .ok (sp', .done)
    | .err c => .err c
    | .panic => .panic
  | .declare n v => sp.ofErr (sp.declareValue n v)
  | .declareConst n v => sp.ofErr (sp.declareConstValue n v)
  | .declareExternal n v m => sp.ofErr (sp.declareExternalValue n v m)
  | .assign n v => sp.ofErr (sp.setValue n v)
  | .lookup n =>
    match sp.getValue n with
    | .ok (some v) => .ok (sp, .val v)
    | .ok none => .ok (sp, .undefined)
    | .err c => .err c
    | .panic => .panic
  | .lookupM n =>
    match sp.getValueWithModuleID n with
    | .ok (some v, m) => .ok (sp, .valM v m)
    | .ok (none, _) => .ok (sp, .undefined)
    | .err c => .err c
    | .panic => .panic

def Scope.run (sp : Scope α) : List (Op α) → GoRes (Scope α × List (Res α))
  | [] => .ok (sp, [])
  | op :: ops =>
    match sp.step op with
    | .ok (sp', r) =>
      match Scope.run sp' ops with
      | .ok (sp'', rs) => .ok (sp'', r :: rs)
      | .err c => .err c
      | .panic => .panic
    | .err c => .err c
    | .panic => .panic

/-! ### the same through the VM wrappers -/

def VMScope.ofErr (vm : VMScope α) : GoRes (VMScope α) → GoRes (VMScope α × Res α)
  | .ok vm' => .ok (vm', .done)
  | .err c => .ok (vm, .err c)
  | .panic => .panic

def VMScope.step (vm : VMScope α) : Op α → GoRes (VMScope α × Res α)
  | .beginScope => .ok (vm.beginScope, .done)
  | .endScope =>
    match vm.endScope with
    | .ok vm' => .ok (vm', .done)
    | .err c => .err c
    | .panic => .panic
  | .declare n v => vm.ofErr (vm.declareElement n v)
  | .declareConst n v => vm.ofErr (vm.declareConstElement n v)
  | .declareExternal n v m => vm.ofErr (vm.declareExternalElement n v m)
  | .assign n v => vm.ofErr (vm.setElement n v)
  | .lookup n =>
    match vm.findElement n with
    | .ok v => .ok (vm, .val v)
    | .err c => .ok (vm, .err c)
    | .panic => .panic
  | .lookupM n =>
    match vm.findElementWithModuleID n with
    | .ok (v, m) => .ok (vm, .valM v m)
    | .err c => .ok (vm, .err c)
    | .panic => .panic

def VMScope.run (vm : VMScope α) : List (Op α) → GoRes (VMScope α × List (Res α))
  | [] => .ok (vm, [])
  | op :: ops =>
    match vm.step op with
    | .ok (vm', r) =>
      match VMScope.run vm' ops with
      | .ok (vm'', rs) => .ok (vm'', r :: rs)
      | .err c => .err c
      | .panic => .panic
    | .err c => .err c
    | .panic => .panic

end ZnVerif.SymTab
