/-
Complete model of the lexer: pkg/syntax/lexer.go (`PreNextToken`, `parseBeginLex`, `parseSpaces`, `parseLine`
with its `goto head`, `setIndentType`, `FindLineIdx`, `GetLineInfo`) and pkg/syntax/zh/tokens.go (`NextToken`,
`parsePunctuations`, `parseOperators`, `parseVarQuote`, `parseString`, `unescapeBackTickSpecialStr`,
`parseIdentifier`, `parseComment`, `parseEOF`) and pkg/syntax/zh/keyword.go (`parseKeyword` over the regenerated
`keywordTable`).  Mirrors the Go code as written, quirks included:

* the cursor may run past the end of the source (`getChar` answers `RuneEOF = 0` there; a NUL inside the source
  is indistinguishable from the end);
* `LineText = Source[startIdx:endCursor]` is a Go slice expression: `startIdx > endCursor` or
  `endCursor > len(Source)` is a run-time panic → outcome `LexRes.panic`;
* a failed comment attempt (`注` not followed by digits and `：`, `/` not followed by `/` or `*`) only restores the cursor;
* a string or comment that spans lines appends `LineInfo`s without ever setting the `LineText` of the line it left.

The model mirrors the tree WITH four lexer repairs (patches/fix-c13-invalid-codepoint-escape, fix-c13-backtick-at-eof-or-linebreak,
fix-c13-undocumented-backtick-group, fix-c18-note-comment-first-char); each place is marked.  On the unrepaired tree the
correspondence run `lex` disagrees exactly there.

Every Go loop consumes at least one character per pass and leaves at EOF, so every loop here is defined by
well-founded recursion on `src.size - cursor` (one `…Step` function per loop body, then the loop); Lean accepting
the definitions is the termination proof of the lexer.  No fuel anywhere except `lexAll` (token count bound of the op).
Core Lean only.
-/
import ZnVerif.Model.LexCore

namespace ZnVerif.Model
open ZnVerif.Generated ZnVerif.Generated.Tokens

/-- result of a lexer entry point: a value, a syntax error (code, cursor), or a Go run-time panic -/
inductive LexRes (α : Type) where
  | ok : α → LexRes α
  | err : SynErr → LexRes α
  | panic : LexRes α
  deriving Repr, DecidableEq

namespace Lexer

theorem lt_of_getChar_ne_zero {l : Lexer} {i : Nat} (h : l.getChar i ≠ 0) : i < l.src.size := by
  unfold getChar at h
  split at h
  · assumption
  · exact absurd rfl h

theorem cursor_lt_of_cur_ne_zero {l : Lexer} (h : l.cur ≠ 0) : l.cursor < l.src.size :=
  lt_of_getChar_ne_zero h

@[simp] theorem adv_src (l : Lexer) : l.adv.src = l.src := rfl
@[simp] theorem adv_cursor (l : Lexer) : l.adv.cursor = l.cursor + 1 := rfl
@[simp] theorem adv_lines (l : Lexer) : l.adv.lines = l.lines := rfl
@[simp] theorem adv_indentType (l : Lexer) : l.adv.indentType = l.indentType := rfl
@[simp] theorem setCursor_src (l : Lexer) (c : Nat) : (l.setCursor c).src = l.src := rfl
@[simp] theorem setCursor_cursor (l : Lexer) (c : Nat) : (l.setCursor c).cursor = c := rfl
@[simp] theorem pushLine_src (l : Lexer) (li : LineInfo) : (l.pushLine li).src = l.src := rfl
@[simp] theorem pushLine_cursor (l : Lexer) (li : LineInfo) : (l.pushLine li).cursor = l.cursor := rfl
@[simp] theorem pushLine_lines (l : Lexer) (li : LineInfo) : (l.pushLine li).lines = l.lines.push li := rfl
@[simp] theorem pushLine_indentType (l : Lexer) (li : LineInfo) : (l.pushLine li).indentType = l.indentType := rfl

end Lexer

/-! ### Loops

Every `for` loop of the lexer is `iterate step`: `step` is one pass of the Go loop body, answering either
`done r` (a `return`/`break`) or `cont s` (next pass with loop variables `s`).  `Consumes step` — a pass that
continues has moved the cursor forward from a position inside the text — is what makes the recursion
well-founded; it is proved for every loop body below, so Lean accepting `iterate step h` is the termination
proof of that loop. -/

inductive Step (ρ σ : Type) where
  | done (r : ρ)
  | cont (s : σ)

def Consumes {ρ σ : Type} (step : Lexer → σ → Step ρ σ × Lexer) : Prop :=
  ∀ l s s' l', step l s = (.cont s', l') → l'.src = l.src ∧ l.cursor < l'.cursor ∧ l.cursor < l.src.size

def iterate {ρ σ : Type} (step : Lexer → σ → Step ρ σ × Lexer) (hc : Consumes step) (l : Lexer) (s : σ) :
    ρ × Lexer :=
  match h : step l s with
  | (.done r, l') => (r, l')
  | (.cont s', l') => iterate step hc l' s'
termination_by l.src.size - l.cursor
decreasing_by
  obtain ⟨h1, h2, h3⟩ := hc l s s' l' h
  rw [h1]; omega

theorem iterate_done {ρ σ : Type} {step : Lexer → σ → Step ρ σ × Lexer} {hc : Consumes step}
    {l l' : Lexer} {s : σ} {r : ρ} (h : step l s = (.done r, l')) : iterate step hc l s = (r, l') := by
  rw [iterate]; split
  · rename_i heq; rw [h] at heq; cases heq; rfl
  · rename_i heq; rw [h] at heq; cases heq

theorem iterate_cont {ρ σ : Type} {step : Lexer → σ → Step ρ σ × Lexer} {hc : Consumes step}
    {l l' : Lexer} {s s' : σ} (h : step l s = (.cont s', l')) :
    iterate step hc l s = iterate step hc l' s' := by
  rw [iterate]; split
  · rename_i heq; rw [h] at heq; cases heq
  · rename_i heq; rw [h] at heq; cases heq; rfl

/-- invariant rule for loops -/
theorem iterate_inv {ρ σ : Type} {step : Lexer → σ → Step ρ σ × Lexer} {hc : Consumes step}
    (I : Lexer → σ → Prop) (Q : ρ → Lexer → Prop)
    (hcont : ∀ l s s' l', I l s → step l s = (.cont s', l') → I l' s')
    (hdone : ∀ l s r l', I l s → step l s = (.done r, l') → Q r l') :
    ∀ l s, I l s → Q (iterate step hc l s).1 (iterate step hc l s).2 := by
  intro l s
  induction l, s using iterate.induct step hc with
  | case1 l s r l' h => intro hi; rw [iterate_done h]; exact hdone _ _ _ _ hi h
  | case2 l s s' l' h ih => intro hi; rw [iterate_cont h]; exact ih (hcont _ _ _ _ hi h)

/-- what every loop preserves: the source; and the cursor never moves back -/
def Lexer.Le (l l' : Lexer) : Prop := l'.src = l.src ∧ l.cursor ≤ l'.cursor

theorem Lexer.Le.refl (l : Lexer) : l.Le l := ⟨rfl, Nat.le_refl _⟩
theorem Lexer.Le.trans {a b c : Lexer} (h1 : a.Le b) (h2 : b.Le c) : a.Le c :=
  ⟨by rw [h2.1, h1.1], Nat.le_trans h1.2 h2.2⟩

theorem iterate_le {ρ σ : Type} {step : Lexer → σ → Step ρ σ × Lexer} {hc : Consumes step}
    (hstep : ∀ (l : Lexer) (s : σ), l.Le (step l s).2) (l : Lexer) (s : σ) : l.Le (iterate step hc l s).2 := by
  induction l, s using iterate.induct step hc with
  | case1 l s r l' h => rw [iterate_done h]; have := hstep l s; rw [h] at this; exact this
  | case2 l s s' l' h ih =>
    rw [iterate_cont h]; have := hstep l s; rw [h] at this; exact this.trans ih

/-! ### pkg/syntax/lexer.go -/

def mkLexer (src : List Nat) : Lexer := { src := src.toArray }

/-- `setIndentType(count, ch)`: may set `IndentType`; errors 23 (`InvalidIndentType`) / 24 (`InvalidIndentSpaceCount`)
carry the cursor.  Note the Go code initialises `IndentType` *before* the `count%4` test. -/
def indentKind (ch : Nat) : Nat :=
  if ch == runeTAB then cIndentTab else if ch == runeSP then cIndentSpace else cIndentUnknown

/-- the lexer after `setIndentType`: `IndentType` initialised when it was unknown and `ch` is SP/TAB -/
def setIndentTypeLexer (l : Lexer) (ch : Nat) : Lexer :=
  if indentKind ch != cIndentUnknown && l.indentType == cIndentUnknown then { l with indentType := indentKind ch } else l

def setIndentType (l : Lexer) (count ch : Nat) : LexRes Nat × Lexer :=
  let t := indentKind ch
  let l1 := setIndentTypeLexer l ch
  let res : LexRes Nat :=
    if t == cIndentUnknown then
      if count > 0 && l.indentType != t then .err ⟨23, l.cursor⟩
      else .ok (if l.indentType == cIndentSpace then count / 4 else count)
    else
      if t == cIndentSpace && count % 4 != 0 then .err ⟨24, l1.cursor⟩
      else if l1.indentType != t then .err ⟨23, l1.cursor⟩
      else .ok (if l1.indentType == cIndentSpace then count / 4 else count)
  (res, l1)

theorem setIndentType_src (l : Lexer) (count ch : Nat) :
    (setIndentType l count ch).2.src = l.src ∧ (setIndentType l count ch).2.cursor = l.cursor ∧
    (setIndentType l count ch).2.lines = l.lines := by
  simp only [setIndentType, setIndentTypeLexer]
  split <;> simp

/-- `for l.Next() == ch { count += 1 }` (the cursor ends on the first different character).  In Go the loop
would not end for `ch = RuneEOF`; both callers pass SP or TAB only, the model stops at the end of the text. -/
def countSame (ch : Nat) (l : Lexer) (count : Nat) : Lexer × Nat :=
  if h : l.adv.cur == ch && l.adv.cur != 0 then countSame ch l.adv (count + 1) else (l.adv, count)
termination_by l.src.size - l.cursor
decreasing_by
  have h2 : l.adv.cur ≠ 0 := by
    intro h0
    simp [h0] at h
  have := Lexer.cursor_lt_of_cur_ne_zero h2
  simp at this ⊢
  omega

theorem countSame_adv (ch : Nat) (l : Lexer) (count : Nat) :
    (countSame ch l count).1.src = l.src ∧ l.cursor < (countSame ch l count).1.cursor ∧
    (countSame ch l count).1.lines = l.lines ∧ (countSame ch l count).1.indentType = l.indentType := by
  induction l, count using countSame.induct ch with
  | case1 l count h ih =>
    rw [countSame]; simp only [h, ↓reduceDIte]
    obtain ⟨a, b, c, d⟩ := ih
    refine ⟨by simpa using a, ?_, by simpa using c, by simpa using d⟩
    simp at b; omega
  | case2 l count h =>
    rw [countSame]; simp [h]

/-- `parseBeginLex`: first `LineInfo`, first line's indent -/
def parseBeginLex (l : Lexer) : LexRes Unit × Lexer :=
  let ch := l.getChar 0
  if ch == runeEOF then (.ok (), l)
  else
    let l1 := l.pushLine { indents := 0, startIdx := 0 }
    if ch == runeTAB || ch == runeSP then
      let r := countSame ch l1 1
      match setIndentType r.1 r.2 ch with
      | (.ok n, l2) =>
        -- `l.Lines[0].Indents = indents`
        (.ok (), { l2 with lines := l2.lines.modify 0 (fun li => { li with indents := n }) })
      | (.err e, l2) => (.err e, l2)
      | (.panic, l2) => (.panic, l2)
    else (.ok (), l1)

theorem parseBeginLex_adv (l : Lexer) :
    (parseBeginLex l).2.src = l.src ∧ l.cursor ≤ (parseBeginLex l).2.cursor := by
  unfold parseBeginLex
  simp only []
  split
  · simp
  · split
    · have h1 := countSame_adv (l.getChar 0) (l.pushLine { indents := 0, startIdx := 0 }) 1
      have h2 := setIndentType_src (countSame (l.getChar 0) (l.pushLine { indents := 0, startIdx := 0 }) 1).1
        (countSame (l.getChar 0) (l.pushLine { indents := 0, startIdx := 0 }) 1).2 (l.getChar 0)
      obtain ⟨h1a, h1b, -, -⟩ := h1
      simp only [Lexer.pushLine_src, Lexer.pushLine_cursor] at h1a h1b
      split <;> rename_i heq <;> rw [heq] at h2 <;> obtain ⟨h2a, h2b, -⟩ := h2 <;>
        dsimp only at h2a h2b ⊢ <;> exact ⟨by rw [h2a, h1a], by omega⟩
    · simp

/-- `parseSpaces`: `for IsWhiteSpace(ch) { ch = l.Next() }` -/
def parseSpaces (l : Lexer) : Lexer :=
  if h : isWhiteSpace l.cur then parseSpaces l.adv else l
termination_by l.src.size - l.cursor
decreasing_by
  have h2 : l.cur ≠ 0 := by
    intro h0
    rw [h0] at h
    exact absurd h (by decide)
  have := Lexer.cursor_lt_of_cur_ne_zero h2
  simp; omega

theorem parseSpaces_adv (l : Lexer) :
    (parseSpaces l).src = l.src ∧ l.cursor ≤ (parseSpaces l).cursor ∧
    (parseSpaces l).lines = l.lines ∧ (parseSpaces l).indentType = l.indentType := by
  induction l using parseSpaces.induct with
  | case1 l h ih =>
    rw [parseSpaces]; simp only [h, ↓reduceDIte]
    obtain ⟨a, b, c, d⟩ := ih
    refine ⟨by simpa using a, ?_, by simpa using c, by simpa using d⟩
    simp at b; omega
  | case2 l h => rw [parseSpaces]; simp [h]

theorem parseSpaces_strict (l : Lexer) (h : isWhiteSpace l.cur = true) :
    l.cursor < (parseSpaces l).cursor := by
  rw [parseSpaces]; simp only [h, ↓reduceDIte]
  have := (parseSpaces_adv l.adv).2.1
  simp at this; omega

/-- the shared tail of `parseLine` and `parseEOF`: `lastLine.LineText = l.Source[startIdx:endCursor]`
(`none` = the slice expression panics) -/
def lastLineStart (l : Lexer) : Option Nat :=
  if h : 0 < l.lines.size then
    let last := l.lines[l.lines.size - 1]
    some (if l.indentType == cIndentSpace then last.startIdx + 4 * last.indents
      else if l.indentType == cIndentTab then last.startIdx + last.indents
      else last.startIdx)
  else none

def sliceLastLine (l : Lexer) (endCursor : Nat) : Option Lexer :=
  match lastLineStart l with
  | none => some l
  | some startIdx =>
    if startIdx > endCursor || endCursor > l.src.size then none
    else some { l with lines := l.lines.modify (l.lines.size - 1) (fun li => { li with text := some (startIdx, endCursor) }) }

theorem sliceLastLine_src {l l' : Lexer} {e : Nat} (h : sliceLastLine l e = some l') :
    l'.src = l.src ∧ l'.cursor = l.cursor ∧ l'.indentType = l.indentType := by
  unfold sliceLastLine at h
  split at h
  · cases h; simp
  · split at h
    · cases h
    · cases h; simp

/-- `l.Lines[len-1].Indents = n` -/
def setLastIndents (l : Lexer) (n : Nat) : Lexer :=
  { l with lines := l.lines.modify (l.lines.size - 1) (fun li => { li with indents := n }) }

/-- one pass of `parseLine` from label `head:` to just before the final `GetCurrentChar` test -/
def parseLineBody (ch : Nat) (withIndent : Bool) (l : Lexer) : LexRes Unit × Lexer :=
  let endCursor := l.cursor
  let l1 := l.adv
  let l2 := if (ch == runeCR && l1.cur == runeLF) || (ch == runeLF && l1.cur == runeCR) then l1.adv else l1
  let chn := l2.cur
  match sliceLastLine l2 endCursor with
  | none => (.panic, l2)
  | some l3 =>
    let l4 := l3.pushLine { indents := 0, startIdx := l3.cursor }
    if withIndent then
      let r := if chn == runeSP || chn == runeTAB then countSame chn l4 1 else (l4, 0)
      let r2 := setIndentType r.1 r.2 chn
      match r2.1 with
      | .ok n => (.ok (), setLastIndents r2.2 n)
      | .err e => (.err e, r2.2)
      | .panic => (.panic, r2.2)
    else (.ok (), l4)

theorem parseLineBody_adv (ch : Nat) (w : Bool) (l : Lexer) :
    (parseLineBody ch w l).2.src = l.src ∧ l.cursor < (parseLineBody ch w l).2.cursor := by
  unfold parseLineBody
  dsimp only
  generalize hl2 : (if (ch == runeCR && l.adv.cur == runeLF) || (ch == runeLF && l.adv.cur == runeCR)
    then l.adv.adv else l.adv) = l2
  have h2 : l2.src = l.src ∧ l.cursor < l2.cursor := by
    rw [← hl2]; split <;> simp <;> omega
  split
  · exact h2
  · rename_i l3 h3
    have h3' := sliceLastLine_src h3
    split
    · generalize hr : (if (l2.cur == runeSP || l2.cur == runeTAB) = true
        then countSame l2.cur (l3.pushLine { indents := 0, startIdx := l3.cursor }) 1
        else (l3.pushLine { indents := 0, startIdx := l3.cursor }, 0)) = r
      have hr' : r.1.src = l.src ∧ l.cursor < r.1.cursor := by
        rw [← hr]; split
        · have := countSame_adv l2.cur (l3.pushLine { indents := 0, startIdx := l3.cursor }) 1
          simp only [Lexer.pushLine_src, Lexer.pushLine_cursor] at this
          refine ⟨by rw [this.1, h3'.1, h2.1], ?_⟩
          omega
        · simp only [Lexer.pushLine_src, Lexer.pushLine_cursor]
          refine ⟨by rw [h3'.1, h2.1], by omega⟩
      have hs := setIndentType_src r.1 r.2 l2.cur
      split <;> simp only [setLastIndents] <;> exact ⟨by rw [hs.1, hr'.1], by omega⟩
    · simp only [Lexer.pushLine_src, Lexer.pushLine_cursor]
      exact ⟨by rw [h3'.1, h2.1], by omega⟩

/-- loop form of `parseLine`: the loop variable is `ch`; `goto head` while the current character is CR or LF -/
def parseLineStep (withIndent : Bool) (l : Lexer) (ch : Nat) : Step (LexRes Unit) Nat × Lexer :=
  let r := parseLineBody ch withIndent l
  match r.1 with
  | .ok _ => if r.2.cur == runeCR || r.2.cur == runeLF then (.cont r.2.cur, r.2) else (.done (.ok ()), r.2)
  | .err e => (.done (.err e), r.2)
  | .panic => (.done .panic, r.2)

theorem parseLineStep_snd (w : Bool) (l : Lexer) (ch : Nat) :
    (parseLineStep w l ch).2 = (parseLineBody ch w l).2 := by
  unfold parseLineStep; dsimp only; split
  · split <;> rfl
  · rfl
  · rfl

theorem parseLineStep_consumes (w : Bool) : Consumes (parseLineStep w) := by
  intro l ch ch' l' h
  have hs := parseLineStep_snd w l ch
  have ha := parseLineBody_adv ch w l
  rw [h] at hs; dsimp only at hs
  rw [← hs] at ha
  refine ⟨ha.1, ha.2, ?_⟩
  have hcur : l'.cur ≠ 0 := by
    unfold parseLineStep at h; dsimp only at h
    split at h
    · split at h
      · rename_i hc
        cases h
        intro h0; rw [h0] at hc; exact absurd hc (by decide)
      · cases h
    · cases h
    · cases h
  have := Lexer.cursor_lt_of_cur_ne_zero hcur
  rw [ha.1] at this; omega

/-- `parseLine(c, withIndent)` -/
def parseLine (ch : Nat) (withIndent : Bool) (l : Lexer) : LexRes Unit × Lexer :=
  iterate (parseLineStep withIndent) (parseLineStep_consumes withIndent) l ch

theorem parseLine_adv (ch : Nat) (w : Bool) (l : Lexer) :
    (parseLine ch w l).2.src = l.src ∧ l.cursor < (parseLine ch w l).2.cursor := by
  unfold parseLine
  have hle := iterate_le (hc := parseLineStep_consumes w) (step := parseLineStep w)
    (fun l s => by
      rw [parseLineStep_snd]; have := parseLineBody_adv s w l; exact ⟨this.1, Nat.le_of_lt this.2⟩)
  rw [iterate]
  split
  · rename_i r l' heq
    have hs := parseLineStep_snd w l ch
    have ha := parseLineBody_adv ch w l
    rw [heq] at hs; dsimp only at hs; rw [← hs] at ha; exact ha
  · rename_i s' l' heq
    have hs := parseLineStep_snd w l ch
    have ha := parseLineBody_adv ch w l
    rw [heq] at hs; dsimp only at hs; rw [← hs] at ha
    have := hle l' s'
    exact ⟨by rw [this.1, ha.1], Nat.lt_of_lt_of_le ha.2 this.2⟩

/-- one pass of the `for` loop of `PreNextToken`: skip white space, or a run of line breaks (building `Lines`) -/
def skipBlankStep (l : Lexer) (_ : Unit) : Step (LexRes Unit) Unit × Lexer :=
  if isWhiteSpace l.cur then (.cont (), parseSpaces l)
  else if l.cur == runeCR || l.cur == runeLF then
    let r := parseLine l.cur true l
    match r.1 with
    | .ok _ => (.cont (), r.2)
    | .err e => (.done (.err e), r.2)
    | .panic => (.done .panic, r.2)
  else (.done (.ok ()), l)

theorem skipBlankStep_le (l : Lexer) (u : Unit) : l.Le (skipBlankStep l u).2 := by
  unfold skipBlankStep
  split
  · have := parseSpaces_adv l; exact ⟨this.1, this.2.1⟩
  · split
    · have := parseLine_adv l.cur true l
      dsimp only; split <;> exact ⟨this.1, Nat.le_of_lt this.2⟩
    · exact Lexer.Le.refl l

theorem skipBlankStep_consumes : Consumes skipBlankStep := by
  intro l u u' l' h
  unfold skipBlankStep at h
  split at h
  · rename_i hw
    cases h
    have h2 : l.cur ≠ 0 := by
      intro h0; rw [h0] at hw; exact absurd hw (by decide)
    exact ⟨(parseSpaces_adv l).1, parseSpaces_strict l hw, Lexer.cursor_lt_of_cur_ne_zero h2⟩
  · split at h
    · rename_i hc
      have h2 : l.cur ≠ 0 := by
        intro h0; rw [h0] at hc; exact absurd hc (by decide)
      have ha := parseLine_adv l.cur true l
      dsimp only at h
      split at h
      · cases h; exact ⟨ha.1, ha.2, Lexer.cursor_lt_of_cur_ne_zero h2⟩
      · cases h
      · cases h
    · cases h

def skipBlank (l : Lexer) : LexRes Unit × Lexer := iterate skipBlankStep skipBlankStep_consumes l ()

theorem skipBlank_adv (l : Lexer) : l.Le (skipBlank l).2 :=
  iterate_le skipBlankStep_le l ()

/-- `PreNextToken` -/
def preNextToken (l : Lexer) : LexRes Unit × Lexer :=
  if l.beginLex then
    let r := parseBeginLex { l with beginLex := false }
    match r.1 with
    | .ok _ => skipBlank r.2
    | .err e => (.err e, r.2)
    | .panic => (.panic, r.2)
  else skipBlank l

theorem preNextToken_adv (l : Lexer) : l.Le (preNextToken l).2 := by
  unfold preNextToken
  split
  · have hb := parseBeginLex_adv { l with beginLex := false }
    dsimp only
    split
    · exact Lexer.Le.trans (a := l) ⟨hb.1, hb.2⟩ (skipBlank_adv _)
    · exact ⟨hb.1, hb.2⟩
    · exact ⟨hb.1, hb.2⟩
  · exact skipBlank_adv l

/-- `FindLineIdx(cursor, startLoopIdx)` -/
def findLineIdx (l : Lexer) (cursor : Nat) (i : Nat) : Nat :=
  if h : i + 1 < l.lines.size then
    if cursor < l.lines[i + 1].startIdx then i else findLineIdx l cursor (i + 1)
  else i
termination_by l.lines.size - i

/-- `GetLineInfo(idx)` (`none` = nil) -/
def getLineInfo (l : Lexer) (idx : Nat) : Option LineInfo := l.lines[idx]?

/-! ### pkg/syntax/zh/keyword.go -/

/-- the lookahead glyphs of one alternative against `Peek`, `Peek2`, `Peek3` -/
def lookaheadMatches (l : Lexer) : Nat → List Nat → Bool
  | _, [] => true
  | k, g :: gs => l.getChar (l.cursor + k) == g && lookaheadMatches l (k + 1) gs

/-- `parseKeyword` without moving: the matching alternative `(word length, token type)`.  The outer `switch ch`
is `keywordTable` (one row per first glyph), the `if … else if …` chain of a case is the row's ordered alternatives. -/
def matchKeyword (l : Lexer) : Option (Nat × Nat) :=
  match keywordTable.lookup l.cur with
  | none => none
  | some alts =>
    match alts.find? (fun a => lookaheadMatches l 1 a.1) with
    | none => none
    | some (_, wordLen, ty) => if ty != 0 then some (wordLen, ty) else none

/-- `parseKeyword(l, moveForward)`; never errors -/
def parseKeyword (l : Lexer) (moveForward : Bool) : Option Token × Lexer :=
  match matchKeyword l with
  | none => (none, l)
  | some (wordLen, ty) =>
    let l' := if moveForward then l.setCursor (l.cursor + wordLen) else l
    (some { type := ty, startIdx := l.cursor, endIdx := l'.cursor }, l')

/-! ### pkg/syntax/zh/tokens.go -/

/-- the ten quote characters as the `case` lists of `parseString` / `unescapeBackTickSpecialStr` write them -/
def leftQuotes : List Nat :=
  [cLeftDoubleQuoteI, cLeftDoubleQuoteII, cLeftSingleQuoteI, cLeftSingleQuoteII, cLeftLibQuoteI]
def rightQuotes : List Nat :=
  [cRightDoubleQuoteI, cRightDoubleQuoteII, cRightSingleQuoteI, cRightSingleQuoteII, cRightLibQuoteI]

/-- any of the ten quote characters -/
def isQuoteChar (c : Nat) : Bool := leftQuotes.contains c || rightQuotes.contains c

/-- `parsePunctuations` -/
def parsePunctuations (l : Lexer) : LexRes Token × Lexer :=
  match punctuationTypeMap.lookup l.cur with
  | some ty => (.ok { type := ty, startIdx := l.cursor, endIdx := l.cursor + 1 }, l.adv)
  | none => (.err ⟨25, l.cursor⟩, l)

/-- `parseOperators`: `(isOperator, token)`; `none` = not an operator here (falls through to keyword/identifier) -/
def parseOperators (l : Lexer) : LexRes (Option Token) × Lexer :=
  let startIdx := l.cursor
  let ch := l.cur
  let one (ty : Nat) : LexRes (Option Token) × Lexer :=
    (.ok (some { type := ty, startIdx := startIdx, endIdx := l.cursor + 1 }), l.adv)
  let two (ty : Nat) : LexRes (Option Token) × Lexer :=
    (.ok (some { type := ty, startIdx := startIdx, endIdx := l.cursor + 2 }), l.adv.adv)
  if ch == cRefOp then one cTypeObjRef
  else if ch == cAnnotationOp then one cTypeAnnotationT
  else if ch == cHashOp then one cTypeMapHash
  else if ch == cEqualOp then (if l.peek == cEqualOp then two cTypeEqualMark else one cTypeAssignMark)
  else if ch == cLessThanOp then (if l.peek == cEqualOp then two cTypeLTEMark else one cTypeLTMark)
  else if ch == cGreaterThanOp then (if l.peek == cEqualOp then two cTypeGTEMark else one cTypeGTMark)
  else if ch == cIntDivOp then one cTypeIntDivMark
  else if ch == cRemainderOp then one cTypeModuloMark
  else if ch == cPlusOp || ch == cMinusOp || ch == cMultiplyOp || ch == cSlashOp then
    let chn := l.peek
    if ch == cSlashOp && chn == cEqualOp then two cTypeNEMark
    else
      let t := if ch == cPlusOp then cTypePlus else if ch == cMinusOp then cTypeMinus
        else if ch == cMultiplyOp then cTypeMultiply else cTypeDivision
      if isWhiteSpace chn || markPunctuations.contains chn || markQuotes.contains chn then one t
      else (.ok none, l)
  else (.err ⟨25, l.cursor⟩, l)

set_option maxRecDepth 100000 in
theorem isIdentifierChar_zero : isIdentifierChar 0 = false := by decide +kernel

/-- one pass of the `for` loop of `parseVarQuote`; loop variable: the literal -/
def parseVarQuoteStep (startIdx : Nat) (l : Lexer) (lit : List Nat) : Step (LexRes Token) (List Nat) × Lexer :=
  let l1 := l.adv
  let ch := l1.cur
  if isIdentifierChar ch || IdRange.idContinue.contains ch then (.cont (lit ++ [ch]), l1)
  else if ch == cBackTick then
    (.done (.ok { type := cTypeIdentifier, startIdx := startIdx, endIdx := l1.cursor + 1, literal := lit }), l1.adv)
  else (.done (.err ⟨25, l1.cursor⟩), l1)

theorem parseVarQuoteStep_consumes (s : Nat) : Consumes (parseVarQuoteStep s) := by
  intro l lit lit' l' h
  unfold parseVarQuoteStep at h
  dsimp only at h
  split at h
  · rename_i hc
    cases h
    have h2 : l.adv.cur ≠ 0 := by
      intro h0; rw [h0] at hc; simp [isIdentifierChar_zero] at hc; exact absurd hc (by decide)
    have := Lexer.cursor_lt_of_cur_ne_zero h2
    simp at this ⊢; omega
  · split at h <;> cases h

/-- `parseVarQuote`: back-tick, identifier characters, back-tick -/
def parseVarQuote (l : Lexer) : LexRes Token × Lexer :=
  iterate (parseVarQuoteStep l.cursor) (parseVarQuoteStep_consumes l.cursor) l []

/-! #### `unescapeBackTickSpecialStr` -/

/-- `strconv.ParseInt(hexStr, 16, 32)` on a non-empty string of `[0-9A-F]`: value and `err == nil`
(out of range: the value is clamped to `1<<31 - 1` and `err != nil`) -/
def hexDigitVal (c : Nat) : Nat := if c ≤ 0x39 then c - 0x30 else c - 0x41 + 10
def hexValue (ds : List Nat) : Nat := ds.foldl (fun a d => a * 16 + hexDigitVal d) 0
def parseInt32Hex (ds : List Nat) : Nat × Bool :=
  let v := hexValue ds
  if v > 0x7FFFFFFF then (0x7FFFFFFF, false) else (v, true)

/-- `utf8.ValidRune` -/
def validRune (r : Nat) : Bool := r < 0xD800 || (0xDFFF < r && r ≤ 0x10FFFF)

def isUpperHex (c : Nat) : Bool := (0x30 ≤ c && c ≤ 0x39) || (0x41 ≤ c && c ≤ 0x46)

/-- the escape names compared with `string(literalBuffer)` (back-ticks included) -/
def escTAB : List Nat := [0x60, 0x54, 0x41, 0x42, 0x60]
def escBK : List Nat := [0x60, 0x42, 0x4B, 0x60]
def escSP : List Nat := [0x60, 0x53, 0x50, 0x60]
def escCR : List Nat := [0x60, 0x43, 0x52, 0x60]
def escLF : List Nat := [0x60, 0x4C, 0x46, 0x60]
def escCRLF : List Nat := [0x60, 0x43, 0x52, 0x4C, 0x46, 0x60]

/-- loop variables of `unescapeBackTickSpecialStr` -/
structure UState where
  state : Nat
  hexCount : Nat
  buf : List Nat
  deriving Repr, DecidableEq

/-- the transitions of the `switch cch` for the letters: `(cch, admissible current states, new state)` -/
def unescLetterTable : List (Nat × List Nat × Nat) := [
  (0x43, [csBegin], csC),        -- C
  (0x4C, [csBegin, csR], csL),   -- L
  (0x54, [csBegin], csT),        -- T
  (0x53, [csBegin], csS),        -- S
  (0x42, [csBegin, csA], csB),   -- B
  (0x55, [csBegin], csU),        -- U
  (0x52, [csC], csR),            -- R
  (0x46, [csL], csF),            -- F
  (0x41, [csT], csA),            -- A
  (0x50, [csS], csP),            -- P
  (0x4B, [csB], csK),            -- K
  (0x2B, [csU], csmP)            -- +
]

/-- how the loop of `unescapeBackTickSpecialStr` is left: `return append(srcLiteral, …)` with the new literal, or
`goto UNDONE_end` with the `literalBuffer` collected so far -/
inductive UnescOut where
  | decoded (lit : List Nat)
  | undone (buf : List Nat)
  deriving Repr, DecidableEq

/-- the `case '`':` arm: `buf1` is the whole buffer including both back-ticks -/
def unescClose (src : List Nat) (u : UState) (buf1 : List Nat) : UnescOut :=
  if buf1 == escTAB then .decoded (src ++ [0x09])
  else if buf1 == escBK then .decoded (src ++ [0x60])
  else if buf1 == escSP then .decoded (src ++ [0x20])
  else if buf1 == escCR then .decoded (src ++ [0x0D])
  else if buf1 == escLF then .decoded (src ++ [0x0A])
  else if buf1 == escCRLF then .decoded (src ++ [0x0D, 0x0A])
  else if u.state == csHexNum && 1 ≤ u.hexCount && u.hexCount ≤ 8 then
    -- `hexStr := string(literalBuffer[3 : len(literalBuffer)-1])`
    let r := parseInt32Hex ((buf1.drop 3).take (buf1.length - 4))
    if r.2 && validRune r.1 then .decoded (src ++ [r.1]) else .undone buf1
  else .undone buf1

/-- the end of the text or of the line ends a back-tick text (repair `fix-c13-backtick-at-eof-or-linebreak`) -/
def endsBackTickText (c : Nat) : Bool := c == runeEOF || c == runeCR || c == runeLF

/-- the second half of a pass: `cch := l.Next()`, the hex-digit shortcut and the `switch cch` -/
def unescConsume (src : List Nat) (l : Lexer) (u : UState) : Step UnescOut UState × Lexer :=
  let l1 := l.adv
  let cch := l1.cur
  let buf1 := u.buf ++ [cch]
  if isUpperHex cch && u.state == csmP then (.cont ⟨csHexNum, 1, buf1⟩, l1)
  else if isUpperHex cch && u.state == csHexNum then (.cont ⟨csHexNum, u.hexCount + 1, buf1⟩, l1)
  else
    match unescLetterTable.lookup cch with
    | some (from_, to) =>
      if from_.contains u.state then (.cont ⟨to, u.hexCount, buf1⟩, l1) else (.done (.undone buf1), l1)
    | none =>
      if cch == cBackTick then (.done (unescClose src u buf1), l1) else (.done (.undone buf1), l1)

/-- one pass of the `for` loop of `unescapeBackTickSpecialStr` (with the repairs `fix-c13-*`: `Peek() == EOF`
and `Peek() ∈ {CR, LF}` stop *before* the character; an out-of-range or surrogate `U+…` is not unescaped) -/
def unescStep (src : List Nat) (l : Lexer) (u : UState) : Step UnescOut UState × Lexer :=
  let pk := l.peek
  if isQuoteChar pk then
    if l.cur == cBackTick && l.peek2 == cBackTick then (.done (.decoded (src ++ [pk])), l.adv.adv)
    else (.done (.undone u.buf), l)
  else if endsBackTickText pk then (.done (.undone u.buf), l)
  else unescConsume src l u

theorem unescStep_consumes (src : List Nat) : Consumes (unescStep src) := by
  intro l s s' l' h
  unfold unescStep unescConsume at h
  dsimp only at h
  split at h
  · split at h <;> cases h
  · split at h
    · cases h
    · rename_i hq hz
      have hne : l.adv.cur ≠ 0 := by
        intro h0
        apply hz
        have : l.peek = 0 := h0
        simp [this, endsBackTickText, runeEOF]
      have := Lexer.cursor_lt_of_cur_ne_zero hne
      simp at this
      repeat' split at h
      all_goals first | cases h | skip
      all_goals (simp; omega)

theorem unescStep_frame (src : List Nat) (l : Lexer) (u : UState) :
    l.Le (unescStep src l u).2 ∧ (unescStep src l u).2.lines = l.lines := by
  unfold unescStep unescConsume Lexer.Le
  dsimp only
  repeat' split
  all_goals first | (simp; done) | (simp; omega)

/-- what ends an undocumented back-tick group early: the end of the text, a line break, a quote character -/
def isGroupStop (p : Nat) : Bool := p == runeEOF || p == runeCR || p == runeLF || markQuotes.contains p

/-- one pass of the loop after `UNDONE_end:` (repair `fix-c13-undocumented-backtick-group`): the rest of the group,
up to and including its closing back-tick, joins the buffer -/
def groupStep (l : Lexer) (buf : List Nat) : Step (List Nat) (List Nat) × Lexer :=
  let p := l.peek
  if isGroupStop p then (.done buf, l)
  else if p == cBackTick then (.done (buf ++ [p]), l.adv)
  else (.cont (buf ++ [p]), l.adv)

theorem groupStep_consumes : Consumes groupStep := by
  intro l s s' l' h
  unfold groupStep at h
  dsimp only at h
  split at h
  · cases h
  · rename_i hz
    split at h
    · cases h
    · cases h
      have hne : l.adv.cur ≠ 0 := by
        intro h0
        apply hz
        have : l.peek = 0 := h0
        simp [this, isGroupStop, runeEOF]
      have := Lexer.cursor_lt_of_cur_ne_zero hne
      simp at this ⊢; omega

theorem groupStep_frame (l : Lexer) (buf : List Nat) :
    l.Le (groupStep l buf).2 ∧ (groupStep l buf).2.lines = l.lines := by
  unfold groupStep Lexer.Le
  dsimp only
  repeat' split
  all_goals first | (simp; done) | (simp; omega)

/-- the code after label `UNDONE_end:` -/
def keepGroup (src : List Nat) (l : Lexer) (buf : List Nat) : List Nat × Lexer :=
  if buf.length == 1 || buf.getLast? != some cBackTick then
    let r := iterate groupStep groupStep_consumes l buf
    (src ++ r.1, r.2)
  else (src ++ buf, l)

/-- `unescapeBackTickSpecialStr(l, srcLiteral)`: cursor on the opening back-tick; answers the new literal -/
def unescapeBackTick (l : Lexer) (src : List Nat) : List Nat × Lexer :=
  let r := iterate (unescStep src) (unescStep_consumes src) l ⟨csBegin, 0, [l.cur]⟩
  match r.1 with
  | .decoded lit => (lit, r.2)
  | .undone buf => keepGroup src r.2 buf

theorem unescapeBackTick_le (l : Lexer) (src : List Nat) : l.Le (unescapeBackTick l src).2 := by
  unfold unescapeBackTick
  have h1 := iterate_le (step := unescStep src) (hc := unescStep_consumes src)
    (fun l s => (unescStep_frame src l s).1) l ⟨csBegin, 0, [l.cur]⟩
  dsimp only
  split
  · exact h1
  · unfold keepGroup
    split
    · exact h1.trans (iterate_le (fun l s => (groupStep_frame l s).1) _ _)
    · exact h1

/-! #### `parseString` -/

/-- one pass of the `for` loop of `parseString`; `sch` = opening quote; loop variables `(literal, quoteNum)` -/
def parseStringStep (sch startIdx tkType : Nat) (l : Lexer) (s : List Nat × Nat) :
    Step (LexRes Token) (List Nat × Nat) × Lexer :=
  let lit := s.1
  let quoteNum := s.2
  let l1 := l.adv
  let ch := l1.cur
  if ch == runeEOF then (.done (.err ⟨27, l1.cursor⟩), l1)
  else if ch == runeCR || ch == runeLF then
    let p := l1.peek
    let pair := (ch == runeCR && p == runeLF) || (ch == runeLF && p == runeCR)
    let lit1 := if pair then lit ++ [ch] else lit
    let l2 := if pair then l1.adv else l1
    let l3 := l2.pushLine { indents := 0, startIdx := l2.cursor + 1 }
    (.cont (lit1 ++ [l3.cur], quoteNum), l3)
  else if leftQuotes.contains ch then
    (.cont (lit ++ [ch], if sch == ch then quoteNum + 1 else quoteNum), l1)
  else if rightQuotes.contains ch then
    if quoteMatchMap.lookup sch == some ch then
      if quoteNum - 1 == 0 then
        (.done (.ok { type := tkType, literal := lit, startIdx := startIdx, endIdx := l1.cursor + 1 }), l1.adv)
      else (.cont (lit ++ [ch], quoteNum - 1), l1)
    else (.cont (lit ++ [ch], quoteNum), l1)
  else if ch == cBackTick then
    let r := unescapeBackTick l1 lit
    (.cont (r.1, quoteNum), r.2)
  else (.cont (lit ++ [ch], quoteNum), l1)

theorem parseStringStep_consumes (sch s ty : Nat) : Consumes (parseStringStep sch s ty) := by
  intro l st st' l' h
  unfold parseStringStep at h
  dsimp only at h
  split at h
  · cases h
  · rename_i hz
    have hne : l.adv.cur ≠ 0 := by
      intro h0; apply hz; simp [h0, runeEOF]
    have hlt := Lexer.cursor_lt_of_cur_ne_zero hne
    simp at hlt
    split at h
    · cases h
      refine ⟨by split <;> simp, ?_, by omega⟩
      split <;> simp <;> omega
    · split at h
      · cases h; exact ⟨rfl, by simp, by omega⟩
      · split at h
        · split at h
          · split at h
            · cases h
            · cases h; exact ⟨rfl, by simp, by omega⟩
          · cases h; exact ⟨rfl, by simp, by omega⟩
        · split at h
          · cases h
            have := unescapeBackTick_le l.adv st.1
            simp [Lexer.Le] at this
            exact ⟨this.1, by omega, by omega⟩
          · cases h; exact ⟨rfl, by simp, by omega⟩

/-- the `for` loop of `parseString` -/
def parseStringLoop (sch startIdx tkType : Nat) (l : Lexer) (st : List Nat × Nat) : LexRes Token × Lexer :=
  iterate (parseStringStep sch startIdx tkType) (parseStringStep_consumes sch startIdx tkType) l st

theorem parseStringLoop_cont {sch s ty : Nat} {l l' : Lexer} {st st' : List Nat × Nat}
    (h : parseStringStep sch s ty l st = (.cont st', l')) :
    parseStringLoop sch s ty l st = parseStringLoop sch s ty l' st' := iterate_cont h

theorem parseStringLoop_done {sch s ty : Nat} {l l' : Lexer} {st : List Nat × Nat} {r : LexRes Token}
    (h : parseStringStep sch s ty l st = (.done r, l')) :
    parseStringLoop sch s ty l st = (r, l') := iterate_done h

/-- token type by opening quote -/
def stringTokenType (sch : Nat) : Nat :=
  if sch == cLeftSingleQuoteI || sch == cLeftSingleQuoteII then cTypeEnumString
  else if sch == cLeftLibQuoteI then cTypeLibString else cTypeString

/-- `parseString`: cursor on the opening quote -/
def parseString (l : Lexer) : LexRes Token × Lexer :=
  parseStringLoop l.cur l.cursor (stringTokenType l.cur) l ([], 1)

/-! #### `parseIdentifier` -/

def terminateMarkers : List Nat := identTerminatorsHead ++ markPunctuations

/-- the code after label `ID_end:` -/
def identEnd (startIdx : Nat) (l : Lexer) (lit : List Nat) : LexRes Token :=
  if lit.getLast? == some cSlashOp then .err ⟨25, l.cursor - 1⟩
  else .ok { type := cTypeIdentifier, startIdx := startIdx, endIdx := l.cursor, literal := lit }

/-- one pass of the `for` loop of `parseIdentifier`; loop variable: the literal -/
def parseIdentifierStep (startIdx : Nat) (l : Lexer) (lit : List Nat) : Step (LexRes Token) (List Nat) × Lexer :=
  let l1 := l.adv
  let ch := l1.cur
  if isWhiteSpace ch then (.done (identEnd startIdx l1 lit), l1)
  else if (matchKeyword l1).isSome then (.done (identEnd startIdx l1 lit), l1)
  else if ch == cSlashOp && [cSlashOp, cMultiplyOp, cEqualOp].contains l1.peek then
    (.done (identEnd startIdx l1 lit), l1)
  else if terminateMarkers.contains ch then (.done (identEnd startIdx l1 lit), l1)
  else if isIdentifierChar ch || IdRange.idContinue.contains ch then (.cont (lit ++ [ch]), l1)
  else (.done (.err ⟨25, l1.cursor⟩), l1)

theorem parseIdentifierStep_consumes (s : Nat) : Consumes (parseIdentifierStep s) := by
  intro l lit lit' l' h
  unfold parseIdentifierStep at h
  dsimp only at h
  repeat' split at h
  all_goals first | cases h | skip
  rename_i hc
  have h2 : l.adv.cur ≠ 0 := by
    intro h0; rw [h0] at hc; simp [isIdentifierChar_zero] at hc; exact absurd hc (by decide)
  have := Lexer.cursor_lt_of_cur_ne_zero h2
  simp at this ⊢; omega

/-- `parseIdentifier` -/
def parseIdentifier (l : Lexer) : LexRes Token × Lexer :=
  if !isIdentifierChar l.cur then (.err ⟨25, l.cursor⟩, l)
  else iterate (parseIdentifierStep l.cursor) (parseIdentifierStep_consumes l.cursor) l [l.cur]

/-! #### `parseComment` -/

def isPureNumber (c : Nat) : Bool := 0x30 ≤ c && c ≤ 0x39

/-- `for { if !isPureNumber(l.Next()) { break } }` -/
def skipDigits (l : Lexer) : Lexer :=
  if h : isPureNumber l.adv.cur then skipDigits l.adv else l.adv
termination_by l.src.size - l.cursor
decreasing_by
  have h2 : l.adv.cur ≠ 0 := by
    intro h0; rw [h0] at h; exact absurd h (by decide)
  have := Lexer.cursor_lt_of_cur_ne_zero h2
  simp at this ⊢; omega

/-- one pass of the content loop of `parseComment`; `cty` = comment type 1–4; loop variable `quoteCount` -/
def parseCommentStep (startIdx cty : Nat) (l : Lexer) (quoteCount : Nat) : Step Token Nat × Lexer :=
  let l1 := l.adv
  let ch := l1.cur
  let tok (l' : Lexer) : Token := { type := cTypeComment, startIdx := startIdx, endIdx := l'.cursor }
  if ch == runeEOF then (.done (tok l1), l1)
  else if ch == runeCR || ch == runeLF then
    if cty == ccommentTypeSingle then (.done (tok l1), l1)
    else
      let p := l1.peek
      let l2 := if (ch == runeCR && p == runeLF) || (ch == runeLF && p == runeCR) then l1.adv else l1
      (.cont quoteCount, l2.pushLine { indents := 0, startIdx := l2.cursor + 1 })
  else if ch == cLeftDoubleQuoteI then
    (.cont (if cty == ccommentTypeQuoteI then quoteCount + 1 else quoteCount), l1)
  else if ch == cLeftDoubleQuoteII then
    (.cont (if cty == ccommentTypeQuoteII then quoteCount + 1 else quoteCount), l1)
  else if ch == cRightDoubleQuoteI then
    if cty == ccommentTypeQuoteI then
      if quoteCount - 1 == 0 then (.done (tok l1.adv), l1.adv) else (.cont (quoteCount - 1), l1)
    else (.cont quoteCount, l1)
  else if ch == cRightDoubleQuoteII then
    if cty == ccommentTypeQuoteII then
      if quoteCount - 1 == 0 then (.done (tok l1.adv), l1.adv) else (.cont (quoteCount - 1), l1)
    else (.cont quoteCount, l1)
  else if ch == cMultiplyOp then
    if cty == ccommentTypeSlash && l1.peek == cSlashOp then (.done (tok l1.adv.adv), l1.adv.adv)
    else (.cont quoteCount, l1)
  else (.cont quoteCount, l1)

theorem parseCommentStep_consumes (s cty : Nat) : Consumes (parseCommentStep s cty) := by
  intro l q q' l' h
  unfold parseCommentStep at h
  dsimp only at h
  split at h
  · cases h
  · rename_i hz
    have hne : l.adv.cur ≠ 0 := by
      intro h0; apply hz; simp [h0, runeEOF]
    have hlt := Lexer.cursor_lt_of_cur_ne_zero hne
    simp at hlt
    repeat' split at h
    all_goals first | cases h | skip
    all_goals (refine ⟨?_, ?_, ?_⟩ <;> first | rfl | omega | (simp; done) | (simp; omega))

def parseCommentLoop (startIdx cty : Nat) (l : Lexer) (quoteCount : Nat) : Token × Lexer :=
  iterate (parseCommentStep startIdx cty) (parseCommentStep_consumes startIdx cty) l quoteCount

/-- `parseComment`: `(isComment, token)`; never errors.  With the repair `fix-c18-note-comment-first-char` the
character after `注：` is consumed before the content loop only when it opens a quoted multi-line comment. -/
def parseComment (l : Lexer) : Option Token × Lexer :=
  let startIdx := l.cursor
  let ch := l.cur
  if ch == cCharZHU then
    let l1 := skipDigits l
    if l1.cur == cColon then
      if l1.peek == cLeftDoubleQuoteI then
        let r := parseCommentLoop startIdx ccommentTypeQuoteI l1.adv 1; (some r.1, r.2)
      else if l1.peek == cLeftDoubleQuoteII then
        let r := parseCommentLoop startIdx ccommentTypeQuoteII l1.adv 1; (some r.1, r.2)
      else
        let r := parseCommentLoop startIdx ccommentTypeSingle l1 0; (some r.1, r.2)
    else (none, l1)
  else if ch == cSlashOp then
    if l.peek == cSlashOp then
      let r := parseCommentLoop startIdx ccommentTypeSingle l.adv 0; (some r.1, r.2)
    else if l.peek == cMultiplyOp then
      let r := parseCommentLoop startIdx ccommentTypeSlash l.adv 0; (some r.1, r.2)
    else (none, l)
  else (none, l)

/-- `parseEOF` -/
def parseEOF (l : Lexer) : LexRes Token × Lexer :=
  match sliceLastLine l l.cursor with
  | none => (.panic, l)
  | some l' => (.ok { type := cTypeEOF, startIdx := l.cursor, endIdx := l.cursor }, l')

/-! #### `NextToken` -/

/-- `parseKeyword(l, true)`, then `parseIdentifier` -/
def keywordOrIdentifier (l : Lexer) : LexRes Token × Lexer :=
  match parseKeyword l true with
  | (some tk, l') => (.ok tk, l')
  | (none, l') => parseIdentifier l'

/-- the code of `NextToken` after the first `switch` (punctuation, operator, keyword, identifier) -/
def nextTokenTail (l : Lexer) : LexRes Token × Lexer :=
  let ch := l.cur
  if markPunctuations.contains ch then parsePunctuations l
  else if markOperators.contains ch then
    match parseOperators l with
    | (.ok (some tk), l') => (.ok tk, l')
    | (.ok none, l') => keywordOrIdentifier l'
    | (.err e, l') => (.err e, l')
    | (.panic, l') => (.panic, l')
  else keywordOrIdentifier l

/-- `NextToken` after `PreNextToken` succeeded -/
def dispatchToken (l1 : Lexer) : LexRes Token × Lexer :=
  let ch := l1.cur
  if ch == runeEOF then
    -- a NUL inside the text is an invalid character, not the end of input (repair 723b40e)
    if l1.cursor < l1.src.size then (.err ⟨25, l1.cursor⟩, l1) else parseEOF l1
  else if ch == cCharZHU || ch == cSlashOp then
    -- save-point: a failed comment attempt only restores the cursor
    match parseComment l1 with
    | (some tk, l2) => (.ok tk, l2)
    | (none, l2) => nextTokenTail (l2.setCursor l1.cursor)
  else if leftQuotes.contains ch then parseString l1
  else if ch == cBackTick then parseVarQuote l1
  else nextTokenTail l1

/-- `zh.NextToken(l)` -/
def nextToken (l : Lexer) : LexRes Token × Lexer :=
  let r := preNextToken l
  match r.1 with
  | .err e => (.err e, r.2)
  | .panic => (.panic, r.2)
  | .ok _ => dispatchToken r.2

/-- lex `src` as one literal: literal, type and end index of the first token -/
def lexString (src : List Nat) : LexRes (List Nat × Nat × Nat) :=
  match (nextToken (mkLexer src)).1 with
  | .ok tk => .ok (tk.literal, tk.type, tk.endIdx)
  | .err e => .err e
  | .panic => .panic

/-- all tokens up to and including EOF, or up to the first error / panic; `fuel` bounds the number of tokens
(the harness op stops after `4·len + 16`).  Middle component `none` = fuel exhausted. -/
def lexAll : Nat → Lexer → List Token → List Token × Option (LexRes Unit) × Lexer
  | 0, l, acc => (acc.reverse, none, l)
  | fuel + 1, l, acc =>
    match nextToken l with
    | (.ok tk, l') =>
      if tk.type == cTypeEOF then ((tk :: acc).reverse, some (.ok ()), l')
      else lexAll fuel l' (tk :: acc)
    | (.err e, l') => (acc.reverse, some (.err e), l')
    | (.panic, l') => (acc.reverse, some .panic, l')

end ZnVerif.Model
