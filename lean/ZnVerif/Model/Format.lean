/-
Model of pkg/exec/format_str.go as written: `formatString` (template scanner building the
`[type, start, end]` index stack, the `len % 3` check, the argument-count check, the fill loop with its
slices), `elementToString`, `parseNumberFormatter` (directive machine + choice of the fmt verb).
Both switch machines are read from Generated/FormatDFA.lean, which znextract regenerates from the Go
switches on every run.
-/
import ZnVerif.Generated.FormatDFA
import ZnVerif.Model.FormatParams

namespace ZnVerif.Model.Format
open ZnVerif.Generated

inductive FmtErr where
  | invalidTemplate   -- zerr.InvalidFmtTemplate   (semantic error 33)
  | unmatchParams     -- zerr.UnmatchFmtParams     (semantic error 34)
  | invalidParamType  -- zerr.InvalidParamType     (`{}` meets a value without display form)
  | notNumber         -- NewErrorSLOT("格式化字符串只能用于数字")
  | badDirective      -- NewErrorSLOT("无效的格式化字符串")
  | panic             -- a Go run-time panic (slice bounds / index out of range); proved unreachable
  deriving Repr, DecidableEq

/-! ### the template scanner -/

structure ScanSt where
  state : Nat
  stack : List Nat     -- fmtStack
  count : Nat          -- formatterCount
  deriving Repr, DecidableEq

/-- outer `switch ch`: the rows of the inner `switch state` and whether it has `default: return error` -/
def scanRows (ch : Nat) : List (List Nat × Nat × List (Nat × Nat) × Nat) × Bool :=
  match FormatDFA.scanCases.find? (fun c => c.1 == some ch) with
  | some c => (c.2, FormatDFA.scanStrict.contains ch)
  | none =>
    match FormatDFA.scanCases.find? (fun c => c.1 == none) with
    | some c => (c.2, false)
    | none => ([], false)

/-- what the double switch does for (state, character) -/
inductive ScanAct where
  | fail                                                   -- `return nil, zerr.InvalidFmtTemplate(…)`
  | stay                                                   -- no case of the inner switch applies
  | move (to : Nat) (pushes : List (Nat × Nat)) (count : Nat)  -- `state = to; fmtStack = append(…); formatterCount += count`
  deriving Repr, DecidableEq

def scanLookup (st ch : Nat) : ScanAct :=
  let (rows, strict) := scanRows ch
  match rows.find? (fun r => r.1.contains st) with
  | some (_, to, pushes, k) => .move to pushes k
  | none => if strict then .fail else .stay

/-- one iteration of `for idx, ch := range formatStrRune`; `none` = `return nil, InvalidFmtTemplate`;
a pushed value (a, k) stands for a*idx + k -/
def scanStep (s : ScanSt) (idx ch : Nat) : Option ScanSt :=
  match scanLookup s.state ch with
  | .fail => none
  | .stay => some s
  | .move to pushes k =>
    some { state := to, stack := s.stack ++ pushes.map (fun p => p.1 * idx + p.2), count := s.count + k }

def scanLoop : ScanSt → Nat → List Nat → Option ScanSt
  | s, _, [] => some s
  | s, idx, ch :: rest =>
    match scanStep s idx ch with
    | none => none
    | some s' => scanLoop s' (idx + 1) rest

/-! ### the directive machine -/

structure DirSt where
  state : Nat
  prec : Nat            -- numFixedPrecision (a natural number here; see `dirStep` for the limit check)
  plus : Bool           -- flagPositive
  fixed : Bool          -- flagFixed
  sci : Bool            -- flagScientific
  pct : Bool            -- flagPercent
  deriving Repr, DecidableEq

def DirSt.setFlag (s : DirSt) (flag : Nat) : DirSt :=
  if flag = 0 then { s with plus := true }
  else if flag = 1 then { s with fixed := true }
  else if flag = 2 then { s with sci := true }
  else { s with pct := true }

/-- what the double switch does for (state, character) -/
inductive DirAct where
  | setFlag (to flag : Nat)   -- `state = to; flag… = true`
  | digit (to : Nat)          -- digit branch: `[state = to;] numFixedPrecision = numFixedPrecision*10 + int(ch-'0')` (+ limit check)
  deriving Repr, DecidableEq

/-- outer `switch ch`, inner `switch state`; `none` = one of the `return "", error` branches -/
def dirLookup (st ch : Nat) : Option DirAct :=
  match FormatDFA.dirCases.find? (fun c => c.1.contains ch) with
  | some (_, rows) =>
    match rows.find? (fun r => r.1.contains st) with
    | some (_, to, flag) => some (.setFlag to flag)
    | none => none
  | none =>
    if FormatDFA.dirDigitLo ≤ ch ∧ ch ≤ FormatDFA.dirDigitHi then
      if FormatDFA.dirDigitFrom.contains st then
        some (.digit (match FormatDFA.dirDigitTo with
          | some t => t
          | none => st))
      else none
    else none

/-- one iteration of `for _, ch := range formatter`; `none` = `return "", error` -/
def dirStep (s : DirSt) (ch : Nat) : Option DirSt :=
  match dirLookup s.state ch with
  | none => none
  | some (.setFlag to flag) => some { s.setFlag flag with state := to }
  | some (.digit to) =>
    let p := s.prec * 10 + (ch - FormatDFA.dirDigitLo)
    match FormatDFA.dirMaxPrecision with
    | some m => if p > m then none else some { s with state := to, prec := p }
    | none => some { s with state := to, prec := p }

def dirLoop : DirSt → List Nat → Option DirSt
  | s, [] => some s
  | s, ch :: rest =>
    match dirStep s ch with
    | none => none
    | some s' => dirLoop s' rest

def dirInit : DirSt := ⟨FormatDFA.dirBegin, 0, false, false, false, false⟩

/-- the machine including the checks after the loop -/
def dirRun (d : List Nat) : Option DirSt :=
  (dirLoop dirInit d).filter (fun s => !FormatDFA.dirRejectFinal.contains s.state)

/-- what step 2 and 3 of `parseNumberFormatter` read from the machine: (flagPositive, precision if flagFixed,
flagScientific, flagPercent) -/
def DirSt.flags (s : DirSt) : Bool × Option Nat × Bool × Bool :=
  (s.plus, if s.fixed then some s.prec else none, s.sci, s.pct)

section
variable {ν κ : Type} (env : Env ν κ)

/-- steps 2 and 3: build `"%" [+] [.N] (E | f | .6g)` and call `fmt.Sprintf` on the value (times 100 and
followed by `%` for the percent flag) -/
def sprintFlags (fl : Bool × Option Nat × Bool × Bool) (x : ν) : List Nat :=
  let (plus, prec, sci, pct) := fl
  let verb := if sci then Verb.e else if prec.isSome then Verb.f else Verb.g
  if pct then env.fmtFloat verb prec plus (env.scale100 x) ++ [0x25]
  else env.fmtFloat verb prec plus x

/-- `parseNumberFormatter(formatter, value)` -/
def parseNumberFormatter (d : List Nat) (x : ν) : Except FmtErr (List Nat) :=
  match dirRun d with
  | none => .error .badDirective
  | some s => .ok (sprintFlags env s.flags x)

/-- `elementToString(formatter, elem)` -/
def elementToString (formatter : List Nat) (a : Arg ν κ) : Except FmtErr (List Nat) :=
  match formatter with
  | [] =>
    match a with
    | .num x => .ok (env.displayNum x)
    | .plain v => .ok (env.display v)
    | .other => .error .invalidParamType
  | c :: rest =>
    if c = 0x23 then
      match a with
      | .num x => parseNumberFormatter env rest x
      | _ => .error .notNumber
    else .error .badDirective

/-- step 2 of `formatString`: `for i := 0; i < len(fmtStack); i += 3` -/
def fill (t : List Nat) : List Nat → List (Arg ν κ) → Except FmtErr (List (List Nat))
  | [], _ => .ok []
  | ty :: st :: en :: rest, args =>
    -- formatter := string(formatStrRune[startIdx:endIdx])   (Go panics unless start ≤ end ≤ len)
    if st ≤ en ∧ en ≤ t.length then
      let formatter := (t.drop st).take (en - st)
      if ty = FormatDFA.scan_fmtTypeLiteral then
        (fill t rest args).map (formatter :: ·)
      else if ty = FormatDFA.scan_fmtTypeFormatter then
        match args with
        | a :: args' =>
          match elementToString env formatter a with
          | .error e => .error e
          | .ok str => (fill t rest args').map (str :: ·)
        | [] => .error .panic       -- paramElemList[paramElemIdx] out of range
      else fill t rest args
    else .error .panic
  | _, _ => .error .panic           -- fmtStack[i+1] / fmtStack[i+2] out of range

/-- `formatString(formatStr, params)` -/
def formatString (t : List Nat) (args : List (Arg ν κ)) : Except FmtErr (List Nat) :=
  match scanLoop ⟨FormatDFA.scanBegin, [], 0⟩ 0 t with
  | none => .error .invalidTemplate
  | some s =>
    let stack := if s.state = FormatDFA.scanCloseState then s.stack ++ [t.length] else s.stack
    if stack.length % FormatDFA.scanModulus ≠ 0 then .error .invalidTemplate
    else if args.length ≠ s.count then .error .unmatchParams
    else (fill env t stack args).map List.flatten

inductive ModResult (ν : Type) where
  | arith (a b : ν)                              -- CASE 1: number % number (the arithmetic is C01's)
  | formatted (r : Except FmtErr (List Nat))     -- CASE 2: text % list
  | typeError                                    -- zerr.InvalidExprType (runtime error 80)

/-- the `%` dispatch of `evalArithTypeModuloExpr` -/
def evalModulo (l r : Operand ν κ) : ModResult ν :=
  match l, r with
  | .number a, .number b => .arith a b
  | .text t, .list items => .formatted (formatString env t items)
  | _, _ => .typeError

end

end ZnVerif.Model.Format
