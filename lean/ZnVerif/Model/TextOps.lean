/-
Model of the text getters/methods of pkg/value/string.go that C14 names: `strGetLength` (长度/字数),
`strGetCharArray` (字符组), `strExecSlice` (取样), `strExecSplit` (分隔).

A Go string is a byte sequence, so the model works on bytes (`List Nat`) wherever the Go code or the
library routine it calls does (`utf8.RuneCountInString`, `utf8.DecodeRuneInString`, `[]rune(s)`,
`string(runes)`, `strings.Split`), with its own small model of `unicode/utf8` (invalid, overlong,
surrogate and out-of-range sequences decode to `(RuneError, 1)`).
-/
namespace ZnVerif.Model.TextOps

def runeError : Nat := 0xFFFD

/-- Unicode scalar value -/
def isScalar (c : Nat) : Bool := c < 0xD800 || (0xE000 ≤ c && c ≤ 0x10FFFF)

def isCont (b : Nat) : Bool := 0x80 ≤ b && b ≤ 0xBF

/-- `utf8.AppendRune` / `string(rune)` -/
def encodeRune (c : Nat) : List Nat :=
  if c < 0x80 then [c]
  else if c < 0x800 then [0xC0 + c / 64, 0x80 + c % 64]
  else if !isScalar c then [0xEF, 0xBF, 0xBD]
  else if c < 0x10000 then [0xE0 + c / 4096, 0x80 + c / 64 % 64, 0x80 + c % 64]
  else [0xF0 + c / 262144, 0x80 + c / 4096 % 64, 0x80 + c / 64 % 64, 0x80 + c % 64]

/-- `string([]rune)` -/
def encode (t : List Nat) : List Nat := (t.map encodeRune).flatten

/-- `utf8.DecodeRuneInString`: (rune, size); size 0 only for the empty string -/
def decodeRune : List Nat → Nat × Nat
  | [] => (runeError, 0)
  | b0 :: rest =>
    if b0 < 0x80 then (b0, 1)
    else if b0 < 0xC2 then (runeError, 1)
    else if b0 < 0xE0 then
      match rest with
      | b1 :: _ => if isCont b1 then ((b0 % 32) * 64 + b1 % 64, 2) else (runeError, 1)
      | _ => (runeError, 1)
    else if b0 < 0xF0 then
      match rest with
      | b1 :: b2 :: _ =>
        let lo := if b0 = 0xE0 then 0xA0 else 0x80
        let hi := if b0 = 0xED then 0x9F else 0xBF
        if lo ≤ b1 ∧ b1 ≤ hi ∧ isCont b2 then ((b0 % 16) * 4096 + (b1 % 64) * 64 + b2 % 64, 3)
        else (runeError, 1)
      | _ => (runeError, 1)
    else if b0 < 0xF5 then
      match rest with
      | b1 :: b2 :: b3 :: _ =>
        let lo := if b0 = 0xF0 then 0x90 else 0x80
        let hi := if b0 = 0xF4 then 0x8F else 0xBF
        if lo ≤ b1 ∧ b1 ≤ hi ∧ isCont b2 ∧ isCont b3 then
          ((b0 % 8) * 262144 + (b1 % 64) * 4096 + (b2 % 64) * 64 + b3 % 64, 4)
        else (runeError, 1)
      | _ => (runeError, 1)
    else (runeError, 1)

/-- the loop `for len(v) > 0 { r, size := DecodeRuneInString(v); …; v = v[size:] }` producing (rune, its bytes
in the string); fuel = number of bytes (each pass removes at least one) -/
def decodeLoop : Nat → List Nat → List (Nat × List Nat)
  | 0, _ => []
  | _, [] => []
  | fuel + 1, b :: rest =>
    let (r, size) := decodeRune (b :: rest)
    (r, (b :: rest).take size) :: decodeLoop fuel ((b :: rest).drop size)

/-- `[]rune(s)` -/
def runes (s : List Nat) : List Nat := (decodeLoop s.length s).map (·.1)

/-- `strGetLength`: `utf8.RuneCountInString` -/
def length (s : List Nat) : Nat := (decodeLoop s.length s).length

/-- `strGetCharArray`: one text `string(r)` per decoded rune -/
def chars (s : List Nat) : List (List Nat) := (decodeLoop s.length s).map (fun p => encodeRune p.1)

inductive SliceErr where
  | startIndex   -- 文本的起始索引需从1开始！
  | endIndex     -- 文本的结束索引不能超过其长度！
  | panic        -- Go slice-bounds panic; proved unreachable
  deriving Repr, DecidableEq

/-- `strExecSlice` after fix-c14-1 (`ss := []rune(s.GetValue())`); `i`, `j` are the results of `int(float64)` -/
def slice (s : List Nat) (i j : Int) : Except SliceErr (List Nat) :=
  let ss := runes s
  let n : Int := ss.length
  let startIdx := if i < 0 then n + i + 1 else i
  if startIdx < 1 then .error .startIndex
  else if j > n then .error .endIndex
  else
    let endIdx := if j < 0 then n + j + 1 else j
    if startIdx > endIdx then .ok []
    else
      -- string(ss[startIdx-1 : endIdx])   (Go panics unless 0 ≤ startIdx-1 ≤ endIdx ≤ len)
      if 0 ≤ startIdx - 1 ∧ startIdx - 1 ≤ endIdx ∧ endIdx ≤ n then
        .ok (encode ((ss.drop (startIdx - 1).toNat).take (endIdx - (startIdx - 1)).toNat))
      else .error .panic

/-- the slice as the pinned tree computed it (bytes indexed directly) — kept to state the defect -/
def sliceBytes (s : List Nat) (i j : Int) : Except SliceErr (List Nat) :=
  let n : Int := s.length
  let startIdx := if i < 0 then n + i + 1 else i
  if startIdx < 1 then .error .startIndex
  else if j > n then .error .endIndex
  else
    let endIdx := if j < 0 then n + j + 1 else j
    if startIdx > endIdx then .ok []
    else if 0 ≤ startIdx - 1 ∧ startIdx - 1 ≤ endIdx ∧ endIdx ≤ n then
      .ok ((s.drop (startIdx - 1).toNat).take (endIdx - (startIdx - 1)).toNat)
    else .error .panic

/-- `strings.Split(s, sep)` for a non-empty separator: cut at every leftmost non-overlapping occurrence.
`skip` = bytes of the separator still to pass over, `cur` = the piece being collected -/
def splitGo (sep : List Nat) : Nat → List Nat → List Nat → List (List Nat)
  | _, cur, [] => [cur]
  | skip + 1, cur, _ :: rest => splitGo sep skip cur rest
  | 0, cur, b :: rest =>
    if sep.isPrefixOf (b :: rest) then cur :: splitGo sep (sep.length - 1) [] rest
    else splitGo sep 0 (cur ++ [b]) rest

/-- `strings.Split(s, "")` = `explode(s, -1)`: one piece `s[:size]` per decoded UTF-8 sequence (the bytes as they
stand in the string); no piece at all for the empty string -/
def explode (s : List Nat) : List (List Nat) :=
  (decodeLoop s.length s).map (·.2)

/-- `strExecSplit` -/
def split (s sep : List Nat) : List (List Nat) :=
  if sep = [] then explode s else splitGo sep 0 [] s

/-- `strings.Replace(s, old, new, 1)` on bytes, `old` non-empty -/
def replaceFirstBytes (pat rep : List Nat) : List Nat → List Nat
  | [] => []
  | c :: r => if pat.isPrefixOf (c :: r) then rep ++ (c :: r).drop pat.length else c :: replaceFirstBytes pat rep r

/-- `strExecAtoi`: `v := Replace(s.value,"*^","e",1); v = Replace(v,"*10^","e",1); s.value = v` — the receiver is rewritten -/
def atoiRewrite (s : List Nat) : List Nat :=
  replaceFirstBytes [0x2A, 0x31, 0x30, 0x5E] [0x65] (replaceFirstBytes [0x2A, 0x5E] [0x65] s)

/-! ### one text VALUE over a history

Every observable of a `*String` is computed from its current `value` bytes; the only method that assigns to
`s.value` is `strExecAtoi` (转换数值).  A history is a list of steps applied to the SAME value. -/

/-- the steps of a history: 长度, 字符组, 取样 i j, the text itself, 转换数值 -/
inductive Step where
  | len
  | chars
  | slice (i j : Int)
  | text
  | toNumber
  deriving Repr, DecidableEq

/-- what a step shows (bytes).  `converted`: 转换数值 ran — its numeric result (`strconv.ParseFloat`) is not modelled,
its effect on the receiver is (see `step`) -/
inductive Obs where
  | len (n : Nat)
  | chars (cs : List (List Nat))
  | slice (r : Except SliceErr (List Nat))
  | text (s : List Nat)
  | converted

/-- one step on the value whose bytes are `s`: (what it shows, the bytes of the value afterwards) -/
def step (s : List Nat) : Step → Obs × List Nat
  | .len => (.len (length s), s)
  | .chars => (.chars (chars s), s)
  | .slice i j => (.slice (slice s i j), s)
  | .text => (.text s, s)
  | .toNumber => (.converted, atoiRewrite s)

/-- the bytes of the value after a history -/
def stateAfter : List Step → List Nat → List Nat
  | [], s => s
  | st :: r, s => stateAfter r (step s st).2

/-- the observations of a history, in order -/
def runHistory : List Step → List Nat → List Obs
  | [], _ => []
  | st :: r, s => (step s st).1 :: runHistory r (step s st).2

end ZnVerif.Model.TextOps
