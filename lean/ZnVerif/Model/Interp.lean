/-
Model of the evaluator: pkg/exec/eval.go, eval_function.go, eval_class.go, interpreter.go (`Execute`),
pkg/runtime/vm.go, scope.go, callframe.go, and the member tables of pkg/value/*.go that programs
reach.  It mirrors the Go *mechanism*: values are heap cells addressed by `Nat` (Go pointers), the
return slot of the top frame is polled after each statement, frames of failed calls stay on the
stack, scopes are per module.  Everything runs on fuel; Go panics are the outcome `.panic`.

Not modelled (outcome `.unmodelled`, counted by the correspondence run): 取随机数, library functions, Go slices'
backing arrays; of the text methods (Model/TextOps.lean, Model/TextMethods.lean: on the bytes of the Go string) the case
mapping of letters that are neither English nor without case, and 转换数值 on the spellings `strconv.ParseFloat` accepts
beyond plain decimal numerals (inf / nan, hexadecimal, underscores) or that may be out of range.
-/
import ZnVerif.Model.Ast
import ZnVerif.Model.Num
import ZnVerif.Model.IdMatch
import ZnVerif.Model.TextMethods
import ZnVerif.Model.Modules

namespace ZnVerif.Model

/-! ## values -/

abbrev Addr := Nat

inductive FnRef where
  | user (exec : Option ExecBlock)
  | display
  | random
  | lib (name : String)

inductive Ctor where
  | default
  | exception
  | user (moduleId : Int) (exec : Option ExecBlock)

inductive Cell (ν : Type) where
  | num (x : ν)
  | str (s : String)
  | bool (b : Bool)
  | null
  | arr (items : List Addr)
  | hm (vals : List (String × Addr)) (order : List String)
  | obj (cls : Addr) (props : List (String × Addr))
  | fn (f : FnRef)
  | cls (name : String) (ctor : Ctor) (props : List (String × Addr)) (methods : List (String × Addr))
  | exc (msg : String)

/-! ## errors and outcomes -/

inductive Err where
  /-- *zerr.RuntimeError -/
  | rt (code : Nat)
  /-- *zerr.SemanticError -/
  | sem (code : Nat)
  /-- *value.Exception returned as a Go error (a runtime error that crossed a method boundary) -/
  | excErr (a : Addr)
  /-- *zerr.Signal -/
  | sigBreak
  | sigContinue
  | sigExc (a : Addr)
  /-- fmt.Errorf / other -/
  | other
  deriving Repr, DecidableEq

inductive Res (α : Type) where
  | ok (a : α)
  | err (e : Err)
  | panic
  | fuel
  | unmodelled

/-! ## VM state -/

structure Sym where
  name : String
  depth : Int
  isConst : Bool
  ext : Option Int
  val : Addr

/-- runtime.Scope; `syms` head = most recent symbol (index localCount-1) -/
structure Scope where
  syms : List Sym := []
  depth : Int := 0

structure Frame where
  moduleId : Int
  callType : Nat          -- 1 script, 2 function, 3 exception block
  line : Nat := 0
  this : Option Addr := none
  ret : Option Addr := none
  /-- CallFrame.lineSet: false until the first statement executed in this frame has set its line -/
  started : Bool := false

structure Module where
  name : String
  hasProgram : Bool
  exports : List (String × Addr) := []

structure VM (ν : Type) where
  heap : Array (Cell ν) := #[]
  globals : List (String × Addr) := []
  /-- valueStack: moduleID ↦ Scope -/
  scopes : List (Int × Scope) := []
  /-- callStack, head = top frame -/
  stack : List Frame := []
  csModuleID : Int := -1
  modules : Array Module := #[]
  graph : List (Int × Int) := []
  /-- displayed lines, most recent first -/
  out : List String := []

abbrev M (ν : Type) (α : Type) := VM ν → Res α × VM ν

instance {ν} : Monad (M ν) where
  pure a := fun s => (.ok a, s)
  bind m f := fun s =>
    match m s with
    | (.ok a, s') => f a s'
    | (.err e, s') => (.err e, s')
    | (.panic, s') => (.panic, s')
    | (.fuel, s') => (.fuel, s')
    | (.unmodelled, s') => (.unmodelled, s')

variable {ν : Type} [NumOps ν]

def throwE {α} (e : Err) : M ν α := fun s => (.err e, s)
def rtErr {α} (code : Nat) : M ν α := throwE (.rt code)
def goPanic {α} : M ν α := fun s => (.panic, s)
def outOfFuel {α} : M ν α := fun s => (.fuel, s)
def notModelled {α} : M ν α := fun s => (.unmodelled, s)
def getVM : M ν (VM ν) := fun s => (.ok s, s)
def modifyVM (f : VM ν → VM ν) : M ν Unit := fun s => (.ok (), f s)

/-- run `m`; whatever its outcome, hand outcome and state to `k` (Go `defer` / explicit error handling) -/
def tryCatch {α β} (m : M ν α) (k : Res α → M ν β) : M ν β := fun s =>
  match m s with
  | (r, s') => k r s'

def liftRes {α} (r : Res α) : M ν α := fun s => (r, s)

/-! ### heap -/

def alloc (c : Cell ν) : M ν Addr := fun s => (.ok s.heap.size, { s with heap := s.heap.push c })

def getCell (a : Addr) : M ν (Cell ν) := fun s =>
  match s.heap[a]? with
  | some c => (.ok c, s)
  | none => (.panic, s)

def setCell (a : Addr) (c : Cell ν) : M ν Unit := fun s =>
  if a < s.heap.size then (.ok (), { s with heap := s.heap.set! a c }) else (.panic, s)

def newNull : M ν Addr := alloc .null
def newBool (b : Bool) : M ν Addr := alloc (.bool b)
def newNum (x : ν) : M ν Addr := alloc (.num x)
def newStr (s : String) : M ν Addr := alloc (.str s)

def lookup {β} (k : String) : List (String × β) → Option β
  | [] => none
  | (k', v) :: rest => if k = k' then some v else lookup k rest

def assocSet {β} (k : String) (v : β) : List (String × β) → List (String × β)
  | [] => [(k, v)]
  | (k', v') :: rest => if k = k' then (k, v) :: rest else (k', v') :: assocSet k v rest

def assocErase {β} (k : String) : List (String × β) → List (String × β)
  | [] => []
  | (k', v') :: rest => if k = k' then rest else (k', v') :: assocErase k rest

/-- value.NewHashMap: first occurrence fixes the place, last value wins -/
def newHashMapCell (kvs : List (String × Addr)) : Cell ν :=
  let (vals, order) := kvs.foldl (fun (acc : List (String × Addr) × List String) kv =>
    match lookup kv.1 acc.1 with
    | some _ => (assocSet kv.1 kv.2 acc.1, acc.2)
    | none => (acc.1 ++ [kv], acc.2 ++ [kv.1])) ([], [])
  .hm vals order

/-- HashMap.AppendKVPair -/
def hmAppend (vals : List (String × Addr)) (order : List String) (k : String) (v : Addr) :
    List (String × Addr) × List String :=
  match lookup k vals with
  | some _ => (assocSet k v vals, order)
  | none => (vals ++ [(k, v)], order ++ [k])

/-- value.DuplicateValue -/
def dup : Nat → Addr → M ν Addr
  | 0, _ => outOfFuel
  | n+1, a => do
    match ← getCell a with
    | .bool b => newBool b
    | .str s => newStr s
    | .num x => newNum x
    | .null => pure a
    | .arr items => do
      let items' ← items.mapM (dup n)
      alloc (.arr items')
    | .hm vals order => do
      let kvs ← order.mapM (fun k => do
        match lookup k vals with
        | some v => do let v' ← dup n v; pure (k, v')
        | none => goPanic)
      alloc (newHashMapCell kvs)
    | .obj _ _ | .fn _ | .cls _ _ _ _ | .exc _ => pure a

/-! ### display (`String()`) -/

def joinWith (sep : String) : List String → String
  | [] => ""
  | [x] => x
  | x :: rest => x ++ sep ++ joinWith sep rest

def display : Nat → Addr → M ν String
  | 0, _ => outOfFuel
  | n+1, a => do
    match ← getCell a with
    | .num x => pure (NumOps.fmt x)
    | .str s => pure s
    | .bool b => pure (if b then "真" else "假")
    | .null => pure "空"
    | .arr items => do
      let ss ← items.mapM (display n)
      pure ("[" ++ joinWith "，" ss ++ "]")
    | .hm vals order => do
      let ss ← order.mapM (fun k => do
        match lookup k vals with
        | some v => do let s ← display n v; pure (k ++ "=" ++ s)
        | none => goPanic)
      pure ("[" ++ joinWith "，" ss ++ "]")
    | .obj c _ => do
      match ← getCell c with
      | .cls name _ _ _ => pure ("‹对象·" ++ name ++ "›")
      | _ => goPanic
    | .fn _ => pure "‹某方法›"
    | .cls name _ _ _ => pure ("‹类型·" ++ name ++ "›")
    | .exc msg => pure ("‹异常·" ++ msg ++ "›")

/-! ### call stack and scopes (runtime/vm.go, scope.go) -/

def topFrame : M ν (Option Frame) := fun s => (.ok s.stack.head?, s)

def setTopFrame (f : Frame → Frame) : M ν Unit := modifyVM fun s =>
  match s.stack with
  | [] => s
  | fr :: rest => { s with stack := f fr :: rest }

def getScope (mid : Int) (s : VM ν) : Option Scope := (s.scopes.find? (·.1 == mid)).map (·.2)

def putScope (mid : Int) (sc : Scope) (s : VM ν) : VM ν :=
  if s.scopes.any (·.1 == mid) then
    { s with scopes := s.scopes.map fun p => if p.1 == mid then (mid, sc) else p }
  else { s with scopes := s.scopes ++ [(mid, sc)] }

/-- PushCallFrame: append, csModuleID := frame's module, initValueStack -/
def pushFrame (fr : Frame) : M ν Unit := modifyVM fun s =>
  let s := { s with stack := fr :: s.stack, csModuleID := fr.moduleId }
  match getScope fr.moduleId s with
  | some _ => s
  | none => putScope fr.moduleId {} s

/-- PopCallFrame (popping an empty stack is a Go slice panic) -/
def popFrame : M ν Unit := fun s =>
  match s.stack with
  | [] => (.panic, s)
  | _ :: rest =>
    (.ok (), { s with stack := rest, csModuleID := match rest with | [] => -1 | fr :: _ => fr.moduleId })

def stackDepth : M ν Nat := fun s => (.ok s.stack.length, s)

/-- `for len(vm.GetCallStack()) > depth { vm.PopCallFrame() }` -/
def unwindTo (depth : Nat) : M ν Unit := modifyVM fun s =>
  let stack := s.stack.drop (s.stack.length - depth)
  if s.stack.length ≤ depth then s
  else { s with stack := stack, csModuleID := match stack with | [] => -1 | fr :: _ => fr.moduleId }

/-- Scope.EndScope -/
def Scope.endScope (sc : Scope) : Scope :=
  let d := sc.depth - 1
  { depth := d, syms := sc.syms.dropWhile (fun sy => sy.depth > d) }

def Scope.beginScope (sc : Scope) : Scope := { sc with depth := sc.depth + 1 }

def Scope.find (sc : Scope) (name : String) : Option Sym := sc.syms.find? (·.name == name)

/-- Scope.declareValue: scan from the top while depth ≥ currentDepth -/
def Scope.declare (sc : Scope) (name : String) (v : Addr) (isConst : Bool) (ext : Option Int) : Except Err Scope :=
  let rec scan : List Sym → Bool
    | [] => false
    | sy :: rest =>
      if sy.depth < sc.depth then false
      else if sy.name == name && sy.depth == sc.depth then true
      else scan rest
  if scan sc.syms then .error (.rt 43)
  else .ok { sc with syms := { name, depth := sc.depth, isConst, ext, val := v } :: sc.syms }

/-- Scope.SetValue -/
def Scope.set (sc : Scope) (name : String) (v : Addr) : Except Err Scope :=
  let rec go : List Sym → Option (Except Err (List Sym))
    | [] => none
    | sy :: rest =>
      if sy.name == name then
        if sy.isConst then some (.error (.rt 44)) else some (.ok ({ sy with val := v } :: rest))
      else match go rest with
        | none => none
        | some (.error e) => some (.error e)
        | some (.ok rest') => some (.ok (sy :: rest'))
  match go sc.syms with
  | none => .error (.rt 42)
  | some (.error e) => .error e
  | some (.ok syms) => .ok { sc with syms }

/-- vm.BeginBoundScope: begins a scope on the current module, returns that module's id (the closer) -/
def beginBoundScope : M ν (Option Int) := fun s =>
  match getScope s.csModuleID s with
  | none => (.ok none, s)
  | some sc => (.ok (some s.csModuleID), putScope s.csModuleID sc.beginScope s)

def endBoundScope (h : Option Int) : M ν Unit := modifyVM fun s =>
  match h with
  | none => s
  | some mid =>
    match getScope mid s with
    | none => s
    | some sc => putScope mid sc.endScope s

/-- `endScope := vm.BeginBoundScope(); defer endScope()` around `body` -/
def withScope {α} (body : M ν α) : M ν α := do
  let h ← beginBoundScope
  tryCatch body fun r => do
    endBoundScope h
    liftRes r

def currentScope : M ν (Option Scope) := fun s => (.ok (getScope s.csModuleID s), s)

def putCurrentScope (sc : Scope) : M ν Unit := modifyVM fun s => putScope s.csModuleID sc s

/-- vm.FindElement -/
def findElement (name : String) : M ν Addr := do
  let s ← getVM
  match lookup name s.globals with
  | some a => pure a
  | none =>
    match ← currentScope with
    | none => rtErr 42
    | some sc =>
      match sc.find name with
      | some sy => pure sy.val
      | none => rtErr 42

/-- vm.FindElementWithModule: (value, module id of the value's home; -1 = native) -/
def findElementWithModule (name : String) : M ν (Addr × Int) := do
  let s ← getVM
  match lookup name s.globals with
  | some a => pure (a, -1)
  | none =>
    match ← currentScope with
    | none => rtErr 42
    | some sc =>
      match sc.find name with
      | some sy => pure (sy.val, match sy.ext with | some m => if m ≥ 0 then m else s.csModuleID | none => s.csModuleID)
      | none => rtErr 42

def declareElement (name : String) (v : Addr) (isConst : Bool) (ext : Option Int := none) : M ν Unit := do
  match ← currentScope with
  | none => rtErr 42
  | some sc =>
    let s ← getVM
    match lookup name s.globals with
    | some _ => rtErr 43
    | none =>
      match sc.declare name v isConst ext with
      | .error e => throwE e
      | .ok sc' => putCurrentScope sc'

def setElement (name : String) (v : Addr) : M ν Unit := do
  match ← currentScope with
  | none => rtErr 42
  | some sc =>
    match sc.set name v with
    | .error e => throwE e
    | .ok sc' => putCurrentScope sc'

def getThis : M ν (Option Addr) := do
  match ← topFrame with
  | some fr => pure fr.this
  | none => pure none

def getReturnValue : M ν (Option Addr) := do
  match ← topFrame with
  | some fr => pure fr.ret
  | none => pure none

def currentModule : M ν (Option (Nat × Module)) := fun s =>
  if s.csModuleID < 0 then (.ok none, s) else
  match s.modules[s.csModuleID.toNat]? with
  | some m => (.ok (some (s.csModuleID.toNat, m)), s)
  | none => (.ok none, s)

/-- Module.AddExportValue on module `i` -/
def addExport (i : Nat) (name : String) (v : Addr) : M ν Unit := fun s =>
  match s.modules[i]? with
  | none => (.panic, s)
  | some m =>
    match lookup name m.exports with
    | some _ => (.err (.rt 43), s)
    | none => (.ok (), { s with modules := s.modules.set! i { m with exports := m.exports ++ [(name, v)] } })

/-! ### identifiers (exec/id_match.go) -/

def strCps (s : String) : List Nat := s.toList.map Char.toNat

inductive IdType (ν : Type) where
  | name (s : String)
  | number (x : ν)

def matchIDType (lit : String) : M ν (IdType ν) :=
  match tryParseNumber (strCps lit) with
  | .error => throwE (.sem 30)
  | .name => pure (.name lit)
  | .number => pure (.number (NumOps.parse (parseFloatText (strCps lit))))

def matchIDName (lit : String) : M ν String := do
  match ← matchIDType lit with
  | .name s => pure s
  | .number _ => throwE (.sem 32)

def matchIDNameOpt (i : Option Ident) : M ν String :=
  match i with
  | some i => matchIDName i.lit
  | none => goPanic

/-! ### parameter validation (value_util.go) -/

def typeMatches (c : Cell ν) (ty : String) : Bool :=
  match ty, c with
  | "number", .num _ => true
  | "string", .str _ => true
  | "array", .arr _ => true
  | "hashmap", .hm _ _ => true
  | "bool", .bool _ => true
  | "object", .obj _ _ => true
  | "function", .fn _ => true
  | "any", _ => true
  | _, _ => false

def validateOne (a : Addr) (ty : String) : M ν Unit := do
  let c ← getCell a
  if typeMatches c ty then pure () else rtErr 82

def validateExact (vals : List Addr) (tys : List String) : M ν Unit := do
  if vals.length ≠ tys.length then rtErr 53
  else (vals.zip tys).forM fun p => validateOne p.1 p.2

def validateAll (vals : List Addr) (ty : String) : M ν Unit := vals.forM fun a => validateOne a ty

/-! ### generic loops (kept outside the mutual block so that recursion there is on fuel only) -/

/-- `for x in l { if !(f x) return false }; return true` -/
def allM {α} (f : α → M ν Bool) : List α → M ν Bool
  | [] => pure true
  | x :: xs => do if ← f x then allM f xs else pure false

/-- run `f` on each element until it answers `true` (= stop) -/
def untilM {α} (f : α → M ν Bool) : List α → M ν Unit
  | [] => pure ()
  | x :: xs => do if ← f x then pure () else untilM f xs

def untilIdxM {α} (f : Nat → α → M ν Bool) : Nat → List α → M ν Unit
  | _, [] => pure ()
  | i, x :: xs => do if ← f i x then pure () else untilIdxM f (i + 1) xs

/-- `for { if !(step) break }` on fuel -/
def whileM : Nat → M ν Bool → M ν Unit
  | 0, _ => outOfFuel
  | k+1, step => do if ← step then whileM k step else pure ()

/-- first element for which `f` answers `some`, else `dflt` -/
def firstM {α β} (f : α → M ν (Option β)) (dflt : M ν β) : List α → M ν β
  | [] => dflt
  | x :: xs => do
    match ← f x with
    | some b => pure b
    | none => firstM f dflt xs

/-! ### comparison (eval.go compareLogicXEQ / value_util.go CompareValues with CmpEq) -/

/-- `compareLogicXEQ`; `strict = true` is `CompareValues(…, CmpEq)` (same shape, same errors) -/
def compareXEQ : Nat → Addr → Addr → M ν Bool
  | 0, _, _ => outOfFuel
  | n+1, l, r => do
    let cl ← getCell l
    let cr ← getCell r
    match cl with
    | .null => pure (match cr with | .null => true | _ => false)
    | .num x => pure (match cr with | .num y => NumOps.eq x y | _ => false)
    | .str x => pure (match cr with | .str y => x == y | _ => false)
    | .bool x => pure (match cr with | .bool y => x == y | _ => false)
    | .arr xs =>
      match cr with
      | .arr ys =>
        if xs.length ≠ ys.length then pure false
        else allM (fun p => compareXEQ n p.1 p.2) (xs.zip ys)
      | _ => pure false
    | .hm lv lo =>
      match cr with
      | .hm rv _ =>
        if lv.length ≠ rv.length then pure false
        else allM (fun k =>
          match lookup k rv with
          | none => pure false
          | some b =>
            match lookup k lv with
            | none => goPanic
            | some a => compareXEQ n a b) lo
      | _ => pure false
    | _ => rtErr 83

/-! ### properties and methods of built-in values (pkg/value/*.go) -/

def runeCount (s : String) : Nat := s.length

/-- the bytes of a Go string holding this text (`.str` cells hold Unicode strings: the lexer, `string([]rune)` and every
text method produce valid UTF-8) -/
def textBytes (s : String) : List Nat := TextOps.encode (strCps s)

/-- the text a Go string with these bytes is (`[]rune(s)`; the methods below keep texts valid, so nothing is lost) -/
def bytesText (b : List Nat) : String := String.ofList ((TextOps.runes b).map Char.ofNat)

/-- `value.ThrowException(message)`: an exception signal carrying a fresh 异常 value -/
abbrev throwException {α} (msg : String) : M ν α := do
  let e ← alloc (.exc msg)
  throwE (.sigExc e)

/-- `array.go` insertArrayValue -/
def insertArrayValue (target : List Addr) (idx : Int) (x : Addr) : Res (List Addr) :=
  if idx ≥ target.length then .ok (target ++ [x])
  else
    let idx := if idx < 0 then (target.length : Int) + idx else idx
    if idx < 0 then .panic
    else .ok (target.take idx.toNat ++ [x] ++ target.drop idx.toNat)

def getProperty (n : Nat) (a : Addr) (name : String) : M ν Addr := do
  match ← getCell a with
  | .arr items =>
    match name with
    | "文本" => do let s ← display n a; newStr s
    | "首项" => match items with | [] => newNull | x :: _ => pure x
    | "末项" => match items.getLast? with | none => newNull | some x => pure x
    | "数目" | "长度" => newNum (NumOps.ofInt items.length)
    | "逆序" => alloc (.arr items.reverse)
    | _ => rtErr 45
  | .hm vals order =>
    match name with
    | "数目" | "长度" => newNum (NumOps.ofInt vals.length)
    | "所有索引" => do let ks ← order.mapM newStr; alloc (.arr ks)
    | "所有值" => do
      let vs ← order.mapM fun k => match lookup k vals with | some v => pure v | none => goPanic
      alloc (.arr vs)
    | _ => rtErr 45
  | .num x =>
    match name with
    | "文本" => newStr (NumOps.fmt x)
    | "平方" => newNum (NumOps.mul x x)
    | "立方" => newNum (NumOps.mul (NumOps.mul x x) x)
    | "平方根" => if NumOps.leZero x then rtErr 91 else newNum (NumOps.sqrt x)
    | _ => rtErr 45
  | .str s =>
    match name with
    | "长度" | "字数" => newNum (NumOps.ofInt (TextOps.length (textBytes s)))
    | "文本" => newStr s
    | "字符组" => do let cs ← (TextOps.chars (textBytes s)).mapM (fun c => newStr (bytesText c)); alloc (.arr cs)
    | _ => rtErr 45
  | .bool b =>
    match name with
    | "文本" => newStr (if b then "真" else "假")
    | _ => rtErr 45
  | .exc msg =>
    match name with
    | "内容" => newStr msg
    | _ => rtErr 45
  | .obj _ props =>
    match name with
    | "自身" => pure a
    | _ => match lookup name props with | some v => pure v | none => rtErr 45
  | .null | .fn _ | .cls _ _ _ _ => rtErr 45

def setProperty (a : Addr) (name : String) (v : Addr) : M ν Unit := do
  match ← getCell a with
  | .arr items =>
    match name with
    | "首项" => match items with
      | [] => setCell a (.arr [v])
      | _ :: rest => setCell a (.arr (v :: rest))
    | "末项" => match items with
      | [] => setCell a (.arr [v])
      | _ => setCell a (.arr (items.dropLast ++ [v]))
    | _ => rtErr 45
  | .obj c props =>
    match lookup name props with
    | some _ => setCell a (.obj c (assocSet name v props))
    | none => rtErr 45
  | _ => rtErr 45

/-- methods of list, dictionary, number, text (not objects — those run user code, see `execMethod`) -/
def builtinMethod (n : Nat) (a : Addr) (name : String) (vals : List Addr) : M ν Addr := do
  match ← getCell a with
  | .arr items =>
    match name with
    | "新增" | "添加" => do
      validateExact vals ["any", "number"]
      match vals with
      | [x, p] =>
        match ← getCell p with
        | .num pv =>
          let idx := NumOps.toInt pv
          if idx < 0 ∧ (items.length : Int) + idx < 0 then rtErr 40 else
          let x' ← dup n x
          match insertArrayValue items idx x' with
          | .ok items' => do setCell a (.arr items'); pure a
          | _ => goPanic
        | _ => goPanic
      | _ => goPanic
    | "前增" => do
      validateExact vals ["any"]
      match vals with
      | [x] => do let x' ← dup n x; setCell a (.arr (x' :: items)); pure a
      | _ => goPanic
    | "后增" => do
      validateExact vals ["any"]
      match vals with
      | [x] => do let x' ← dup n x; setCell a (.arr (items ++ [x'])); pure a
      | _ => goPanic
    | "左移" =>
      match items with
      | [] => do setCell a (.arr []); newNull
      | x :: rest => do setCell a (.arr rest); pure x
    | "右移" =>
      match items.getLast? with
      | none => do setCell a (.arr []); newNull
      | some x => do setCell a (.arr items.dropLast); pure x
    | "拼接" => do
      validateAll items "string"
      validateExact vals ["string"]
      match vals with
      | [c] =>
        match ← getCell c with
        | .str sep => do
          let ss ← items.mapM fun i => do match ← getCell i with | .str s => pure s | _ => goPanic
          newStr (joinWith sep ss)
        | _ => goPanic
      | _ => goPanic
    | "合并" => do
      validateAll vals "array"
      -- the merged items are stored as copies (DuplicateValue), like 后增 / 前增 / 新增
      let extra ← vals.mapM fun v => do match ← getCell v with | .arr xs => xs.mapM (dup n) | _ => goPanic
      let result := items ++ extra.flatten
      setCell a (.arr result)
      alloc (.arr result)
    | "包含" => do
      validateExact vals ["any"]
      match vals with
      | [x] =>
        let rec goContains : List Addr → M ν Bool
          | [] => pure false
          | i :: rest => do if ← compareXEQ n i x then pure true else goContains rest
        do let b ← goContains items; newBool b
      | _ => goPanic
    | "寻找" => do
      validateExact vals ["any"]
      match vals with
      | [x] =>
        let rec goFind : List Addr → Int → M ν Int
          | [], _ => pure (-1)
          | i :: rest, k => do if ← compareXEQ n i x then pure k else goFind rest (k + 1)
        do let k ← goFind items 0; newNum (NumOps.ofInt k)
      | _ => goPanic
    | "交换" => do
      validateExact vals ["number", "number"]
      match vals with
      | [p, q] =>
        match ← getCell p, ← getCell q with
        | .num pv, .num qv =>
          let c0 := NumOps.toInt (NumOps.sub (NumOps.floor pv) (NumOps.ofInt 1))
          let c1 := NumOps.toInt (NumOps.sub (NumOps.floor qv) (NumOps.ofInt 1))
          if c0 < 0 ∨ c0 ≥ items.length then rtErr 40
          else if c1 < 0 ∨ c1 ≥ items.length then rtErr 40
          else
            match items[c0.toNat]?, items[c1.toNat]? with
            | some x0, some x1 => do
              setCell a (.arr ((items.set c0.toNat x1).set c1.toNat x0)); pure a
            | _, _ => goPanic
        | _, _ => goPanic
      | _ => goPanic
    | _ => rtErr 46
  | .hm vals' order =>
    match name with
    | "读取" => do
      -- ValidateLeastParams(values, "string+"): every value a text; no value at all passes (idx 0 > len 0 is false)
      validateAll vals "string"
      let rec goGet : Addr → List Addr → M ν Addr
        | cur, [] => pure cur
        | cur, k :: rest => do
          match ← getCell k with
          | .str key =>
            match ← getCell cur with
            | .hm cv _ =>
              match lookup key cv with
              | some v => goGet v rest
              | none => newNull
            | _ => newNull
          | _ => goPanic
      goGet a vals
    | "写入" => do
      validateExact vals ["string", "any"]
      match vals with
      | [k, v] =>
        match ← getCell k with
        | .str key => do
          let v' ← dup n v
          let (nv, no) := hmAppend vals' order key v'
          setCell a (.hm nv no)
          pure v
        | _ => goPanic
      | _ => goPanic
    | "移除" => do
      validateExact vals ["string"]
      match vals with
      | [k] =>
        match ← getCell k with
        | .str key =>
          match lookup key vals' with
          | some v => do
            -- the in-place loop over keyOrder removes the (unique) occurrence; see Containers model / C12
            setCell a (.hm (assocErase key vals') (order.erase key))
            pure v
          | none => newNull
        | _ => goPanic
      | _ => goPanic
    | _ => rtErr 46
  | .num x =>
    let arith (op : ν → ν → ν) (checkZero : Bool) : M ν Addr := do
      validateAll vals "number"
      let rec goArith : ν → List Addr → M ν ν
        | acc, [] => pure acc
        | acc, v :: rest => do
          match ← getCell v with
          | .num y => if checkZero && NumOps.isZero y then rtErr 90 else goArith (op acc y) rest
          | _ => goPanic
      let r ← goArith x vals
      newNum r
    match name with
    | "加" => arith NumOps.add false
    | "减" => arith NumOps.sub false
    | "乘" => arith NumOps.mul false
    | "除" => arith NumOps.div true
    | "自增" | "自减" => do
      validateExact vals ["number"]
      match vals with
      | [v] =>
        match ← getCell v with
        | .num y => do
          setCell a (.num (if name == "自增" then NumOps.add x y else NumOps.sub x y)); pure a
        | _ => goPanic
      | _ => goPanic
    | "向下取整" => newNum (NumOps.floor x)
    | "向上取整" => newNum (NumOps.ceil x)
    | _ => rtErr 46
  | .str s =>
    match name with
    | "拼接" => do
      validateAll vals "string"
      let ss ← vals.mapM fun v => do match ← getCell v with | .str t => pure t | _ => goPanic
      newStr (ss.foldl (· ++ ·) s)
    | "匹配" | "匹配开头" | "匹配结尾" => do
      validateExact vals ["string"]
      match vals with
      | [v] =>
        match ← getCell v with
        | .str t =>
          let b := if name == "匹配开头" then TextOps.hasPrefix (textBytes s) (textBytes t)
                   else if name == "匹配结尾" then TextOps.hasSuffix (textBytes s) (textBytes t)
                   else TextOps.containsGo (textBytes t) (textBytes s)
          newBool b
        | _ => goPanic
      | _ => goPanic
    | "替换" => do
      validateExact vals ["string", "string"]
      match vals with
      | [p, q] =>
        match ← getCell p, ← getCell q with
        | .str old, .str new => newStr (bytesText (TextOps.replaceAll (textBytes s) (textBytes old) (textBytes new)))
        | _, _ => goPanic
      | _ => goPanic
    | "分隔" => do
      validateExact vals ["string"]
      match vals with
      | [v] =>
        match ← getCell v with
        | .str sep => do
          let cs ← (TextOps.split (textBytes s) (textBytes sep)).mapM (fun p => newStr (bytesText p))
          alloc (.arr cs)
        | _ => goPanic
      | _ => goPanic
    | "取样" => do
      validateExact vals ["number", "number"]
      match vals with
      | [p, q] =>
        match ← getCell p, ← getCell q with
        | .num pv, .num qv =>
          match TextOps.slice (textBytes s) (NumOps.toInt pv) (NumOps.toInt qv) with
          | .ok r => newStr (bytesText r)
          | .error .startIndex => throwException "文本的起始索引需从1开始！"
          | .error .endIndex => throwException "文本的结束索引不能超过其长度！"
          | .error .panic => goPanic
        | _, _ => goPanic
      | _ => goPanic
    | "去除空格" => newStr (bytesText (TextOps.trimSpace (textBytes s)))
    | "转小写-英文" =>
      match TextOps.toLower (textBytes s) with
      | some r => newStr (bytesText r)
      | none => notModelled
    | "转大写-英文" =>
      match TextOps.toUpper (textBytes s) with
      | some r => newStr (bytesText r)
      | none => notModelled
    | "格式化" => do
      validateAll vals "string"
      let ss ← vals.mapM fun v => do match ← getCell v with | .str t => pure (textBytes t) | _ => goPanic
      newStr (bytesText (TextOps.format (textBytes s) ss))
    | "转换数值" => do
      -- `s.value = v`: the receiver holds the rewritten text from here on, whatever ParseFloat says
      let b := TextOps.atoiRewrite (textBytes s)
      setCell a (.str (bytesText b))
      match TextOps.atofClass b with
      | .number => newNum (NumOps.parse b)
      | .syntaxErr => throwException "转成数值失败，文本可能并不符合合适的数值格式"
      | .special => notModelled
    | _ => rtErr 46
  | _ => rtErr 46

/-! ## the evaluator -/

def exceptionClassName : String := "异常"

/-- lines displayed by 显示 -/
def emit (line : String) : M ν Unit := modifyVM fun s => { s with out := line :: s.out }

/-- eval.go `loopSignalToException`: 结束循环 / 继续循环 leaving a body becomes `value.NewException(sig.Error())` -/
def loopSignalToException (e : Err) : M ν Err :=
  match e with
  | .sigBreak => do let a ← alloc (.exc "收到「结束」中断信号"); pure (Err.excErr a)
  | .sigContinue => do let a ← alloc (.exc "收到「继续」中断信号"); pure (Err.excErr a)
  | e => pure e

def isDecl : Stmt → Bool
  | .classDecl .. | .funcDecl .. => true
  | _ => false

/-- the statement loop of evalPureStmtBlock: run a statement, then poll the frame's return slot -/
def stmtsLoop (evalOne : Stmt → M ν Addr) : Option Addr → List Stmt → M ν (Option Addr)
  | last, [] => pure last
  | last, st :: rest => do
    let last' ← if isDecl st then pure last else do
      let v ← evalOne st
      pure (some v)
    match ← getReturnValue with
    | some rv => pure (some rv)
    | none => stmtsLoop evalOne last' rest

mutual

/-- evalExpression -/
def evalExpr : Nat → Expr → M ν Addr
  | 0, _ => outOfFuel
  | n+1, e =>
    match e with
    | .assign _ target rhs => do
      let vr ← evalExpr n rhs
      let vr ← dup n vr
      match target with
      | .id i => do
        let name ← matchIDName i.lit
        setElement name vr
        pure vr
      | .member _ _ _ mt _ _ =>
        if mt == 1 || mt == 2 then do
          let iv ← memberIV n target
          reduceLHS iv vr
          pure vr
        else rtErr 72
      | _ => rtErr 70
    | .logic _ ty l r =>
      if ty == LogicAND || ty == LogicOR then do
        let lv ← evalExpr n l
        match ← getCell lv with
        | .bool lb =>
          if ty == LogicAND && !lb then newBool false
          else if ty == LogicOR && lb then newBool true
          else do
            let rv ← evalExpr n r
            match ← getCell rv with
            | .bool rb => newBool (if ty == LogicAND then lb && rb else lb || rb)
            | _ => rtErr 80
        | _ => rtErr 80
      else do
        let lv ← evalExpr n l
        let rv ← evalExpr n r
        if ty == LogicXEQ || ty == LogicEQ then do
          let b ← compareXEQ n lv rv; newBool b
        else if ty == LogicXNEQ || ty == LogicNEQ then do
          -- Go: `cmpRes, cmpErr = compareLogicXEQ(..); cmpRes = !cmpRes; return NewBool(cmpRes), cmpErr`
          let b ← compareXEQ n lv rv; newBool (!b)
        else if ty == LogicGT || ty == LogicGTE || ty == LogicLT || ty == LogicLTE then do
          match ← getCell lv with
          | .num x =>
            match ← getCell rv with
            | .num y =>
              newBool (if ty == LogicGT then NumOps.gt x y else if ty == LogicGTE then NumOps.ge x y
                       else if ty == LogicLT then NumOps.lt x y else NumOps.le x y)
            | _ => rtErr 84
          | _ => rtErr 83
        else rtErr 70
    | .arith _ ty l r =>
      if ty == ArithModulo then do
        let lv ← evalExpr n l
        let rv ← evalExpr n r
        match ← getCell lv, ← getCell rv with
        | .num a, .num b =>
          if NumOps.isZero b then rtErr 90
          else newNum (NumOps.sub a (NumOps.mul (NumOps.floor (NumOps.div a b)) b))
        | .str _, .arr _ => notModelled     -- formatString: C14's model
        | _, _ => rtErr 80
      else do
        let lv ← evalExpr n l
        match ← getCell lv with
        | .num a => do
          let rv ← evalExpr n r
          match ← getCell rv with
          | .num b =>
            if ty == ArithAdd then newNum (NumOps.add a b)
            else if ty == ArithSub then newNum (NumOps.sub a b)
            else if ty == ArithMul then newNum (NumOps.mul a b)
            else if ty == ArithDiv then
              if NumOps.isZero b then rtErr 90 else newNum (NumOps.div a b)
            else if ty == ArithIntDiv then
              if NumOps.isZero b then rtErr 90 else newNum (NumOps.floor (NumOps.div a b))
            else rtErr 70
          | _ => rtErr 80
        | _ => rtErr 80
    | .member .. => do
      let iv ← memberIV n e
      reduceRHS n iv
    | .str _ s => newStr s
    | .id i => do
      match ← matchIDType i.lit with
      | .name s => findElement s
      | .number x => newNum x
    | .arr _ items => do
      let vs ← items.mapM (evalExpr n)
      alloc (.arr vs)
    | .hm _ kvs => do
      let pairs ← kvs.mapM fun kv => do
        let key ← match kv.1 with
          | .str _ s => pure s
          | .id i => do let _ ← matchIDType i.lit; pure i.lit
          | _ => rtErr 80
        let v ← evalExpr n kv.2
        pure (key, v)
      alloc (newHashMapCell pairs)
    | .call _ name params yld => do
      let fname ← matchIDNameOpt name
      let vals ← params.mapM (evalExpr n)
      let res ← execDirectFunction n fname vals
      match yld with
      | none => pure res
      | some y => do
        let yn ← matchIDName y.lit
        declareElement yn res true
        pure res
    | .mcall _ root chain yld => do
      let rv ← evalExpr n root
      let last ← chain.foldlM (fun cur c =>
        match c with
        | .call _ mname params _ => do
          let fname ← matchIDNameOpt mname
          let vals ← params.mapM (evalExpr n)
          execMethodFunction n cur fname vals
        | _ => goPanic) rv
      match yld with
      | none => pure last
      | some y => do
        let yn ← matchIDName y.lit
        declareElement yn last true
        pure last
    | .new _ cls params => do
      let cname ← matchIDNameOpt cls
      let cv ← findElement cname
      match ← getCell cv with
      | .cls .. => do
        let vals ← params.mapM (evalExpr n)
        construct n cv vals
      | .num _ => do
        let vals ← params.mapM (evalExpr n)
        validateExact vals ["number"]
        match vals with
        | [p] => pure p
        | _ => goPanic
      | _ => rtErr 82
    | .nil => rtErr 80

/-- getMemberExprIV: (kind, root, member name, index) with kind 1 array, 2 hashmap, 3 member -/
def memberIV : Nat → Expr → M ν (Nat × Addr × String × Int)
  | 0, _ => outOfFuel
  | n+1, e =>
    match e with
    | .member _ rootType root memberType mid idx =>
      if rootType == 2 then do
        match ← getThis with
        | none => rtErr 48
        | some t =>
          match mid with
          | some m => pure (3, t, m.lit, 0)
          | none => goPanic
      else if rootType == 1 then do
        let rv ← evalExpr n root
        if memberType == 1 then
          match mid with
          | some m => pure (3, rv, m.lit, 0)
          | none => goPanic
        else if memberType == 2 then do
          let iv ← evalExpr n idx
          match ← getCell rv with
          | .arr _ =>
            match ← getCell iv with
            | .num x => pure (1, rv, "", NumOps.toInt x)
            | _ => rtErr 80
          | .hm _ _ =>
            match ← getCell iv with
            | .num x => pure (2, rv, NumOps.fmt x, 0)
            | .str s => pure (2, rv, s, 0)
            | _ => rtErr 80
          | _ => rtErr 80
        else rtErr 70
      else rtErr 70
    | _ => goPanic

/-- IV.ReduceRHS -/
def reduceRHS : Nat → (Nat × Addr × String × Int) → M ν Addr
  | n, (kind, root, name, idx) => do
    if kind == 1 then
      match ← getCell root with
      | .arr items =>
        let ri := idx - 1
        if ri < 0 ∨ ri ≥ items.length then rtErr 40
        else match items[ri.toNat]? with | some x => pure x | none => goPanic
      | _ => rtErr 80
    else if kind == 2 then
      match ← getCell root with
      | .hm vals _ => match lookup name vals with | some v => pure v | none => rtErr 41
      | _ => rtErr 80
    else getProperty n root name

/-- IV.ReduceLHS -/
def reduceLHS : (Nat × Addr × String × Int) → Addr → M ν Unit
  | (kind, root, name, idx), v => do
    if kind == 1 then
      match ← getCell root with
      | .arr items =>
        let ri := idx - 1
        if ri < 0 ∨ ri ≥ items.length then rtErr 40
        else setCell root (.arr (items.set ri.toNat v))
      | _ => rtErr 80
    else if kind == 2 then
      match ← getCell root with
      | .hm vals order =>
        let (nv, no) := hmAppend vals order name v
        setCell root (.hm nv no)
      | _ => rtErr 80
    else setProperty root name v

/-- Function.Exec: run the handler, convert a runtime error into an exception error -/
def execFunction : Nat → FnRef → Option Addr → List Addr → M ν Addr
  | 0, _, _, _ => outOfFuel
  | n+1, f, _this, params =>
    match f with
    | .display => do
      let ss ← params.mapM (display n)
      emit (joinWith " " ss)
      newNull
    | .random => notModelled
    | .lib _ => notModelled
    | .user exec =>
      tryCatch (evalExecBlock n exec params) fun r =>
        match r with
        | .err (.rt code) => do
          -- `return nil, NewException(err.Error())`: the message text is not modelled
          let a ← alloc (.exc ("‹rt:" ++ toString code ++ "›"))
          throwE (.excErr a)
        | .err .other => do
          let a ← alloc (.exc "‹other›")
          throwE (.excErr a)
        | r => liftRes r

/-- execDirectFunction -/
def execDirectFunction : Nat → String → List Addr → M ν Addr
  | 0, _, _ => outOfFuel
  | n+1, fname, params => do
    let (fv, mid) ← findElementWithModule fname
    pushFrame { moduleId := mid, callType := 2 }
    match ← getCell fv with
    | .fn f => do
      let r ← execFunction n f none params
      popFrame
      pure r
    | _ => rtErr 81

/-- execMethodFunction -/
def execMethodFunction : Nat → Addr → String → List Addr → M ν Addr
  | 0, _, _, _ => outOfFuel
  | n+1, root, fname, params => do
    match ← getCell root with
    | .obj c _ => do
      match ← getCell c with
      | .cls cname _ _ methods => do
        let (_, mid) ← findElementWithModule cname
        pushFrame { moduleId := mid, callType := 2, this := some root }
        match lookup fname methods with
        | some m =>
          match ← getCell m with
          | .fn f => do
            let r ← execFunction n f (some root) params
            popFrame
            pure r
          | _ => goPanic
        | none => rtErr 46
      | _ => goPanic
    | _ => do
      pushFrame { moduleId := -1, callType := 2, this := some root }
      let r ← builtinMethod n root fname params
      popFrame
      pure r

/-- ClassModel.Construct -/
def construct : Nat → Addr → List Addr → M ν Addr
  | 0, _, _ => outOfFuel
  | n+1, cv, params => do
    match ← getCell cv with
    | .cls _ ctor props _ => do
      let props' ← props.mapM fun p => do let v ← dup n p.2; pure (p.1, v)
      let inst ← alloc (.obj cv props')
      match ctor with
      | .default => pure inst
      | .exception => do
        validateExact params ["string"]
        match params with
        | [m] =>
          match ← getCell m with
          | .str msg => alloc (.exc msg)
          | _ => goPanic
        | _ => goPanic
      | .user mid exec => do
        pushFrame { moduleId := mid, callType := 2, this := some inst }
        let _ ← evalExecBlock n exec params
        popFrame
        pure inst
    | _ => goPanic

/-- evalExecBlock -/
def evalExecBlock : Nat → Option ExecBlock → List Addr → M ν Addr
  | 0, _, _ => outOfFuel
  | _+1, none, _ => goPanic
  | n+1, some (.mk inputs body catches), params =>
    withScope do
      let vm ← getVM
      let blockModule := vm.csModuleID
      let blockDepth := vm.stack.length
      match vm.stack.head? with
      | some fr =>
        if fr.callType == 2 then
          match fr.this with
          | some t =>
            -- `vm.DeclareConstElement(此, thisValue)`: the error is ignored
            tryCatch (declareElement "此" t true) fun _ => pure ()
          | none => pure ()
        else pure ()
      | none => pure ()
      if params.length ≠ inputs.length then rtErr 51 else
      (inputs.zip params).forM fun p => do
        let name ← matchIDName p.1.lit
        declareElement name p.2 true
      tryCatch (evalStmtBlock n body) fun r =>
        match r with
        | .ok (some v) => pure v
        | .ok none => newNull
        | .err e => do
          -- a loop signal that no loop of this body consumed becomes an exception of this body …
          let e ← loopSignalToException e
          -- … and so does a loop signal raised by the handler block itself
          tryCatch (handleException n blockModule blockDepth catches e) fun r =>
            match r with
            | .err e2 => do let e2 ← loopSignalToException e2; throwE e2
            | r => liftRes r
        | .panic => goPanic
        | .fuel => outOfFuel
        | .unmodelled => notModelled

/-- handleExceptionSignal -/
def handleException : Nat → Int → Nat → List (Option Ident × Option (List Stmt)) → Err → M ν Addr
  | 0, _, _, _, _ => outOfFuel
  | n+1, blockModule, blockDepth, catches, e => do
    let exc? ← match e with
      | .sigExc a => pure (some a)
      | .excErr a => pure (some a)
      | .rt code => do let a ← alloc (.exc ("‹rt:" ++ toString code ++ "›")); pure (some a)
      | _ => pure none
    match exc? with
    | none => throwE e
    | some ex => do
      let clsName ← match ← getCell ex with
        | .exc _ => pure exceptionClassName
        | .obj c _ => do match ← getCell c with | .cls name _ _ _ => pure name | _ => goPanic
        | _ => pure ""
      firstM (fun (c : Option Ident × Option (List Stmt)) => do
          let cname ← matchIDNameOpt c.1
          if clsName ≠ "" && cname == clsName then do
            -- drop the frames of the calls that failed inside the protected block
            unwindTo blockDepth
            if blockModule < 0 then goPanic else
            pushFrame { moduleId := blockModule, callType := 3, this := some ex }
            let _ ← evalPureStmtBlock n c.2
            let rv ← getReturnValue
            popFrame
            match rv with
            | some v => pure (some v)
            | none => do let nl ← newNull; pure (some nl)
          else pure none) (throwE e) catches

/-- evalStmtBlock: hoist class / method definitions, then run the rest -/
def evalStmtBlock : Nat → Option (List Stmt) → M ν (Option Addr)
  | 0, _ => outOfFuel
  | _+1, none => goPanic
  | n+1, some stmts => do
    stmts.forM fun st =>
      match st with
      | .classDecl .. => do
        -- `vm.SetCurrentLine(v.GetCurrentLine())`: an error in a declaration is reported at the declaration's line
        setTopFrame fun fr => { fr with line := st.line, started := true }
        evalClassDecl n st
      | .funcDecl _ _ declType _ => do
        setTopFrame fun fr => { fr with line := st.line, started := true }
        if declType == 3 then evalCtorDecl n st else evalFuncDecl n st
      | _ => pure ()
    evalPureStmtBlock n (some stmts)

/-- evalPureStmtBlock -/
def evalPureStmtBlock : Nat → Option (List Stmt) → M ν (Option Addr)
  | 0, _ => outOfFuel
  | _+1, none => goPanic
  | n+1, some stmts =>
    withScope (stmtsLoop (evalStmt n) none stmts)

/-- evalStatement -/
def evalStmt : Nat → Stmt → M ν Addr
  | 0, _ => outOfFuel
  | n+1, st => do
    setTopFrame fun fr => { fr with line := st.line, started := true }
    match st with
    | .varDecl _ pairs => do
      pairs.forM fun p => do
        let (ty, vars, e) := p
        if ty == 1 || ty == 3 then do
          let obj ← evalExpr n e
          let _ ← vars.foldlM (fun cur (v : Ident) => do
            let name ← matchIDName v.lit
            let cur' ← dup n cur
            declareElement name cur' (ty == 3)
            pure cur') obj
        else pure ()
      newNull
    | .while l cond body => do
      -- one pass of `for { … }`; answers whether to go on
      whileM n (do
        -- `vm.SetCurrentLine(node.GetCurrentLine())` at the top of every pass
        setTopFrame fun fr => { fr with line := l, started := true }
        let c ← evalExpr n cond
        match ← getCell c with
        | .bool true =>
          tryCatch (evalPureStmtBlock n body) fun r =>
            match r with
            | .err .sigContinue => pure true
            | .err .sigBreak => pure false
            | .ok _ => do
              match ← getReturnValue with
              | some _ => pure false
              | none => pure true
            | .err e => throwE e
            | .panic => goPanic
            | .fuel => outOfFuel
            | .unmodelled => notModelled
        | .bool false => pure false
        | _ => rtErr 80)
      newNull
    | .branch _ ifE ifB others hasElse elseB => do
      let c ← evalExpr n ifE
      match ← getCell c with
      | .bool true => do let _ ← evalPureStmtBlock n ifB; newNull
      | .bool false => do
        firstM (fun (o : Expr × Option (List Stmt)) => do
            let oc ← evalExpr n o.1
            match ← getCell oc with
            | .bool true => do let _ ← evalPureStmtBlock n o.2; pure (some ())
            | .bool false => pure none
            | _ => rtErr 80)
          (if hasElse then do let _ ← evalPureStmtBlock n elseB; pure () else pure ()) others
        newNull
      | _ => rtErr 80
    | .empty _ => newNull
    | .funcDecl _ _ declType _ => do
      if declType == 3 then evalCtorDecl n st else evalFuncDecl n st
      newNull
    | .classDecl .. => do evalClassDecl n st; newNull
    | .iterate _ e names body => do
      withScope do
        let target ← evalExpr n e
        let nameLen := names.length
        let slots ← match names with
          | [] => pure (none, none)
          | [v] => do
            let vn ← matchIDName v.lit
            let nl ← newNull
            declareElement vn nl false
            pure (none, some vn)
          | [k, v] => do
            let kn ← matchIDName k.lit
            let vn ← matchIDName v.lit
            let n1 ← newNull
            declareElement kn n1 false
            let n2 ← newNull
            declareElement vn n2 false
            pure (some kn, some vn)
          | _ => rtErr 52
        let runBody (key : Addr) (v : Addr) : M ν Unit := do
          let v ← dup n v
          if nameLen == 1 then
            match slots.2 with | some vn => setElement vn v | none => pure ()
          else if nameLen == 2 then do
            match slots.1 with | some kn => setElement kn key | none => pure ()
            match slots.2 with | some vn => setElement vn v | none => pure ()
          else pure ()
          let _ ← evalPureStmtBlock n body
          pure ()
        -- one pass; returns true when the loop has to stop
        let pass (key : Addr) (v : Addr) : M ν Bool :=
          tryCatch (runBody key v) fun r =>
            match r with
            | .err .sigContinue => pure false
            | .err .sigBreak => pure true
            | .ok _ => do
              match ← getReturnValue with
              | some _ => pure true
              | none => pure false
            | .err e => throwE e
            | .panic => goPanic
            | .fuel => outOfFuel
            | .unmodelled => notModelled
        match ← getCell target with
        | .arr items =>
          untilIdxM (fun i v => do
            let idx ← newNum (NumOps.ofInt (i + 1))
            pass idx v) 0 items
        | .hm _ order =>
          untilM (fun k => do
            -- `keys := append([]string{}, tv.GetKeyOrder()...)`: the order as it stood when the loop started;
            -- `v, exists := tv.GetValue()[key]` is read at iteration time, a key removed meanwhile is skipped
            match ← getCell target with
            | .hm vals _ =>
              match lookup k vals with
              | some v => do
                let ks ← newStr k
                pass ks v
              | none => pure false
            | _ => goPanic) order
        | _ => rtErr 80
      newNull
    | .ret _ e => do
      let v ← evalExpr n e
      setTopFrame fun fr => { fr with ret := some v }
      pure v
    | .throw _ cls params => do
      let cname ← matchIDNameOpt cls
      let cv ← findElement cname
      match ← getCell cv with
      | .cls .. => do
        let vals ← params.mapM (evalExpr n)
        let ex ← construct n cv vals
        throwE (.sigExc ex)
      | _ => rtErr 85
    | .continue _ => throwE .sigContinue
    | .break _ => throwE .sigBreak
    | .expr e => evalExpr n e
    | .nil => goPanic

/-- evalClassDeclareStmt -/
def evalClassDecl : Nat → Stmt → M ν Unit
  | 0, _ => outOfFuel
  | n+1, st =>
    match st with
    | .classDecl _ name props methods _ => do
      let cm ← currentModule
      let cname ← matchIDNameOpt name
      let propVals ← props.mapM fun p => do
        match p.1 with
        | some pid => do
          let v ← evalExpr n p.2
          -- `ref.DefineProperty(propID, value.DuplicateValue(element))`: the type keeps its own copy of the default
          let v' ← dup n v
          pure (pid.lit, v')
        | none => goPanic
      -- DefineProperty on a Go map: a later duplicate overwrites
      let propMap := propVals.foldl (fun acc kv => assocSet kv.1 kv.2 acc) []
      let meths ← methods.mapM fun m =>
        match m with
        | .funcDecl _ (some mn) _ exec => do let f ← alloc (.fn (.user exec)); pure (mn.lit, f)
        | _ => goPanic
      let methMap := meths.foldl (fun acc kv => assocSet kv.1 kv.2 acc) []
      let cv ← alloc (.cls cname .default propMap methMap)
      declareElement cname cv true
      match cm with
      | some (i, _) => addExport i cname cv
      | none => goPanic
    | _ => goPanic

/-- evalFunctionDeclareStmt -/
def evalFuncDecl : Nat → Stmt → M ν Unit
  | 0, _ => outOfFuel
  | _+1, st =>
    match st with
    | .funcDecl _ name _ exec => do
      let cm ← currentModule
      let fname ← matchIDNameOpt name
      let fv ← alloc (.fn (.user exec))
      declareElement fname fv true
      match cm with
      | some (i, _) => addExport i fname fv
      | none => pure ()
    | _ => goPanic

/-- evalConstructorDeclareStmt -/
def evalCtorDecl : Nat → Stmt → M ν Unit
  | 0, _ => outOfFuel
  | _+1, st =>
    match st with
    | .funcDecl _ name _ exec => do
      let cname ← matchIDNameOpt name
      let (cv, mid) ← findElementWithModule cname
      match ← getCell cv with
      | .cls nm ctor props methods =>
        -- only a type of a program module takes a constructor (the predefined 异常 lives in the native module) …
        if mid < 0 then rtErr 87 else
        -- … and only a type a running program declared itself (`IsDeclaredByProgram`), whatever name the class object
        -- is reached by: the predefined 异常 handed to a method as an argument is a local name of a program module
        match ctor with
        | .exception => rtErr 87
        | _ => setCell cv (.cls nm (.user mid exec) props methods)
      | _ => rtErr 87
    | _ => goPanic

end

/-! ## the call chain as `RuntimeErrorWrapper.Error()` (exec/error_printer.go) lists it -/

/-- `CallFrame.GetModule()`: the module object of a frame (the native module, id −1, has none in `modules`) -/
def moduleOf (vm : VM ν) (id : Int) : Option Module := if id < 0 then none else vm.modules[id.toNat]?

/-- `trModule.GetID() == NATIVE_CODE_MODULE_ID || trModule.GetProgram() == nil`, asked of the frame's OWN module:
a frame of built-in code or of a library has no lines to point at -/
def Frame.isNative (vm : VM ν) (fr : Frame) : Bool :=
  fr.moduleId == -1 || match moduleOf vm fr.moduleId with
    | some m => !m.hasProgram
    | none => true

/-- the frames the printer shows, bottom → top: the head frame (`callStack[0]`) always; a body frame unless it belongs
to a module with source text and no statement has begun in it (`!isNativeModule && !tr.HasStarted()` ⇒ `continue`:
a call that failed on its argument count, or a call of something that is not a method) -/
def listedFrames (vm : VM ν) : List Frame :=
  match vm.stack.reverse with
  | [] => []
  | head :: body => head :: body.filter fun fr => fr.isNative vm || fr.started

/-! ## programs (interpreter.go Execute, eval.go EvalMainModule / evalProgram) -/

/-- the predefined names of exec/globals.go, allocated in a fresh heap -/
def initVM (_ : Unit) : VM ν :=
  let cells : Array (Cell ν) := #[
    .bool true, .bool false, .null,
    .cls exceptionClassName .exception [] [],
    .fn .display, .fn .random,
    .num (NumOps.ofInt 0)]
  { heap := cells,
    globals := [("真", 0), ("假", 1), ("空", 2), ("异常", 3), ("显示", 4), ("取随机数", 5), ("数值", 6)] }

/-! ## modules (eval.go `evalImportStmt` / `execAnotherModule`, runtime/module.go, vm.go, interpreter.go `LoadFile`)

Imports are a section of the program, evaluated by `evalProgram` before the exec block; everything below CALLS the
mutual evaluator (`evalExecBlock`) and talks to it through the VM state only (current module, scopes, module table). -/

/-- what the finder of `LoadFile` reads and `Compile` parses: path below the main file's directory (`甲/乙.zn`) ↦ program -/
abbrev FileTable := List (String × Program)
/-- `vm.externalLibs`: name as written in the import (with `@`) ↦ names of the exported values -/
abbrev LibTable := List (String × List String)

/-- `ParseLibName`: `strings.HasPrefix(libName, "@")` ⇒ LIB_TYPE_STD, else LIB_TYPE_CUSTOM -/
def isStdName (name : String) : Bool :=
  match name.toList with
  | c :: _ => c == '@'
  | [] => false

/-- `strings.Split(s, sep)` for a one-character separator -/
def splitOnChar (sep : Char) : List Char → List (List Char)
  | [] => [[]]
  | c :: cs =>
    if c = sep then [] :: splitOnChar sep cs
    else match splitOnChar sep cs with
      | [] => [[c]]
      | h :: t => (c :: h) :: t

/-- the finder's test of one part of a module name: a plain directory or file name -/
def validPart (p : List Char) : Bool :=
  p ≠ [] && p ≠ ['.'] && p ≠ ['.', '.'] && !(p.any fun c => c == '/' || c == '\\')

/-- LoadFile's finder (`isMain = false`, LIB_TYPE_CUSTOM): `A-B-C` ↦ `A/B/C.zn` below the main file's directory; a name
with a part that is not a plain file name denotes no file (ModuleNotFound before any lookup) -/
def modulePath (name : String) : Option String :=
  let parts := splitOnChar '-' name.toList
  if parts.all validPart then some (joinWith "/" (parts.map String.ofList) ++ ".zn") else none

/-- `FindModuleByName` / `GetIDFromName`: `moduleNameMap` is written by `AddModule` (after a failed lookup of that name)
and by `AddDependency` (the value already there), so it holds the index of THE module of that name -/
def findModuleByName (name : String) (s : VM ν) : Option Nat := s.modules.toList.findIdx? (·.name == name)

/-- `vm.AllocateModule` → `ModuleGraph.AddModule`: an existing module of that name is returned as it is; a new one gets
the next id, an edge from the current module (if there is one) and becomes the current module -/
def allocateModule (name : String) (hasProgram : Bool) : M ν Nat := fun s =>
  match findModuleByName name s with
  | some i => (.ok i, s)
  | none =>
    let id := s.modules.size
    (.ok id, { s with modules := s.modules.push { name, hasProgram },
                      graph := if s.csModuleID ≥ 0 then s.graph ++ [(s.csModuleID, (id : Int))] else s.graph,
                      csModuleID := id })

/-- `vm.AddModuleDependency` → `ModuleGraph.AddDependency`: an import of an already allocated module is an edge too -/
def addModuleDependency (dep : Nat) : M ν Unit := modifyVM fun s => { s with graph := s.graph ++ [(s.csModuleID, (dep : Int))] }

/-- the dependency graph over `Nat` nodes for `Modules.checkCircular` (module ids are ≥ −1: shifted by one) -/
def natGraph (g : List (Int × Int)) : Modules.Graph := g.map fun e => ((e.1 + 1).toNat, (e.2 + 1).toNat)

/-- `vm.CheckDepedency(name)` → `checkCircularDepedencyDFS` over the WHOLE graph (the `range` over the adjacency map taken
in first-occurrence order: the answer does not depend on it, `C15.dfs_order_independent`) -/
def checkDependency (name : String) : M ν Unit := fun s =>
  match findModuleByName name s with
  | none => (.ok (), s)
  | some _ =>
    match Modules.checkCircular (natGraph s.graph) (Modules.nodes (natGraph s.graph)) with
    | none => (.fuel, s)
    | some true => (.err (.rt 63), s)
    | some false => (.ok (), s)

def insertName (x : String) : List String → List String
  | [] => [x]
  | y :: ys => if x < y then x :: y :: ys else y :: insertName x ys

/-- `sort.Strings` (byte order of UTF-8 = code point order) -/
def sortNames (l : List String) : List String := l.foldr insertName []

/-- the last part of `evalImportStmt`: all exported names in sorted order, or the listed ones in list order (a listed
name the module does not export is skipped); each becomes a constant of the current scope that remembers its home module -/
def bindImports (ext : Nat) (items : List Ident) : M ν Unit := do
  let s ← getVM
  match s.modules[ext]? with
  | none => goPanic
  | some m =>
    if items.isEmpty then
      (sortNames (m.exports.map (·.1))).forM fun name =>
        match lookup name m.exports with
        | some v => declareElement name v true (some (ext : Int))
        | none => goPanic
    else
      items.forM fun id =>
        match lookup id.lit m.exports with
        | some v => declareElement id.lit v true (some (ext : Int))
        | none => pure ()

/-- `extModule.AddExportValue(k, v)` for every value of the library, the error (exported already: the library was imported
before) dropped; a library value is an opaque function cell -/
def addLibExports (ext : Nat) (names : List String) : M ν Unit :=
  names.forM fun k => do
    let s ← getVM
    match s.modules[ext]? with
    | none => goPanic
    | some m =>
      match lookup k m.exports with
      | some _ => pure ()
      | none => do
        let v ← alloc (.fn (.lib k))
        addExport ext k v

/-- `case r.LIB_TYPE_STD` of `evalImportStmt`: the module is allocated BEFORE the library is looked up -/
def importStd (libs : LibTable) (name : String) : M ν Nat := do
  let ext ← allocateModule name false
  match lookup name libs with
  | none => rtErr 64
  | some names => do
    pushFrame { moduleId := (ext : Int), callType := 1 }
    addLibExports ext names
    popFrame
    pure ext

/-- `execAnotherModule` given `evalProg` = `evalProgram(vm, program, nil)`: find the file, allocate the module (an edge
from the importer, current module := the new one), push its script frame, run the program — a failure leaves the frame
where it is —, then one more scope level in the module's own scope holding its exports again (sorted), pop the frame -/
def execAnotherModule (files : FileTable) (evalProg : Program → M ν Addr) (name : String) : M ν Nat := do
  match modulePath name with
  | none => rtErr 60
  | some path =>
    match lookup path files with
    | none => rtErr 60
    | some prog => do
      let mid ← allocateModule name true
      pushFrame { moduleId := (mid : Int), callType := 1 }
      let _ ← evalProg prog
      let _ ← beginBoundScope
      let s ← getVM
      match s.modules[mid]? with
      | none => goPanic
      | some m =>
        (sortNames (m.exports.map (·.1))).forM fun nm =>
          match lookup nm m.exports with
          | some v => declareElement nm v true
          | none => goPanic
      popFrame
      pure mid

/-- `evalImportStmt`; `load` = `execAnotherModule` on the rest of the fuel -/
def evalImport (libs : LibTable) (load : String → M ν Nat) (im : Import) : M ν Unit := do
  -- `vm.SetCurrentLine(node.GetCurrentLine())`: an error raised while importing is reported at the line of this statement
  setTopFrame fun fr => { fr with line := im.line, started := true }
  match im.name with
  | none => goPanic
  | some name =>
    if isStdName name then do
      let ext ← importStd libs name
      bindImports ext im.items
    else do
      let s ← getVM
      let ext ← match findModuleByName name s with
        | none => load name
        | some i => do
          addModuleDependency i
          pure i
      checkDependency name
      bindImports ext im.items

/-- `evalProgram`: the import statements, then the exec block fed from `inputs` -/
def evalProgram (fuel : Nat) (imp : Import → M ν Unit) (p : Program) (inputs : List (String × Cell ν)) : M ν Addr := do
  p.imports.forM imp
  match p.exec with
  | none => newNull
  | some (.mk ins body catches) => do
    let params ← ins.mapM fun i => do
      let name ← matchIDName i.lit
      match lookup name inputs with
      | some c => alloc c
      | none => rtErr 95
    evalExecBlock fuel (some (.mk ins body catches)) params

/-- `execAnotherModule` with its recursion (a module's own imports) on fuel; `varInputs` of a module is nil -/
def loadModule (files : FileTable) (libs : LibTable) (fuel : Nat) : Nat → String → M ν Nat
  | 0, _ => outOfFuel
  | k+1, name =>
    execAnotherModule files (fun prog => evalProgram fuel (evalImport libs (loadModule files libs fuel k)) prog []) name

/-- the import statement as the run with `fuel` evaluates it -/
def importWith (files : FileTable) (libs : LibTable) (fuel : Nat) : Import → M ν Unit :=
  evalImport libs (loadModule files libs fuel fuel)

/-- `Interpreter.Execute` on a loaded file: `EvalMainModule` with the files the finder can reach and the registered libraries -/
def runProgramWith (files : FileTable) (libs : LibTable) (fuel : Nat) (p : Program) (inputs : List (String × Cell ν)) :
    M ν Addr := do
  -- AllocateModule(主模块): module 0, csModuleID := 0; PushCallFrame(script frame)
  modifyVM fun s => { s with modules := s.modules.push { name := "主模块", hasProgram := true }, csModuleID := 0 }
  pushFrame { moduleId := 0, callType := 1 }
  let r ← evalProgram fuel (importWith files libs fuel) p inputs
  popFrame
  pure r

/-- a script (`LoadScript`): no file can be imported, no library is registered -/
def runProgram (fuel : Nat) (p : Program) (inputs : List (String × Cell ν)) : M ν Addr :=
  runProgramWith [] [] fuel p inputs

end ZnVerif.Model
