/-
Model of the container core of DemoHn/Zn, mirroring the Go code as written:

  pkg/value/array.go    insertArrayValue, shiftArrayValue, the getters/setters 首项 末项 长度 逆序,
                        the methods 新增/添加 前增 后增 左移 右移 拼接 合并 包含 寻找 交换
  pkg/value/hashmap.go  NewHashMap, AppendKVPair, String, 数目/长度 所有索引 所有值, 读取 写入 移除
                        (the `移除` loop edits hm.keyOrder in place while ranging over it: modelled on an
                        explicit backing array, see `deleteLoop`)
  pkg/value/iv.go       IV.ReduceRHS / ReduceLHS for IVTypeArray and IVTypeHashMap

Everything is pure and generic in the element type `α` (the interpreter model instantiates `α` with
heap addresses, the correspondence driver with small numbers/texts).  Parameter validation
(`ValidateExactParams` …) and number→index conversion (`int(float64)`, `math.Floor`) belong to the caller:
the functions below take the already converted `Int`.

Core Lean only.
-/
namespace ZnVerif.Model.Containers

/-- outcome of a container primitive: a value, a Zn runtime error (code of pkg/error), or a Go panic -/
inductive Res (α : Type) where
  | ok : α → Res α
  | err : Nat → Res α
  | panic : Res α
  deriving Repr, DecidableEq

def errIndexOutOfRange : Nat := 40
def errIndexKeyNotFound : Nat := 41
def errInvalidParamType : Nat := 82

variable {α : Type}

/-! ## array.go -/

/-- `insertArrayValue(target, idx, insertItem)`.
```
if idx >= len(target) { return append(target, insertItem) }
if idx < 0 { idx = len(target) + idx }
result = append(result, target[:idx]...)      // PANICS (slice bounds out of range) when idx is still < 0
result = append(result, insertItem); result = append(result, target[idx:]...)
```
-/
def insertArrayValue (target : List α) (idx : Int) (x : α) : Res (List α) :=
  if idx ≥ (target.length : Int) then .ok (target ++ [x])
  else
    let idx' : Int := if idx < 0 then (target.length : Int) + idx else idx
    if idx' < 0 then .panic
    else .ok (target.take idx'.toNat ++ [x] ++ target.drop idx'.toNat)

/-- 新增 / 添加 (`idx` is the already converted `int(v.value)`):
```
if idx < 0 && len(ar.value)+idx < 0 { return nil, zerr.IndexOutOfRange() }
ar.value = insertArrayValue(ar.value, idx, DuplicateValue(values[0]))
```
The methods that store an argument (新增 前增 后增 写入) store `DuplicateValue(arg)`; copying needs the heap, so at
this level `x` *is* the copy the caller made. -/
def arrayInsert (v : List α) (x : α) (idx : Int) : Res (List α) :=
  if idx < 0 ∧ (v.length : Int) + idx < 0 then .err errIndexOutOfRange
  else insertArrayValue v idx x
/-- 前增: `insertArrayValue(ar.value, 0, x)` -/
def arrayPrepend (v : List α) (x : α) : Res (List α) := insertArrayValue v 0 x
/-- 后增: `insertArrayValue(ar.value, len(ar.value), x)` -/
def arrayAppend (v : List α) (x : α) : Res (List α) := insertArrayValue v (v.length : Int) x

/-- `shiftArrayValue(target, left)`: removed element (`none` = 空, the list was empty) and the new slice -/
def shiftArrayValue (target : List α) (left : Bool) : Option α × List α :=
  match target with
  | [] => (none, [])
  | h :: t =>
    if left then (some h, t)
    else
      let lastIdx := (h :: t).length - 1
      ((h :: t)[lastIdx]?, (h :: t).take lastIdx)

/-- 首项 getter (`none` = 空) -/
def arrayGetFirst (v : List α) : Option α := if v.length = 0 then none else v[0]?
/-- 末项 getter (`none` = 空) -/
def arrayGetLast (v : List α) : Option α := if v.length = 0 then none else v[v.length - 1]?
/-- 长度 / 数目 getter -/
def arrayGetLength (v : List α) : Nat := v.length

/-- one pass of the 逆序 loop: `result = append(result, ar.value[l-1-i])` (an index outside the slice would be a Go panic) -/
def reverseStep (v : List α) (acc : Res (List α)) (i : Nat) : Res (List α) :=
  match acc with
  | .ok r => match v[v.length - 1 - i]? with
    | some x => .ok (r ++ [x])
    | none => .panic
  | e => e

/-- 逆序 getter: `for i := 0; i < l; i++ { result = append(result, ar.value[l-1-i]) }` -/
def arrayGetReverse (v : List α) : Res (List α) :=
  (List.range v.length).foldl (reverseStep v) (.ok [])

/-- 首项 setter: on an empty list creates a one-element list -/
def arraySetFirst (v : List α) (x : α) : List α := if v.length = 0 then [x] else v.set 0 x
/-- 末项 setter: on an empty list creates a one-element list -/
def arraySetLast (v : List α) (x : α) : List α := if v.length = 0 then [x] else v.set (v.length - 1) x

/-- 合并: `result = append(result, ar.value...); for v in values { result = append(result, v.value...) }`;
the receiver becomes `result` and a new array holding a copy of the slice (same elements) is returned -/
def arrayMerge (v : List α) (args : List (List α)) : List α := args.foldl (fun acc a => acc ++ a) ([] ++ v)

/-- 包含: loop with `break` on the first `CompareValues(item, x, CmpEq)` that is true -/
def arrayContains (eq : α → α → Bool) (x : α) : List α → Bool
  | [] => false
  | item :: rest => if eq item x then true else arrayContains eq x rest

/-- 寻找 from loop position `i`: the Go (0-based) index of the first equal item, `-1` if none -/
def arrayFindFrom (eq : α → α → Bool) (x : α) : Nat → List α → Int
  | _, [] => -1
  | i, item :: rest => if eq item x then (i : Int) else arrayFindFrom eq x (i + 1) rest

def arrayFind (eq : α → α → Bool) (x : α) (v : List α) : Int := arrayFindFrom eq x 0 v

/-- 交换: `f0 f1` are `math.Floor` of the two arguments;
`cursor = int(floor - 1)`, both bounds-checked, then the three-assignment swap -/
def arraySwap (v : List α) (f0 f1 : Int) : Res (List α) :=
  let l : Int := v.length
  let cursor0 := f0 - 1
  let cursor1 := f1 - 1
  if cursor0 < 0 ∨ cursor0 ≥ l then .err errIndexOutOfRange
  else if cursor1 < 0 ∨ cursor1 ≥ l then .err errIndexOutOfRange
  else
    match v[cursor0.toNat]?, v[cursor1.toNat]? with
    | some tmp, some b => .ok ((v.set cursor0.toNat b).set cursor1.toNat tmp)
    | _, _ => .panic

/-- 拼接: every element must be a text (`str x = some s`), otherwise error 82; then `strings.Join` -/
def arrayJoin (str : α → Option String) (v : List α) (sep : String) : Res String :=
  if v.all (fun x => (str x).isSome) then .ok (sep.intercalate (v.filterMap str))
  else .err errInvalidParamType

/-! ## iv.go, IVTypeArray -/

/-- `ReduceRHS`: `realIndex := iv.index - 1; if realIndex < 0 || realIndex >= len → IndexOutOfRange` -/
def ivArrayRead (v : List α) (index : Int) : Res α :=
  let realIndex := index - 1
  if realIndex < 0 ∨ realIndex ≥ (v.length : Int) then .err errIndexOutOfRange
  else match v[realIndex.toNat]? with
    | some x => .ok x
    | none => .panic

/-- `ReduceLHS` -/
def ivArrayWrite (v : List α) (index : Int) (x : α) : Res (List α) :=
  let realIndex := index - 1
  if realIndex < 0 ∨ realIndex ≥ (v.length : Int) then .err errIndexOutOfRange
  else .ok (v.set realIndex.toNat x)

/-! ## hashmap.go

The Go map is an association list with *unordered* semantics: it is only ever accessed through `mapGet`,
`mapSet`, `mapDelete`, `mapLen`; `mapSet` deliberately moves the written key to the front so that nothing can
depend on the list's order. -/

def mapGet : List (String × α) → String → Option α
  | [], _ => none
  | (k', v) :: rest, k => if k' = k then some v else mapGet rest k

def mapDelete (m : List (String × α)) (k : String) : List (String × α) := m.filter (fun p => p.1 ≠ k)

def mapSet (m : List (String × α)) (k : String) (v : α) : List (String × α) := (k, v) :: mapDelete m k

def mapLen (m : List (String × α)) : Nat := m.length

structure HashMap (α : Type) where
  value : List (String × α)
  keyOrder : List String
  deriving Repr

def emptyHashMap : HashMap α := { value := [], keyOrder := [] }

/-- `AppendKVPair` -/
def appendKVPair (hm : HashMap α) (key : String) (v : α) : HashMap α :=
  match mapGet hm.value key with
  | some _ => { hm with value := mapSet hm.value key v }
  | none => { value := mapSet hm.value key v, keyOrder := hm.keyOrder ++ [key] }

/-- one pass of the `NewHashMap(kvPairs)` loop:
`if _, ok := hm.value[k]; !ok { keyOrder = append(keyOrder, k) }; hm.value[k] = v` -/
def newHashMapStep (hm : HashMap α) (kv : String × α) : HashMap α :=
  let ko := match mapGet hm.value kv.1 with
    | none => hm.keyOrder ++ [kv.1]
    | some _ => hm.keyOrder
  { value := mapSet hm.value kv.1 kv.2, keyOrder := ko }

/-- `NewHashMap(kvPairs)` -/
def newHashMap (kvs : List (String × α)) : HashMap α := kvs.foldl newHashMapStep emptyHashMap

/-- 数目 / 长度: `len(hm.value)` — the Go map, not the key-order slice -/
def hmLength (hm : HashMap α) : Nat := mapLen hm.value
/-- 所有索引 -/
def hmAllIndexes (hm : HashMap α) : List String := hm.keyOrder
/-- 所有值: `hm.value[keyName]` for each key of keyOrder (`none` = Go's nil Element for a missing key) -/
def hmAllValues (hm : HashMap α) : List (Option α) := hm.keyOrder.map (mapGet hm.value)

/-- one item of `String()`: `hm.value[v].String()` on a missing key is a nil-pointer panic -/
def displayStep (value : List (String × α)) (k : String) (acc : Res (List (String × α))) : Res (List (String × α)) :=
  match mapGet value k, acc with
  | some v, .ok rest => .ok ((k, v) :: rest)
  | none, _ => .panic
  | _, e => e

/-- `String()`: the pairs in keyOrder -/
def hmDisplay (hm : HashMap α) : Res (List (String × α)) :=
  hm.keyOrder.foldr (displayStep hm.value) (.ok [])

/-- result of 读取 -/
inductive GetRes (α : Type) where
  | self            -- no key given: the receiver itself
  | val (a : α)
  | null
  deriving Repr, DecidableEq

/-- the rest of the 读取 chain below the receiver: `sub v k` is the lookup of `k` in the value `v`
(`none` when `v` is not a dictionary or has no such key — the Go code answers 空 in both cases) -/
def chainRest (sub : α → String → Option α) : α → List String → GetRes α
  | v, [] => .val v
  | v, k :: ks => match sub v k with
    | none => .null
    | some v' => chainRest sub v' ks

/-- 读取 with its key chain -/
def hmGet (sub : α → String → Option α) (hm : HashMap α) : List String → GetRes α
  | [] => .self
  | k :: ks => match mapGet hm.value k with
    | none => .null
    | some v => chainRest sub v ks

/-- 写入: `AppendKVPair(KVPair{key, DuplicateValue(values[1])})`, returns `values[1]`
(at this level the stored copy and the argument are the same `v`) -/
def hmSet (hm : HashMap α) (k : String) (v : α) : HashMap α × α := (appendKVPair hm k v, v)

/-- One `hm.keyOrder = append(hm.keyOrder[:idx], hm.keyOrder[idx+1:]...)` on the backing array `buf`
(all `n` slots the `range` loop can see) with current header length `len`:
`s[idx+1:]` panics when `idx+1 > len(s)` (`s[:idx]` cannot: `idx < n ≤ cap`); the copy is a memmove inside
`buf`: slots `idx … len-2` receive the old slots `idx+1 … len-1`, every other slot keeps its content. -/
def spliceOut (buf : List String) (len idx : Nat) : Res (List String × Nat) :=
  if idx + 1 > len then .panic
  else .ok (buf.take idx ++ (buf.drop (idx + 1)).take (len - (idx + 1)) ++ buf.drop (len - 1), len - 1)

/-- `for idx, vk := range hm.keyOrder { if vk == keyName { hm.keyOrder = append(…) } }`.
`range` evaluated the slice header once: `fuel + idx = n` iterations over the backing array `buf`, each
reading `buf[idx]` *as it is now*; `len` is the length of the current `hm.keyOrder` header over `buf`. -/
def deleteLoopFrom (k : String) : (fuel idx : Nat) → (buf : List String) → (len : Nat) → Res (List String)
  | 0, _, buf, len => .ok (buf.take len)
  | fuel + 1, idx, buf, len =>
    match buf[idx]? with
    | none => .panic
    | some vk =>
      if vk = k then
        match spliceOut buf len idx with
        | .ok (buf', len') => deleteLoopFrom k fuel (idx + 1) buf' len'
        | .err c => .err c
        | .panic => .panic
      else deleteLoopFrom k fuel (idx + 1) buf len

def deleteLoop (ks : List String) (k : String) : Res (List String) :=
  deleteLoopFrom k ks.length 0 ks ks.length

/-- 移除: returns the removed value (`none` = 空 when the key is absent; nothing changes then) -/
def hmDelete (hm : HashMap α) (k : String) : Res (Option α × HashMap α) :=
  match mapGet hm.value k with
  | some v =>
    match deleteLoop hm.keyOrder k with
    | .ok ko => .ok (some v, { value := mapDelete hm.value k, keyOrder := ko })
    | .err c => .err c
    | .panic => .panic
  | none => .ok (none, hm)

/-! ## iv.go, IVTypeHashMap -/

/-- `ReduceRHS`: missing key → IndexKeyNotFound -/
def ivMapRead (hm : HashMap α) (k : String) : Res α :=
  match mapGet hm.value k with
  | some v => .ok v
  | none => .err errIndexKeyNotFound

/-- `ReduceLHS`: `AppendKVPair` -/
def ivMapWrite (hm : HashMap α) (k : String) (v : α) : HashMap α := appendKVPair hm k v

/-! ## operation histories (one list / one dictionary) -/

inductive ListOp (α : Type) where
  | getFirst | getLast | getLength | getReverse
  | setFirst (x : α) | setLast (x : α)
  | insert (x : α) (idx : Int) | prepend (x : α) | append (x : α)
  | shiftLeft | shiftRight
  | merge (args : List (List α))
  | contains (x : α) | find (x : α)
  | swap (f0 f1 : Int)
  | ivRead (index : Int) | ivWrite (index : Int) (x : α)
  deriving Repr

/-- what an operation hands back -/
inductive OpResult (α : Type) where
  | unit                      -- setters, IV writes
  | self                      -- the receiver itself (新增 前增 后增 交换, 读取 without keys)
  | elem (a : α)
  | null
  | num (n : Int)
  | bool (b : Bool)
  | arr (l : List α)          -- a new array (逆序, 合并)
  | err (code : Nat)
  deriving Repr, DecidableEq

def optResult : Option α → OpResult α
  | some a => .elem a
  | none => .null

/-- one list operation on the real algorithm: new state and result; an error leaves the state as it was;
`.panic` = the host process crashed -/
def listStep (eq : α → α → Bool) (v : List α) : ListOp α → Res (List α × OpResult α)
  | .getFirst => .ok (v, optResult (arrayGetFirst v))
  | .getLast => .ok (v, optResult (arrayGetLast v))
  | .getLength => .ok (v, .num (arrayGetLength v))
  | .getReverse => match arrayGetReverse v with
    | .ok r => .ok (v, .arr r)
    | .err c => .ok (v, .err c)
    | .panic => .panic
  | .setFirst x => .ok (arraySetFirst v x, .unit)
  | .setLast x => .ok (arraySetLast v x, .unit)
  | .insert x idx => match arrayInsert v x idx with
    | .ok v' => .ok (v', .self)
    | .err c => .ok (v, .err c)
    | .panic => .panic
  | .prepend x => match arrayPrepend v x with
    | .ok v' => .ok (v', .self)
    | .err c => .ok (v, .err c)
    | .panic => .panic
  | .append x => match arrayAppend v x with
    | .ok v' => .ok (v', .self)
    | .err c => .ok (v, .err c)
    | .panic => .panic
  | .shiftLeft => let r := shiftArrayValue v true; .ok (r.2, optResult r.1)
  | .shiftRight => let r := shiftArrayValue v false; .ok (r.2, optResult r.1)
  | .merge args => let r := arrayMerge v args; .ok (r, .arr r)
  | .contains x => .ok (v, .bool (arrayContains eq x v))
  | .find x => .ok (v, .num (arrayFind eq x v))
  | .swap f0 f1 => match arraySwap v f0 f1 with
    | .ok v' => .ok (v', .self)
    | .err c => .ok (v, .err c)
    | .panic => .panic
  | .ivRead i => match ivArrayRead v i with
    | .ok x => .ok (v, .elem x)
    | .err c => .ok (v, .err c)
    | .panic => .panic
  | .ivWrite i x => match ivArrayWrite v i x with
    | .ok v' => .ok (v', .unit)
    | .err c => .ok (v, .err c)
    | .panic => .panic

/-- a whole history: after every operation the result and the list as displayed -/
def listRun (eq : α → α → Bool) : List α → List (ListOp α) → Res (List (OpResult α × List α))
  | _, [] => .ok []
  | v, op :: ops =>
    match listStep eq v op with
    | .ok (v', r) => match listRun eq v' ops with
      | .ok tr => .ok ((r, v') :: tr)
      | .err c => .err c
      | .panic => .panic
    | .err c => .err c
    | .panic => .panic

inductive DictOp (α : Type) where
  | get (keys : List String)
  | set (k : String) (v : α)
  | delete (k : String)
  | ivRead (k : String)
  | ivWrite (k : String) (v : α)
  deriving Repr

def getResult : GetRes α → OpResult α
  | .self => .self
  | .val a => .elem a
  | .null => .null

def dictStep (sub : α → String → Option α) (hm : HashMap α) : DictOp α → Res (HashMap α × OpResult α)
  | .get keys => .ok (hm, getResult (hmGet sub hm keys))
  | .set k v => let r := hmSet hm k v; .ok (r.1, .elem r.2)
  | .delete k => match hmDelete hm k with
    | .ok (r, hm') => .ok (hm', optResult r)
    | .err c => .ok (hm, .err c)
    | .panic => .panic
  | .ivRead k => match ivMapRead hm k with
    | .ok v => .ok (hm, .elem v)
    | .err c => .ok (hm, .err c)
    | .panic => .panic
  | .ivWrite k v => .ok (ivMapWrite hm k v, .unit)

/-- everything the property observes of a dictionary after an operation -/
structure DictObs (α : Type) where
  display : Res (List (String × α))
  length : Nat
  allIndexes : List String
  allValues : List (Option α)

def observe (hm : HashMap α) : DictObs α :=
  { display := hmDisplay hm, length := hmLength hm, allIndexes := hmAllIndexes hm, allValues := hmAllValues hm }

def dictRun (sub : α → String → Option α) : HashMap α → List (DictOp α) → Res (List (OpResult α × HashMap α))
  | _, [] => .ok []
  | hm, op :: ops =>
    match dictStep sub hm op with
    | .ok (hm', r) => match dictRun sub hm' ops with
      | .ok tr => .ok ((r, hm') :: tr)
      | .err c => .err c
      | .panic => .panic
    | .err c => .err c
    | .panic => .panic

end ZnVerif.Model.Containers
