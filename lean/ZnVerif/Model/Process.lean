/-
C16 — what executions in one process share.  Model of pkg/exec/globals.go `NewGlobalValues`,
interpreter.go `LoadScript/LoadFile/clone/Execute` after the repairs (309ea6d, cc64ecf); the facts about
the source are regenerated into Generated/Process.lean on every run.
-/
import ZnVerif.Generated.Process

namespace ZnVerif.Model.Process

inductive Kind where
  | bool | null | num | cls | fn | unknown
  deriving DecidableEq, Repr

/-- which kind of value a constructor of pkg/value / pkg/exec builds -/
def kindOfCtor (c : String) : Kind :=
  match c with
  | "value.NewBool" => .bool
  | "value.NewNull" => .null
  | "&value.Number" | "value.NewNumber" => .num
  | "newExceptionModel" | "value.NewClassModel" => .cls
  | "newDisplayFunc" | "newGetRandomFloatFunc" | "value.NewFunction" => .fn
  | _ => .unknown

/-- values a program can change in place: numbers (自增/自减), types (constructor, properties, methods).
Booleans, 空 and methods have no mutating member (see the member tables of pkg/value). Unknown = assume mutable. -/
def mutableKind : Kind → Bool
  | .num | .cls | .unknown => true
  | .bool | .null | .fn => false

/-- kind of the value bound to a predefined name: by its constructor if built in place, else by the
constructor of the package-level variable it refers to -/
def kindOfGlobal (g : String × Bool × String) : Kind :=
  if g.2.1 then kindOfCtor g.2.2
  else match Generated.Process.sharedCtors.find? (·.1 == g.2.2) with
    | some (_, c) => kindOfCtor c
    | none => .unknown

/-- a predefined value is isolated when every execution gets its own (fresh) or nobody can change it -/
def isolatedGlobal (g : String × Bool × String) : Bool := g.2.1 || !mutableKind (kindOfGlobal g)

/-! ### the shared interpreter object under concurrent requests

A request is `LoadScript(src_i)` followed by `Execute`. `LoadScript` works on a copy (`clone`), so the handle
it returns is the request's own; the shared interpreter is never written. -/

structure Interp where
  finder : Option Nat := none   -- whose source the module-code finder yields
  deriving DecidableEq, Repr

inductive Step where
  | load (i : Nat)
  | exec (i : Nat)
  deriving DecidableEq, Repr

structure World where
  shared : Interp := {}
  handle : List (Nat × Interp) := []      -- request i ↦ the interpreter LoadScript returned to it
  ran : List (Nat × Option Nat) := []     -- request i executed the source of …
  deriving Repr

def lookupH (i : Nat) : List (Nat × Interp) → Option Interp
  | [] => none
  | (j, h) :: rest => if i = j then some h else lookupH i rest

/-- repaired code: `z = z.clone(); z.moduleCodeFinder = …; return z` -/
def step (w : World) : Step → World
  | .load i => { w with handle := (i, { w.shared with finder := some i }) :: w.handle }
  | .exec i => { w with ran := (i, (lookupH i w.handle).bind (·.finder)) :: w.ran }

/-- the pinned code: `z.moduleCodeFinder = …; return z` on the shared object -/
def stepOld (w : World) : Step → World
  | .load i => { w with shared := { finder := some i }, handle := (i, { finder := some i }) :: w.handle }
  | .exec i => { w with ran := (i, w.shared.finder) :: w.ran }

def run (f : World → Step → World) (w : World) (steps : List Step) : World := steps.foldl f w

end ZnVerif.Model.Process
