/-
The syntax tree of pkg/syntax/ast.go.  Pointers that may be nil in a Go tree are `Option`.
Blocks (`*StmtBlock`) are `Option (List Stmt)`.  `line` is the 0-based line index set by the parser.
-/
namespace ZnVerif.Model

structure Ident where
  line : Nat
  lit : String
  deriving Repr, DecidableEq, Inhabited

mutual
inductive Expr where
  | id (i : Ident)
  | str (line : Nat) (s : String)
  | arr (line : Nat) (items : List Expr)
  | hm (line : Nat) (kvs : List (Expr × Expr))
  | assign (line : Nat) (target : Expr) (e : Expr)
  | logic (line : Nat) (ty : Nat) (l r : Expr)
  | arith (line : Nat) (ty : Nat) (l r : Expr)
  | member (line : Nat) (rootType : Nat) (root : Expr) (memberType : Nat) (mid : Option Ident) (idx : Expr)
  | call (line : Nat) (name : Option Ident) (params : List Expr) (yld : Option Ident)
  | mcall (line : Nat) (root : Expr) (chain : List Expr) (yld : Option Ident)
  | new (line : Nat) (cls : Option Ident) (params : List Expr)
  /-- a nil `Expression` inside a Go tree -/
  | nil

inductive Stmt where
  | varDecl (line : Nat) (pairs : List (Nat × List Ident × Expr))
  | while (line : Nat) (cond : Expr) (body : Option (List Stmt))
  | branch (line : Nat) (ifE : Expr) (ifB : Option (List Stmt)) (others : List (Expr × Option (List Stmt)))
      (hasElse : Bool) (elseB : Option (List Stmt))
  | empty (line : Nat)
  | funcDecl (line : Nat) (name : Option Ident) (declType : Nat) (exec : Option ExecBlock)
  | classDecl (line : Nat) (name : Option Ident) (props : List (Option Ident × Expr))
      (methods : List Stmt) (getters : List Stmt)
  | iterate (line : Nat) (e : Expr) (names : List Ident) (body : Option (List Stmt))
  | ret (line : Nat) (e : Expr)
  | throw (line : Nat) (cls : Option Ident) (params : List Expr)
  | continue (line : Nat)
  | break (line : Nat)
  | expr (e : Expr)
  | nil

inductive ExecBlock where
  | mk (inputs : List Ident) (body : Option (List Stmt)) (catches : List (Option Ident × Option (List Stmt)))
end

instance : Inhabited Expr := ⟨.nil⟩
instance : Inhabited Stmt := ⟨.nil⟩
instance : Inhabited ExecBlock := ⟨.mk [] none []⟩

structure Import where
  line : Nat
  libType : Nat
  name : Option String
  items : List Ident

structure Program where
  imports : List Import
  exec : Option ExecBlock

-- logic / arith type codes of ast.go
def LogicOR : Nat := 1
def LogicAND : Nat := 2
def LogicEQ : Nat := 4
def LogicNEQ : Nat := 5
def LogicGT : Nat := 6
def LogicGTE : Nat := 7
def LogicLT : Nat := 8
def LogicLTE : Nat := 9
def LogicXEQ : Nat := 10
def LogicXNEQ : Nat := 11
def ArithAdd : Nat := 12
def ArithSub : Nat := 13
def ArithMul : Nat := 14
def ArithDiv : Nat := 15
def ArithIntDiv : Nat := 16
def ArithModulo : Nat := 17

def Expr.line : Expr → Nat
  | .id i => i.line
  | .str l _ | .arr l _ | .hm l _ | .assign l _ _ | .logic l _ _ _ | .arith l _ _ _
  | .member l _ _ _ _ _ | .call l _ _ _ | .mcall l _ _ _ | .new l _ _ => l
  | .nil => 0

def Stmt.line : Stmt → Nat
  | .varDecl l _ | .while l _ _ | .branch l _ _ _ _ _ | .empty l | .funcDecl l _ _ _
  | .classDecl l _ _ _ _ | .iterate l _ _ _ | .ret l _ | .throw l _ _ | .continue l | .break l => l
  | .expr e => e.line
  | .nil => 0

/-- `SetCurrentLine` on an expression node (a nil interface would be a Go panic: modelled at the call site) -/
def Expr.setLine (l : Nat) : Expr → Expr
  | .id i => .id { i with line := l }
  | .str _ s => .str l s
  | .arr _ xs => .arr l xs
  | .hm _ kvs => .hm l kvs
  | .assign _ t e => .assign l t e
  | .logic _ ty a b => .logic l ty a b
  | .arith _ ty a b => .arith l ty a b
  | .member _ rt r mt mid idx => .member l rt r mt mid idx
  | .call _ n ps y => .call l n ps y
  | .mcall _ r c y => .mcall l r c y
  | .new _ c ps => .new l c ps
  | .nil => .nil

/-- `SetCurrentLine` on a statement node; an expression statement is the expression object itself -/
def Stmt.setLine (l : Nat) : Stmt → Stmt
  | .varDecl _ ps => .varDecl l ps
  | .while _ c b => .while l c b
  | .branch _ ie ib os he eb => .branch l ie ib os he eb
  | .empty _ => .empty l
  | .funcDecl _ n dt x => .funcDecl l n dt x
  | .classDecl _ n ps ms gs => .classDecl l n ps ms gs
  | .iterate _ e ns b => .iterate l e ns b
  | .ret _ e => .ret l e
  | .throw _ c ps => .throw l c ps
  | .continue _ => .continue l
  | .break _ => .break l
  | .expr e => .expr (e.setLine l)
  | .nil => .nil

/-- Go's `exprL.(syntax.Assignable)`: `*ID` and `*MemberExpr` implement `assignable()` -/
def Expr.isAssignable : Expr → Bool
  | .id _ => true
  | .member .. => true
  | _ => false

end ZnVerif.Model
