/-
Model of the parts of Go's `unicode/utf8` that pkg/io uses (runtime, modelled not verified — exercised by the
`decode` correspondence): the `first` table with its accept ranges, `DecodeRune`, `FullRune`, `EncodeRune`.
Written after utf8.go's structure (lead-byte class → size + accept range for the second byte → continuation
checks), not after the spec.  Bytes and runes are `Nat`; a "byte" ≥ 256 falls in the invalid class.
Core Lean only.
-/
namespace ZnVerif.Model

def runeError : Nat := 0xFFFD
def maxRune : Nat := 0x10FFFF
def surrogateMin : Nat := 0xD800
def surrogateMax : Nat := 0xDFFF

/-- entry of utf8.go's `first` array: `as` (ASCII), `xx` (invalid), or size + accept range of byte 2 -/
inductive First where
  | ascii
  | invalid
  | lead (size lo hi : Nat)
  deriving Repr, DecidableEq

/-- `first[p0]` with `acceptRanges[x>>4]` resolved:
  C2..DF s1 · E0 s2 (A0..BF) · E1..EC s3 · ED s4 (80..9F) · EE..EF s3 · F0 s5 (90..BF) · F1..F3 s6 · F4 s7 (80..8F) -/
def first (b : Nat) : First :=
  if b < 0x80 then .ascii
  else if b < 0xC2 then .invalid
  else if b < 0xE0 then .lead 2 0x80 0xBF
  else if b = 0xE0 then .lead 3 0xA0 0xBF
  else if b < 0xED then .lead 3 0x80 0xBF
  else if b = 0xED then .lead 3 0x80 0x9F
  else if b < 0xF0 then .lead 3 0x80 0xBF
  else if b = 0xF0 then .lead 4 0x90 0xBF
  else if b < 0xF4 then .lead 4 0x80 0xBF
  else if b = 0xF4 then .lead 4 0x80 0x8F
  else .invalid

/-- `b < locb || hicb < b` negated: a continuation byte 80..BF -/
def isCont (b : Nat) : Bool := 0x80 ≤ b && b ≤ 0xBF

/-- `utf8.DecodeRune(p)`: (rune, size); every invalid, overlong, surrogate, too large or short input is
`(RuneError, 1)`, the empty input `(RuneError, 0)`.  `p0&mask<<k | …` is written arithmetically. -/
def utf8DecodeRune : List Nat → Nat × Nat
  | [] => (runeError, 0)
  | p0 :: rest =>
    match first p0 with
    | .ascii => (p0, 1)
    | .invalid => (runeError, 1)
    | .lead sz lo hi =>
      if rest.length + 1 < sz then (runeError, 1)            -- n < sz
      else match rest with
        | [] => (runeError, 1)
        | b1 :: rest2 =>
          if b1 < lo ∨ hi < b1 then (runeError, 1)
          else if sz ≤ 2 then (p0 % 0x20 * 0x40 + b1 % 0x40, 2)
          else match rest2 with
            | [] => (runeError, 1)
            | b2 :: rest3 =>
              if !isCont b2 then (runeError, 1)
              else if sz ≤ 3 then (p0 % 0x10 * 0x1000 + b1 % 0x40 * 0x40 + b2 % 0x40, 3)
              else match rest3 with
                | [] => (runeError, 1)
                | b3 :: _ =>
                  if !isCont b3 then (runeError, 1)
                  else (p0 % 8 * 0x40000 + b1 % 0x40 * 0x1000 + b2 % 0x40 * 0x40 + b3 % 0x40, 4)

/-- `utf8.FullRune(p)`: does `p` begin with a full encoding?  An invalid encoding counts as full (it will
convert as a width-1 error rune); `false` exactly for the empty input and for an input that is so far a
legal but incomplete sequence. -/
def fullRune : List Nat → Bool
  | [] => false
  | p0 :: rest =>
    match first p0 with
    | .ascii => true
    | .invalid => true
    | .lead sz lo hi =>
      if sz ≤ rest.length + 1 then true                        -- n >= int(x&7)
      else match rest with
        | [] => false
        | b1 :: rest2 =>
          if b1 < lo ∨ hi < b1 then true                       -- n > 1 && p[1] outside accept range
          else match rest2 with
            | [] => false
            | b2 :: _ => !isCont b2                            -- n > 2 && p[2] outside locb..hicb

/-- `utf8.EncodeRune` / `AppendRune`: surrogates and values above MaxRune are written as U+FFFD -/
def utf8Encode (c : Nat) : List Nat :=
  if c < 0x80 then [c]
  else if c < 0x800 then [0xC0 + c / 0x40, 0x80 + c % 0x40]
  else if maxRune < c ∨ (surrogateMin ≤ c ∧ c ≤ surrogateMax) then [0xEF, 0xBF, 0xBD]
  else if c < 0x10000 then [0xE0 + c / 0x1000, 0x80 + c / 0x40 % 0x40, 0x80 + c % 0x40]
  else [0xF0 + c / 0x40000, 0x80 + c / 0x1000 % 0x40, 0x80 + c / 0x40 % 0x40, 0x80 + c % 0x40]

end ZnVerif.Model
