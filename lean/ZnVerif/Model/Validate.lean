/-
Model of the parameter validators of pkg/value/value_util.go: `validateOneParam`, `ValidateExactParams`,
`ValidateAllParams`, `ValidateLeastParams` — the regexp-free logic, with the two Go primitives that can panic
made explicit:

  * `values[idx]` in the default branch of `ValidateLeastParams` (a mandatory parameter the caller did not
    supply).  `idxGuarded = true` is the repaired code (`if idx >= len(values) { return LeastParamsError }`),
    `false` the code before the repair.
  * `v.(*GoValue).GetTag()` in the `golang:` branch of `validateOneParam`, evaluated after the type test
    failed.  `castGuarded = true` is the repaired code, `false` the code before.
  * `matches[2]` on the nil slice `FindStringSubmatch` answers for a pattern without any word character.

Values are abstracted to what the validators look at (`VKind`).  Core-only; executed by the driver op `validate`.
-/
namespace ZnVerif.Model.Validate

/-- what `validateOneParam` can tell about a value -/
inductive VKind where
  | number | string | array | hashmap | bool | object | function
  | govalue (tag : String)
  | other          -- 空, a class, an exception
  deriving DecidableEq, Repr

inductive Out where
  | ok
  | err (code : Nat)   -- *zerr.RuntimeError
  | panic
  deriving DecidableEq, Repr

/-- `\w` of Go's regexp (RE2): ASCII letters, digits, underscore -/
def isWordChar (c : Char) : Bool :=
  ('0' ≤ c && c ≤ '9') || ('a' ≤ c && c ≤ 'z') || ('A' ≤ c && c ≤ 'Z') || c == '_'

/-- `regexp.MustCompile(`(\w+)(\*|\+|\?)?`).FindStringSubmatch(t)`: the leftmost run of word characters
    (longest), then an optional suffix character; `none` = no match (a nil slice) -/
def parsePat (t : String) : Option (String × String) :=
  let cs := t.toList.dropWhile (fun c => !isWordChar c)
  let name := cs.takeWhile isWordChar
  if name.isEmpty then none else
  match cs.dropWhile isWordChar with
  | '*' :: _ => some (String.ofList name, "*")
  | '+' :: _ => some (String.ofList name, "+")
  | '?' :: _ => some (String.ofList name, "?")
  | _ => some (String.ofList name, "")

def golangPrefix : String := "golang:"

/-- strings.HasPrefix (on the character lists, so that the kernel can evaluate it) -/
def hasPrefix (s pre : String) : Bool := pre.toList.isPrefixOf s.toList

/-- strings.TrimPrefix for a prefix that is there -/
def dropPrefix (s pre : String) : String := String.ofList (s.toList.drop pre.toList.length)

/-- the `switch typeStr` of validateOneParam; a type string it does not know leaves `valid = true` -/
def basicValid (v : VKind) (ty : String) : Bool :=
  if ty == "number" then v == .number
  else if ty == "string" then v == .string
  else if ty == "array" then v == .array
  else if ty == "hashmap" then v == .hashmap
  else if ty == "bool" then v == .bool
  else if ty == "object" then v == .object
  else if ty == "function" then v == .function
  else if ty == "govalue" then (match v with | .govalue _ => true | _ => false)
  else true

/-- validateOneParam -/
def validateOne (castGuarded : Bool) (v : VKind) (ty : String) : Out :=
  let valid := basicValid v ty
  if hasPrefix ty golangPrefix then
    match v with
    | .govalue tag =>
      if valid && tag == dropPrefix ty golangPrefix then .ok else .err 82
    | _ => if castGuarded then .err 82 else .panic     -- `v.(*GoValue)` on something else
  else if valid then .ok else .err 82

/-- `for _, v := range values { validateOneParam(v, ty) }` -/
def validateAllFrom (cg : Bool) (ty : String) : List VKind → Out
  | [] => .ok
  | v :: rest =>
    match validateOne cg v ty with
    | .ok => validateAllFrom cg ty rest
    | o => o

/-- ValidateAllParams -/
def validateAll (cg : Bool) (values : List VKind) (ty : String) : Out := validateAllFrom cg ty values

/-- ValidateExactParams -/
def validateExact (cg : Bool) (values : List VKind) (tys : List String) : Out :=
  if values.length ≠ tys.length then .err 53 else
  let rec go : List VKind → List String → Out
    | v :: vs, t :: ts =>
      match validateOne cg v t with
      | .ok => go vs ts
      | o => o
    | _, _ => .ok
  go values tys

/-- ValidateLeastParams, the loop `for idx, t := range typeStr` from index `idx` on -/
def validateLeastFrom (ig cg : Bool) (values : List VKind) : Nat → List String → Out
  | _, [] => .ok
  | idx, t :: rest =>
    match parsePat t with
    | none => .panic                      -- matches[2] of a nil slice
    | some (name, suffix) =>
      if suffix == "*" || suffix == "+" then
        if suffix == "+" && idx > values.length then .err 73
        else validateAllFrom cg name (values.drop idx)     -- `for i := idx; i < len(values); i++`, then `break Loop`
      else if suffix == "?" then
        if idx == values.length then .ok
        else if idx + 1 == values.length then
          match values[idx]? with
          | some v =>
            match validateOne cg v name with
            | .ok => validateLeastFrom ig cg values (idx + 1) rest
            | o => o
          | none => .panic
        else .err 73
      else
        match values[idx]? with
        | none => if ig then .err 50 else .panic           -- values[idx] with idx ≥ len(values)
        | some v =>
          match validateOne cg v t with
          | .ok => validateLeastFrom ig cg values (idx + 1) rest
          | o => o

def validateLeast (ig cg : Bool) (values : List VKind) (pats : List String) : Out := validateLeastFrom ig cg values 0 pats

end ZnVerif.Model.Validate
