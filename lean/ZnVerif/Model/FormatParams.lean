/-
Parameters shared by the model and the spec of `%` formatting (C14).

Numbers are abstract (`ν`): how a double is rendered by Go's `fmt` verbs is *runtime* and enters as the
parameter `fmtFloat`; so does `x * 100` of the percent directive (`scale100`) and the display form
(`Element.String()`) of numbers (`displayNum`) and of the other displayable values (`display`).
Nothing is assumed about these functions; every theorem holds for all of them.  The correspondence run
compares the real renderings with an independent reference.
-/
namespace ZnVerif.Model.Format

/-- the `fmt` verb chosen by `parseNumberFormatter`: `%f`, `%E`, or `%.6g` when neither is asked for -/
inductive Verb where
  | f | e | g
  deriving Repr, DecidableEq

/-- an element of the argument list.  `plain` = 文本 / 逻辑 / 列表 / 字典 / 空 (the kinds whose display form `{}`
inserts), `other` = any other kind of value (function, object, exception …) -/
inductive Arg (ν κ : Type) where
  | num (x : ν)
  | plain (v : κ)
  | other
  deriving Repr

/-- an operand of `%` as `evalArithTypeModuloExpr` sees it after evaluating both sides -/
inductive Operand (ν κ : Type) where
  | number (x : ν)
  | text (t : List Nat)
  | list (items : List (Arg ν κ))
  | otherValue

structure Env (ν κ : Type) where
  /-- `fmt.Sprintf("%[+][.prec]verb", x)` as code points -/
  fmtFloat : Verb → Option Nat → Bool → ν → List Nat
  /-- `x * 100` -/
  scale100 : ν → ν
  /-- `(*Number).String()` -/
  displayNum : ν → List Nat
  /-- `String()` of 文本, 逻辑, 列表, 字典, 空 -/
  display : κ → List Nat

end ZnVerif.Model.Format
