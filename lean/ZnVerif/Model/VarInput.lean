/-
pkg/exec/exec_varinput.go as written: evalVarAssignBlockText, evalExpressionText, assertASTIsVarAssignBlock,
assertASTIsSingleExpr, ExecVarInputText, ExecExpressionInputText — over the parser model (`Parser.Parse`) and the
evaluator model (`evalExpr` on a VM without any call frame).

Quirks kept: only `ExecBlock.StmtBlock` is looked at (import lines, an 输入 line and 拦截 handlers of the text are
ignored); the error of `parser.Parse()` is tested BEFORE the tree is looked at (Parse hands back a tree together with
the "tokens remain" error); the empty text is answered without parsing; names are bound by their literal.
-/
import ZnVerif.Model.Interp
import ZnVerif.Model.ParserLex

namespace ZnVerif.Model.VarInput
open ZnVerif.Model ZnVerif.Model.Parser

inductive Out (ν : Type) where
  | bound (kvs : List (String × Addr)) (vm : VM ν)
  /-- zerr.NewErrorSLOT: the text does not parse / is not an assignment block / a target is not an identifier -/
  | slotErr
  | evalErr (e : Err)
  | panic
  | fuel
  | unmodelled

/-- what `parser.Parse()` hands to the caller: (tree, err) -/
def parseText (src : List Nat) : Outcome := parseSource .fixed (40 * (src.length + 2) + 100) src

/-- assertASTIsVarAssignBlock -/
def assertVarAssignBlock (p : Program) : Option (List (Expr × Expr)) :=
  match p.exec with
  | none => none
  | some (.mk _ none _) => none
  | some (.mk _ (some stmts) _) => go stmts
where
  go : List Stmt → Option (List (Expr × Expr))
    | [] => some []
    | .expr (.assign _ t e) :: rest => (go rest).map ((t, e) :: ·)
    | .empty _ :: rest => go rest
    | _ => none

/-- assertASTIsSingleExpr -/
def assertSingleExpr (p : Program) : Option Expr :=
  match p.exec with
  | some (.mk _ (some [.expr e]) _) => (match e with | .nil => none | _ => some e)
  | _ => none

def assocPut {β} (k : String) (v : β) : List (String × β) → List (String × β)
  | [] => [(k, v)]
  | (k', v') :: rest => if k = k' then (k, v) :: rest else (k', v') :: assocPut k v rest

variable {ν : Type} [NumOps ν]

/-- step #4 of evalVarAssignBlockText -/
def evalPairs (fuel : Nat) : List (Expr × Expr) → List (String × Addr) → VM ν → Out ν
  | [], acc, vm => .bound acc vm
  | (t, e) :: rest, acc, vm =>
    match t with
    | .id i =>
      match evalExpr fuel e vm with
      | (.ok a, vm') => evalPairs fuel rest (assocPut i.lit a acc) vm'
      | (.err er, _) => .evalErr er
      | (.panic, _) => .panic
      | (.fuel, _) => .fuel
      | (.unmodelled, _) => .unmodelled
    | _ => .slotErr

/-- evalVarAssignBlockText on a fresh VM (ExecVarInputText) -/
def execVarInputText (fuel : Nat) (src : List Nat) : Out ν :=
  if src.isEmpty then .bound [] (initVM ()) else
  match parseText src with
  | .tree p =>
    match assertVarAssignBlock p with
    | none => .slotErr
    | some pairs => evalPairs fuel pairs [] (initVM ())
  | .synErr _ => .slotErr
  | .otherErr => .slotErr
  | .outOfFuel => .fuel

/-- evalExpressionText per entry, in the order given (the Go code sorts the keys), one VM for all -/
def execExpressionInputText (fuel : Nat) : List (String × List Nat) → List (String × Addr) → VM ν → Out ν
  | [], acc, vm => .bound acc vm
  | (k, src) :: rest, acc, vm =>
    match parseText src with
    | .tree p =>
      match assertSingleExpr p with
      | none => .slotErr
      | some e =>
        match evalExpr fuel e vm with
        | (.ok a, vm') => execExpressionInputText fuel rest (assocPut k a acc) vm'
        | (.err er, _) => .evalErr er
        | (.panic, _) => .panic
        | (.fuel, _) => .fuel
        | (.unmodelled, _) => .unmodelled
    | .synErr _ => .slotErr
    | .otherErr => .slotErr
    | .outOfFuel => .fuel

end ZnVerif.Model.VarInput
