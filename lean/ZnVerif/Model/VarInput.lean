/-
Model of pkg/exec/exec_varinput.go: the two entry points that evaluate *input-variable texts* before a program runs.

  ExecVarInputText(source)              = evalVarAssignBlockText(InitVM(NewGlobalValues()), source)
  ExecExpressionInputText(map)          = evalExpressionText on every entry (sorted key order), ONE shared VM

Both run the ordinary parser (`Model/Parser.lean`, `Model/ParserLex.lean`) on the text, check the shape of the tree
(`assertASTIsVarAssignBlock`, `assertASTIsSingleExpr`) and hand the right-hand sides to the ordinary evaluator
(`Model/Interp.lean` `evalExpr`) in a VM that has the predefined names but NO module, NO call frame and NO scope:
`initVM ()` — call stack `[]`, `csModuleID = -1`, `scopes = []` — is exactly `r.InitVM(NewGlobalValues())`.

What the empty stack means for the evaluator (all of it is `Model/Interp.lean` as it stands, nothing is special-cased here):
  * `findElement` / `findElementWithModule` : globals first, then `currentScope`, which is `none` → NameNotDefined (42)
    (Go: `getCurrentScope() == nil`; before commit e955303 the accessors indexed `callStack[-1]`);
  * `getThis` : `topFrame = none` → `其 X` is error 48 (`getCurrentCallFrame() == nil`);
  * `setElement` / `declareElement` : no scope → 42.  BUT a call — `（显示：1）` — pushes a frame of the native module (id -1),
    and `PushCallFrame` creates the scope of module -1 (`initValueStack`); `PopCallFrame` then leaves `csModuleID = -1`, so from
    that moment on a scope EXISTS: `得到乙` binds 乙 there, and `（乙）` finds it, with home module id -1 — the module
    `GetModuleByID(-1)` = nil that commit 2eab72e replaces by the native module before pushing the frame;
  * a failed call leaves its frame on the stack (as in programs); the next text entry of `ExecExpressionInputText` sees it.

The functions below take the PARSED tree (or the parser's outcome); the text-level entry points compose them with
`Parser.parseSource` and with `byteStreamReadAll` (`io.NewByteStream([]byte(text)).ReadAll()`, Model/Decode.lean).
Core Lean only.

One model for both users: the C10 side (Ops/VarInputText.lean, Properties/C10VarInput.lean, C05VarInput.lean) works on bytes / trees and
keeps the VM in every outcome; the C05 stream of tools/props/varinput.py (Ops/VarInput.lean) calls `parseText`, `execVarInputText`,
`execExpressionInputText` and the type `Out` at the end of this file, which are the same functions on code points.
-/
import ZnVerif.Model.Interp
import ZnVerif.Model.ParserLex
import ZnVerif.Model.Decode

namespace ZnVerif.Model.VarInput
open ZnVerif.Model

variable {ν : Type} [NumOps ν]

/-- which step of exec_varinput.go answered `zerr.NewErrorSLOT(…)` (a plain `fmt.Errorf` error) -/
inductive Reject where
  /-- `parser.Parse()` returned an error (a syntax error, or the recovered run-time error of the parser) -/
  | parse
  /-- `assertASTIsVarAssignBlock` / `assertASTIsSingleExpr` answered false -/
  | shape
  /-- `vpair.TargetVar.(*syntax.ID)` failed: the target of an assignment is not a plain name -/
  | target
  deriving DecidableEq, Repr

/-- what an entry point hands back to its caller -/
inductive Outcome (ν : Type) (α : Type) where
  /-- the result (a map of names to values / a value) and the VM as it was left -/
  | ok (a : α) (vm : VM ν)
  /-- `zerr.ReadVarInputError` (IOError, code 12): the text is not valid UTF-8 -/
  | ioErr (code : Nat)
  /-- `zerr.NewErrorSLOT` -/
  | slot (why : Reject) (vm : VM ν)
  /-- the error `evalExpression` returned, passed on unchanged -/
  | evalErr (e : Err) (vm : VM ν)
  /-- a Go run-time panic -/
  | panic
  /-- parser or evaluator would still be running -/
  | fuel
  /-- the evaluator model does not cover what the text reached (取随机数, text % list) -/
  | unmodelled

/-! ## the tree checks -/

/-- the loop of `assertASTIsVarAssignBlock` over `StmtBlock.Children`: every child a `*VarAssignExpr` (collected, as the pair
target / right-hand side) or an `*EmptyStmt` (skipped); anything else — another statement, another expression, a nil child —
answers false -/
def collectAssigns : List Stmt → Option (List (Expr × Expr))
  | [] => some []
  | .expr (.assign _ t e) :: rest =>
    match collectAssigns rest with
    | some ps => some ((t, e) :: ps)
    | none => none
  | .empty _ :: rest => collectAssigns rest
  | _ :: _ => none

/-- `assertASTIsVarAssignBlock`: `ExecBlock == nil` → false, `StmtBlock == nil` → false, then the loop -/
def assertVarAssignBlock (p : Program) : Option (List (Expr × Expr)) :=
  match p.exec with
  | none => none
  | some (.mk _ none _) => none
  | some (.mk _ (some stmts) _) => collectAssigns stmts

/-- `assertASTIsSingleExpr`: `ExecBlock == nil`, `StmtBlock == nil`, `len(Children) != 1` → false; then
`Children[0].(syntax.Expression)` (a nil child fails the assertion) -/
def assertSingleExpr (p : Program) : Option Expr :=
  match p.exec with
  | none => none
  | some (.mk _ none _) => none
  | some (.mk _ (some [.expr .nil]) _) => none
  | some (.mk _ (some [.expr e]) _) => some e
  | some (.mk _ (some _) _) => none

/-! ## evaluation -/

/-- step #4 of `evalVarAssignBlockText`: for each pair, in order — the target must be a plain ID (else SLOT error: the pairs
before it HAVE been evaluated), the right-hand side is evaluated by `evalExpression` (first error returned as it is),
`varInputMap[target literal] = value` (a Go map: a later assignment to the same name overwrites the earlier one).
The key is the LITERAL of the ID: it is not passed through `MatchIDName`, so `1 = 2` binds the name "1". -/
def evalAssigns (fuel : Nat) : List (Expr × Expr) → List (String × Addr) → VM ν → Outcome ν (List (String × Addr))
  | [], acc, s => .ok acc s
  | (t, e) :: rest, acc, s =>
    match t with
    | .id i =>
      match evalExpr fuel e s with
      | (.ok v, s') => evalAssigns fuel rest (assocSet i.lit v acc) s'
      | (.err er, s') => .evalErr er s'
      | (.panic, _) => .panic
      | (.fuel, _) => .fuel
      | (.unmodelled, _) => .unmodelled
    | _ => .slot .target s

/-- `evalVarAssignBlockText` from step #3 on, on a parsed tree, in the VM `s` -/
def evalVarAssignBlockTree (fuel : Nat) (p : Program) (s : VM ν) : Outcome ν (List (String × Addr)) :=
  match assertVarAssignBlock p with
  | none => .slot .shape s
  | some pairs => evalAssigns fuel pairs [] s

/-- `evalExpressionText` from step #3 on -/
def evalExpressionTree (fuel : Nat) (p : Program) (s : VM ν) : Outcome ν Addr :=
  match assertSingleExpr p with
  | none => .slot .shape s
  | some e =>
    match evalExpr fuel e s with
    | (.ok v, s') => .ok v s'
    | (.err er, s') => .evalErr er s'
    | (.panic, _) => .panic
    | (.fuel, _) => .fuel
    | (.unmodelled, _) => .unmodelled

/-- step #2: what the caller does with `parser.Parse()`'s answer (`err != nil` → SLOT error, whatever the error is) -/
def afterParse {α} (o : Parser.Outcome) (k : Program → VM ν → Outcome ν α) (s : VM ν) : Outcome ν α :=
  match o with
  | .tree p => k p s
  | .synErr _ => .slot .parse s
  | .otherErr => .slot .parse s
  | .outOfFuel => .fuel

/-- `evalVarAssignBlockText` on the runes of the text (steps #0, #2, #3, #4), for any lexer: `len(blockText) == 0` returns the
empty map without parsing -/
def evalVarAssignBlockWith {σ : Type} (ops : Parser.LexOps σ) (pfuel fuel : Nat) (isEmpty : Bool) (l : σ) (s : VM ν) :
    Outcome ν (List (String × Addr)) :=
  if isEmpty then .ok [] s
  else afterParse (Parser.parseAST .fixed ops pfuel l) (evalVarAssignBlockTree fuel) s

def evalExpressionWith {σ : Type} (ops : Parser.LexOps σ) (pfuel fuel : Nat) (l : σ) (s : VM ν) : Outcome ν Addr :=
  afterParse (Parser.parseAST .fixed ops pfuel l) (evalExpressionTree fuel) s

/-- `evalVarAssignBlockText(vm, text)` on the BYTES of the Go string -/
def evalVarAssignBlockText (pfuel fuel : Nat) (bytes : List Nat) (s : VM ν) : Outcome ν (List (String × Addr)) :=
  if bytes.isEmpty then .ok [] s else
  match byteStreamReadAll bytes with
  | .error _ => .ioErr 12
  | .ok src => evalVarAssignBlockWith Parser.realOps pfuel fuel false (mkLexer src) s

/-- `evalExpressionText(vm, text)` -/
def evalExpressionText (pfuel fuel : Nat) (bytes : List Nat) (s : VM ν) : Outcome ν Addr :=
  match byteStreamReadAll bytes with
  | .error _ => .ioErr 12
  | .ok src => evalExpressionWith Parser.realOps pfuel fuel (mkLexer src) s

/-- `ExecVarInputText(source)` on the BYTES of the Go string -/
def execVarInputBytes (pfuel fuel : Nat) (bytes : List Nat) : Outcome ν (List (String × Addr)) :=
  evalVarAssignBlockText pfuel fuel bytes (initVM ())

/-- the tree-level twin used by the theorems and by the driver op that takes Go's own tree -/
def execVarInputTree (fuel : Nat) (p : Program) : Outcome ν (List (String × Addr)) :=
  evalVarAssignBlockTree fuel p (initVM ())

/-- the loop of `ExecExpressionInputText` over the entries IN SORTED KEY ORDER (the collect-and-sort step is
Model/MapSites.lean, C11 `exprInput_order_independent`): one VM for all entries, first error returned, `result[k] = value` -/
def exprInputsLoop {α} (evalOne : α → VM ν → Outcome ν Addr) :
    List (String × α) → List (String × Addr) → VM ν → Outcome ν (List (String × Addr))
  | [], acc, s => .ok acc s
  | (k, x) :: rest, acc, s =>
    match evalOne x s with
    | .ok v s' => exprInputsLoop evalOne rest (assocSet k v acc) s'
    | .ioErr c => .ioErr c
    | .slot w s' => .slot w s'
    | .evalErr e s' => .evalErr e s'
    | .panic => .panic
    | .fuel => .fuel
    | .unmodelled => .unmodelled

/-- `ExecExpressionInputText` on entries (key, bytes of the text) sorted by key -/
def execExpressionInputBytes (pfuel fuel : Nat) (entries : List (String × List Nat)) : Outcome ν (List (String × Addr)) :=
  exprInputsLoop (evalExpressionText pfuel fuel) entries [] (initVM ())

/-- tree-level twin -/
def execExpressionInputTrees (fuel : Nat) (entries : List (String × Program)) : Outcome ν (List (String × Addr)) :=
  exprInputsLoop (evalExpressionTree fuel) entries [] (initVM ())

/-! ## the same entry points on CODE POINTS, under the names and signatures the C05 stream uses (Ops/VarInput.lean, tools/props/varinput.py)

The harness hands `string(runes)` to the Go code, whose `ReadAll` gives the runes back: the decoding step is the identity there
(a lone surrogate becomes U+FFFD on both sides of the comparison before the text reaches either). -/

/-- the outcome as Ops/VarInput.lean prints it: errors without the VM -/
inductive Out (ν : Type) where
  | bound (kvs : List (String × Addr)) (vm : VM ν)
  /-- zerr.NewErrorSLOT: the text does not parse / is not an assignment block / a target is not an identifier -/
  | slotErr
  | evalErr (e : Err)
  | panic
  | fuel
  | unmodelled

def Outcome.toOut : Outcome ν (List (String × Addr)) → Out ν
  | .ok kvs vm => .bound kvs vm
  | .ioErr _ => .slotErr           -- not reachable from code points
  | .slot _ _ => .slotErr
  | .evalErr e _ => .evalErr e
  | .panic => .panic
  | .fuel => .fuel
  | .unmodelled => .unmodelled

/-- the parser fuel the driver uses: far above the linear bound of C05 `parse_terminates` -/
def parseFuelFor (src : List Nat) : Nat := 40 * (src.length + 2) + 100

/-- what `parser.Parse()` hands to the caller -/
def parseText (src : List Nat) : Parser.Outcome := Parser.parseSource .fixed (parseFuelFor src) src

/-- `ExecVarInputText` on the runes of the text -/
def execVarInputRunes (pfuel fuel : Nat) (src : List Nat) : Outcome ν (List (String × Addr)) :=
  evalVarAssignBlockWith Parser.realOps pfuel fuel src.isEmpty (mkLexer src) (initVM ())

def execVarInputText (fuel : Nat) (src : List Nat) : Out ν := (execVarInputRunes (parseFuelFor src) fuel src).toOut

/-- `evalExpressionText` per entry (runes), in the order given (the Go code sorts the keys), one VM for all -/
def execExpressionInputText (fuel : Nat) (entries : List (String × List Nat)) (acc : List (String × Addr)) (vm : VM ν) : Out ν :=
  (exprInputsLoop (fun src => evalExpressionWith Parser.realOps (parseFuelFor src) fuel (mkLexer src)) entries acc vm).toOut

end ZnVerif.Model.VarInput
