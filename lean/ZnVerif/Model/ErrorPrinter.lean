/-
Model of pkg/exec/error_printer.go: `fmtErrorSourceLineWithParser(p, cursorIdx, true)` and
`calcCursorOffset(text, col)`, i.e. lines 2–3 of what `SyntaxErrorWrapper.Error()` prints for
`serr.Cursor`.

* `fmtLine`        mirrors the REPAIRED code (patches/fix-c05-error-printer-total.patch),
* `fmtLineLegacy`  mirrors the code as it was (kept to state the witnesses on which it panics).

Go `int` indices are `Int`.  The partial primitives of Go are partial here:
`s[i]` (`idx`, out of range = panic), `s[a:b]` (`slice`), `s[:k]` (`sliceTo`), `strings.Repeat(" ", k)`
(`repeatCount`, negative = panic).  Loops run on fuel; running out of fuel is the separate outcome
`outOfFuel` (never confused with a panic).  The source is the list of code points of `[]rune`
(`p.GetSource()`); `string(runes)` followed by `[]rune(text)` is the identity on Unicode scalar values,
which is what a decoded source consists of.  Tables come from Generated (regenerated from the tree).
Core Lean only.
-/
import ZnVerif.Generated.Tokens
import ZnVerif.Generated.Widths

namespace ZnVerif.Model.ErrorPrinter

open ZnVerif.Generated

/-- outcome of one Go loop / call -/
inductive Step (α : Type) where
  | ok : α → Step α
  | panic : Step α
  | outOfFuel : Step α
  deriving Repr, DecidableEq

/-- what the printer shows: the quoted line (code points) and the number of spaces before `^` -/
inductive Out where
  | panic
  | outOfFuel
  | ok (quotedLine : List Nat) (caretCol : Nat)
  deriving Repr, DecidableEq

/-- `c == syntax.RuneCR || c == syntax.RuneLF` -/
def isBreak (c : Nat) : Bool := c == Tokens.cRuneCR || c == Tokens.cRuneLF

/-- `c == syntax.RuneSP || c == syntax.RuneTAB` -/
def isIndent (c : Nat) : Bool := c == Tokens.cRuneSP || c == Tokens.cRuneTAB

/-- Go `s[i]`: `none` is the run-time panic "index out of range" -/
def idx (s : List Nat) (i : Int) : Option Nat :=
  if i < 0 then none else s[i.toNat]?

/-- Go `s[a:b]` (`b ≤ len(s)`; the capacity is not modelled, which only makes more panics) -/
def slice (s : List Nat) (a b : Int) : Option (List Nat) :=
  if 0 ≤ a ∧ a ≤ b ∧ b ≤ (s.length : Int) then some ((s.drop a.toNat).take (b - a).toNat) else none

/-- Go `s[:k]` -/
def sliceTo (s : List Nat) (k : Int) : Option (List Nat) :=
  if 0 ≤ k ∧ k ≤ (s.length : Int) then some (s.take k.toNat) else none

/-- `strings.Repeat(" ", k)`: panics on a negative count; otherwise k spaces -/
def repeatCount (k : Int) : Option Nat :=
  if k < 0 then none else some k.toNat

/-! ### calcCursorOffset -/

/-- `for idx, b := range widthBorders { if t <= b { return widths[idx] } }; return 1`
over the remaining borders, `i` = current `idx`; `widths[idx]` is a partial access -/
def lookupWidth (t : Nat) : List Nat → Nat → Step Nat
  | [], _ => .ok Widths.widthDefault
  | b :: bs, i =>
    if t ≤ b then
      match Widths.widths[i]? with
      | some w => .ok w
      | none => .panic
    else lookupWidth t bs (i + 1)

/-- the closure `getOffset` -/
def getOffset (t : Nat) : Step Nat :=
  if Widths.zeroWidthSpecials.contains t then .ok Widths.specialWidth
  else lookupWidth t Widths.widthBorders 0

/-- `for _, t := range runes { offsets = offsets + getOffset(t) }` -/
def sumOffsets : List Nat → Nat → Step Nat
  | [], acc => .ok acc
  | t :: ts, acc =>
    match getOffset t with
    | .ok w => sumOffsets ts (acc + w)
    | .panic => .panic
    | .outOfFuel => .outOfFuel

/-- repaired `calcCursorOffset(text, col)`: the column is clamped into `[0, len(runes)]` -/
def calcCursorOffset (text : List Nat) (col : Int) : Step Int :=
  let col := if col < 0 then 0 else col
  let col := if col > (text.length : Int) then (text.length : Int) else col
  match sliceTo text col with
  | none => .panic
  | some pre =>
    match sumOffsets pre 0 with
    | .ok n => .ok (n : Int)
    | .panic => .panic
    | .outOfFuel => .outOfFuel

/-- original `calcCursorOffset`: `if col < 0 { return col }`, then `[]rune(text)[:col]` unguarded -/
def calcCursorOffsetLegacy (text : List Nat) (col : Int) : Step Int :=
  if col < 0 then .ok col else
  match sliceTo text col with
  | none => .panic
  | some pre =>
    match sumOffsets pre 0 with
    | .ok n => .ok (n : Int)
    | .panic => .panic
    | .outOfFuel => .outOfFuel

/-! ### the loops of the repaired `fmtErrorSourceLineWithParser` (`t` = `sourceT`) -/

/-- `for startIdx > 0 && isLineBreak(startIdx) { startIdx -= 1 }` -/
def backOverBreaks (t : List Nat) : Nat → Int → Step Int
  | 0, _ => .outOfFuel
  | f + 1, i =>
    if i > 0 then
      match idx t i with
      | none => .panic
      | some c => if isBreak c then backOverBreaks t f (i - 1) else .ok i
    else .ok i

/-- `for startIdx > 0 && !isLineBreak(startIdx-1) { startIdx -= 1 }` -/
def backToLineStart (t : List Nat) : Nat → Int → Step Int
  | 0, _ => .outOfFuel
  | f + 1, i =>
    if i > 0 then
      match idx t (i - 1) with
      | none => .panic
      | some c => if !isBreak c then backToLineStart t f (i - 1) else .ok i
    else .ok i

/-- `for sourceT[startIdx] == RuneSP || sourceT[startIdx] == RuneTAB { startIdx += 1 }` -/
def skipIndent (t : List Nat) : Nat → Int → Step Int
  | 0, _ => .outOfFuel
  | f + 1, i =>
    match idx t i with
    | none => .panic
    | some c => if isIndent c then skipIndent t f (i + 1) else .ok i

/-- `for endIdx < len(source) && !isLineBreak(endIdx) { endIdx += 1 }` -/
def fwdToLineEnd (t : List Nat) (n : Int) : Nat → Int → Step Int
  | 0, _ => .outOfFuel
  | f + 1, i =>
    if i < n then
      match idx t i with
      | none => .panic
      | some c => if !isBreak c then fwdToLineEnd t n f (i + 1) else .ok i
    else .ok i

/-- the rest of the function once the four indices are known -/
def render (calcOff : List Nat → Int → Step Int) (t : List Nat) (cursor startIdx endIdx : Int) : Out :=
  match slice t startIdx endIdx with          -- lineText := string(sourceT[startIdx:endIdx])
  | none => .panic
  | some lineText =>
    match calcOff lineText (cursor - startIdx) with
    | .panic => .panic
    | .outOfFuel => .outOfFuel
    | .ok off =>
      match repeatCount off with                -- strings.Repeat(" ", off)
      | none => .panic
      | some k => .ok lineText k

/-- REPAIRED `fmtErrorSourceLineWithParser(p, cursorIdx, true)` with `src = p.GetSource()` -/
def fmtLine (src : List Nat) (cursorIdx : Int) : Out :=
  let n : Int := (src.length : Int)
  let cursor := if cursorIdx < 0 then 0 else cursorIdx
  let cursor := if cursor > n then n else cursor
  let t := src ++ [0]                           -- sourceT := append(source, 0)
  let fuel := src.length + 2
  match backOverBreaks t fuel cursor with
  | .panic => .panic
  | .outOfFuel => .outOfFuel
  | .ok anchor =>                               -- endIdx := startIdx
    match backToLineStart t fuel anchor with
    | .panic => .panic
    | .outOfFuel => .outOfFuel
    | .ok lineStart =>
      match skipIndent t fuel lineStart with
      | .panic => .panic
      | .outOfFuel => .outOfFuel
      | .ok startIdx =>
        match fwdToLineEnd t n fuel anchor with
        | .panic => .panic
        | .outOfFuel => .outOfFuel
        | .ok endIdx => render calcCursorOffset t cursor startIdx endIdx

/-! ### the original code -/

/-- `for sourceT[startIdx] == CR || sourceT[startIdx] == LF { startIdx -= 1 }` (no lower guard) -/
def legacyBackOverBreaks (t : List Nat) : Nat → Int → Step Int
  | 0, _ => .outOfFuel
  | f + 1, i =>
    match idx t i with
    | none => .panic
    | some c => if isBreak c then legacyBackOverBreaks t f (i - 1) else .ok i

/-- ```
for startIdx > 0 {
  if sourceT[startIdx] is CR/LF { startIdx += 1; <skip indent chars>; break }
  startIdx -= 1 }
``` -/
def legacyBackToLineStart (t : List Nat) (fuel' : Nat) : Nat → Int → Step Int
  | 0, _ => .outOfFuel
  | f + 1, i =>
    if i > 0 then
      match idx t i with
      | none => .panic
      | some c => if isBreak c then skipIndent t fuel' (i + 1) else legacyBackToLineStart t fuel' f (i - 1)
    else .ok i

/-- `for endIdx < len(sourceT) { if sourceT[endIdx] is CR/LF { break }; endIdx += 1 }` -/
def legacyFwdToLineEnd (t : List Nat) : Nat → Int → Step Int
  | 0, _ => .outOfFuel
  | f + 1, i =>
    if i < (t.length : Int) then
      match idx t i with
      | none => .panic
      | some c => if isBreak c then .ok i else legacyFwdToLineEnd t f (i + 1)
    else .ok i

/-- ORIGINAL `fmtErrorSourceLineWithParser(p, cursorIdx, true)` -/
def fmtLineLegacy (src : List Nat) (cursorIdx : Int) : Out :=
  let t := src ++ [0]
  let fuel := src.length + 3 + cursorIdx.toNat
  match legacyBackOverBreaks t fuel cursorIdx with
  | .panic => .panic
  | .outOfFuel => .outOfFuel
  | .ok s1 =>
    match legacyBackToLineStart t fuel fuel s1 with
    | .panic => .panic
    | .outOfFuel => .outOfFuel
    | .ok startIdx =>
      match legacyFwdToLineEnd t fuel cursorIdx with
      | .panic => .panic
      | .outOfFuel => .outOfFuel
      | .ok endIdx => render calcCursorOffsetLegacy t cursorIdx startIdx endIdx

end ZnVerif.Model.ErrorPrinter
