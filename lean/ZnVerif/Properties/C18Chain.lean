/-
C18 (call chain part) — the frames on the call stack when an error comes out are the active call sites plus the
calls that failed: whatever the evaluator does, on every outcome, frames are only ever added above the stack it
started from; the frames of the call sites below are literally untouched (their recorded lines included), and the
frame that was on top keeps its module, kind and receiver (only its `line` / `ret` are updated in place).
By the fuel induction `allBal` (Proofs/StackBal*.lean).
-/
import ZnVerif.Proofs.StackBalBlock
import ZnVerif.Proofs.Toy
set_option linter.unusedSectionVars false
set_option linter.unusedSimpArgs false
set_option linter.unusedVariables false

namespace ZnVerif.Properties.C18Chain
open ZnVerif.Model ZnVerif.Proofs.Calls ZnVerif.Proofs.StackBal

variable {ν : Type} [NumOps ν]

/-- `Ext st st'`, spelled out: `st'` is `extra ++ base` where `base` is `st` up to `line` / `ret` of its top frame -/
theorem ext_means (st st' : List Frame) :
    Ext st st' ↔ ∃ extra base, st' = extra ++ base ∧ SameStack st base := Iff.rfl

/-- the call chain at any exit — error, panic, out of fuel, normal — of an expression, a statement, a call, a
constructor or a body started with stack `s.stack`: `s.stack` (up to `line` / `ret` of its top frame) with frames
added above it.  Nothing below is popped or rewritten, so the chain printed for an uncaught error lists the call
sites that are still active, in order, followed by the frames of the calls that failed. -/
theorem chain_is_active_calls (n : Nat) (s : VM ν) :
    (∀ e, Ext s.stack (evalExpr n e s).2.stack) ∧
    (∀ st, Ext s.stack (evalStmt n st s).2.stack) ∧
    (∀ b, Ext s.stack (evalPureStmtBlock n b s).2.stack) ∧
    (∀ b ps, Ext s.stack (evalExecBlock n b ps s).2.stack) ∧
    (∀ f ps, Ext s.stack (execDirectFunction n f ps s).2.stack) ∧
    (∀ r f ps, Ext s.stack (execMethodFunction n r f ps s).2.stack) ∧
    (∀ c ps, Ext s.stack (construct n c ps s).2.stack) := by
  have h := allBal (ν := ν) n
  exact ⟨fun e => (h.evalExpr e).ext s, fun st => (h.evalStmt st).ext s, fun b => (h.evalPureStmtBlock b).ext s,
    fun b ps => (h.evalExecBlock b ps).ext s, fun f ps => (h.execDirectFunction f ps).ext s,
    fun r f ps => (h.execMethodFunction r f ps).ext s, fun c ps => (h.construct c ps).ext s⟩

/-- in particular the call sites below the frame on top are untouched, with the lines recorded in them, and the frame
that was on top is still there with its module, kind and receiver -/
theorem call_sites_untouched (n : Nat) (st : Stmt) (s : VM ν) (f : Frame) (r : List Frame) (hs : s.stack = f :: r) :
    ∃ extra f', (evalStmt n st s).2.stack = extra ++ f' :: r ∧
      f'.moduleId = f.moduleId ∧ f'.callType = f.callType ∧ f'.this = f.this := by
  obtain ⟨extra, base, h1, h2⟩ := (chain_is_active_calls n s).2.1 st
  rw [hs] at h2
  obtain ⟨f', rfl, hc⟩ := norm_cons_eq h2
  exact ⟨extra, f', h1, (congrArg Frame.moduleId hc : (core _).moduleId = (core _).moduleId),
    (congrArg Frame.callType hc : (core _).callType = (core _).callType),
    (congrArg Frame.this hc : (core _).this = (core _).this)⟩

/-- the call depth never drops below the depth at the start, on any outcome -/
theorem depth_never_drops (n : Nat) (st : Stmt) (s : VM ν) : s.stack.length ≤ (evalStmt n st s).2.stack.length :=
  ((chain_is_active_calls n s).2.1 st).length

/-- a direct call that fails leaves its own frame (module of the callee, call kind 2) on the caller's stack, possibly
with frames of calls that failed inside it above: this is what the error printer walks -/
theorem failed_call_keeps_its_frame (n : Nat) (fname : String) (params : List Addr) (s s2 : VM ν) (fv : Addr)
    (mid : Int) (f : FnRef) (e : Err)
    (hfind : findElementWithModule fname s = (.ok (fv, mid), s)) (hcell : s.heap[fv]? = some (.fn f))
    (hrun : execFunction n f none params (pushFrame { moduleId := mid, callType := 2 } s).2 = (.err e, s2)) :
    execDirectFunction (n+1) fname params s = (.err e, s2) ∧
    ∃ extra fr, s2.stack = extra ++ fr :: s.stack ∧ fr.moduleId = mid ∧ fr.callType = 2 ∧ fr.this = none := by
  constructor
  · simp only [execDirectFunction]
    rw [bind_ok hfind]
    simp only
    have hp : pushFrame { moduleId := mid, callType := 2 } s =
        (.ok (), (pushFrame { moduleId := mid, callType := 2 } s).2) := by unfold pushFrame modifyVM; rfl
    rw [bind_ok hp]
    have hheap := (pushFrame_run (ν := ν) { moduleId := mid, callType := 2 } s).2.2.2.1
    have hg : getCell fv (pushFrame { moduleId := mid, callType := 2 } s).2 =
        (.ok (.fn f), (pushFrame { moduleId := mid, callType := 2 } s).2) := by
      unfold getCell; rw [hheap, hcell]
    rw [bind_ok hg]
    simp only
    rw [bind_err hrun]
  · have h := ((allBal (ν := ν) n).execFunction f none params).ext (pushFrame { moduleId := mid, callType := 2 } s).2
    rw [hrun, (pushFrame_run (ν := ν) { moduleId := mid, callType := 2 } s).2.1] at h
    obtain ⟨extra, base, h1, h2⟩ := h
    obtain ⟨fr, rfl, hc⟩ := norm_cons_eq h2
    exact ⟨extra, fr, h1, (congrArg Frame.moduleId hc : (core _).moduleId = (core _).moduleId),
    (congrArg Frame.callType hc : (core _).callType = (core _).callType),
    (congrArg Frame.this hc : (core _).this = (core _).this)⟩

/-! ## non-vacuity -/

section examples
open ZnVerif.Proofs.Toy

/-- `g` is `如何g？ 结束循环`, called from the script frame: the call fails (exception error) and the chain is
[g's frame, script frame] -/
example : ∃ extra fr, (execDirectFunction 7 "g" [] sG).2.stack = extra ++ fr :: sG.stack ∧ fr.callType = 2 := by
  obtain ⟨h1, extra, fr, h2, _, h3, _⟩ := failed_call_keeps_its_frame 6 "g" [] sG _ 0 0 _ (.excErr 1) rfl rfl rfl
  rw [h1]
  exact ⟨extra, fr, h2, h3⟩

example : ∃ extra f', (evalStmt 8 (.expr (.call 3 (some ⟨3, "g"⟩) [] none)) sG).2.stack = extra ++ f' :: [] ∧
    f'.callType = 1 := by
  obtain ⟨extra, f', h1, _, h2, _⟩ := call_sites_untouched 8 (.expr (.call 3 (some ⟨3, "g"⟩) [] none)) sG
    { moduleId := 0, callType := 1 } [] rfl
  exact ⟨extra, f', h1, h2⟩

example : 1 ≤ (evalStmt 8 (.expr (.call 3 (some ⟨3, "g"⟩) [] none)) sG).2.stack.length :=
  depth_never_drops 8 _ sG

end examples

end ZnVerif.Properties.C18Chain
