/-
C18 (call chain part) — the frames on the call stack when an error comes out are the active call sites plus the
calls that failed: whatever the evaluator does, on every outcome, frames are only ever added above the stack it
started from; the frames of the call sites below are literally untouched (their recorded lines included), and the
frame that was on top keeps its module, kind and receiver (only its `line` / `started` / `ret` are updated in place).
By the fuel induction `allBal` (Proofs/StackBal*.lean).

Second part — WHO writes the line marker: expressions, calls, constructors and declarations leave every frame they
start from literally alone (`allLit`, Proofs/LineKeep.lean); hence an error in the condition of a 每当 loop — on any
pass — finds the loop's line in the frame that runs the loop, and an error in a hoisted declaration finds the
declaration's line; a frame in which a statement has begun stays started (`allKept`, Proofs/StartedKeep.lean); a call
that fails before its first statement leaves a frame that never started.
-/
import ZnVerif.Proofs.StackBalBlock
import ZnVerif.Proofs.StartedKeep
import ZnVerif.Proofs.DeclLine
import ZnVerif.Properties.C08
import ZnVerif.Proofs.Toy
set_option linter.unusedSectionVars false
set_option linter.unusedSimpArgs false
set_option linter.unusedVariables false

namespace ZnVerif.Properties.C18Chain
open ZnVerif.Model ZnVerif.Proofs.Calls ZnVerif.Proofs.StackBal
open ZnVerif.Proofs

variable {ν : Type} [NumOps ν]

/-- `Ext st st'`, spelled out: `st'` is `extra ++ base` where `base` is `st` up to `line` / `ret` of its top frame -/
theorem ext_means (st st' : List Frame) :
    Ext st st' ↔ ∃ extra base, st' = extra ++ base ∧ SameStack st base := Iff.rfl

/-- the call chain at any exit — error, panic, out of fuel, normal — of an expression, a statement, a call, a
constructor or a body started with stack `s.stack`: `s.stack` (up to `line` / `ret` of its top frame) with frames
added above it.  Nothing below is popped or rewritten, so the chain printed for an uncaught error lists the call
sites that are still active, in order, followed by the frames of the calls that failed. -/
theorem chain_is_active_calls (n : Nat) (s : VM ν) :
    (∀ e, Ext s.stack (evalExpr n e s).2.stack) ∧
    (∀ st, Ext s.stack (evalStmt n st s).2.stack) ∧
    (∀ b, Ext s.stack (evalPureStmtBlock n b s).2.stack) ∧
    (∀ b ps, Ext s.stack (evalExecBlock n b ps s).2.stack) ∧
    (∀ f ps, Ext s.stack (execDirectFunction n f ps s).2.stack) ∧
    (∀ r f ps, Ext s.stack (execMethodFunction n r f ps s).2.stack) ∧
    (∀ c ps, Ext s.stack (construct n c ps s).2.stack) := by
  have h := allBal (ν := ν) n
  exact ⟨fun e => (h.evalExpr e).ext s, fun st => (h.evalStmt st).ext s, fun b => (h.evalPureStmtBlock b).ext s,
    fun b ps => (h.evalExecBlock b ps).ext s, fun f ps => (h.execDirectFunction f ps).ext s,
    fun r f ps => (h.execMethodFunction r f ps).ext s, fun c ps => (h.construct c ps).ext s⟩

/-- in particular the call sites below the frame on top are untouched, with the lines recorded in them, and the frame
that was on top is still there with its module, kind and receiver -/
theorem call_sites_untouched (n : Nat) (st : Stmt) (s : VM ν) (f : Frame) (r : List Frame) (hs : s.stack = f :: r) :
    ∃ extra f', (evalStmt n st s).2.stack = extra ++ f' :: r ∧
      f'.moduleId = f.moduleId ∧ f'.callType = f.callType ∧ f'.this = f.this := by
  obtain ⟨extra, base, h1, h2⟩ := (chain_is_active_calls n s).2.1 st
  rw [hs] at h2
  obtain ⟨f', rfl, hc⟩ := norm_cons_eq h2
  exact ⟨extra, f', h1, (congrArg Frame.moduleId hc : (core _).moduleId = (core _).moduleId),
    (congrArg Frame.callType hc : (core _).callType = (core _).callType),
    (congrArg Frame.this hc : (core _).this = (core _).this)⟩

/-- the call depth never drops below the depth at the start, on any outcome -/
theorem depth_never_drops (n : Nat) (st : Stmt) (s : VM ν) : s.stack.length ≤ (evalStmt n st s).2.stack.length :=
  ((chain_is_active_calls n s).2.1 st).length

/-- a direct call that fails leaves its own frame (module of the callee, call kind 2) on the caller's stack, possibly
with frames of calls that failed inside it above: this is what the error printer walks -/
theorem failed_call_keeps_its_frame (n : Nat) (fname : String) (params : List Addr) (s s2 : VM ν) (fv : Addr)
    (mid : Int) (f : FnRef) (e : Err)
    (hfind : findElementWithModule fname s = (.ok (fv, mid), s)) (hcell : s.heap[fv]? = some (.fn f))
    (hrun : execFunction n f none params (pushFrame { moduleId := mid, callType := 2 } s).2 = (.err e, s2)) :
    execDirectFunction (n+1) fname params s = (.err e, s2) ∧
    ∃ extra fr, s2.stack = extra ++ fr :: s.stack ∧ fr.moduleId = mid ∧ fr.callType = 2 ∧ fr.this = none := by
  constructor
  · simp only [execDirectFunction]
    rw [bind_ok hfind]
    simp only
    have hp : pushFrame { moduleId := mid, callType := 2 } s =
        (.ok (), (pushFrame { moduleId := mid, callType := 2 } s).2) := by unfold pushFrame modifyVM; rfl
    rw [bind_ok hp]
    have hheap := (pushFrame_run (ν := ν) { moduleId := mid, callType := 2 } s).2.2.2.1
    have hg : getCell fv (pushFrame { moduleId := mid, callType := 2 } s).2 =
        (.ok (.fn f), (pushFrame { moduleId := mid, callType := 2 } s).2) := by
      unfold getCell; rw [hheap, hcell]
    rw [bind_ok hg]
    simp only
    rw [bind_err hrun]
  · have h := ((allBal (ν := ν) n).execFunction f none params).ext (pushFrame { moduleId := mid, callType := 2 } s).2
    rw [hrun, (pushFrame_run (ν := ν) { moduleId := mid, callType := 2 } s).2.1] at h
    obtain ⟨extra, base, h1, h2⟩ := h
    obtain ⟨fr, rfl, hc⟩ := norm_cons_eq h2
    exact ⟨extra, fr, h1, (congrArg Frame.moduleId hc : (core _).moduleId = (core _).moduleId),
    (congrArg Frame.callType hc : (core _).callType = (core _).callType),
    (congrArg Frame.this hc : (core _).this = (core _).this)⟩

/-! ## who writes the line marker -/

/-- `expression_leaves_frames_untouched`.  Whatever an expression, a call, a method call or a constructor does, and
however it ends (value, error, panic, out of fuel): the call stack afterwards is the stack it started from — every frame
literally as it was, `line`, `started` and return slot of the top frame included — with the frames of the calls that
failed on top.  (The line marker is written by statements only.) -/
theorem expression_leaves_frames_untouched (n : Nat) (s : VM ν) :
    (∀ e, ∃ extra, (evalExpr n e s).2.stack = extra ++ s.stack) ∧
    (∀ f ps, ∃ extra, (execDirectFunction n f ps s).2.stack = extra ++ s.stack) ∧
    (∀ r f ps, ∃ extra, (execMethodFunction n r f ps s).2.stack = extra ++ s.stack) ∧
    (∀ c ps, ∃ extra, (construct n c ps s).2.stack = extra ++ s.stack) := by
  have h := LineKeep.allLit (ν := ν) n
  exact ⟨fun e => (h.evalExpr e).ext s, fun f ps => (h.execDirectFunction f ps).ext s,
    fun r f ps => (h.execMethodFunction r f ps).ext s, fun c ps => (h.construct c ps).ext s⟩

/-- `while_condition_error_at_loop_line`.  每当: after k complete passes (any k), if evaluating the condition once more
raises an error, that error is the outcome of the 每当 statement, and the frame that runs the loop — `f`, the top frame
when the passes were over, with `r` below it — carries the line of the 每当 statement (and is started); above it are
only the frames of calls that failed inside the condition.  So the error is reported at the loop's line, not at the
line of the last statement of the previous pass. -/
theorem while_condition_error_at_loop_line (n ln k : Nat) (c : Expr) (body : Option (List Stmt))
    (s s1 s2 : VM ν) (e : Err) (f : Frame) (r : List Frame)
    (hp : ControlFlow.WhilePasses n ln c body k (ControlFlow.setLine ln s) s1) (hk : k < n)
    (hst : s1.stack = f :: r)
    (hc : evalExpr n c (ControlFlow.setLine ln s1) = (.err e, s2)) :
    evalStmt (n+1) (.while ln c body) s = (.err e, s2) ∧
    ∃ extra, s2.stack = extra ++ { f with line := ln, started := true } :: r := by
  constructor
  · refine ControlFlow.while_fails_after hp hk ?_
    unfold ControlFlow.whileStep
    rw [ControlFlow.bind_err hc]
  · obtain ⟨extra, he⟩ := ((LineKeep.allLit (ν := ν) n).evalExpr c).ext (ControlFlow.setLine ln s1)
    rw [hc, ControlFlow.setLine_cons ln s1 f r hst] at he
    exact ⟨extra, he⟩

/-- `declaration_error_at_declaration_line`.  The hoisting pass of a block (type, method and constructor declarations
run before the other statements): if the declarations `pre` ran normally and the declaration `d` raises an error — a
failing property default, a name declared twice, a constructor for something that is not a program's own type — that
error is the outcome of the block, and the frame that runs the block carries the line of `d` (and is started); above
it are only frames of calls that failed inside the declaration. -/
theorem declaration_error_at_declaration_line (n : Nat) (pre post : List Stmt) (d : Stmt) (s s1 s2 : VM ν) (e : Err)
    (f : Frame) (r : List Frame)
    (hd : isDecl d = true) (hpre : ControlFlow.hoistDecls n pre s = (.ok (), s1)) (hst : s1.stack = f :: r)
    (hfail : DeclLine.evalDecl n d (ControlFlow.setLine d.line s1) = (.err e, s2)) :
    evalStmtBlock (n+1) (some (pre ++ d :: post)) s = (.err e, s2) ∧
    ∃ extra, s2.stack = extra ++ { f with line := d.line, started := true } :: r := by
  refine ⟨DeclLine.evalStmtBlock_decl_fails hd hpre hfail, ?_⟩
  obtain ⟨extra, he⟩ := (DeclLine.lit_evalDecl (ν := ν) n d).ext (ControlFlow.setLine d.line s1)
  rw [hfail, ControlFlow.setLine_cons d.line s1 f r hst] at he
  exact ⟨extra, he⟩

/-- `started_frame_stays_started`.  A frame in which a statement has begun (position `i` from the bottom of the call
stack) is still on the stack, and still marked started, after any statement or block — whatever the outcome. -/
theorem started_frame_stays_started (n : Nat) (s : VM ν) (i : Nat) (h : LineKeep.StartedAt s.stack i) :
    (∀ st, LineKeep.StartedAt (evalStmt n st s).2.stack i) ∧
    (∀ b, LineKeep.StartedAt (evalPureStmtBlock n b s).2.stack i) ∧
    (∀ b, LineKeep.StartedAt (evalStmtBlock n b s).2.stack i) := by
  have k := LineKeep.allKept (ν := ν) n
  exact ⟨fun st => (k.evalStmt st).keep s i h, fun b => (k.evalPureStmtBlock b).keep s i h,
    fun b => (k.evalStmtBlock b).keep s i h⟩

/-- every frame whose statement ran is started: after a statement — whatever its outcome — the frame `f` it ran in is
still there (module, kind and receiver unchanged, the call sites `r` below it untouched) and is marked started -/
theorem statement_marks_frame_started (n : Nat) (st : Stmt) (s : VM ν) (f : Frame) (r : List Frame)
    (hs : s.stack = f :: r) :
    ∃ extra f', (evalStmt (n+1) st s).2.stack = extra ++ f' :: r ∧ f'.started = true ∧
      f'.moduleId = f.moduleId ∧ f'.callType = f.callType ∧ f'.this = f.this := by
  obtain ⟨extra, f', h1, h2, h3, h4⟩ := call_sites_untouched (n+1) st s f r hs
  refine ⟨extra, f', h1, ?_, h2, h3, h4⟩
  -- the statement's first action marks the frame; the rest of it keeps the mark
  have hk : LineKeep.StartedAt (evalStmt (n+1) st s).2.stack r.length := by
    have hall := (LineKeep.allKept (ν := ν) (n+1)).evalStmt st
    -- `evalStmt (n+1) st = setTopFrame … >>= K`; `K` alone need not be named: use the whole statement from the marked state
    have hmark : (evalStmt (n+1) st s) = (evalStmt (n+1) st (ControlFlow.setLine st.line s)) := by
      simp only [evalStmt]
      rw [ControlFlow.setLine_bind, ControlFlow.setLine_bind, ControlFlow.setLine_idem]
    rw [hmark]
    refine hall.keep _ _ ?_
    rw [ControlFlow.setLine_cons st.line s f r hs]
    exact (LineKeep.startedAt_top _ r).2 rfl
  rw [h1] at hk
  obtain ⟨x, hx, hxs⟩ := hk
  rw [List.reverse_append, List.reverse_cons, List.append_assoc,
    List.getElem?_append_right (by simp), ] at hx
  simp at hx
  rw [hx]; exact hxs

/-- a call with the wrong number of arguments: the error comes out of the call with exactly one frame added to the
caller's stack — the callee's, which never started (`started = false`: no statement of the callee has begun), so by
`C18.unstarted_frame_not_listed` the error printer does not list it when the callee's module has source text -/
theorem arity_error_frame_unstarted (n : Nat) (fname : String) (params : List Addr) (s : VM ν) (fv : Addr) (mid : Int)
    (inputs : List Ident) (body : Option (List Stmt)) (catches : List (Option Ident × Option (List Stmt)))
    (hfind : findElementWithModule fname s = (.ok (fv, mid), s))
    (hcell : s.heap[fv]? = some (.fn (.user (some (.mk inputs body catches)))))
    (h : params.length ≠ inputs.length) :
    ∃ e s2, execDirectFunction (n+3) fname params s = (.err e, s2) ∧
      s2.stack = { moduleId := mid, callType := 2 } :: s.stack ∧
      (s2.stack.head?.map (·.started)) = some false := by
  have hp : pushFrame { moduleId := mid, callType := 2 } s =
      (.ok (), (pushFrame { moduleId := mid, callType := 2 } s).2) := by unfold pushFrame modifyVM; rfl
  have hrun := pushFrame_run (ν := ν) { moduleId := mid, callType := 2 } s
  have hg : getCell fv (pushFrame { moduleId := mid, callType := 2 } s).2 =
      (.ok (.fn (.user (some (.mk inputs body catches)))), (pushFrame { moduleId := mid, callType := 2 } s).2) := by
    unfold getCell; rw [hrun.2.2.2.1, hcell]
  obtain ⟨a1, a2, a3, a4, a5, a6⟩ := C08.arity_mismatch_runs_nothing n inputs body catches params
    (pushFrame { moduleId := mid, callType := 2 } s).2 h
  rcases hb : evalExecBlock (n+1) (some (.mk inputs body catches)) params
    (pushFrame { moduleId := mid, callType := 2 } s).2 with ⟨rb, sb⟩
  rw [hb] at a1 a4
  simp only at a1 a4
  subst a1
  refine ⟨.excErr sb.heap.size, { sb with heap := sb.heap.push (.exc ("‹rt:" ++ toString 51 ++ "›")) }, ?_, ?_, ?_⟩
  · simp only [execDirectFunction]
    rw [bind_ok hfind]
    simp only
    rw [bind_ok hp, bind_ok hg]
    simp only
    have hf : execFunction (n+2) (.user (some (.mk inputs body catches))) none params
        (pushFrame { moduleId := mid, callType := 2 } s).2 =
        (.err (.excErr sb.heap.size), { sb with heap := sb.heap.push (.exc ("‹rt:" ++ toString 51 ++ "›")) }) := by
      simp only [execFunction]
      unfold Model.tryCatch
      rw [hb]
      rfl
    rw [bind_err hf]
  · show sb.stack = _
    rw [a4, hrun.2.1]
  · show (sb.stack.head?.map (·.started)) = some false
    rw [a4, hrun.2.1]; rfl

/-- a call of a name that does not hold a method (`（数甲：1）`): error 81 with exactly one frame added, which never
started -/
theorem not_a_method_frame_unstarted (n : Nat) (fname : String) (params : List Addr) (s : VM ν) (fv : Addr) (mid : Int)
    (c : Cell ν) (hfind : findElementWithModule fname s = (.ok (fv, mid), s)) (hcell : s.heap[fv]? = some c)
    (hnf : ∀ f, c ≠ .fn f) :
    ∃ s2, execDirectFunction (n+1) fname params s = (.err (.rt 81), s2) ∧
      s2.stack = { moduleId := mid, callType := 2 } :: s.stack := by
  have hp : pushFrame { moduleId := mid, callType := 2 } s =
      (.ok (), (pushFrame { moduleId := mid, callType := 2 } s).2) := by unfold pushFrame modifyVM; rfl
  have hrun := pushFrame_run (ν := ν) { moduleId := mid, callType := 2 } s
  have hg : getCell fv (pushFrame { moduleId := mid, callType := 2 } s).2 =
      (.ok c, (pushFrame { moduleId := mid, callType := 2 } s).2) := by
    unfold getCell; rw [hrun.2.2.2.1, hcell]
  refine ⟨(pushFrame { moduleId := mid, callType := 2 } s).2, ?_, hrun.2.1⟩
  simp only [execDirectFunction]
  rw [bind_ok hfind]
  simp only
  rw [bind_ok hp, bind_ok hg]
  cases c <;> first | rfl | (rename_i f; exact absurd rfl (hnf f))

/-! ## non-vacuity -/

section examples
open ZnVerif.Proofs.Toy

/-- `g` is `如何g？ 结束循环`, called from the script frame: the call fails (exception error) and the chain is
[g's frame, script frame] -/
example : ∃ extra fr, (execDirectFunction 7 "g" [] sG).2.stack = extra ++ fr :: sG.stack ∧ fr.callType = 2 := by
  obtain ⟨h1, extra, fr, h2, _, h3, _⟩ := failed_call_keeps_its_frame 6 "g" [] sG _ 0 0 _ (.excErr 1) rfl rfl rfl
  rw [h1]
  exact ⟨extra, fr, h2, h3⟩

example : ∃ extra f', (evalStmt 8 (.expr (.call 3 (some ⟨3, "g"⟩) [] none)) sG).2.stack = extra ++ f' :: [] ∧
    f'.callType = 1 := by
  obtain ⟨extra, f', h1, _, h2, _⟩ := call_sites_untouched 8 (.expr (.call 3 (some ⟨3, "g"⟩) [] none)) sG
    { moduleId := 0, callType := 1 } [] rfl
  exact ⟨extra, f', h1, h2⟩

example : 1 ≤ (evalStmt 8 (.expr (.call 3 (some ⟨3, "g"⟩) [] none)) sG).2.stack.length :=
  depth_never_drops 8 _ sG

/-- calling `f` (no inputs) with one argument: error, and the only frame added never started -/
example : ∃ e s2, execDirectFunction 3 "f" [0] sF = (.err e, s2) ∧
    s2.stack = { moduleId := 0, callType := 2 } :: sF.stack ∧ (s2.stack.head?.map (·.started)) = some false :=
  arity_error_frame_unstarted 0 "f" [0] sF 0 0 [] _ [] rfl rfl (by decide)

/-- … so the error printer lists the caller's frame only -/
example : listedFrames (execDirectFunction 3 "f" [0] sF).2 = [{ moduleId := 0, callType := 1 }] := by
  rfl

/-- calling 点, which holds a type, not a method -/
example : ∃ s2, execDirectFunction 1 "点" [] sO = (.err (.rt 81), s2) ∧
    s2.stack = { moduleId := 0, callType := 2 } :: sO.stack :=
  not_a_method_frame_unstarted 0 "点" [] sO 0 0 _ rfl rfl (by intro f h; cases h)

/-- `（g）` as a statement fails inside `g`: the script frame it ran in is still there and is started -/
example : ∃ extra f', (evalStmt 8 (.expr (.call 3 (some ⟨3, "g"⟩) [] none)) sG).2.stack = extra ++ f' :: [] ∧
    f'.started = true := by
  obtain ⟨extra, f', h1, h2, _⟩ := statement_marks_frame_started 7 (.expr (.call 3 (some ⟨3, "g"⟩) [] none)) sG
    { moduleId := 0, callType := 1 } [] rfl
  exact ⟨extra, f', h1, h2⟩

example : LineKeep.StartedAt
    (evalStmt 8 (.expr (.call 3 (some ⟨3, "g"⟩) [] none))
      { sG with stack := [{ moduleId := 0, callType := 1, started := true }] }).2.stack 0 :=
  (started_frame_stays_started 8 { sG with stack := [{ moduleId := 0, callType := 1, started := true }] } 0
    ⟨_, rfl, rfl⟩).1 _

example : ∃ extra, (evalExpr 7 (.call 3 (some ⟨3, "g"⟩) [] none) sG).2.stack = extra ++ sG.stack :=
  (expression_leaves_frames_untouched 7 sG).1 _

end examples

section line_examples
open ZnVerif.Proofs.ControlFlow ZnVerif.Proofs.ControlFlow.Toy ZnVerif.Proofs.DeclLine.Toy

/-- `每当 d <= d： d = t` on line 5, `d` = 0, `t` = "x": one complete pass, then the condition compares a text — error 83;
the script frame carries line 5 although the last statement executed (`d = t`) is on line 0 -/
example : ∃ s2 extra, evalStmt 7 (.while 5 condW (some [setD])) vmW = (.err (.rt 83), s2) ∧
    s2.stack = extra ++ [{ moduleId := 0, callType := 1, line := 5, started := true }] := by
  obtain ⟨h1, extra, h2⟩ := while_condition_error_at_loop_line 6 5 1 condW (some [setD]) vmW _ _ (.rt 83)
    { moduleId := 0, callType := 1, line := 0, started := true } []
    (.succ (run_ok (evalExpr 6 condW) _ K) (cell_bool _ true K) (run_ok (evalPureStmtBlock 6 _) _ K) K (.zero _))
    (by decide) K (run_err (evalExpr 6 condW) _ _ K)
  exact ⟨_, extra, h1, h2⟩

/-- a block `（空）； 定义 C： 其 p 为 d / d； ‹nil›`: the declaration on line 3 fails (0 / 0) before any statement of the
block runs; the frame carries line 3 -/
example : ∃ s2 extra, evalStmtBlock 7 (some ([.empty 1] ++ clsBad :: [.nil])) vmW = (.err (.rt 90), s2) ∧
    s2.stack = extra ++ [{ moduleId := 0, callType := 1, line := 3, started := true }] := by
  obtain ⟨h1, extra, h2⟩ := declaration_error_at_declaration_line 6 [.empty 1] [.nil] clsBad vmW _ _ (.rt 90)
    { moduleId := 0, callType := 1 } [] rfl (run_ok (hoistDecls 6 _) _ K) K
    (run_err (DeclLine.evalDecl 6 clsBad) _ _ K)
  exact ⟨_, extra, h1, h2⟩

end line_examples

end ZnVerif.Properties.C18Chain
