/-
C03, statements: a second non-vacuity example that uses EVERY constructor of the rendering relations `LinN`, `LinSimple`, `LinX`
(and `LinProgram` with 导入 statements): a 47-line program.  The derivation shows that the hypotheses of `parse_statements_roundtrip` are satisfiable on it;
the tree is the one the derivation determines.  Independently, the parser model is evaluated on the tokens and the tree's shape
and line numbers are compared with the expected ones.

  0  导入 《库》 之 甲、乙
  1  令：
  2      甲 设为 乙
  3      丙、丁 恒为 甲
  4  如何 求和？
  5      输入 甲、乙
  6      如果 甲：
  7          输出 甲
  8      再如 乙：
  9          继续循环
 10      否则：
 11          抛出 错：甲、乙！
 12      拦截 错：
 13          输出 乙
 14  定义 狗：
 15      其 名 为 甲
 16      如何 叫？
 17          输出 甲
 18      何为 岁？
 19          输出 乙
 20  如何新建 狗？
 21      输出 甲
 22  遍历 甲：
 23      结束循环
 24  以 甲 遍历 乙：
 25      结束循环
 26  以 甲、乙 遍历 丙：
 27      每当 甲：
 28          { 甲 或 乙 } 且 甲 == 乙 * 丙
 29  （名：甲、乙）
 30  （名：甲）得到 丙；（名）；
 31  令 名 为 （新建 名：甲）
 32  甲 之 名 = 甲 # 乙
 33  甲 # "键" = 甲 # { 乙 + 甲 }
 34  其 名 = 【甲，乙，
 35      丙】
 36  甲 为 【甲 = 乙，丙 = 甲】
 37  令 甲 为 【】
 38  令 乙 为 【=】
 39  以 甲（名：乙）、（名）得到 丙
 40  令 丙 为 以 甲（名）
 41  ；
 42  （名：
 43      甲、
 44      乙）
 45  拦截 错：
 46      输出 甲
-/
import ZnVerif.Properties.C03Stmt

namespace ZnVerif.Properties.C03.Example2
open ZnVerif.Model ZnVerif.Model.Parser ZnVerif.Generated.Tokens ZnVerif.Generated.ParserTables
open ZnVerif.Spec.StmtSyntax ZnVerif.Proofs.StmtRT

/-- line `k` starts at character `100 * k`; the indentation of the 47 lines as in the header -/
def Y : Layout :=
  { lines :=
    #[{ indents := 0, startIdx := 0 }, { indents := 0, startIdx := 100 }, { indents := 1, startIdx := 200 },
      { indents := 1, startIdx := 300 }, { indents := 0, startIdx := 400 }, { indents := 1, startIdx := 500 },
      { indents := 1, startIdx := 600 }, { indents := 2, startIdx := 700 }, { indents := 1, startIdx := 800 },
      { indents := 2, startIdx := 900 }, { indents := 1, startIdx := 1000 }, { indents := 2, startIdx := 1100 },
      { indents := 1, startIdx := 1200 }, { indents := 2, startIdx := 1300 }, { indents := 0, startIdx := 1400 },
      { indents := 1, startIdx := 1500 }, { indents := 1, startIdx := 1600 }, { indents := 2, startIdx := 1700 },
      { indents := 1, startIdx := 1800 }, { indents := 2, startIdx := 1900 }, { indents := 0, startIdx := 2000 },
      { indents := 1, startIdx := 2100 }, { indents := 0, startIdx := 2200 }, { indents := 1, startIdx := 2300 },
      { indents := 0, startIdx := 2400 }, { indents := 1, startIdx := 2500 }, { indents := 0, startIdx := 2600 },
      { indents := 1, startIdx := 2700 }, { indents := 2, startIdx := 2800 }, { indents := 0, startIdx := 2900 },
      { indents := 0, startIdx := 3000 }, { indents := 0, startIdx := 3100 }, { indents := 0, startIdx := 3200 },
      { indents := 0, startIdx := 3300 }, { indents := 0, startIdx := 3400 }, { indents := 1, startIdx := 3500 },
      { indents := 0, startIdx := 3600 }, { indents := 0, startIdx := 3700 }, { indents := 0, startIdx := 3800 },
      { indents := 0, startIdx := 3900 }, { indents := 0, startIdx := 4000 }, { indents := 0, startIdx := 4100 },
      { indents := 0, startIdx := 4200 }, { indents := 1, startIdx := 4300 }, { indents := 1, startIdx := 4400 },
      { indents := 0, startIdx := 4500 }, { indents := 1, startIdx := 4600 }],
    eofIdx := 4700, ne := by decide }

/-- the `k`-th token of line `l` -/
def T (ty l k : Nat) (lit : List Nat := []) : Token :=
  { type := ty, literal := lit, startIdx := 100 * l + 2 * k, endIdx := 100 * l + 2 * k + 1 }

def jia (l k : Nat) : Token := T cTypeIdentifier l k [0x7532]
def yi (l k : Nat) : Token := T cTypeIdentifier l k [0x4E59]
def bing (l k : Nat) : Token := T cTypeIdentifier l k [0x4E19]
def nm (l k : Nat) : Token := T cTypeIdentifier l k [0x540D]
def pause (l k : Nat) : Token := T cTypePauseCommaSep l k
def colon (l k : Nat) : Token := T cTypeFuncCall l k
def qm (l k : Nat) : Token := T cTypeFuncDeclare l k
def ret (l : Nat) : Token := T cTypeReturnW l 0

theorem lid (t : Token) (h : t.type = cTypeIdentifier) : LinE Y 1 (.id (Y.idOf t)) [t] := linE_id1 t h

/-- `输出 x` on line `l`, as a statement of a block indented by `d` -/
theorem retS (d l : Nat) (x : Token) (hx : x.type = cTypeIdentifier) (hg : Y.Glued [ret l, x]) :
    LinN Y d (.stmt (.ret (Y.sl (ret l)) (.id (Y.idOf x)))) [ret l, x] :=
  .simple d _ _ (.retStmt (ret l) _ [x] rfl (lid x hx) hg)

/-- a block of one statement -/
theorem blk1 {d : Nat} {s : Stmt} {ts : List Token} (h : LinN Y d (.stmt s) ts) (hi : Y.ind (Y.peek ts) = d) :
    LinN Y d (.block [s]) (ts ++ []) := .blockCons d s [] ts [] h hi (.blockNil d) (Or.inl rfl)

-- line 0
def l0 : List Token := [T cTypeImportW 0 0, T cTypeLibString 0 1 [0x5E93], T cTypeObjDotW 0 2, jia 0 3, pause 0 4, yi 0 5]

def imports :=
  LinImports.cons (Y := Y) (d := 0) _ l0 [] _ [] (.items (T cTypeImportW 0 0) (T cTypeLibString 0 1 [0x5E93]) (T cTypeObjDotW 0 2) _
    [jia 0 3, pause 0 4, yi 0 5] rfl (by decide +kernel) (by decide +kernel)
    (.cons (jia 0 3) (pause 0 4) _ _ rfl rfl (.one (yi 0 5) rfl)) (by decide +kernel)) (by decide +kernel) (.nil _) .nil

-- lines 1–3
def declBlock :=
  LinN.declBlockStmt (Y := Y) 0 (T cTypeDeclareW 1 0) (colon 1 1) _ _ rfl rfl (by decide +kernel) (by decide +kernel) (by simp)
    (.cons (T cTypeAssignW 2 1) _ [jia 2 0] _ [yi 2 2] _ _ (.one _ rfl) (by decide +kernel) (lid _ rfl) (by decide +kernel)
      (by decide +kernel)
      (.cons (T cTypeAssignConstW 3 3) _ [bing 3 0, pause 3 1, nm 3 2] _ [jia 3 4] _ [] (.cons _ _ _ _ rfl rfl (.one _ rfl))
        (by decide +kernel) (lid _ rfl) (by decide +kernel) (by decide +kernel) .nil (Or.inl rfl))
      (Or.inr (by decide +kernel)))

-- lines 4–13: 如何 求和？
def ifBlock := blk1 (retS 2 7 (jia 7 1) rfl (by decide +kernel)) (by decide +kernel)
def elifBlock := blk1 (LinN.simple (Y := Y) 2 _ _ (.continueStmt (T cTypeContinueW 9 0) rfl)) (by decide +kernel)
def throwS :=
  LinN.simple (Y := Y) 2 _ _ (.throwStmt (T cTypeThrowErrorW 11 0) (nm 11 1) (colon 11 2) (T cTypeExceptionT 11 6) _ _ rfl rfl rfl
    (.cons (pause 11 4) _ [jia 11 3] _ _ (lid _ rfl) rfl rfl (.one _ _ (lid (yi 11 5) rfl))) rfl (by decide +kernel))
def elseBlock := blk1 throwS (by decide +kernel)

def branch :=
  LinN.branchStmt (Y := Y) 1 (T cTypeCondW 6 0) (colon 6 2) _ _ _ _ _ _ _ _ rfl (lid (jia 6 1) rfl) rfl (by decide +kernel)
    (by decide +kernel) (by decide +kernel) (by simp) ifBlock
    (.tailOther 1 (T cTypeCondOtherW 8 0) (colon 8 2) _ _ _ _ _ _ _ _ rfl (lid (yi 8 1) rfl) rfl (by decide +kernel)
      (by decide +kernel) (by decide +kernel) (by simp) elifBlock
      (.tailElse 1 (T cTypeCondElseW 10 0) (colon 10 1) _ _ rfl rfl (by decide +kernel) (by decide +kernel) (by decide +kernel)
        (by simp) elseBlock)
      (Or.inr (by decide +kernel)))
    (Or.inr (by decide +kernel))

def handler1 :=
  LinN.handCons (Y := Y) 1 (T cTypeCatchErrorW 12 0) (nm 12 1) (colon 12 2) _ _ _ _ rfl rfl rfl (by decide +kernel)
    (by decide +kernel) (by decide +kernel) (by simp)
    (blk1 (retS 2 13 (yi 13 1) rfl (by decide +kernel)) (by decide +kernel)) (.handNil 1) (Or.inl rfl)

def funcBody :=
  LinN.execInput (Y := Y) 1 (T cTypeInputW 5 0) _ [jia 5 1, pause 5 2, yi 5 3] _ _ _ _ rfl (.cons _ _ _ _ rfl rfl (.one _ rfl))
    (by decide +kernel) (by decide +kernel) (blk1 branch (by decide +kernel)) handler1 (Or.inr (by decide +kernel))
    (Or.inr (by decide +kernel)) (by simp)

def funcS :=
  LinN.funcStmt (Y := Y) 0 (T cTypeFuncW 4 0) (nm 4 1) (qm 4 2) _ _ rfl rfl rfl (by decide +kernel) (by decide +kernel) funcBody

-- lines 14–19: 定义 狗：
def body1 (l : Nat) (x : Token) (hx : x.type = cTypeIdentifier) (hg : Y.Glued [ret l, x]) (hi : Y.ind (ret l) = 2) :=
  LinN.execPlain (Y := Y) 2 _ _ _ _ (blk1 (retS 2 l x hx hg) hi) (.handNil 2) (Or.inl rfl) (by simp)

def members :=
  LinN.memProp (Y := Y) 1 (T cTypeObjThisW 15 0) (nm 15 1) (T cTypeAssignW 15 2) _ _ _ _ _ _ rfl rfl (by decide +kernel)
    (lid (jia 15 3) rfl) (by decide +kernel) (by decide +kernel)
    (.memMethod 1 (T cTypeFuncW 16 0) (nm 16 1) (qm 16 2) _ _ _ _ _ _ rfl rfl rfl (by decide +kernel) (by decide +kernel)
      (by decide +kernel) (body1 17 (jia 17 1) rfl (by decide +kernel) (by decide +kernel))
      (.memGetter 1 (T cTypeGetterW 18 0) (nm 18 1) (qm 18 2) _ _ _ _ _ _ rfl rfl rfl (by decide +kernel) (by decide +kernel)
        (by decide +kernel) (body1 19 (yi 19 1) rfl (by decide +kernel) (by decide +kernel)) (.memNil 1) (Or.inl rfl))
      (Or.inr (by decide +kernel)))
    (Or.inr (by decide +kernel))

def classS :=
  LinN.classStmt (Y := Y) 0 (T cTypeObjDefineW 14 0) (nm 14 1) (colon 14 2) _ _ _ _ rfl rfl rfl (by decide +kernel)
    (by decide +kernel) (by simp) members

-- lines 20–21: 如何新建 狗？
def ctorS :=
  LinN.ctorStmt (Y := Y) 0 (T cTypeFuncW 20 0) (T cTypeObjNewW 20 1) (nm 20 2) (qm 20 3) _ _ rfl rfl rfl rfl (by decide +kernel)
    (by decide +kernel)
    (.execPlain 1 _ _ _ _ (blk1 (retS 1 21 (jia 21 1) rfl (by decide +kernel)) (by decide +kernel)) (.handNil 1) (Or.inl rfl)
      (by simp))

-- lines 22–28: the three forms of 遍历, 每当, an expression with braces and four operator levels
def brkBlock (l : Nat) (hi : Y.ind (T cTypeBreakW l 0) = 1) :=
  blk1 (LinN.simple (Y := Y) 1 _ _ (.breakStmt (T cTypeBreakW l 0) rfl)) hi

def iter0 :=
  LinN.iter0Stmt (Y := Y) 0 (T cTypeIteratorW 22 0) (colon 22 2) _ _ _ _ rfl (lid (jia 22 1) rfl) rfl (by decide +kernel)
    (by decide +kernel) (by simp) (brkBlock 23 (by decide +kernel))

def iter1 :=
  LinN.iter1Stmt (Y := Y) 0 (T cTypeVarOneW 24 0) (jia 24 1) (T cTypeIteratorW 24 2) (colon 24 4) _ _ _ _ rfl rfl rfl
    (lid (yi 24 3) rfl) rfl (by decide +kernel) (by decide +kernel) (by simp) (brkBlock 25 (by decide +kernel))

theorem u6 {e : Expr} {ts : List Token} (h : LinE Y 7 e ts) : LinE Y 6 e ts := .up 6 _ _ (by decide) h
theorem u5 {e : Expr} {ts : List Token} (h : LinE Y 6 e ts) : LinE Y 5 e ts := .up 5 _ _ (by decide) h
theorem u4 {e : Expr} {ts : List Token} (h : LinE Y 5 e ts) : LinE Y 4 e ts := .up 4 _ _ (by decide) h
theorem u3 {e : Expr} {ts : List Token} (h : LinE Y 4 e ts) : LinE Y 3 e ts := .up 3 _ _ (by decide) h
theorem u2 {e : Expr} {ts : List Token} (h : LinE Y 3 e ts) : LinE Y 2 e ts := .up 2 _ _ (by decide) h
theorem u1 {e : Expr} {ts : List Token} (h : LinE Y 2 e ts) : LinE Y 1 e ts := .up 1 _ _ (by decide) h

/-- `{ 甲 或 乙 } 且 甲 == 乙 * 丙` -/
def bigExpr :=
  u1 (LinX.and (Y := Y) (cfg := true) (T cTypeLogicAndW 28 5) _ _ _ _ rfl
    (u2 (u3 (u4 (u5 (u6 (LinX.brace (T cTypeStmtQuoteL 28 0) (T cTypeStmtQuoteR 28 4) _ _ rfl rfl
      (LinX.or (T cTypeLogicOrW 28 2) _ _ [jia 28 1] [yi 28 3] rfl (lid _ rfl) (u2 (u3 (u4 (u5 (u6 (.id (yi 28 3) rfl)))))))))))))
    (LinX.cmp (T cTypeEqualMark 28 7) _ _ [jia 28 6] _ (by decide) (u4 (u5 (u6 (.id (jia 28 6) rfl))))
      (u4 (u5 (LinX.mul (T cTypeMultiply 28 9) _ _ [yi 28 8] [bing 28 10] (by decide) (u6 (.id (yi 28 8) rfl))
        (.id (bing 28 10) rfl))))))

def whileS :=
  LinN.whileStmt (Y := Y) 1 (T cTypeWhileLoopW 27 0) (colon 27 2) _ _ _ _ rfl (lid (jia 27 1) rfl) rfl (by decide +kernel)
    (by decide +kernel) (by simp)
    (blk1 (LinN.simple (Y := Y) 2 _ _ (.exprStmt _ _ bigExpr (by decide +kernel) (by decide +kernel))) (by decide +kernel))

def iter2 :=
  LinN.iter2Stmt (Y := Y) 0 (T cTypeVarOneW 26 0) (jia 26 1) (pause 26 2) (yi 26 3) (T cTypeIteratorW 26 4) (colon 26 6) _ _ _ _
    rfl rfl rfl rfl rfl (lid (bing 26 5) rfl) rfl (by decide +kernel) (by decide +kernel) (by simp)
    (blk1 whileS (by decide +kernel))

-- ---- lines 29–44: calls, 新建, member chains, assignments, lists and dictionaries, method calls, `；`, commas, line breaks ------

def lp (l k : Nat) : Token := T cTypeFuncQuoteL l k
def rp (l k : Nat) : Token := T cTypeFuncQuoteR l k
def cma (l k : Nat) : Token := T cTypeCommaSep l k
def semi (l k : Nat) : Token := T cTypeStmtSep l k
def eqm (l k : Nat) : Token := T cTypeAssignMark l k
def lb (l k : Nat) : Token := T cTypeArrayQuoteL l k
def rb (l k : Nat) : Token := T cTypeArrayQuoteR l k

theorem idX {cfg : Bool} (t : Token) (h : t.type = cTypeIdentifier) : LinX Y cfg 7 (.expr (.id (Y.idOf t))) [t] := .id t h
theorem lift51 {cfg : Bool} {e : Expr} {ts : List Token} (h : LinX Y cfg 5 (.expr e) ts) : LinX Y cfg 1 (.expr e) ts :=
  .up 1 _ _ (by decide) (.up 2 _ _ (by decide) (.up 3 _ _ (by decide) (.up 4 _ _ (by decide) h)))
theorem lift41 {cfg : Bool} {e : Expr} {ts : List Token} (h : LinX Y cfg 4 (.expr e) ts) : LinX Y cfg 1 (.expr e) ts :=
  .up 1 _ _ (by decide) (.up 2 _ _ (by decide) (.up 3 _ _ (by decide) h))
theorem lift61 {cfg : Bool} {e : Expr} {ts : List Token} (h : LinX Y cfg 6 (.expr e) ts) : LinX Y cfg 1 (.expr e) ts :=
  lift51 (.up 5 _ _ (by decide) h)
theorem lift75 {cfg : Bool} {e : Expr} {ts : List Token} (h : LinX Y cfg 7 (.expr e) ts) : LinX Y cfg 5 (.expr e) ts :=
  .up 5 _ _ (by decide) (.up 6 _ _ (by decide) h)
theorem lift7 {cfg : Bool} {e : Expr} {ts : List Token} (h : LinX Y cfg 7 (.expr e) ts) : LinX Y cfg 1 (.expr e) ts :=
  lift51 (lift75 h)
/-- one argument -/
def arg1 (t : Token) (h : t.type = cTypeIdentifier) := LinX.argsOne (Y := Y) _ [t] (lift7 (idX t h))

-- 29  （名：甲、乙）
def call29 :=
  LinX.call (Y := Y) (cfg := true) (lp 29 0) _ _ _ none rfl
    (.fcallArgs (nm 29 1) (colon 29 2) (rp 29 6) _ _ rfl rfl rfl
      (.argsCons (pause 29 4) _ [jia 29 3] _ _ (lift7 (idX (jia 29 3) rfl)) rfl rfl (arg1 (yi 29 5) rfl))) trivial
def s29 := LinN.simple (Y := Y) 0 _ _ (.exprStmt _ _ (lift7 call29) (by decide +kernel) (by decide +kernel))

-- 30  （名：甲）得到 丙；（名）；
def call30a :=
  LinX.call (Y := Y) (cfg := true) (lp 30 0) _ _ _ (some (T cTypeGetResultW 30 5, bing 30 6)) rfl
    (.fcallArgs (nm 30 1) (colon 30 2) (rp 30 4) _ _ rfl rfl rfl (arg1 (jia 30 3) rfl)) ⟨rfl, rfl⟩
def s30a := LinSimple.exprStmt (Y := Y) _ _ (lift7 call30a) (by decide +kernel) (by decide +kernel)
def call30b := LinX.call (Y := Y) (cfg := true) (lp 30 8) _ _ _ none rfl (.fcall0 (nm 30 9) (rp 30 10) rfl rfl) trivial
def s30b := LinSimple.exprStmt (Y := Y) _ _ (lift7 call30b) (by decide +kernel) (by decide +kernel)

-- 31  令 名 为 （新建 名：甲）
def new31 :=
  LinX.new (Y := Y) (cfg := true) (lp 31 3) (T cTypeObjNewW 31 4) _ _ _ rfl rfl
    (.fcallArgs (nm 31 5) (colon 31 6) (rp 31 8) _ _ rfl rfl rfl (arg1 (jia 31 7) rfl))
def s31 :=
  LinN.simple (Y := Y) 0 _ _ (.declStmt (T cTypeDeclareW 31 0) (T cTypeAssignW 31 2) _ [nm 31 1] _ _ rfl (.one _ rfl)
    (by decide +kernel) (lift7 new31) (by decide +kernel))

-- 32  甲 之 名 = 甲 # 乙
def a32 := LinX.dot (Y := Y) (cfg := true) (T cTypeObjDotW 32 1) (nm 32 2) _ [jia 32 0] (by decide +kernel) rfl (idX (jia 32 0) rfl)
def b32 := LinX.idxId (Y := Y) (cfg := true) (T cTypeMapHash 32 5) (yi 32 6) _ [jia 32 4] rfl rfl (idX (jia 32 4) rfl)
def e32 := lift41 (LinX.assign (Y := Y) (cfg := true) (eqm 32 3) _ _ _ _ (by decide +kernel) rfl (lift75 a32) (lift75 b32))
def s32 := LinN.simple (Y := Y) 0 _ _ (.exprStmt _ _ e32 (by decide +kernel) (by decide +kernel))

-- 33  甲 # "键" = 甲 # { 乙 + 甲 }
def a33 :=
  LinX.idxStr (Y := Y) (cfg := true) (T cTypeMapHash 33 1) (T cTypeString 33 2 [0x952E]) _ [jia 33 0] rfl rfl (idX (jia 33 0) rfl)
def sum33 :=
  lift51 (LinX.add (Y := Y) (cfg := true) (T cTypePlus 33 8) _ _ [yi 33 7] [jia 33 9] (by decide +kernel) (lift75 (idX (yi 33 7) rfl))
    (.up 6 _ _ (by decide) (idX (jia 33 9) rfl)))
def b33 :=
  LinX.idxExpr (Y := Y) (cfg := true) (T cTypeMapHash 33 5) (T cTypeStmtQuoteL 33 6) (T cTypeStmtQuoteR 33 10) _ [jia 33 4] _ _
    rfl rfl rfl (idX (jia 33 4) rfl) sum33
def e33 := lift41 (LinX.assign (Y := Y) (cfg := true) (eqm 33 3) _ _ _ _ (by decide +kernel) rfl (lift75 a33) (lift75 b33))
def s33 := LinN.simple (Y := Y) 0 _ _ (.exprStmt _ _ e33 (by decide +kernel) (by decide +kernel))

-- 34  其 名 = 【甲，乙，
-- 35      丙】
/-- an item followed by its comma -/
def itemC (t c : Token) (h : t.type = cTypeIdentifier) (hc : c.type = cTypeCommaSep) :=
  lift61 (LinX.commaAfter (Y := Y) (cfg := false) c _ [t] hc (idX t h))
def arr34 :=
  LinX.arr (Y := Y) (cfg := true) (lb 34 3) (rb 35 1) _ _ _ _ rfl rfl (itemC (jia 34 4) (cma 34 5) rfl rfl)
    (.itemsCons _ _ _ _ (itemC (yi 34 6) (cma 34 7) rfl rfl) (.itemsCons _ _ _ _ (lift7 (idX (bing 35 0) rfl)) .itemsNil))
def e34 :=
  lift41 (LinX.assign (Y := Y) (cfg := true) (eqm 34 2) _ _ _ _ (by decide +kernel) rfl
    (lift75 (LinX.this (T cTypeObjThisW 34 0) (nm 34 1) rfl rfl)) (lift75 arr34))
def s34 := LinN.simple (Y := Y) 0 _ _ (.exprStmt _ _ e34 (by decide +kernel) (by decide +kernel))

-- 36  甲 为 【甲 = 乙，丙 = 甲】
def hm36 :=
  LinX.hm (Y := Y) (cfg := true) (lb 36 2) (eqm 36 4) (rb 36 10) _ [jia 36 3] _ _ _ _ rfl rfl rfl (lift7 (idX (jia 36 3) rfl))
    (itemC (yi 36 5) (cma 36 6) rfl rfl)
    (.kvsCons (eqm 36 8) _ [bing 36 7] _ [jia 36 9] _ _ rfl (lift7 (idX (bing 36 7) rfl)) (lift7 (idX (jia 36 9) rfl)) .kvsNil)
def e36 :=
  lift41 (LinX.assign (Y := Y) (cfg := true) (T cTypeAssignW 36 1) _ _ _ _ (by decide +kernel) rfl (lift75 (idX (jia 36 0) rfl))
    (lift75 hm36))
def s36 := LinN.simple (Y := Y) 0 _ _ (.exprStmt _ _ e36 (by decide +kernel) (by decide +kernel))

-- 37  令 甲 为 【】        38  令 乙 为 【=】
def s37 :=
  LinN.simple (Y := Y) 0 _ _ (.declStmt (T cTypeDeclareW 37 0) (T cTypeAssignW 37 2) _ [jia 37 1] _ _ rfl (.one _ rfl)
    (by decide +kernel) (lift7 (LinX.arrEmpty (lb 37 3) (rb 37 4) rfl rfl)) (by decide +kernel))
def s38 :=
  LinN.simple (Y := Y) 0 _ _ (.declStmt (T cTypeDeclareW 38 0) (T cTypeAssignW 38 2) _ [yi 38 1] _ _ rfl (.one _ rfl)
    (by decide +kernel) (lift7 (LinX.hmEmpty (lb 38 3) (eqm 38 4) (rb 38 5) rfl rfl rfl)) (by decide +kernel))

-- 39  以 甲（名：乙）、（名）得到 丙
def s39 :=
  LinN.simple (Y := Y) 0 _ _ (.mcallStmt (T cTypeVarOneW 39 0) (lp 39 2) _ [jia 39 1] _ _ _ _ _
    (some (T cTypeGetResultW 39 11, bing 39 12)) rfl (lid (jia 39 1) rfl) rfl
    (.fcallArgs (nm 39 3) (colon 39 4) (rp 39 6) _ _ rfl rfl rfl (arg1 (yi 39 5) rfl))
    (.chainCons (pause 39 7) (lp 39 8) _ _ _ _ _ rfl rfl (.fcall0 (nm 39 9) (rp 39 10) rfl rfl) .chainNil) ⟨rfl, rfl⟩
    (by decide +kernel))

-- 40  令 丙 为 以 甲（名）
def mc40 :=
  LinX.mcall (Y := Y) (cfg := true) (T cTypeVarOneW 40 3) (lp 40 5) _ [jia 40 4] _ _ _ _ _ none rfl (lid (jia 40 4) rfl) rfl
    (.fcall0 (nm 40 6) (rp 40 7) rfl rfl) .chainNil trivial
def s40 :=
  LinN.simple (Y := Y) 0 _ _ (.declStmt (T cTypeDeclareW 40 0) (T cTypeAssignW 40 2) _ [bing 40 1] _ _ rfl (.one _ rfl)
    (by decide +kernel) (lift7 mc40) (by decide +kernel))

-- 42  （名：
-- 43      甲、
-- 44      乙）
def call42 :=
  LinX.call (Y := Y) (cfg := true) (lp 42 0) _ _ _ none rfl
    (.fcallArgs (nm 42 1) (colon 42 2) (rp 44 1) _ _ rfl rfl rfl
      (.argsCons (pause 43 1) _ [jia 43 0] _ _ (lift7 (idX (jia 43 0) rfl)) rfl rfl (arg1 (yi 44 0) rfl))) trivial
def s42 := LinN.simple (Y := Y) 0 _ _ (.exprStmt _ _ (lift7 call42) (by decide +kernel) (by decide +kernel))

/-- the statements of lines 29–44 -/
def stmts2 :=
  LinN.blockCons (Y := Y) 0 _ _ _ _ s29 (by decide +kernel)
    (.blockConsSemi 0 _ _ _ _ s30a (by decide +kernel)
      (.blockEmpty 0 (semi 30 7) _ _ rfl (by decide +kernel)
        (.blockConsSemi 0 _ _ _ _ s30b (by decide +kernel)
          (.blockEmpty 0 (semi 30 11) _ _ rfl (by decide +kernel)
            (.blockCons 0 _ _ _ _ s31 (by decide +kernel)
              (.blockCons 0 _ _ _ _ s32 (by decide +kernel)
                (.blockCons 0 _ _ _ _ s33 (by decide +kernel)
                  (.blockCons 0 _ _ _ _ s34 (by decide +kernel)
                    (.blockCons 0 _ _ _ _ s36 (by decide +kernel)
                      (.blockCons 0 _ _ _ _ s37 (by decide +kernel)
                        (.blockCons 0 _ _ _ _ s38 (by decide +kernel)
                          (.blockCons 0 _ _ _ _ s39 (by decide +kernel)
                            (.blockCons 0 _ _ _ _ s40 (by decide +kernel)
                              (.blockEmpty 0 (semi 41 0) _ _ rfl (by decide +kernel)
                                (.blockCons 0 _ _ _ _ s42 (by decide +kernel) (.blockNil 0) (Or.inl rfl)))
                              (Or.inr (by decide +kernel)))
                            (Or.inr (by decide +kernel)))
                          (Or.inr (by decide +kernel)))
                        (Or.inr (by decide +kernel)))
                      (Or.inr (by decide +kernel)))
                    (Or.inr (by decide +kernel)))
                  (Or.inr (by decide +kernel)))
                (Or.inr (by decide +kernel)))
              (Or.inr (by decide +kernel))))
          (by simp) rfl))
      (by simp) rfl)
    (Or.inr (by decide +kernel))

-- lines 45–46: the program's handler
def handler2 :=
  LinN.handCons (Y := Y) 0 (T cTypeCatchErrorW 45 0) (nm 45 1) (colon 45 2) _ _ _ _ rfl rfl rfl (by decide +kernel)
    (by decide +kernel) (by decide +kernel) (by simp)
    (blk1 (retS 1 46 (jia 46 1) rfl (by decide +kernel)) (by decide +kernel)) (.handNil 0) (Or.inl rfl)

def stmts :=
  LinN.blockCons (Y := Y) 0 _ _ _ _ declBlock (by decide +kernel)
    (.blockCons 0 _ _ _ _ funcS (by decide +kernel)
      (.blockCons 0 _ _ _ _ classS (by decide +kernel)
        (.blockCons 0 _ _ _ _ ctorS (by decide +kernel)
          (.blockCons 0 _ _ _ _ iter0 (by decide +kernel)
            (.blockCons 0 _ _ _ _ iter1 (by decide +kernel)
              (.blockCons 0 _ _ _ _ iter2 (by decide +kernel) stmts2 (Or.inr (by decide +kernel)))
              (Or.inr (by decide +kernel)))
            (Or.inr (by decide +kernel)))
          (Or.inr (by decide +kernel)))
        (Or.inr (by decide +kernel)))
      (Or.inr (by decide +kernel)))
    (Or.inr (by decide +kernel))

def progBody :=
  LinN.execPlain (Y := Y) 0 _ _ _ _ stmts handler2 (Or.inr (by decide +kernel))
    (fun h => absurd (List.append_eq_nil_iff.mp h).2 (List.cons_ne_nil _ _))

/-- the tokens of the 47 lines -/
def tokens : List Token :=
  l0 ++ [] ++
  ((T cTypeDeclareW 1 0 :: colon 1 1 :: jia 2 0 :: T cTypeAssignW 2 1 :: yi 2 2 ::
      bing 3 0 :: pause 3 1 :: nm 3 2 :: T cTypeAssignConstW 3 3 :: [jia 3 4]) ++
   (T cTypeFuncW 4 0 :: nm 4 1 :: qm 4 2 :: T cTypeInputW 5 0 :: jia 5 1 :: pause 5 2 :: yi 5 3 ::
      T cTypeCondW 6 0 :: jia 6 1 :: colon 6 2 :: ret 7 :: jia 7 1 ::
      T cTypeCondOtherW 8 0 :: yi 8 1 :: colon 8 2 :: T cTypeContinueW 9 0 ::
      T cTypeCondElseW 10 0 :: colon 10 1 ::
      T cTypeThrowErrorW 11 0 :: nm 11 1 :: colon 11 2 :: jia 11 3 :: pause 11 4 :: yi 11 5 :: T cTypeExceptionT 11 6 ::
      T cTypeCatchErrorW 12 0 :: nm 12 1 :: colon 12 2 :: ret 13 :: [yi 13 1]) ++
   (T cTypeObjDefineW 14 0 :: nm 14 1 :: colon 14 2 :: T cTypeObjThisW 15 0 :: nm 15 1 :: T cTypeAssignW 15 2 :: jia 15 3 ::
      T cTypeFuncW 16 0 :: nm 16 1 :: qm 16 2 :: ret 17 :: jia 17 1 :: T cTypeGetterW 18 0 :: nm 18 1 :: qm 18 2 :: ret 19 :: [yi 19 1]) ++
   (T cTypeFuncW 20 0 :: T cTypeObjNewW 20 1 :: nm 20 2 :: qm 20 3 :: ret 21 :: [jia 21 1]) ++
   (T cTypeIteratorW 22 0 :: jia 22 1 :: colon 22 2 :: [T cTypeBreakW 23 0]) ++
   (T cTypeVarOneW 24 0 :: jia 24 1 :: T cTypeIteratorW 24 2 :: yi 24 3 :: colon 24 4 :: [T cTypeBreakW 25 0]) ++
   (T cTypeVarOneW 26 0 :: jia 26 1 :: pause 26 2 :: yi 26 3 :: T cTypeIteratorW 26 4 :: bing 26 5 :: colon 26 6 ::
      T cTypeWhileLoopW 27 0 :: jia 27 1 :: colon 27 2 ::
      T cTypeStmtQuoteL 28 0 :: jia 28 1 :: T cTypeLogicOrW 28 2 :: yi 28 3 :: T cTypeStmtQuoteR 28 4 :: T cTypeLogicAndW 28 5 ::
      jia 28 6 :: T cTypeEqualMark 28 7 :: yi 28 8 :: T cTypeMultiply 28 9 :: [bing 28 10]) ++
   (lp 29 0 :: nm 29 1 :: colon 29 2 :: jia 29 3 :: pause 29 4 :: yi 29 5 :: rp 29 6 ::
      lp 30 0 :: nm 30 1 :: colon 30 2 :: jia 30 3 :: rp 30 4 :: T cTypeGetResultW 30 5 :: bing 30 6 :: semi 30 7 ::
      lp 30 8 :: nm 30 9 :: rp 30 10 :: semi 30 11 ::
      T cTypeDeclareW 31 0 :: nm 31 1 :: T cTypeAssignW 31 2 :: lp 31 3 :: T cTypeObjNewW 31 4 :: nm 31 5 :: colon 31 6 ::
      jia 31 7 :: rp 31 8 ::
      jia 32 0 :: T cTypeObjDotW 32 1 :: nm 32 2 :: eqm 32 3 :: jia 32 4 :: T cTypeMapHash 32 5 :: yi 32 6 ::
      jia 33 0 :: T cTypeMapHash 33 1 :: T cTypeString 33 2 [0x952E] :: eqm 33 3 :: jia 33 4 :: T cTypeMapHash 33 5 ::
      T cTypeStmtQuoteL 33 6 :: yi 33 7 :: T cTypePlus 33 8 :: jia 33 9 :: T cTypeStmtQuoteR 33 10 ::
      T cTypeObjThisW 34 0 :: nm 34 1 :: eqm 34 2 :: lb 34 3 :: jia 34 4 :: cma 34 5 :: yi 34 6 :: cma 34 7 :: bing 35 0 :: rb 35 1 ::
      jia 36 0 :: T cTypeAssignW 36 1 :: lb 36 2 :: jia 36 3 :: eqm 36 4 :: yi 36 5 :: cma 36 6 :: bing 36 7 :: eqm 36 8 ::
      jia 36 9 :: rb 36 10 ::
      T cTypeDeclareW 37 0 :: jia 37 1 :: T cTypeAssignW 37 2 :: lb 37 3 :: rb 37 4 ::
      T cTypeDeclareW 38 0 :: yi 38 1 :: T cTypeAssignW 38 2 :: lb 38 3 :: eqm 38 4 :: rb 38 5 ::
      T cTypeVarOneW 39 0 :: jia 39 1 :: lp 39 2 :: nm 39 3 :: colon 39 4 :: yi 39 5 :: rp 39 6 :: pause 39 7 :: lp 39 8 ::
      nm 39 9 :: rp 39 10 :: T cTypeGetResultW 39 11 :: bing 39 12 ::
      T cTypeDeclareW 40 0 :: bing 40 1 :: T cTypeAssignW 40 2 :: T cTypeVarOneW 40 3 :: jia 40 4 :: lp 40 5 :: nm 40 6 :: rp 40 7 ::
      semi 41 0 ::
      lp 42 0 :: nm 42 1 :: colon 42 2 :: jia 43 0 :: pause 43 1 :: yi 44 0 :: [rp 44 1]) ++
   (T cTypeCatchErrorW 45 0 :: nm 45 1 :: colon 45 2 :: ret 46 :: [jia 46 1]))

/-- the hypotheses of `parse_statements_roundtrip` are satisfiable on a program that uses every statement form -/
theorem rendered : ∃ p, LinProgram Y p tokens := ⟨_, LinProgram.importsBody 0 _ _ _ _ (by simp [l0]) imports progBody (fun h => absurd h (by decide +kernel))⟩

theorem inOrder : Y.InOrder tokens := by decide +kernel

/-- … so the theorem applies, to the pinned parser (`Variant.legacy`) and to the repaired one alike -/
theorem parsed : ∃ p, ∀ v, parseLaidOut v Y 4000 tokens = .tree p := by
  obtain ⟨p, hp⟩ := rendered
  exact ⟨p, fun v => parse_statements_roundtrip v hp inOrder 4000 (by decide +kernel)⟩

/-- independently of the theorem, by evaluation of the parser model: the shape of the tree and every line number -/
def expected : Outcome → Bool
    | .tree ⟨[⟨0, 1, some _, [⟨0, _⟩, ⟨0, _⟩]⟩], some (.mk [] (some
        [.varDecl 1 [(1, [⟨2, _⟩], .id ⟨2, _⟩), (3, [⟨3, _⟩, ⟨3, _⟩], .id ⟨3, _⟩)],
         .funcDecl 4 (some ⟨4, _⟩) 1 (some (.mk [⟨5, _⟩, ⟨5, _⟩] (some
           [.branch 6 (.id ⟨6, _⟩) (some [.ret 7 (.id ⟨7, _⟩)]) [(.id ⟨8, _⟩, some [.continue 9])] true
              (some [.throw 11 (some ⟨11, _⟩) [.id ⟨11, _⟩, .id ⟨11, _⟩]])])
           [(some ⟨12, _⟩, some [.ret 13 (.id ⟨13, _⟩)])])),
         .classDecl 14 (some ⟨14, _⟩) [(some ⟨15, _⟩, .id ⟨15, _⟩)]
           [.funcDecl 0 (some ⟨16, _⟩) 1 (some (.mk [] (some [.ret 17 (.id ⟨17, _⟩)]) []))]
           [.funcDecl 0 (some ⟨18, _⟩) 2 (some (.mk [] (some [.ret 19 (.id ⟨19, _⟩)]) []))],
         .funcDecl 20 (some ⟨20, _⟩) 3 (some (.mk [] (some [.ret 21 (.id ⟨21, _⟩)]) [])),
         .iterate 22 (.id ⟨22, _⟩) [] (some [.break 23]),
         .iterate 24 (.id ⟨24, _⟩) [⟨24, _⟩] (some [.break 25]),
         .iterate 26 (.id ⟨26, _⟩) [⟨26, _⟩, ⟨26, _⟩] (some
           [.while 27 (.id ⟨27, _⟩) (some
             [.expr (.logic 28 2 (.logic 28 1 (.id ⟨28, _⟩) (.id ⟨28, _⟩))
                (.logic 28 4 (.id ⟨28, _⟩) (.arith 28 14 (.id ⟨28, _⟩) (.id ⟨28, _⟩))))])]),
         .expr (.call 29 (some ⟨29, _⟩) [.id ⟨29, _⟩, .id ⟨29, _⟩] none),
         .expr (.call 30 (some ⟨30, _⟩) [.id ⟨30, _⟩] (some ⟨30, _⟩)), .empty 0,
         .expr (.call 30 (some ⟨30, _⟩) [] none), .empty 0,
         .varDecl 31 [(1, [⟨31, _⟩], .new 31 (some ⟨31, _⟩) [.id ⟨31, _⟩])],
         .expr (.assign 32 (.member 32 1 (.id ⟨32, _⟩) 1 (some ⟨32, _⟩) .nil) (.member 32 1 (.id ⟨32, _⟩) 2 none (.id ⟨32, _⟩))),
         .expr (.assign 33 (.member 33 1 (.id ⟨33, _⟩) 2 none (.str 33 _))
           (.member 33 1 (.id ⟨33, _⟩) 2 none (.arith 33 12 (.id ⟨33, _⟩) (.id ⟨33, _⟩)))),
         .expr (.assign 34 (.member 34 2 .nil 1 (some ⟨34, _⟩) .nil) (.arr 34 [.id ⟨34, _⟩, .id ⟨34, _⟩, .id ⟨35, _⟩])),
         .expr (.assign 36 (.id ⟨36, _⟩) (.hm 36 [(.id ⟨36, _⟩, .id ⟨36, _⟩), (.id ⟨36, _⟩, .id ⟨36, _⟩)])),
         .varDecl 37 [(1, [⟨37, _⟩], .arr 37 [])],
         .varDecl 38 [(1, [⟨38, _⟩], .hm 38 [])],
         .expr (.mcall 39 (.id ⟨39, _⟩) [.call 0 (some ⟨39, _⟩) [.id ⟨39, _⟩] none, .call 0 (some ⟨39, _⟩) [] none] (some ⟨39, _⟩)),
         .varDecl 40 [(1, [⟨40, _⟩], .mcall 40 (.id ⟨40, _⟩) [.call 0 (some ⟨40, _⟩) [] none] none)],
         .empty 0,
         .expr (.call 42 (some ⟨42, _⟩) [.id ⟨43, _⟩, .id ⟨44, _⟩] none)])
        [(some ⟨45, _⟩, some [.ret 46 (.id ⟨46, _⟩)])])⟩ => true
    | _ => false

theorem evaluated : expected (parseLaidOut Variant.fixed Y 4000 tokens) = true := by decide +kernel

end ZnVerif.Properties.C03.Example2
