/-
C05 — Compilation and error display terminate cleanly on every input.

The parser theorems are about `Model/Parser.lean` with `Variant.fixed` (the tree with patches fix-c05-catch-block-loop,
fix-c03-if-at-eof, fix-c05-error-builder-nil-token applied, the left-over-token error positioned at the first left-over token, and the still-in-the-输入-section error positioned at the token that ended the block), for EVERY lexer `ops` that meets `LexOK` — stated once for all
token streams; `tokenOps_ok` shows the assumption is satisfiable, Model/Lexer's `nextToken` is the intended instance (its own
bounds are the lexer worker's theorems).  The display theorems are about `Model/ErrorPrinter.lean` (patch
fix-c05-error-printer-total).  Proofs: Proofs/ParserHoare, ParserGood*, ParserTheorems, ErrorPrinter.
-/
import ZnVerif.Proofs.ParserTheorems
import ZnVerif.Proofs.ErrorPrinter
import ZnVerif.Spec.StmtSyntax

namespace ZnVerif.Properties.C05
open ZnVerif.Model ZnVerif.Model.Parser ZnVerif.Generated.Tokens
open ZnVerif.Proofs.ParserHoare ZnVerif.Proofs.ParserGood

variable {σ : Type} {ops : LexOps σ} {B : Nat} {μ : σ → Nat} {I : σ → Prop}

/-- **parser_progress**: a production that succeeds never gives tokens back, and — unless it is one of the ε-productions listed
in `epsilon_productions` — has consumed at least one (`m` = tokens still to be consumed, the peek token included). -/
theorem parser_progress (hl : LexOK ops B μ I) (n : Nat) (nt : NT) (s s' : PState σ) (r : nt.Out)
    (hs : Inv ops B I s) (hpre : PreC nt) (h : parse Variant.fixed ops n nt s = .ok r s') :
    m μ s' ≤ m μ s ∧ (strict nt = true → m μ s' < m μ s) := by
  have := parse_good hl n nt s hs hpre
  rw [h] at this
  exact ⟨this.2.1, fun hst => (this.2.2.2.1 hst).1⟩

/-- the ε-productions, explicitly: the two program loops, the operator tails, and the loops that stop at a missing continuation
token.  Every other production is strict. -/
theorem epsilon_productions (nt : NT) :
    strict nt = false ↔
      (nt = .program ∨ (∃ i x im e, nt = .programLoop i x im e) ∨ (∃ c e, nt = .lv1Tail c e) ∨ (∃ c e, nt = .lv2Tail c e) ∨
       (∃ e, nt = .arithTail e) ∨ (∃ e, nt = .mulDivTail e) ∨ (∃ e, nt = .memberTail e) ∨ (∃ c, nt = .chainLoop c) ∨
       (∃ i p, nt = .varDeclLoop i p) ∨ (∃ i, nt = .block i) ∨ (∃ i a, nt = .blockLoop i a) ∨
       (∃ mi st a, nt = .branchLoop mi st a) ∨ (∃ i, nt = .execBlock i) ∨ (∃ i st a b c, nt = .execLoop i st a b c) ∨
       (∃ a, nt = .throwLoop a) ∨ (∃ i a b c, nt = .classLoop i a b c)) := by
  cases nt <;> simp [strict]

/-- … and the callers of the two ε-productions that sit inside an unbounded Go loop do not spin on them: an exec-block loop whose
condition holds on entry consumes (this is what fix (1) restores for the 拦截 state), and the loop of 如果 entered in its initial
state consumes (fix (2)). -/
theorem epsilon_loops_progress (hl : LexOK ops B μ I) (n : Nat) (nt : NT) (s s' : PState σ) (r : nt.Out)
    (hs : Inv ops B I s) (hpre : PreC nt) (hc : CondStrict ops nt s) (h : parse Variant.fixed ops n nt s = .ok r s') :
    m μ s' < m μ s := by
  have := parse_good hl n nt s hs hpre
  rw [h] at this
  exact (this.2.2.2.2.1 hc).1

/-- **parse_terminates**: with fuel linear in the input still to be lexed, the repaired parser is never still running. -/
theorem parse_terminates (hl : LexOK ops B μ I) (l : σ) (hI : I l) (n : Nat) (hn : fuelFor (μ l) ≤ n) :
    parseAST Variant.fixed ops n l ≠ .outOfFuel := by
  intro h
  have := parseAST_spec hl n l hI
  rw [h] at this
  simp only at this
  omega

theorem fuelFor_linear (k : Nat) : fuelFor k = 24 * k + 19 := rfl

/-- **cursor_bounded**: every syntax error the lexer+parser report has a code in 20…27 and a cursor inside the source
(given that the lexer's own errors and token positions are — `LexOK`). -/
theorem cursor_bounded (hl : LexOK ops B μ I) (l : σ) (hI : I l) (n : Nat) (e : SynErr)
    (h : parseAST Variant.fixed ops n l = .synErr e) : 20 ≤ e.code ∧ e.code ≤ 27 ∧ e.cursor ≤ B := by
  have := parseAST_spec hl n l hI
  rw [h] at this
  exact this

/-- **no_panic_after_fix**: no Go run-time panic (nil `TokenP1` in the error builders, nil `*LineInfo` in `expectBlockIndent`,
nil interface in the statement / basic-expression switches) can occur; `Parser.Parse` never returns an `error` that is not a
`*SyntaxError`. -/
theorem no_panic_after_fix (hl : LexOK ops B μ I) (l : σ) (hI : I l) (n : Nat) :
    parseAST Variant.fixed ops n l ≠ .otherErr := by
  intro h
  have := parseAST_spec hl n l hI
  rw [h] at this
  exact this

/-- the defect (3) on the pinned tree, at token level: a program whose first token is `）` makes the error builder dereference
the missing current token; `recover` turns the run-time error into a non-syntax error. -/
theorem panic_before_fix :
    (match parseTokens Variant.legacy 40 [{ type := cTypeFuncQuoteR, startIdx := 0, endIdx := 1 }] with
     | .otherErr => true | _ => false) = true := by decide

/-- … and after it: an ordinary syntax error at the offending token -/
theorem same_input_after_fix :
    (match parseTokens Variant.fixed 40 [{ type := cTypeFuncQuoteR, startIdx := 0, endIdx := 1 }] with
     | .synErr e => e.code == 20 && e.cursor == 0 | _ => false) = true := by decide

/-- **leftover_error_at_first_leftover_token** (C18's "the error points at the offending line"): when `ParseProgram` returns and
tokens remain (a line indented deeper than the complete statement before it belongs to no open block, so every block ends there),
`Parser.Parse` answers syntax error 20 positioned at the FIRST left-over token (`s.p2`, the parser's peek token) — for every
lexer, every input.  (Pinned tree: `getInvalidSyntaxCurr`, i.e. the last token that was accepted — on the line before.) -/
theorem leftover_error_at_first_leftover_token (n : Nat) (l : σ) (s0 s : PState σ) (pg : Program)
    (h0 : initState ops n l = .ok () s0) (hp : parse Variant.fixed ops n .program s0 = .ok pg s) (hleft : s.p2.type ≠ cTypeEOF) :
    parseAST Variant.fixed ops n l = .synErr ⟨20, s.p2.startIdx⟩ := by
  unfold parseAST
  rw [h0]
  simp only [hp, if_pos hleft]
  show (match (errPeek Variant.fixed 20 : PM σ Unit) s with
        | .err e => Outcome.synErr e | .panic => .otherErr | _ => .otherErr) = _
  unfold errPeek
  cases s.p1 <;> rfl

/-- two lines, the second indented by one step: `甲` on line 0 (characters 0–1), `乙` on line 1 (characters 6–7) -/
def overY : ZnVerif.Spec.StmtSyntax.Layout :=
  { lines := #[{ indents := 0, startIdx := 0 }, { indents := 1, startIdx := 2 }], eofIdx := 7, ne := by decide }

/-- the witness `甲⏎    乙`: a complete statement followed by an over-indented line.  Repaired tree: error 20 at `乙` (cursor 6, on the
over-indented line) … -/
theorem overindented_line_after_fix :
    (match ZnVerif.Spec.StmtSyntax.parseLaidOut Variant.fixed overY 60
        [{ type := cTypeIdentifier, literal := [0x7532], startIdx := 0, endIdx := 1 },
         { type := cTypeIdentifier, literal := [0x4E59], startIdx := 6, endIdx := 7 }] with
     | .synErr e => e.code == 20 && e.cursor == 6 | _ => false) = true := by decide +kernel

/-- … pinned tree: error 20 at `甲` (cursor 0, the line before) -/
theorem overindented_line_before_fix :
    (match ZnVerif.Spec.StmtSyntax.parseLaidOut Variant.legacy overY 60
        [{ type := cTypeIdentifier, literal := [0x7532], startIdx := 0, endIdx := 1 },
         { type := cTypeIdentifier, literal := [0x4E59], startIdx := 6, endIdx := 7 }] with
     | .synErr e => e.code == 20 && e.cursor == 0 | _ => false) = true := by decide +kernel

/-- **input_state_error_at_block_ending_token** (C18's "the error points at the offending line"): when the loop of `ParseExecBlock`
ends (`blockCond` fails: the peek token is the end of the text, or stands on a line that is not indented like the block — an
over-indented or a dedented line) while the block is still in its 输入 section (only 输入 lines so far, none at all included),
the production answers syntax error 20 positioned at the PEEK token (`s.p2`: the token that ended the block, or the end of the
text) — for every lexer, every fuel, every input and every accumulator.  (Tree before 07aabbd: `getInvalidSyntaxCurr`, i.e. the
last token that was accepted — the last token of the 输入 line, see `input_state_error_before_fix`.) -/
theorem input_state_error_at_block_ending_token (n indent : Nat) (ins : List Ident) (ss : List Stmt)
    (cs : List (Option Ident × Option (List Stmt))) (s : PState σ) (hend : blockCond ops indent s = false) :
    parse Variant.fixed ops (n + 1) (.execLoop indent .input ins ss cs) s = .err ⟨20, s.p2.startIdx⟩ := by
  show pExecLoop Variant.fixed ops n _ indent .input ins ss cs s = _
  unfold pExecLoop
  simp only [Bind.bind, PM.bind, getS, hend, Bool.false_eq_true, if_false, if_true]
  show (errPeek Variant.fixed 20 : PM σ ExecBlock) s = _
  unfold errPeek
  cases s.p1 <;> rfl

/-- … the same place in the code before 07aabbd (`Variant.legacy`, once a token has been accepted — always the case inside a
method; at the top level of a file with no token accepted the legacy error builder dereferences nil): the error is positioned at
the LAST ACCEPTED token `t` -/
theorem input_state_error_before_fix (n indent : Nat) (ins : List Ident) (ss : List Stmt)
    (cs : List (Option Ident × Option (List Stmt))) (s : PState σ) (t : Token) (hend : blockCond ops indent s = false)
    (hp1 : s.p1 = some t) :
    parse Variant.legacy ops (n + 1) (.execLoop indent .input ins ss cs) s = .err ⟨20, t.startIdx⟩ := by
  show pExecLoop Variant.legacy ops n _ indent .input ins ss cs s = _
  unfold pExecLoop
  simp only [Bind.bind, PM.bind, getS, hend, Bool.false_eq_true, if_false, if_true]
  show (errCurr Variant.legacy : PM σ ExecBlock) s = _
  unfold errCurr
  rw [hp1]

/-- conversely, a block that is past its 输入 section ends normally there (any variant): the switch is read in the 输入 state only -/
theorem exec_block_ends_outside_input_state (v : Variant) (n indent : Nat) (st : ExSt) (ins : List Ident) (ss : List Stmt)
    (cs : List (Option Ident × Option (List Stmt))) (s : PState σ) (hend : blockCond ops indent s = false) (hst : st ≠ .input) :
    parse v ops (n + 1) (.execLoop indent st ins ss cs) s = .ok (.mk ins (some ss) cs) s := by
  show pExecLoop v ops n _ indent st ins ss cs s = _
  unfold pExecLoop
  simp only [Bind.bind, PM.bind, getS, hend, Bool.false_eq_true, if_false, hst]
  rfl

/-- three lines, each one step deeper: `如何算？` (characters 0–3), `    输入N` (5–11), `        输出 N` (13–24) -/
def inputY : ZnVerif.Spec.StmtSyntax.Layout :=
  { lines := #[{ indents := 0, startIdx := 0 }, { indents := 1, startIdx := 5 }, { indents := 2, startIdx := 13 }], eofIdx := 25,
    ne := by decide }

/-- the tokens of `如何算？⏎    输入N⏎        输出 N` (real lexer: `lex` of the driver) -/
def inputToks : List Token :=
  [{ type := cTypeFuncW, startIdx := 0, endIdx := 2 }, { type := cTypeIdentifier, literal := [0x7B97], startIdx := 2, endIdx := 3 },
   { type := cTypeFuncDeclare, startIdx := 3, endIdx := 4 }, { type := cTypeInputW, startIdx := 9, endIdx := 11 },
   { type := cTypeIdentifier, literal := [0x4E], startIdx := 11, endIdx := 12 }, { type := cTypeReturnW, startIdx := 21, endIdx := 23 },
   { type := cTypeIdentifier, literal := [0x4E], startIdx := 24, endIdx := 25 }]

/-- the witness `如何算？⏎    输入N⏎        输出 N`: an over-indented line right after the 输入 line.  Repaired tree: error 20 at `输出`
(cursor 21, on the over-indented line) … -/
theorem line_after_input_line_after_fix :
    (match ZnVerif.Spec.StmtSyntax.parseLaidOut Variant.fixed inputY 80 inputToks with
     | .synErr e => e.code == 20 && e.cursor == 21 | _ => false) = true := by decide +kernel

/-- … tree before 07aabbd: error 20 at `N` (cursor 11, the last token of the 输入 line) -/
theorem line_after_input_line_before_fix :
    (match ZnVerif.Spec.StmtSyntax.parseLaidOut Variant.legacy inputY 80 inputToks with
     | .synErr e => e.code == 20 && e.cursor == 11 | _ => false) = true := by decide +kernel

/-- the 输入 line last in the text (`如何算？⏎    输入N`): the repaired tree points at the end of the text (cursor 12) -/
theorem input_line_last_after_fix :
    (match ZnVerif.Spec.StmtSyntax.parseLaidOut Variant.fixed
        { lines := #[{ indents := 0, startIdx := 0 }, { indents := 1, startIdx := 5 }], eofIdx := 12, ne := by decide } 80
        (inputToks.take 5) with
     | .synErr e => e.code == 20 && e.cursor == 12 | _ => false) = true := by decide +kernel

-- non-vacuity: the assumptions on the lexer are satisfiable (token-level lexer), and its initial states satisfy `I`
example : LexOK tokenOps 100 List.length (fun l => ∀ t ∈ l, t.startIdx ≤ 100) := tokenOps_ok 100
example : parseTokens Variant.fixed (fuelFor 1) [{ type := cTypeFuncQuoteR, startIdx := 0, endIdx := 1 }] ≠ .outOfFuel :=
  parse_terminates (tokenOps_ok 100) _ (by intro t ht; simp at ht; subst ht; decide) _ (Nat.le_refl _)

-- ---- the error printer (Model/ErrorPrinter.lean, repaired) ---------------------------------------------------------

open ZnVerif.Proofs.ErrorPrinter in
/-- **display_total**: for every source and every cursor (also negative, also past the end) the printer returns: no index out
of range, no negative repeat count, no bad slice bounds. -/
theorem display_total (src : List Nat) (cursor : Int) :
    (∃ q col, M.fmtLine src cursor = .ok q col) ∧ M.fmtLine src cursor ≠ .panic ∧ M.fmtLine src cursor ≠ .outOfFuel :=
  ⟨ZnVerif.Proofs.ErrorPrinter.display_total src cursor, ZnVerif.Proofs.ErrorPrinter.display_never_panics src cursor⟩

open ZnVerif.Proofs.ErrorPrinter in
/-- the quoted line is a physical line of the source (the one holding the cursor's anchor) without its indentation -/
theorem quoted_line_is_physical (src : List Nat) (cursor : Int) (q : List Nat) (col : Nat)
    (h : M.fmtLine src cursor = .ok q col) :
    ∃ line ∈ S.physicalLines src, q = line.dropWhile S.isIndent ∧
      ∃ pre post a, S.IsAnchor src (S.clamp src cursor) a ∧ S.IsLineAt src a pre line post :=
  ZnVerif.Proofs.ErrorPrinter.quoted_line_is_physical src cursor q col h

open ZnVerif.Proofs.ErrorPrinter in
/-- C18's `caret_under_offender`: the caret column is the sum of the display widths (generated tables) of the characters of the
quoted line before the cursor -/
theorem caret_under_offender (src : List Nat) (cursor : Int) (q : List Nat) (col : Nat)
    (h : M.fmtLine src cursor = .ok q col) :
    ∃ pre indent post, src = pre ++ indent ++ q ++ post ∧ (∀ x ∈ indent, S.isIndent x = true) ∧
      (pre = [] ∨ ∃ p b, pre = p ++ [b] ∧ S.isBreak b = true) ∧
      col = ((q.take (S.clamp src cursor - (pre.length + indent.length))).map S.width).sum :=
  ZnVerif.Proofs.ErrorPrinter.caret_under_offender src cursor q col h

end ZnVerif.Properties.C05
