/-
C07 — the regenerated tie of the copy discipline.

Properties/C07.lean proves, on `Model/Interp.lean`, that 令 / = / element assignment / loop variables / object defaults /
the list and dictionary mutators store COPIES (`Model.dup`).  WHERE the Go code calls `value.DuplicateValue` is
regenerated from the working tree on every run (`Generated/CopySites.lean`: enclosing function, ordinal, the copied
expression, the statement the copy flows into, guards) and compared here with the list of the model's copy sites
(`Proofs/EvalSites.lean`).  Dropping one DuplicateValue — the realistic regression, invisible to the repository's tests —
makes `copy_sites_all_modelled` fail: a broken obligation of C07.
-/
import ZnVerif.Proofs.EvalSites

set_option maxRecDepth 100000

namespace ZnVerif.Properties.C07Sites
open ZnVerif ZnVerif.Generated ZnVerif.Proofs.EvalSites

/-- Every call of value.DuplicateValue in pkg/exec, pkg/runtime and pkg/value is a copy site of the model (`dup` in
evalExpr `.assign`, evalStmt `.varDecl` / `.iterate`, evalClassDecl, construct, builtinMethod 后增 前增 新增 合并 写入, and
dup's own recursion), with the same copied expression and destination, and the model has no copy site the code lacks. -/
theorem copy_sites_all_modelled : CopySites.copySites = modelledCopySites.map (·.site) := rfl

/-- all of them are mirrored inside the evaluator model -/
theorem copy_sites_in_evaluator_model : ∀ m ∈ modelledCopySites, m.mirror.inEvaluatorModel = true := by decide +kernel

/-- the scan saw the sources, and DuplicateValue is never passed around as a function value (which would hide a call) -/
theorem copy_inventory_nonempty :
    CopySites.copySites.length ≥ 12 ∧ ∀ s ∈ CopySites.copySites, s.arg ≠ "(function value)" := by decide +kernel

end ZnVerif.Properties.C07Sites
