/-
C06 — Names obey block scoping; constants cannot be reassigned.  Symbol-table core: all histories of
begin/end-scope, declare, declare-const, assign and lookup on `runtime.Scope` (model: `Model/Scope.lean`,
spec: `Spec/Scopes.lean`).  Property theorems only; helper lemmas live in `ZnVerif/Proofs/Scope*.lean`.

Vocabulary (defined in the helper modules):
  `Sim σ d`        the invariant of a scope under balanced use at nesting depth `d`: `currentDepth = d ≥ 0`,
                   `localCount ≤ len(locals), len(values)`, depths of `locals[0..localCount)` non-decreasing and
                   within `[0, d]`, every `externalRefs` key a live top-level symbol;
  `abs σ`          the frame stack the scope stands for (live symbols grouped by depth);
  `Balanced d ops` no `end` without an open block (the evaluator pairs every BeginScope with a deferred EndScope);
  `extAtRoot d ops` imports only at the top level (the parser admits 导入 only in the leading import block);
  `Segment body`   a block body: closes exactly what it opens;   `declOf n v c` = `declare`/`declareConst`.
The evaluator-level half (programs) is stated elsewhere on top of `Model/Scope.lean`.
-/
import ZnVerif.Proofs.ScopeVM

namespace ZnVerif.Properties.C06
open ZnVerif ZnVerif.SymTab ZnVerif.Spec.Scopes ZnVerif.Proofs.Scope ZnVerif.Proofs.ScopeSpec

variable {α : Type}

/-! ### Refinement: every balanced history on the symbol table is a history of the frame stack -/

/-- From any scope satisfying the invariant, every history that closes only blocks it may close and imports
only at the top level: the model never panics, answers every operation (value, nil, error code) exactly as the
frame-stack spec, ends in the state the spec ends in, and keeps the invariant. -/
theorem scope_refines_stack_from (σ : Scope α) (d d' : Nat) (h : Sim σ d) (ops : List (Op α))
    (hb : finalDepth d ops = some d') (he : extAtRoot d ops = true) :
    ∃ σ' rs, σ.run ops = .ok (σ', rs) ∧ Spec.Scopes.run (abs σ) ops = some (abs σ', rs) ∧ Sim σ' d' := by
  obtain ⟨σ', rs, h1, h2, h3⟩ := run_sim ops σ d d' h hb he
  exact ⟨σ', rs, h1, h3, h2⟩

/-- The property for `NewScope()`: all histories (induction over the operation list). -/
theorem scope_refines_stack (ops : List (Op α)) (hb : Balanced 0 ops) (he : extAtRoot 0 ops = true) :
    ∃ σ rs, (Scope.new : Scope α).run ops = .ok (σ, rs) ∧ Spec.Scopes.run initial ops = some (abs σ, rs) ∧
      ∃ d, Sim σ d := by
  unfold Balanced at hb
  cases hfd : finalDepth 0 ops with
  | none => simp [hfd] at hb
  | some d' =>
    obtain ⟨σ', rs, h1, h2, h3⟩ := scope_refines_stack_from Scope.new 0 d' sim_new ops hfd he
    exact ⟨σ', rs, h1, h2, d', h3⟩

/-- The six operations the property names (no imports): balanced is all that is needed. -/
theorem scope_refines_stack_core (ops : List (Op α)) (hb : Balanced 0 ops) (hne : ∀ op ∈ ops, Op.isExt op = false) :
    ∃ σ rs, (Scope.new : Scope α).run ops = .ok (σ, rs) ∧ Spec.Scopes.run initial ops = some (abs σ, rs) :=
  let ⟨σ, rs, h1, h2, _⟩ := scope_refines_stack ops hb (extAtRoot_noExt ops 0 hne)
  ⟨σ, rs, h1, h2⟩

/-- `Balanced` is exactly the domain of the spec: a history has a meaning as a frame-stack history iff it never
closes a block that is not open.  (So the refinement covers every history the spec speaks about.) -/
theorem spec_defined_iff_balanced (ops : List (Op α)) :
    (Spec.Scopes.run (initial : Stack α) ops).isSome ↔ Balanced 0 ops :=
  run_defined_iff ops initial (by simp [initial])

/-- Under balanced use `currentDepth` never goes negative and the slices are never indexed out of range
(`EndScope` below depth 0 is the one way to reach a negative depth; see `endScope_below_zero`). -/
theorem balanced_depth_nonneg (ops : List (Op α)) (hb : Balanced 0 ops) (he : extAtRoot 0 ops = true) :
    ∃ σ rs, (Scope.new : Scope α).run ops = .ok (σ, rs) ∧ 0 ≤ σ.currentDepth ∧
      σ.localCount ≤ σ.locals.size ∧ σ.localCount ≤ σ.values.size := by
  obtain ⟨σ, rs, h1, _, d, hs⟩ := scope_refines_stack ops hb he
  exact ⟨σ, rs, h1, by rw [hs.depth]; omega, hs.wf.1, hs.wf.2⟩

-- non-vacuity: a history with nesting, shadowing, a constant and an import meets both hypotheses, and its answers
-- are the expected ones
def demo : List (Op Nat) :=
  [.declareExternal "f" 9 2, .declare "a" 1, .beginScope, .declare "a" 2, .lookup "a", .declareConst "k" 3,
   .assign "k" 4, .beginScope, .assign "a" 5, .endScope, .lookup "a", .endScope, .lookup "a", .lookup "k", .lookupM "f"]
example : Balanced 0 demo ∧ extAtRoot 0 demo = true := by decide
example : (Spec.Scopes.run initial demo).map (·.2) =
    some [.done, .done, .done, .done, .val 2, .done, .err 44, .done, .done, .done, .val 5, .done, .val 1,
          .undefined, .valM 9 2] := by decide

/-- What the hypothesis `Balanced` excludes, as written in scope.go: an `EndScope` at depth 0 makes the depth −1
and forgets every symbol, top-level ones included. -/
theorem endScope_below_zero :
    (Scope.new : Scope Nat).run [.declare "a" 1, .endScope, .lookup "a"] =
      .ok (⟨#[⟨"a", 0, false⟩], 0, -1, #[1], []⟩, [.done, .done, .undefined]) := by rfl

/-- What the hypothesis `extAtRoot` excludes, as written in scope.go: `externalRefs` entries survive `EndScope`, so a
symbol declared later at the same index inherits the module id of a popped import (spec: −1, model and Go: 7). -/
theorem stale_externalRef_observable :
    ((Scope.new : Scope Nat).run [.beginScope, .declareExternal "a" 1 7, .endScope, .declare "a" 2, .lookupM "a"] =
        .ok (⟨#[⟨"a", 0, false⟩], 1, 0, #[2], [(0, 7)]⟩, [.done, .done, .done, .done, .valM 2 7])) ∧
    (Spec.Scopes.run (initial : Stack Nat) [.beginScope, .declareExternal "a" 1 7, .endScope, .declare "a" 2, .lookupM "a"]).map (·.2) =
        some [.done, .done, .done, .done, .valM 2 (-1)] := by
  constructor
  · rfl
  · decide

/-! ### Corollaries, stated outright for every scope satisfying the invariant -/

/-- **A name declared in a block is gone after the block's end**: whatever the block body does (any well
bracketed body, including assignments to the name and deeper redeclarations), after `end` a lookup of the name
answers exactly what it answered before the block — not found if there was no outer declaration, the outer
value if there was one. -/
theorem end_scope_forgets (σ : Scope α) (d : Nat) (h : Sim σ d) (name : String) (v : α) (c : Bool)
    (body : List (Op α)) (hseg : Segment body) (hne : ∀ op ∈ body, Op.isExt op = false) :
    ∃ σ' rs r, σ.run (.beginScope :: declOf name v c :: (body ++ [.endScope])) = .ok (σ', rs) ∧ Sim σ' d ∧
      σ.step (.lookup name) = .ok (σ, r) ∧ σ'.step (.lookup name) = .ok (σ', r) := by
  have hfd : finalDepth 0 (.beginScope :: declOf name v c :: (body ++ [.endScope])) = some 0 := by
    rw [show finalDepth 0 (Op.beginScope :: declOf name v c :: (body ++ [.endScope])) =
      finalDepth 1 (declOf name v c :: (body ++ [.endScope])) from rfl, finalDepth_declOf, finalDepth_append]
    have := finalDepth_shift body 0 0 1 hseg
    simp only [Nat.zero_add] at this
    rw [this]; rfl
  have hne' : ∀ op ∈ (.beginScope :: declOf name v c :: (body ++ [.endScope]) : List (Op α)), Op.isExt op = false := by
    intro op hop
    simp only [List.mem_cons, List.mem_append, List.mem_nil_iff, or_false] at hop
    rcases hop with rfl | rfl | hop | rfl
    · rfl
    · exact isExt_declOf name v c
    · exact hne op hop
    · rfl
  obtain ⟨σ', rs, h1, h2, h3⟩ := run_transfer h _ 0 hfd hne'
  rw [Nat.zero_add] at h2
  have hforget := block_forgets (abs σ) (abs_ne_nil h) name v c body hseg (abs σ') rs h3
  refine ⟨σ', rs, lookRes (lookupB (abs σ) name), h1, h2, model_lookup h name, ?_⟩
  rw [model_lookup h2 name, hforget]

/-- **An inner declaration shadows an outer one until the inner block ends**: inside the block — at any nesting
depth below it, after any body that does not itself declare or assign the name — a lookup answers the block's
own value, whatever was visible outside.  (`end_scope_forgets` is the other half: the outer reading is back
after `end`.) -/
theorem shadow_until_end (σ : Scope α) (d : Nat) (h : Sim σ d) (name : String) (v : α) (c : Bool)
    (body : List (Op α)) (k : Nat) (hfd : finalDepth 0 body = some k) (hnt : ∀ op ∈ body, ¬ touches name op)
    (hne : ∀ op ∈ body, Op.isExt op = false) :
    ∃ σ' rs, σ.run (.beginScope :: declOf name v c :: body) = .ok (σ', rs) ∧ Sim σ' (d + 1 + k) ∧
      σ'.step (.lookup name) = .ok (σ', .val v) := by
  have hfd' : finalDepth 0 (.beginScope :: declOf name v c :: body) = some (k + 1) := by
    rw [show finalDepth 0 (Op.beginScope :: declOf name v c :: body) =
      finalDepth 1 (declOf name v c :: body) from rfl, finalDepth_declOf]
    have := finalDepth_shift body 0 k 1 hfd
    simpa using this
  have hne' : ∀ op ∈ (.beginScope :: declOf name v c :: body : List (Op α)), Op.isExt op = false := by
    intro op hop
    simp only [List.mem_cons] at hop
    rcases hop with rfl | rfl | hop
    · rfl
    · exact isExt_declOf name v c
    · exact hne op hop
  obtain ⟨σ', rs, h1, h2, h3⟩ := run_transfer h _ (k + 1) hfd' hne'
  have hsh := block_shadows (abs σ) name v c body k hfd hnt (abs σ') rs h3
  refine ⟨σ', rs, h1, by rw [show d + 1 + k = k + 1 + d by omega]; exact h2, ?_⟩
  rw [model_lookup h2 name, hsh]; rfl

/-- **Declaring a name twice in the same block is an error**: once the name has been declared in the current
block (or was already there, so that this declaration itself failed), then after any well bracketed continuation
a further declaration of the name in that block answers NameRedeclared (43) and leaves the scope untouched. -/
theorem redeclare_same_block_error (σ : Scope α) (d : Nat) (h : Sim σ d) (name : String) (v : α) (c : Bool)
    (body : List (Op α)) (hseg : Segment body) (hne : ∀ op ∈ body, Op.isExt op = false)
    (σ₁ : Scope α) (rs : List (Res α)) (hrun : σ.run (declOf name v c :: body) = .ok (σ₁, rs)) (v' : α) (c' : Bool) :
    σ₁.step (declOf name v' c') = .ok (σ₁, .err 43) := by
  have hfd : finalDepth 0 (declOf name v c :: body) = some 0 := by rw [finalDepth_declOf]; exact hseg
  have hne' : ∀ op ∈ (declOf name v c :: body : List (Op α)), Op.isExt op = false := by
    intro op hop
    simp only [List.mem_cons] at hop
    rcases hop with rfl | hop
    · exact isExt_declOf name v c
    · exact hne op hop
  obtain ⟨σ', rs', h1, h2, h3⟩ := run_transfer h _ 0 hfd hne'
  rw [hrun] at h1
  simp only [GoRes.ok.injEq, Prod.mk.injEq] at h1
  obtain ⟨rfl, rfl⟩ := h1
  rw [Nat.zero_add] at h2
  exact model_step_err h2 _ (opOK_declOf d name v' c') _ 43
    (block_keeps_binding (abs σ) name v c body hseg (abs σ₁) rs h3 v' c')

/-- **A constant cannot be reassigned and a rejected assignment leaves the old value intact**: after a successful
`declareConst name w`, and any continuation (nested blocks included) that does not redeclare the name, assigning
it answers AssignToConstant (44), the scope is untouched, and a lookup still answers `w`. -/
theorem const_assign_error_keeps_value (σ : Scope α) (d : Nat) (h : Sim σ d) (name : String) (w : α)
    (body : List (Op α)) (k : Nat) (hfd : finalDepth 0 body = some k) (hnt : ∀ op ∈ body, ¬ touches name op)
    (hne : ∀ op ∈ body, Op.isExt op = false)
    (σ₁ : Scope α) (rs : List (Res α)) (hrun : σ.run (.declareConst name w :: body) = .ok (σ₁, .done :: rs)) (v : α) :
    σ₁.step (.assign name v) = .ok (σ₁, .err 44) ∧ σ₁.step (.lookup name) = .ok (σ₁, .val w) := by
  have hfd' : finalDepth 0 (.declareConst name w :: body) = some k := by simp only [finalDepth]; exact hfd
  have hne' : ∀ op ∈ (.declareConst name w :: body : List (Op α)), Op.isExt op = false := by
    intro op hop
    simp only [List.mem_cons] at hop
    rcases hop with rfl | hop
    · rfl
    · exact hne op hop
  obtain ⟨σ', rs', h1, h2, h3⟩ := run_transfer h _ k hfd' hne'
  rw [hrun] at h1
  simp only [GoRes.ok.injEq, Prod.mk.injEq] at h1
  obtain ⟨rfl, rfl⟩ := h1
  have hl := const_stays (abs σ) name w body k hfd hnt (abs σ₁) rs h3
  constructor
  · apply model_step_err h2 (.assign name v) True.intro (abs σ₁) 44
    simp [step, hl]
  · rw [model_lookup h2 name, hl]; rfl

/-- **Assigning a name that is not declared (or no longer visible) is an error**: NameNotDefined (42), scope
untouched. -/
theorem assign_undeclared_error (σ : Scope α) (d : Nat) (h : Sim σ d) (name : String) (v : α)
    (hun : σ.step (.lookup name) = .ok (σ, .undefined)) : σ.step (.assign name v) = .ok (σ, .err 42) := by
  rw [model_lookup h name] at hun
  simp only [GoRes.ok.injEq, Prod.mk.injEq, true_and] at hun
  apply model_step_err h (.assign name v) True.intro (abs σ) 42
  cases hl : lookupB (abs σ) name with
  | none => simp [step, hl]
  | some b => rw [hl] at hun; simp [lookRes] at hun

/-- A name can be used only after its declaration: a fresh scope knows no name. -/
theorem lookup_before_declare (name : String) :
    (Scope.new : Scope α).step (.lookup name) = .ok (Scope.new, .undefined) := by rfl

-- non-vacuity of the corollaries: concrete bodies meeting the hypotheses, with the answers computed by the model
def body1 : List (Op Nat) := [.assign "x" 7, .beginScope, .declare "x" 8, .assign "x" 9, .endScope, .lookup "x"]
example : Segment body1 ∧ (∀ op ∈ body1, Op.isExt op = false) := by decide
-- outer x = 1, inner block declares x = 2 and runs body1: afterwards x reads 1 again
example : ((Scope.new : Scope Nat).run (.declare "x" 1 :: .beginScope :: declOf "x" 2 false :: (body1 ++ [.endScope, .lookup "x"]))) =
    .ok (⟨#[⟨"x", 0, false⟩, ⟨"x", 1, false⟩, ⟨"x", 2, false⟩], 1, 0, #[1, 7, 9], []⟩,
      [.done, .done, .done, .done, .done, .done, .done, .done, .val 7, .done, .val 1]) := by rfl
def body2 : List (Op Nat) := [.declare "y" 5, .beginScope, .assign "y" 6, .lookup "x"]
example : finalDepth 0 body2 = some 1 ∧ (∀ op ∈ body2, ¬ touches "x" op) ∧ (∀ op ∈ body2, Op.isExt op = false) := by
  refine ⟨by decide, ?_, by decide⟩
  intro op hop
  simp only [body2, List.mem_cons, List.mem_nil_iff, or_false] at hop
  rcases hop with rfl | rfl | rfl | rfl <;> simp [touches, writes]
example : (∃ d, Sim (Scope.new : Scope Nat) d) := ⟨0, sim_new⟩

/-! ### Predefined names, through the VM's wrappers (`FindElement`, `Declare*Element`, `SetElement`) -/

/-- All balanced histories through the wrappers of a VM that is running a module, for any table of predefined
names: never a panic; every answer is the one of the frame-stack spec with predefined names consulted first,
refused (43) by every declaration and rejected (whatever the code) by assignment. -/
theorem vm_refines (g : List (String × α)) (mid : Nat) (ops : List (Op α)) (hb : Balanced 0 ops)
    (he : extAtRoot 0 ops = true) :
    ∃ vm' rs s' rs', (⟨g, mid, some Scope.new⟩ : VMScope α).run ops = .ok (vm', rs) ∧
      vmRun ⟨g, mid, initial⟩ ops = some (s', rs') ∧ agreeAll rs' rs := by
  unfold Balanced at hb
  cases hfd : finalDepth 0 ops with
  | none => simp [hfd] at hb
  | some d' =>
    obtain ⟨vm', σ', rs, rs', h1, _, h3, h4, _⟩ := vm_run_sim ops _ _ 0 d' (vmSim_new g mid) hfd he
    exact ⟨vm', rs, _, rs', h1, h3, h4⟩

/-- **Predefined names are found first**, in every VM state — whatever the scope holds, even with no scope at all. -/
theorem globals_found_first (vm : VMScope α) (n : String) (gv : α) (hg : globalLookup vm.globals n = some gv) :
    vm.findElement n = .ok gv ∧ vm.findElementWithModuleID n = .ok (gv, -1) := by
  simp [VMScope.findElement, VMScope.findElementWithModuleID, hg]

/-- **Predefined names cannot be declared**, in every VM state: each of the three declaring wrappers answers
NameRedeclared (43) when a module is running (NameNotDefined when none is) and the VM is untouched. -/
theorem globals_not_declarable (vm : VMScope α) (n : String) (gv : α) (hg : globalLookup vm.globals n = some gv)
    (v : α) (m : Nat) :
    vm.step (.declare n v) = .ok (vm, .err (if vm.scope.isSome then 43 else 42)) ∧
    vm.step (.declareConst n v) = .ok (vm, .err (if vm.scope.isSome then 43 else 42)) ∧
    vm.step (.declareExternal n v m) = .ok (vm, .err (if vm.scope.isSome then 43 else 42)) := by
  obtain ⟨g, mid, sc⟩ := vm
  cases sc <;>
    simp [VMScope.step, VMScope.declareElement, VMScope.declareConstElement, VMScope.declareExternalElement,
      VMScope.declareWith, VMScope.ofErr, errNameRedeclared, errNameNotDefined] <;>
    simp_all

/-- **Predefined names cannot be assigned**, after every balanced history: `SetElement` does not look at `vm.globals`,
but since no local of a predefined name can have been declared, `SetValue` finds nothing: the assignment is rejected
(as NameNotDefined, 42), the VM is untouched, and the name still reads its predefined value. -/
theorem globals_not_assignable (g : List (String × α)) (mid : Nat) (ops : List (Op α)) (hb : Balanced 0 ops)
    (he : extAtRoot 0 ops = true) (vm' : VMScope α) (rs : List (Res α))
    (hrun : (⟨g, mid, some Scope.new⟩ : VMScope α).run ops = .ok (vm', rs))
    (n : String) (gv : α) (hg : globalLookup g n = some gv) (v : α) :
    vm'.step (.assign n v) = .ok (vm', .err 42) ∧ vm'.step (.lookup n) = .ok (vm', .val gv) := by
  unfold Balanced at hb
  cases hfd : finalDepth 0 ops with
  | none => simp [hfd] at hb
  | some d' =>
    obtain ⟨vm'', σ', rs', _, h1, hs, _, _, hgl⟩ := vm_run_sim ops _ _ 0 d' (vmSim_new g mid) hfd he
    rw [hrun] at h1
    simp only [GoRes.ok.injEq, Prod.mk.injEq] at h1
    obtain ⟨rfl, rfl⟩ := h1
    obtain ⟨g', mid', sc⟩ := vm'
    have hsc : sc = some σ' := hs.scope
    subst hsc
    have hgg : g' = g := hgl
    subst hgg
    have hg' : gfind g' n = some gv := by rw [← globalLookup_eq]; exact hg
    have hset := setValue_global hs.sim g' hs.names n gv hg' v
    constructor
    · simp [VMScope.step, VMScope.setElement, hset, VMScope.ofErr]
    · simp [VMScope.step, VMScope.findElement, hg]

-- non-vacuity: a VM with two predefined names; a history that tries to declare, assign and read one of them
def vmDemo : List (Op Nat) := [.declare "G" 1, .declare "x" 2, .beginScope, .assign "G" 3, .lookup "G", .lookup "x", .lookupM "x"]
example : Balanced 0 vmDemo ∧ extAtRoot 0 vmDemo = true := by decide
example : globalLookup [("G", 100), ("H", 200)] "G" = some 100 := by decide
example : (⟨[("G", 100), ("H", 200)], 0, some Scope.new⟩ : VMScope Nat).run vmDemo =
    .ok (⟨[("G", 100), ("H", 200)], 0, some ⟨#[⟨"x", 0, false⟩], 1, 1, #[2], []⟩⟩,
      [.err 43, .done, .done, .err 42, .val 100, .val 2, .valM 2 0]) := by rfl

end ZnVerif.Properties.C06
