/-
C15 — Modules load once, export read-only names, and cycles are reported.

Property theorems about the loader model (Model/Modules.lean, mirroring the repaired Go code) against the manual's
reading (Spec/ModuleSem.lean).  All of them quantify over every finite file table, every library table, every order
oracle (Go map iteration at the two `range` sites) and every amount of call fuel; `run` is `LoadFile(main).Execute`.
`Variant.repaired` is the tree with fix 420e70b (a module name with a part that is not a plain file name is error 60);
the theorems are about it.  `Variant.pinned` is the finder before that fix: the examples about it are the checked
NEGATIONS of `valid_name_path_injective`, `path_stays_under_root` and `body_runs_at_most_once` on the pinned tree.
Helper lemmas live in Proofs/Modules*.lean.
-/
import ZnVerif.Proofs.ModulesPath
import ZnVerif.Proofs.ModulesView
import ZnVerif.Proofs.ModulesFuel
import ZnVerif.Proofs.ModulesFile

namespace ZnVerif.Properties.C15
open ZnVerif.Model.Modules
open ZnVerif.Spec.ModuleSem
open ZnVerif.Proofs.Modules
open ZnVerif.Proofs.ModulesDfs

/-! ## name → path -/

/-- `A-B-C` resolves to `A/B/C.zn` below the main file's directory when A, B, C are plain file names: the spec's `resolve`
    says so, and the finder of `LoadFile` looks at exactly that path (found ⇒ that file's source, absent ⇒
    ModuleNotFound).  (`hfile` is new with fix 420e70b: before it the statement held for the model without it, because
    the model did not describe `filepath.Join`'s cleaning — see `pinned_names_share_a_file` for what the code did.) -/
theorem path_resolution (files : Files) (segs : List Name) (hne : segs ≠ []) (hplain : ∀ s, s ∈ segs → chDash ∉ s)
    (hfile : ∀ s, s ∈ segs → plainSegment s = true)
    (hcustom : (parseLibName (joinDash segs)).libType = .custom) :
    resolve (joinDash segs) = .file (withExt segs) ∧
    finder .repaired files (parseLibName (joinDash segs)) =
      (match assoc (withExt segs) files with
       | some s => .src s
       | none => .notFound) := by
  have hseg : segments (joinDash segs) = segs := by
    rw [segments_eq_splitOn]; exact splitOn_joinDash segs hne hplain
  have hpn : plainName (joinDash segs) = true := by
    unfold plainName; rw [hseg]; exact List.all_eq_true.2 hfile
  constructor
  · rw [resolve_custom hcustom, hpn, hseg]; rfl
  · rw [finder_custom files hcustom, hpn, hseg]
    cases assoc (withExt segs) files <;> rfl

/-- the path is the directory segments followed by the last segment with `.zn` appended -/
theorem path_shape : ∀ (segs : List Name) (h : segs ≠ []),
    withExt segs = segs.dropLast ++ [segs.getLast h ++ [0x2E, 0x7A, 0x6E]]
  | [x], _ => rfl
  | x :: y :: r, _ => by
    have ih := path_shape (y :: r) (by simp)
    simp only [withExt] at ih ⊢
    rw [ih]
    simp

/-- for every module name the model's finder and the spec's `resolve` agree: a name whose parts are all plain file names
    is looked up at `A/B/C.zn`, any other name denotes no module -/
theorem finder_agrees_with_spec (files : Files) (n : Name) (hc : (parseLibName n).libType = .custom) :
    resolve n = (if plainName n then .file (withExt (segments n)) else .nothing) ∧
    finder .repaired files (parseLibName n) =
      (if plainName n then
        match assoc (withExt (segments n)) files with
        | some s => .src s
        | none => .notFound
      else .notFound) :=
  ⟨resolve_custom hc, finder_custom files hc⟩

/-- the test the repaired `LoadFile` makes on the parts of a name (`part == "" || part == "." || part == ".." ||
    strings.ContainsAny(part, "/\\")` rejects) is the spec's "every part is a plain file name" -/
theorem validity_test_is_plain_name (n : Name) (hc : (parseLibName n).libType = .custom) :
    validParts (parseLibName n).libPath = plainName n := by
  rw [parseLibName_custom_path hc]; exact validParts_eq_plainName n

/-- the path a name denotes for the finder is the path the spec gives it -/
theorem resolveName_agrees_with_spec (n : Name) (p : Path) : resolveName .repaired n = some p ↔ resolve n = .file p := by
  rcases libType_cases n with hty | hty
  · rw [resolveName_std hty]
    have hl := (isLibName_iff n).2 hty
    unfold isLibName at hl
    unfold resolve
    split
    · simp
    · simp at hl
  · rw [resolveName_custom hty, resolve_custom hty]
    cases plainName n <;> simp

/-- Two valid names resolve to the same path iff they are the same name — for all names: no file has two names. -/
theorem valid_name_path_injective (a b : Name) (pa pb : Path) (ha : resolveName .repaired a = some pa)
    (hb : resolveName .repaired b = some pb) : pa = pb ↔ a = b := by
  constructor
  · intro h; subst h; exact resolveName_repaired_inj ha hb
  · intro h; subst h; rw [ha] at hb; injection hb

/-- the same in the spec's terms -/
theorem valid_name_path_injective_spec (a b : Name) (pa pb : Path) (ha : resolve a = .file pa)
    (hb : resolve b = .file pb) : pa = pb ↔ a = b :=
  valid_name_path_injective a b pa pb ((resolveName_agrees_with_spec a pa).2 ha) ((resolveName_agrees_with_spec b pb).2 hb)

/-- The resolved file lies under the main file's directory: the path is not empty and no component of it is `..` (nor
    `.`, empty, or containing a separator) — every component is a plain directory or file name. -/
theorem path_stays_under_root (n : Name) (p : Path) (h : resolveName .repaired n = some p) :
    p ≠ [] ∧ ∀ c, c ∈ p → c ≠ dotdot ∧ PlainComp c := by
  obtain ⟨h1, h2⟩ := resolveName_repaired_plain h
  exact ⟨h1, fun c hc => ⟨(h2 c hc).2.2.1, h2 c hc⟩⟩

/-- … whatever the file table holds (also entries outside that directory): a source the finder returns is the table's
    entry at a path of plain components -/
theorem finder_reads_under_root (files : Files) (n : Name) (s : ModuleSrc)
    (h : finder .repaired files (parseLibName n) = .src s) :
    ∃ p, resolveName .repaired n = some p ∧ assoc p files = some s ∧ ∀ c, c ∈ p → c ≠ dotdot ∧ PlainComp c := by
  rcases libType_cases n with hty | hty
  · have : finder .repaired files (parseLibName n) = .emptySrc := by unfold finder; rw [hty]
    rw [this] at h; cases h
  · rw [finder_custom files hty] at h
    cases hp : plainName n with
    | false => rw [hp] at h; simp at h
    | true =>
      rw [hp] at h
      simp only [if_true] at h
      have hr : resolveName .repaired n = some (withExt (segments n)) := by rw [resolveName_custom hty, hp]; rfl
      cases hs : assoc (withExt (segments n)) files with
      | none => rw [hs] at h; cases h
      | some s' =>
        rw [hs] at h; injection h with h; subst h
        exact ⟨_, hr, hs, (path_stays_under_root n _ hr).2⟩

/-- for a name the repaired code accepts, `filepath.Join`'s cleaning is the identity, so the fix changes nothing for
    such names: the pinned finder (join and clean) and the repaired one (test, then join) answer alike -/
theorem fix_changes_only_rejected_names (files : Files) (n : Name) (hc : (parseLibName n).libType = .custom)
    (hp : plainName n = true) : finder .pinned files (parseLibName n) = finder .repaired files (parseLibName n) := by
  have hv : validParts (parseLibName n).libPath = true := by rw [validity_test_is_plain_name n hc]; exact hp
  unfold finder
  rw [hc]
  dsimp only
  unfold resolveParts
  dsimp only
  rw [hv]
  simp only [if_true]
  cases ha : addZn (parseLibName n).libPath with
  | none => rfl
  | some q =>
    dsimp only
    have hne : (parseLibName n).libPath ≠ [] := by intro h; rw [h] at ha; simp [addZn] at ha
    rw [addZn_eq_withExt _ hne] at ha
    injection ha with ha
    rw [← ha, cleanPath_valid _ hv]

/-- `@L` is a library name; an import of it consults the registered libraries under exactly that name -/
theorem path_resolution_library (l : Name) :
    resolve (chAt :: l) = .lib (chAt :: l) ∧ (parseLibName (chAt :: l)).libType = .std := by
  constructor
  · rfl
  · simp [parseLibName]

-- non-vacuity: 目-内-丙 ↦ 目/内/丙.zn
example : resolve [0x76EE, 0x2D, 0x5185, 0x2D, 0x4E19] = .file [[0x76EE], [0x5185], [0x4E19, 0x2E, 0x7A, 0x6E]] := by
  decide
example : joinDash [[0x76EE], [0x5185], [0x4E19]] = [0x76EE, 0x2D, 0x5185, 0x2D, 0x4E19] := by decide
example : resolveName .repaired [0x76EE, 0x2D, 0x5185, 0x2D, 0x4E19] = some [[0x76EE], [0x5185], [0x4E19, 0x2E, 0x7A, 0x6E]] := by
  decide
-- 甲--乙, 甲-.-乙, 丙-..-甲-乙, 甲/乙, 甲\乙, ..-外, the empty name: no module
example : resolve [0x7532, 0x2D, 0x2D, 0x4E59] = .nothing := by decide
example : resolve [0x7532, 0x2D, 0x2E, 0x2D, 0x4E59] = .nothing := by decide
example : resolve [0x4E19, 0x2D, 0x2E, 0x2E, 0x2D, 0x7532, 0x2D, 0x4E59] = .nothing := by decide
example : resolve [0x7532, 0x2F, 0x4E59] = .nothing := by decide
example : resolve [0x7532, 0x5C, 0x4E59] = .nothing := by decide
example : resolve [0x2E, 0x2E, 0x2D, 0x5916] = .nothing := by decide
example : resolve [] = .nothing := by decide
-- a dot inside a part is fine: 甲.乙 ↦ 甲.乙.zn, ..甲 ↦ ..甲.zn
example : resolve [0x7532, 0x2E, 0x4E59] = .file [[0x7532, 0x2E, 0x4E59, 0x2E, 0x7A, 0x6E]] := by decide
example : resolve [0x2E, 0x2E, 0x7532] = .file [[0x2E, 0x2E, 0x7532, 0x2E, 0x7A, 0x6E]] := by decide

/-! ### the pinned finder (before fix 420e70b): the negations, on the witnesses of the finding -/

/-- 甲-乙, 甲--乙, 甲-.-乙, 丙-..-甲-乙, 甲/乙 are five names of the one file 甲/乙.zn: the map name ↦ path of the pinned tree
    is not injective -/
theorem pinned_names_share_a_file :
    resolveName .pinned [0x7532, 0x2D, 0x4E59] = some [[0x7532], [0x4E59, 0x2E, 0x7A, 0x6E]] ∧
    resolveName .pinned [0x7532, 0x2D, 0x2D, 0x4E59] = some [[0x7532], [0x4E59, 0x2E, 0x7A, 0x6E]] ∧
    resolveName .pinned [0x7532, 0x2D, 0x2E, 0x2D, 0x4E59] = some [[0x7532], [0x4E59, 0x2E, 0x7A, 0x6E]] ∧
    resolveName .pinned [0x4E19, 0x2D, 0x2E, 0x2E, 0x2D, 0x7532, 0x2D, 0x4E59] = some [[0x7532], [0x4E59, 0x2E, 0x7A, 0x6E]] ∧
    resolveName .pinned [0x7532, 0x2F, 0x4E59] = some [[0x7532], [0x4E59, 0x2E, 0x7A, 0x6E]] := by decide

/-- ..-外 is the file 外.zn in the PARENT of the main file's directory -/
theorem pinned_path_leaves_root :
    resolveName .pinned [0x2E, 0x2E, 0x2D, 0x5916] = some [dotdot, [0x5916, 0x2E, 0x7A, 0x6E]] := by decide

/-! ## the cycle check -/

/-- the DFS answers true only if the dependency graph has a cycle — for every start order -/
theorem dfs_sound (g : Graph) (π : List Nat) : checkCircular g π = some true → HasCycle g :=
  checkCircular_sound g π

/-- the DFS finds every cycle — for every start order that enumerates the nodes (Go: `for node := range adj`) -/
theorem dfs_complete (g : Graph) (π : List Nat) (hπ : ∀ v, v ∈ nodes g → v ∈ π) :
    HasCycle g → checkCircular g π = some true :=
  checkCircular_complete g π hπ

/-- the DFS never runs out of fuel: it terminates with an answer -/
theorem dfs_total (g : Graph) (π : List Nat) : ∃ b, checkCircular g π = some b :=
  checkCircular_total g π

/-- the answer does not depend on the map iteration order -/
theorem dfs_order_independent (g : Graph) (π₁ π₂ : List Nat) (h₁ : ∀ v, v ∈ nodes g → v ∈ π₁)
    (h₂ : ∀ v, v ∈ nodes g → v ∈ π₂) : checkCircular g π₁ = checkCircular g π₂ := by
  obtain ⟨b1, e1⟩ := dfs_total g π₁
  obtain ⟨b2, e2⟩ := dfs_total g π₂
  rw [e1, e2]
  cases b1 <;> cases b2
  · rfl
  · have := dfs_complete g π₁ h₁ (dfs_sound g π₂ e2); rw [e1] at this; cases this
  · have := dfs_complete g π₂ h₂ (dfs_sound g π₁ e1); rw [e2] at this; cases this
  · rfl

-- non-vacuity: a 3-cycle hanging off a chain, a self-loop, a diamond
example : checkCircular [(0, 1), (1, 2), (2, 3), (3, 1)] [3, 2, 1, 0] = some true := by decide
example : HasCycle [(0, 1), (1, 2), (2, 3), (3, 1)] :=
  ⟨3, 1, by simp, .cons (b := 2) (by simp) (.cons (b := 3) (by simp) (.refl 3))⟩
example : checkCircular [(0, 0)] [0] = some true := by decide
example : checkCircular [(0, 1), (0, 2), (1, 3), (2, 3)] [2, 0, 3, 1] = some false := by decide

/-! ## loading -/

/-- number of times the body of module `m` (one entry of the module registry, i.e. one NAME) was started -/
def bodyStarts (log : List Ev) (m : Nat) : Nat := log.count (Ev.body m)

/-- Each registered module's body runs at most once per program run, however many modules import it — whether the run
    completes or fails.  (This was `body_runs_at_most_once` before the finding: it is about NAMES, and it also holds for
    the pinned finder, where one file has several names.) -/
theorem module_body_runs_at_most_once (O : Oracle) (hO : OracleOK O) (files : Files) (libs : Libs) (callFuel : Nat)
    (mainPath : Path) (m : Nat) : bodyStarts (run .repaired O files libs callFuel mainPath).vm.log m ≤ 1 := by
  unfold bodyStarts run
  cases hm : assoc mainPath files with
  | none => simp [VM.init]
  | some src =>
    dsimp only
    have h := runWith_spec (files := files) (mainSrc := src) (O := O) (libs := libs) (lf := loadFuelFor files)
      (cf := callFuel) hO
    rw [count_body_eq]
    cases hr : runWith .repaired O files libs (loadFuelFor files) callFuel src with
    | ok vm => rw [hr] at h; exact List.nodup_iff_count.1 h.1.bodies m
    | err e vm => rw [hr] at h; exact List.nodup_iff_count.1 h.1.bodies m

/-- Each module body runs at most once per program run, however many modules import it and under whatever names —
    whether the run completes or fails: for every file table, import graph and FILE `p` (a path below the main file's
    directory), the number of body starts of modules that execute `p` (`fileOfModule`: the main file for the main
    module, the resolved path of its name for any other) is at most one.  This includes the main file, which a module
    may name (导入“主” inside 主.zn): that import never completes. -/
theorem body_runs_at_most_once (O : Oracle) (hO : OracleOK O) (files : Files) (libs : Libs) (callFuel : Nat)
    (mainPath : Path) (p : Path) :
    fileBodyStarts .repaired mainPath (run .repaired O files libs callFuel mainPath).vm p ≤ 1 :=
  file_body_once hO files libs callFuel mainPath p

/-- When a module's own statements start, every module named by its import statements has already been loaded
    completely (its `done` event is earlier in the log). -/
theorem imports_before_body (O : Oracle) (hO : OracleOK O) (files : Files) (libs : Libs) (callFuel : Nat)
    (mainPath : Path) (mainSrc : ModuleSrc) (hmain : assoc mainPath files = some mainSrc)
    (later earlier : List Ev) (m : Nat)
    (hlog : (run .repaired O files libs callFuel mainPath).vm.log = later ++ Ev.body m :: earlier)
    (nm : Name) (src : ModuleSrc) (hname : (namesOf (run .repaired O files libs callFuel mainPath).vm)[m]? = some nm)
    (hsrc : msrc files mainSrc nm = some src) (imp : Imp) (himp : imp ∈ src.imports)
    (hc : (parseLibName imp.name).libType = .custom) :
    ∃ id, assoc imp.name (run .repaired O files libs callFuel mainPath).vm.nameMap = some id ∧ Ev.done id ∈ earlier := by
  unfold run at hlog hname ⊢
  rw [hmain] at hlog hname ⊢
  dsimp only at hlog hname ⊢
  have h := runWith_spec (files := files) (mainSrc := mainSrc) (O := O) (libs := libs) (lf := loadFuelFor files)
    (cf := callFuel) hO
  cases hr : runWith .repaired O files libs (loadFuelFor files) callFuel mainSrc with
  | ok vm =>
    rw [hr] at h hlog hname
    obtain ⟨id, h1, h2, _⟩ := h.1.before later m earlier hlog nm src hname hsrc imp himp hc
    exact ⟨id, h1, h2⟩
  | err e vm =>
    rw [hr] at h hlog hname
    obtain ⟨id, h1, h2, _⟩ := h.1.before later m earlier hlog nm src hname hsrc imp himp hc
    exact ⟨id, h1, h2⟩

/-- An import of a module whose file is missing is error 60 (nothing is allocated, nothing runs). -/
theorem missing_module_60 (O : Oracle) (files : Files) (libs : Libs) (callFuel fuel : Nat) (vm : VM) (imp : Imp)
    (hc : (parseLibName imp.name).libType = .custom) (hnew : vm.findModuleByName imp.name = none)
    (hmissing : assoc (withExt (segments imp.name)) files = none) :
    evalImport O libs (loadModule .repaired O files libs callFuel (fuel + 1)) vm imp = .err (.code 60) vm := by
  have hf : finder .repaired files (parseLibName imp.name) = .notFound := by
    rw [finder_custom files hc, hmissing]
    cases plainName imp.name <;> rfl
  unfold evalImport
  dsimp only
  rw [hc]
  dsimp only
  rw [hnew]
  dsimp only
  unfold loadModule
  rw [hf]

/-- An import of a name with a part that is not a plain file name (empty, `.`, `..`, containing `/` or `\`) denotes no
    module and is error 60 — for every file table (whatever files exist, nothing is looked up), nothing is allocated,
    nothing runs. -/
theorem invalid_name_is_60 (O : Oracle) (files : Files) (libs : Libs) (callFuel fuel : Nat) (vm : VM) (imp : Imp)
    (hc : (parseLibName imp.name).libType = .custom) (hnew : vm.findModuleByName imp.name = none)
    (hinv : plainName imp.name = false) :
    resolve imp.name = .nothing ∧ resolveName .repaired imp.name = none ∧
    evalImport O libs (loadModule .repaired O files libs callFuel (fuel + 1)) vm imp = .err (.code 60) vm := by
  have hf : finder .repaired files (parseLibName imp.name) = .notFound := by
    rw [finder_custom files hc, hinv]; rfl
  refine ⟨by rw [resolve_custom hc, hinv]; rfl, by rw [resolveName_custom hc, hinv]; rfl, ?_⟩
  unfold evalImport
  dsimp only
  rw [hc]
  dsimp only
  rw [hnew]
  dsimp only
  unfold loadModule
  rw [hf]

/-- … so every module that a run loaded (other than the main module and libraries) has a plain name -/
theorem loaded_module_has_plain_name (O : Oracle) (hO : OracleOK O) (files : Files) (libs : Libs) (callFuel : Nat)
    (mainPath : Path) (m : Nat) (nm : Name) (hdone : Ev.done m ∈ (run .repaired O files libs callFuel mainPath).vm.log)
    (hname : (namesOf (run .repaired O files libs callFuel mainPath).vm)[m]? = some nm) :
    nm = mainName ∨ plainName nm = true := by
  unfold run at hdone hname
  cases hm : assoc mainPath files with
  | none => rw [hm] at hdone; simp [VM.init] at hdone
  | some src =>
    rw [hm] at hdone hname
    dsimp only at hdone hname
    have h := runWith_spec (files := files) (mainSrc := src) (O := O) (libs := libs) (lf := loadFuelFor files)
      (cf := callFuel) hO
    have hS : SInv files src (finish (runWith .repaired O files libs (loadFuelFor files) callFuel src)).vm := by
      cases hr : runWith .repaired O files libs (loadFuelFor files) callFuel src with
      | ok vm => rw [hr] at h; exact h.1
      | err e vm => rw [hr] at h; exact h.1
    by_cases hn : nm = mainName
    · exact Or.inl hn
    · right
      obtain ⟨n', hn', _, s', hs'⟩ := hS.doneReach m hdone
      rw [hname] at hn'; injection hn' with hn'; subst hn'
      exact (msrc_plain hn hs').2.1

/-- An import of a library that is not registered is error 64. -/
theorem missing_library_64 (O : Oracle) (libs : Libs) (load : VM → LibNameInfo → Res (VM × Nat)) (vm : VM) (imp : Imp)
    (hstd : (parseLibName imp.name).libType = .std) (hmissing : assoc imp.name libs = none) :
    evalImport O libs load vm imp = .err (.code 64) (vm.allocateModule imp.name).1 := by
  unfold evalImport
  dsimp only
  rw [hstd]
  dsimp only
  rw [hmissing]

/-- The loader itself never hangs: import nesting is bounded by the number of files, so the fuel `run` provides is
    never exhausted (only a runaway recursion of method calls inside a body can end a run with `callFuel`). -/
theorem loader_terminates (O : Oracle) (hO : OracleOK O) (files : Files) (libs : Libs) (callFuel : Nat)
    (mainPath : Path) : (run .repaired O files libs callFuel mainPath).err ≠ some .loadFuel := by
  unfold run
  cases hm : assoc mainPath files with
  | none => simp
  | some src =>
    dsimp only
    have h := runWith_nofuel (files := files) (mainSrc := src) (O := O) (libs := libs) (cf := callFuel) hO
    cases hr : runWith .repaired O files libs (loadFuelFor files) callFuel src with
    | ok vm => simp [finish]
    | err e vm =>
      rw [hr] at h
      simp only [finish]
      intro he; injection he with he; exact h he

/-! ## cycles are reported -/

/-- A run that ends with error 63 has a cycle in the import relation reachable from the main module. -/
theorem cycle_reported_sound (O : Oracle) (hO : OracleOK O) (files : Files) (libs : Libs) (callFuel : Nat)
    (mainPath : Path) (hres : NoReserved files)
    (h63 : (run .repaired O files libs callFuel mainPath).err = some (.code 63)) : StaticCycle files mainPath := by
  unfold run at h63
  cases hm : assoc mainPath files with
  | none => rw [hm] at h63; simp at h63
  | some src =>
    rw [hm] at h63
    dsimp only at h63
    have h := runWith_spec (files := files) (mainSrc := src) (O := O) (libs := libs) (lf := loadFuelFor files)
      (cf := callFuel) hO
    cases hr : runWith .repaired O files libs (loadFuelFor files) callFuel src with
    | ok vm => rw [hr] at h63; simp [finish] at h63
    | err e vm =>
      rw [hr] at h h63
      simp [finish] at h63
      exact mcycle_to_static hm hres (graph_cycle_to_mcycle h.1 (h.2 h63))

/-- A run never completes when the import relation reachable from the main module has a cycle: no silent,
    half-initialised modules. -/
theorem cycle_never_silent (O : Oracle) (hO : OracleOK O) (files : Files) (libs : Libs) (callFuel : Nat)
    (mainPath : Path) (hres : NoReserved files) (hcyc : StaticCycle files mainPath) :
    (run .repaired O files libs callFuel mainPath).err ≠ none := by
  unfold run
  cases hm : assoc mainPath files with
  | none => simp
  | some src =>
    dsimp only
    have h := runWith_spec (files := files) (mainSrc := src) (O := O) (libs := libs) (lf := loadFuelFor files)
      (cf := callFuel) hO
    cases hr : runWith .repaired O files libs (loadFuelFor files) callFuel src with
    | err e vm => simp [finish]
    | ok vm =>
      rw [hr] at h
      exfalso
      exact Final.no_mcycle ⟨h.1, h.2.1, h.2.2.2⟩ (static_to_mcycle hm hres hcyc)

/-- Cycle ⇔ error 63, for runs that are not stopped by a different error first (a missing module or library, a
    redeclared name, a failing statement of a module body that runs before the cycle is closed). -/
theorem cycle_reported (O : Oracle) (hO : OracleOK O) (files : Files) (libs : Libs) (callFuel : Nat)
    (mainPath : Path) (hres : NoReserved files)
    (hother : (run .repaired O files libs callFuel mainPath).err = none ∨
      (run .repaired O files libs callFuel mainPath).err = some (.code 63)) :
    StaticCycle files mainPath ↔ (run .repaired O files libs callFuel mainPath).err = some (.code 63) := by
  constructor
  · intro hc
    rcases hother with h | h
    · exact absurd h (cycle_never_silent O hO files libs callFuel mainPath hres hc)
    · exact h
  · exact cycle_reported_sound O hO files libs callFuel mainPath hres

/-! ## exports and imports -/

/-- the module source the loader ran for a registered name is the file the spec assigns to that module -/
theorem module_source_agrees_with_spec (files : Files) (mainPath : Path) (mainSrc : ModuleSrc)
    (hmain : assoc mainPath files = some mainSrc) (n : Name) (hc : (parseLibName n).libType = .custom) :
    msrc files mainSrc n = sourceOf files mainPath (nodeOfName n) :=
  msrc_eq_sourceOf hmain hc

/-- Exactly the imported module's methods and types — all of them, or the listed ones — become available: in a
    completed run, the names a loaded module `M` holds at import level (depth 0 of its scope) are exactly the names
    its import statements bring (`Brings`: the selected definitions of the imported module's source, or the selected
    registered names of the library). -/
theorem exports_exactly_methods_and_types (O : Oracle) (hO : OracleOK O) (hρ : ExportOrderOK O) (files : Files)
    (libs : Libs) (callFuel : Nat) (mainPath : Path) (mainSrc : ModuleSrc) (hmain : assoc mainPath files = some mainSrc)
    (hok : (run .repaired O files libs callFuel mainPath).err = none)
    (M : Nat) (nm : Name) (src : ModuleSrc) (hdone : Ev.done M ∈ (run .repaired O files libs callFuel mainPath).vm.log)
    (hname : (namesOf (run .repaired O files libs callFuel mainPath).vm)[M]? = some nm) (hsrc : msrc files mainSrc nm = some src) :
    ∃ s, lookS (run .repaired O files libs callFuel mainPath).vm M = some s ∧
      ∀ n, (∃ y, y ∈ s.locals ∧ y.depth = 0 ∧ y.name = n) ↔
        ∃ imp, imp ∈ src.imports ∧ Brings files mainSrc libs imp n := by
  have hrun := run_ok hmain hok
  have hA := runWith_spec (files := files) (mainSrc := mainSrc) (O := O) (libs := libs) (lf := loadFuelFor files)
    (cf := callFuel) hO
  have hB := runWith_specB (files := files) (mainSrc := mainSrc) (O := O) (libs := libs) (lf := loadFuelFor files)
    (cf := callFuel) hO hρ
  rw [hrun] at hA hB
  obtain ⟨s, IS, h1, h2, h3⟩ := hB.view hA.1 hdone hname hsrc
  refine ⟨s, h1, fun n => ?_⟩
  rcases h3 with ⟨_, hI⟩ | ⟨_, hH⟩
  · rw [hI.depth0]; exact brought_iff hρ h2 n
  · rw [hH.depth0]; exact brought_iff hρ h2 n

/-- Imported names are read-only: every name in the scope of a loaded module is a constant, and assigning to a
    name the module imported is error 44. -/
theorem imports_read_only (O : Oracle) (hO : OracleOK O) (hρ : ExportOrderOK O) (files : Files)
    (libs : Libs) (callFuel : Nat) (mainPath : Path) (mainSrc : ModuleSrc) (hmain : assoc mainPath files = some mainSrc)
    (hok : (run .repaired O files libs callFuel mainPath).err = none)
    (M : Nat) (nm : Name) (src : ModuleSrc) (hdone : Ev.done M ∈ (run .repaired O files libs callFuel mainPath).vm.log)
    (hname : (namesOf (run .repaired O files libs callFuel mainPath).vm)[M]? = some nm) (hsrc : msrc files mainSrc nm = some src) :
    ∃ s, lookS (run .repaired O files libs callFuel mainPath).vm M = some s ∧ (∀ y, y ∈ s.locals → y.isConst = true) ∧
      ∀ imp n, imp ∈ src.imports → Brings files mainSrc libs imp n → s.setValueCode n = some 44 := by
  have hrun := run_ok hmain hok
  have hA := runWith_spec (files := files) (mainSrc := mainSrc) (O := O) (libs := libs) (lf := loadFuelFor files)
    (cf := callFuel) hO
  have hB := runWith_specB (files := files) (mainSrc := mainSrc) (O := O) (libs := libs) (lf := loadFuelFor files)
    (cf := callFuel) hO hρ
  rw [hrun] at hA hB
  obtain ⟨s, IS, h1, h2, h3⟩ := hB.view hA.1 hdone hname hsrc
  have hconst : ∀ y, y ∈ s.locals → y.isConst = true := by
    rcases h3 with ⟨_, hI⟩ | ⟨_, hH⟩
    · exact hI.allConst
    · exact hH.allConst
  refine ⟨s, h1, hconst, ?_⟩
  intro imp n hi hbr
  apply setValueCode_const hconst
  have hb := (brought_iff hρ h2 n).2 ⟨imp, hi, hbr⟩
  rcases h3 with ⟨_, hI⟩ | ⟨_, hH⟩
  · obtain ⟨y, hy, _, hyn⟩ := (hI.depth0 n).2 hb; exact ⟨y, hy, hyn⟩
  · obtain ⟨y, hy, _, hyn⟩ := (hH.depth0 n).2 hb; exact ⟨y, hy, hyn⟩

/-- the statement `n = …` on a name that resolves to a constant ends the run with error 44 -/
theorem assign_to_constant_44 (callFuel : Nat) (vm : VM) (m : Nat) (s : Scope) (n : Name) (r : List Item)
    (hcur : vm.curScope = some (m, s)) (h44 : s.setValueCode n = some 44) :
    runItems callFuel vm (.assign n :: r) = .err (.code 44) vm := by
  unfold runItems
  rw [hcur]
  dsimp only
  rw [h44]

/-- An imported method behaves as inside its own module: in a completed run, within the scope of a module `H`
    that was loaded by an import, every method and type `d` defined by `H` resolves to `H`'s own definition and a
    frame for it is routed to `H` itself (no external reference), and every name `H` imported from a module that
    `H` does not define itself resolves to the definition in the exporting module, routed to that module. -/
theorem imported_method_sees_home_module (O : Oracle) (hO : OracleOK O) (hρ : ExportOrderOK O) (files : Files)
    (libs : Libs) (callFuel : Nat) (mainPath : Path) (mainSrc : ModuleSrc) (hmain : assoc mainPath files = some mainSrc)
    (hok : (run .repaired O files libs callFuel mainPath).err = none)
    (H : Nat) (hH0 : H ≠ 0) (nm : Name) (src : ModuleSrc)
    (hdone : Ev.done H ∈ (run .repaired O files libs callFuel mainPath).vm.log)
    (hname : (namesOf (run .repaired O files libs callFuel mainPath).vm)[H]? = some nm) (hsrc : msrc files mainSrc nm = some src) :
    ∃ s, lookS (run .repaired O files libs callFuel mainPath).vm H = some s ∧
      (∀ d, d ∈ defsOf src.body → s.getValueWithModuleID d.name = some (valOfDef d H, none)) ∧
      (∀ imp srcI d, imp ∈ src.imports → (parseLibName imp.name).libType = .custom →
        msrc files mainSrc imp.name = some srcI → d ∈ defsOf srcI.body →
        selected (exportNames srcI) imp.items d.name → d.name ∉ exportNames src →
        ∃ home, assoc imp.name (run .repaired O files libs callFuel mainPath).vm.nameMap = some home ∧
          s.getValueWithModuleID d.name = some (valOfDef d home, some home)) := by
  have hrun := run_ok hmain hok
  have hA := runWith_spec (files := files) (mainSrc := mainSrc) (O := O) (libs := libs) (lf := loadFuelFor files)
    (cf := callFuel) hO
  have hB := runWith_specB (files := files) (mainSrc := mainSrc) (O := O) (libs := libs) (lf := loadFuelFor files)
    (cf := callFuel) hO hρ
  rw [hrun] at hA hB
  obtain ⟨s, IS, h1, h2, h3⟩ := hB.view hA.1 hdone hname hsrc
  rcases h3 with ⟨h0, _⟩ | ⟨_, hH⟩
  · exact absurd h0 hH0
  have hexp := hB.binv.closedExports H nm src hdone hname hsrc
  have hnd := hB.binv.expNodup H
  refine ⟨s, h1, ?_, ?_⟩
  · intro d hd
    apply hH.own hρ hnd
    rw [hexp]; exact List.mem_map.2 ⟨d, hd, rfl⟩
  · intro imp srcI d hi hc hsI hd hsel hnot
    obtain ⟨mid, ex, hn, hex⟩ := h2.exists_of_mem hi
    obtain ⟨srcI', hsI', hexeq⟩ := hex.custom hc
    rw [hsI] at hsI'; injection hsI' with hsI'; subst hsI'
    have hmem : (d.name, valOfDef d mid) ∈ ex := by
      rw [hexeq]; exact List.mem_map.2 ⟨d, hd, rfl⟩
    have hch := (mem_chosenOf hρ hex.nodup).2 ⟨hmem, hsel.2⟩
    have he : ((d.name, valOfDef d mid, mid) : Entry) ∈ IS :=
      (h2.mem_iff hρ _).2 ⟨imp, hi, mid, ex, hn, hex, hch, rfl⟩
    have hns : d.name ∉ (((run .repaired O files libs callFuel mainPath).vm.exportsOf H).map (fun p => p.1)) := by
      rw [hexp, List.map_map]
      exact hnot
    exact ⟨mid, hn, hH.imported hρ he hns⟩

/-! ## the oracle hypotheses are satisfiable -/

example : OracleOK Oracle.default := fun _ _ h => h
example : ExportOrderOK Oracle.default := fun l => List.Perm.refl l
-- reversed start order / reversed export order (the second oracle of the driver)
example : OracleOK ⟨fun g => (nodes g).reverse, fun l => l.reverse⟩ := fun _ _ h => List.mem_reverse.2 h
example : ExportOrderOK ⟨fun g => (nodes g).reverse, fun l => l.reverse⟩ := fun l => List.reverse_perm l

/-! ## non-vacuity: concrete file tables -/

namespace Examples

def zn (x : Name) : Name := x ++ [0x2E, 0x7A, 0x6E]
def nMain : Name := [0x4E3B]          -- 主
def nA : Name := [0x7532]             -- 甲
def nB : Name := [0x4E59]             -- 乙
def nC : Name := [0x4E19]             -- 丙
def fA : Name := [0x7532, 0x6CD5]     -- 甲法
def gA : Name := [0x7532, 0x8F85]     -- 甲辅
def tA : Name := [0x7532, 0x7C7B]     -- 甲类
def pMain : Path := [zn nMain]

/-- 主 → 甲 → 乙 → 甲 -/
def cyclic : Files := [
  (pMain, ⟨[⟨nA, []⟩], [.marker 1]⟩),
  ([zn nA], ⟨[⟨nB, []⟩], [.marker 2, .defn ⟨fA, .method, 3, []⟩]⟩),
  ([zn nB], ⟨[⟨nA, []⟩], [.marker 4, .use (.call fA)]⟩)]

/-- diamond: 主 → 甲, 乙 ; 甲 → 丙 ; 乙 → 丙 (in a subdirectory: 目-丙) -/
def diamond : Files := [
  (pMain, ⟨[⟨nA, []⟩, ⟨nB, []⟩], [.marker 1]⟩),
  ([zn nA], ⟨[⟨[0x76EE, 0x2D, 0x4E19], []⟩], [.marker 2]⟩),
  ([zn nB], ⟨[⟨[0x76EE, 0x2D, 0x4E19], []⟩], [.marker 3]⟩),
  ([[0x76EE], zn nC], ⟨[], [.marker 4]⟩)]

/-- 主 imports only 甲法 of 甲; 甲法 calls its sibling 甲辅 and constructs its sibling type 甲类 -/
def sibling : Files := [
  (pMain, ⟨[⟨nA, [fA]⟩], [.marker 1, .use (.call fA), .marker 2]⟩),
  ([zn nA], ⟨[], [.defn ⟨fA, .method, 3, [.call gA, .new tA]⟩, .defn ⟨gA, .method, 4, []⟩,
                 .defn ⟨tA, .type, 5, [.call gA]⟩, .marker 6]⟩)]

theorem cyclic_noReserved : NoReserved cyclic := by
  intro p src hp imp hi
  simp [cyclic] at hp
  rcases hp with ⟨_, rfl⟩ | ⟨_, rfl⟩ | ⟨_, rfl⟩ <;> simp at hi <;> subst hi <;> decide

set_option maxRecDepth 100000 in
theorem cyclic_63 : (run .repaired Oracle.default cyclic [] 8 pMain).err = some (.code 63) := by decide

-- the hypotheses of `cycle_reported` are satisfiable with either outcome
example : StaticCycle cyclic pMain :=
  cycle_reported_sound Oracle.default (fun _ _ h => h) cyclic [] 8 pMain cyclic_noReserved cyclic_63

set_option maxRecDepth 100000 in
example : (run .repaired Oracle.default diamond [] 8 pMain).err = none ∧
    (run .repaired Oracle.default diamond [] 8 pMain).trace = [4, 2, 3, 1] := by decide

-- the body of 丙 runs once although two modules import it
set_option maxRecDepth 100000 in
example : bodyStarts (run .repaired Oracle.default diamond [] 8 pMain).vm.log 3 = 1 := by decide
set_option maxRecDepth 100000 in
example : fileBodyStarts .repaired pMain (run .repaired Oracle.default diamond [] 8 pMain).vm [[0x76EE], zn nC] = 1 := by
  decide

/-- the witness of the finding: 主 imports 甲-乙 and 甲--乙; the table has 甲/乙.zn -/
def alias : Files := [
  (pMain, ⟨[⟨[0x7532, 0x2D, 0x4E59], []⟩, ⟨[0x7532, 0x2D, 0x2D, 0x4E59], []⟩], [.marker 1]⟩),
  ([nA, zn nB], ⟨[], [.marker 2]⟩)]

-- repaired: 甲-乙 is loaded (its body runs once), then 甲--乙 is error 60
set_option maxRecDepth 100000 in
theorem alias_repaired : (run .repaired Oracle.default alias [] 8 pMain).err = some (.code 60) ∧
    (run .repaired Oracle.default alias [] 8 pMain).trace = [2] ∧
    fileBodyStarts .repaired pMain (run .repaired Oracle.default alias [] 8 pMain).vm [nA, zn nB] = 1 := by decide

-- pinned: the run completes and the body of the ONE file 甲/乙.zn ran twice, once per name (each of the two registered
-- modules ran once: `module_body_runs_at_most_once` does not see it) — the negation of `body_runs_at_most_once`
set_option maxRecDepth 100000 in
theorem alias_pinned_runs_twice : (run .pinned Oracle.default alias [] 8 pMain).err = none ∧
    (run .pinned Oracle.default alias [] 8 pMain).trace = [2, 2, 1] ∧
    fileBodyStarts .pinned pMain (run .pinned Oracle.default alias [] 8 pMain).vm [nA, zn nB] = 2 ∧
    bodyStarts (run .pinned Oracle.default alias [] 8 pMain).vm.log 1 = 1 ∧
    bodyStarts (run .pinned Oracle.default alias [] 8 pMain).vm.log 2 = 1 := by decide

/-- 主 imports ..-外; the table has 外.zn in the PARENT of the main file's directory -/
def outside : Files := [
  (pMain, ⟨[⟨[0x2E, 0x2E, 0x2D, 0x5916], []⟩], [.marker 1]⟩),
  ([dotdot, zn [0x5916]], ⟨[], [.marker 2]⟩)]

set_option maxRecDepth 100000 in
theorem outside_repaired : (run .repaired Oracle.default outside [] 8 pMain).err = some (.code 60) ∧
    (run .repaired Oracle.default outside [] 8 pMain).trace = [] := by decide

set_option maxRecDepth 100000 in
theorem outside_pinned_is_read : (run .pinned Oracle.default outside [] 8 pMain).err = none ∧
    (run .pinned Oracle.default outside [] 8 pMain).trace = [2, 1] := by decide

-- the main file named by an import (主.zn imports 主): the second module is allocated, its import of 主 closes a cycle,
-- the body of 主.zn never runs twice (it does not run at all)
set_option maxRecDepth 100000 in
example : (run .repaired Oracle.default [(pMain, ⟨[⟨nMain, []⟩], [.marker 1]⟩)] [] 8 pMain).err = some (.code 63) ∧
    fileBodyStarts .repaired pMain (run .repaired Oracle.default [(pMain, ⟨[⟨nMain, []⟩], [.marker 1]⟩)] [] 8 pMain).vm
      pMain = 0 := by decide

-- the imported method sees its home module's other method and type; the unlisted 甲辅 is not visible in 主
set_option maxRecDepth 100000 in
example : (run .repaired Oracle.default sibling [] 8 pMain).err = none ∧
    (run .repaired Oracle.default sibling [] 8 pMain).trace = [6, 1, 3, 4, 5, 4, 2] := by decide

set_option maxRecDepth 100000 in
example : (run .repaired Oracle.default
    [(pMain, ⟨[⟨nA, [fA]⟩], [.use (.call gA)]⟩), ([zn nA], ⟨[], [.defn ⟨fA, .method, 3, []⟩, .defn ⟨gA, .method, 4, []⟩]⟩)]
    [] 8 pMain).err = some (.code 42) := by decide

-- read-only, missing module, missing library
set_option maxRecDepth 100000 in
example : (run .repaired Oracle.default
    [(pMain, ⟨[⟨nA, []⟩], [.marker 1, .assign fA]⟩), ([zn nA], ⟨[], [.defn ⟨fA, .method, 3, []⟩]⟩)]
    [] 8 pMain).err = some (.code 44) := by decide

set_option maxRecDepth 100000 in
example : (run .repaired Oracle.default [(pMain, ⟨[⟨nA, []⟩], [.marker 1]⟩)] [] 8 pMain).err = some (.code 60) := by decide

set_option maxRecDepth 100000 in
example : (run .repaired Oracle.default [(pMain, ⟨[⟨[0x40, 0x65E0], []⟩], [.marker 1]⟩)] [] 8 pMain).err = some (.code 64) := by
  decide

-- a library import: the listed registered name becomes a read-only name, the unlisted one does not exist
def jsonLib : Name := [0x40, 0x4A]
def libsEx : Libs := [(jsonLib, [[0x89E3], [0x751F]])]

set_option maxRecDepth 100000 in
example : (run .repaired Oracle.default [(pMain, ⟨[⟨jsonLib, [[0x89E3]]⟩], [.marker 1, .assign [0x89E3]]⟩)] libsEx 8 pMain).err
    = some (.code 44) := by decide

set_option maxRecDepth 100000 in
example : (run .repaired Oracle.default [(pMain, ⟨[⟨jsonLib, [[0x89E3]]⟩], [.marker 1, .assign [0x751F]]⟩)] libsEx 8 pMain).err
    = some (.code 42) := by decide

end Examples

end ZnVerif.Properties.C15
