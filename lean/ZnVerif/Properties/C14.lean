/-
C14 — Text operations count characters; % formatting follows the directives.
Property theorems only; helper lemmas live in ZnVerif/Proofs (Template, Directive, Format, TextUtf8, TextOps, TextHistory, TextMethods).

Texts are sequences of code points; where the Go code (or the library routine it calls) works on bytes the
model does too, on `encode t`, the UTF-8 bytes of the character sequence `t` (`ValidText t`: all scalar values).
Numbers are abstract: every theorem holds for every rendering function `env.fmtFloat`, every `env.scale100`
and every display function (these are runtime; the correspondence run compares them with a reference).
-/
import ZnVerif.Proofs.Format
import ZnVerif.Proofs.TextOps
import ZnVerif.Proofs.TextHistory
import ZnVerif.Proofs.TextMethods

namespace ZnVerif.Properties.C14
open ZnVerif ZnVerif.Generated
open ZnVerif.Model.Format
open ZnVerif.Spec.Template
open ZnVerif.Proofs.TextUtf8 (ValidText)

/-! ## Table facts: the two switch machines regenerated from pkg/exec/format_str.go are the documented ones -/

/-- the template scanner's double switch (states 1 begin, 2 literal, 3 format), every state × every character -/
theorem scanner_table (st ch : Nat) : scanLookup st ch = Proofs.Format.refScanLookup st ch :=
  Proofs.Format.scanLookup_eq_ref st ch

/-- the directive machine's double switch (states 1 begin, 2 `+`, 3 `.`, 6 precision digit, 4 `E`, 5 `%`) -/
theorem directive_switch_table (st ch : Nat) : dirLookup st ch = Proofs.Directive.refLookup st ch :=
  Proofs.Directive.dirLookup_eq_ref st ch

/-- begin states, the closing of a pending literal run, the `len % 3` check, the type tags, the precision limit
and the state refused at the end of a directive, as the code has them now -/
theorem machine_constants :
    FormatDFA.scanBegin = 1 ∧ FormatDFA.scanCloseState = 2 ∧ FormatDFA.scanModulus = 3 ∧
    FormatDFA.scan_fmtTypeLiteral = 1 ∧ FormatDFA.scan_fmtTypeFormatter = 2 ∧
    FormatDFA.dirBegin = 1 ∧ FormatDFA.dirMaxPrecision = some precLimit ∧ FormatDFA.dirRejectFinal = [3] := by
  decide

/-! ## Directives -/

/-- `directive_table`: the directive machine (loop and final check) accepts exactly `[+]?(.D+)?[E%]?` with a
precision of at most `precLimit`, and hands the renderer exactly the documented (sign, precision, style).
The precision is a natural number of any size here; see `precision_limit` and `precision_accumulator_bounded`
for what happens to the ones beyond the limit. -/
theorem directive_table (d : List Nat) :
    (dirRun d).map DirSt.flags =
      ((parseDirective d).filter Directive.withinLimit).map Proofs.Directive.flagsOf := by
  rw [Proofs.Directive.dirRun_eq, Option.map_map]
  congr 1
  funext dir
  exact Proofs.Directive.flags_stateOf dir

/-- the executable grammar used above is the documented grammar: optional `+`, optional `.` with at least one
digit, optional `E` or `%`, nothing else; the triple is (sign?, decimal value of the digits, style) -/
theorem directive_grammar (l : List Nat) (d : Directive) : parseDirective l = some d ↔ DirectiveForm l d :=
  Proofs.Template.parseDirective_iff l d

/-- precisions that do not fit: a well-formed directive is refused by the code iff its precision exceeds
`precLimit` = 1000000 (fix-c14-2; the pinned tree printed Go's `%!(NOVERB)` text for them) -/
theorem precision_limit (l : List Nat) (d : Directive) (h : DirectiveForm l d) :
    (dirRun l).isSome = d.withinLimit := by
  have hp := (directive_grammar l d).2 h
  rw [Proofs.Directive.dirRun_eq, hp]
  by_cases hw : d.withinLimit = true <;> simp [Option.filter, hw]

/-- … and the accumulator `numFixedPrecision` never exceeds the limit in any state the loop reaches, for any
input: the Go `int` holds at most 10·1000000 + 9 before the check, so it cannot wrap around -/
theorem precision_accumulator_bounded (d : List Nat) (s : DirSt) (h : dirLoop dirInit d = some s) :
    s.prec ≤ 1000000 :=
  Proofs.Directive.dirLoop_prec_le d dirInit s (by decide) h

/-! ## Templates -/

section
variable {ν κ : Type} (env : Env ν κ)

/-- `format_spec`: for every template, every argument list and every rendering of numbers and display forms,
`formatString` returns the text `⟦template⟧ args` of the spec, and an error exactly when the spec has none
(scanner invariant by induction on the template, any length) -/
theorem format_spec (t : List Nat) (args : List (Arg ν κ)) :
    (formatString env t args).toOption = denote env t args := by
  rw [Proofs.Format.formatString_exact]
  unfold denote
  cases hsp : split t with
  | none => rfl
  | some segs =>
    dsimp only
    by_cases hn : args.length ≠ (holes segs).length
    · rw [if_pos hn]
      cases hf : fillSegs env segs args with
      | none => rfl
      | some out => exact absurd (Proofs.Format.fillSegs_length env segs args out hf) hn
    · rw [if_neg hn]
      exact (Proofs.Format.fillRef_spec env segs args (by omega)).1

/-- the `%` dispatch: two numbers are the remainder (C01), a text and a list are `formatString`, i.e. `⟦t⟧ items`;
every other pair of operands is a type error -/
theorem modulo_dispatch (l r : Operand ν κ) :
    (match evalModulo env l r with
      | .arith a b => ModMeaning.remainder a b
      | .formatted res => ModMeaning.filled res.toOption
      | .typeError => ModMeaning.error) = modulo env l r := by
  cases l <;> cases r <;> simp [evalModulo, modulo, format_spec]

/-- which error: a malformed template is reported as such whatever the arguments are … -/
theorem format_malformed_template (t : List Nat) (args : List (Arg ν κ)) (h : split t = none) :
    formatString env t args = .error .invalidTemplate := by
  rw [Proofs.Format.formatString_exact, h]

/-- … and a well-formed one with a different number of placeholders and arguments as a count mismatch -/
theorem format_count_mismatch (t : List Nat) (args : List (Arg ν κ)) (segs : List Seg) (h : split t = some segs)
    (hn : args.length ≠ (holes segs).length) : formatString env t args = .error .unmatchParams := by
  rw [Proofs.Format.formatString_exact, h]
  dsimp only
  rw [if_pos hn]

/-- no slice `formatStrRune[start:end]` and no `paramElemList[i]` is ever out of range -/
theorem format_never_panics (t : List Nat) (args : List (Arg ν κ)) :
    formatString env t args ≠ .error .panic := by
  rw [Proofs.Format.formatString_exact]
  cases hsp : split t with
  | none => simp
  | some segs =>
    dsimp only
    by_cases hn : args.length ≠ (holes segs).length
    · rw [if_pos hn]; simp
    · rw [if_neg hn]
      have := (Proofs.Format.fillRef_spec env segs args (by omega)).2
      cases hf : Proofs.Format.fillRef env segs args with
      | error e => rw [hf] at this; cases e <;> simp_all [Except.map]
      | ok v => simp [Except.map]

/-- the spec's `split` is the unique decomposition of a template into non-empty maximal literal runs without
braces and placeholders `{d}` with `d` free of braces; there is none iff the template is malformed -/
theorem template_decomposition (t : List Nat) (segs : List Seg) :
    split t = some segs ↔ (unparse segs = t ∧ Canonical segs) :=
  Proofs.Template.split_iff t segs

/-- the error cases of the spec are the documented ones: the template is malformed, or the numbers of placeholders
and elements differ, or some placeholder cannot render its element … -/
theorem denote_error_iff (t : List Nat) (args : List (Arg ν κ)) :
    denote env t args = none ↔
      (split t = none ∨ ∃ segs, split t = some segs ∧
        (args.length ≠ (holes segs).length ∨
         ∃ (k : Nat) (d : List Nat) (a : Arg ν κ), (holes segs)[k]? = some d ∧ args[k]? = some a ∧ render env d a = none)) := by
  unfold denote
  cases hsp : split t with
  | none => simp
  | some segs => simp [Proofs.Format.fillSegs_none_iff]

/-- … where `{}` fails only on a value without display form, and `{c…}` fails iff it does not start with `#`, or the
element is not a number, or what follows `#` is not a directive within the precision limit -/
theorem placeholder_error_iff (c : Nat) (rest : List Nat) (a : Arg ν κ) :
    (render env [] a = none ↔ a = .other) ∧
    (render env (c :: rest) a = none ↔
      (c ≠ 0x23 ∨ (∀ x, a ≠ .num x) ∨ ∀ dir, parseDirective rest = some dir → dir.withinLimit = false)) :=
  ⟨Proofs.Format.render_nil_none_iff env a, Proofs.Format.render_cons_none_iff env c rest a⟩

end

/-! ### non-vacuity: concrete templates through model and spec (a toy renderer that shows its arguments) -/

/-- renders a number `x` as `<verb,precision,sign,x>`-like code points, so the examples show what was asked of it -/
def toyEnv : Env Nat Nat where
  fmtFloat v prec plus x := [match v with | .f => 0x66 | .e => 0x45 | .g => 0x67, prec.getD 99, if plus then 0x2B else 0x20, x]
  scale100 x := x * 100
  displayNum x := [0x6E, x]
  display v := [0x76, v]

-- "A{}年{#+.2%}" % [plain 7, num 3]  =  "A" ++ display 7 ++ "年" ++ fmtFloat f (some 2) plus (3·100) ++ "%"
example : formatString toyEnv [0x41, 0x7B, 0x7D, 0x5E74, 0x7B, 0x23, 0x2B, 0x2E, 0x32, 0x25, 0x7D] [.plain 7, .num 3]
    = .ok [0x41, 0x76, 7, 0x5E74, 0x66, 2, 0x2B, 300, 0x25] := by rfl
example : denote toyEnv [0x41, 0x7B, 0x7D, 0x5E74, 0x7B, 0x23, 0x2B, 0x2E, 0x32, 0x25, 0x7D] [.plain 7, .num 3]
    = some [0x41, 0x76, 7, 0x5E74, 0x66, 2, 0x2B, 300, 0x25] := by decide
-- the error classes: "{{}" malformed; "{}" with no argument; "{#}" on a text; "{#E.2}" wrong order; "{#.}" no digit
example : formatString toyEnv [0x7B, 0x7B, 0x7D] [.num 1] = .error .invalidTemplate := by rfl
example : formatString toyEnv [0x7B, 0x7D] [] = .error .unmatchParams := by rfl
example : formatString toyEnv [0x7B, 0x23, 0x7D] [.plain 1] = .error .notNumber := by rfl
example : formatString toyEnv [0x7B, 0x23, 0x45, 0x2E, 0x32, 0x7D] [.num 1] = .error .badDirective := by rfl
example : formatString toyEnv [0x7B, 0x23, 0x2E, 0x7D] [.num 1] = .error .badDirective := by rfl
example : denote toyEnv [0x7B, 0x23, 0x2E, 0x7D] [.num 1] = none := by decide
-- the grammar has members of every shape, and non-members
example : parseDirective [0x2B, 0x2E, 0x31, 0x32, 0x45] = some ⟨true, some 12, .sci⟩ := by decide
example : parseDirective [] = some ⟨false, none, .plain⟩ := by decide
example : parseDirective [0x45, 0x2E, 0x32] = none := by decide
example : DirectiveForm [0x2B, 0x2E, 0x31, 0x32, 0x45] ⟨true, some 12, .sci⟩ :=
  (directive_grammar _ _).1 (by decide)
-- precisions beyond the limit: {#.1000000} is accepted, {#.1000001} and {#.99999999999999999999} are refused
example : (dirRun [0x2E, 0x31, 0x30, 0x30, 0x30, 0x30, 0x30, 0x30]).isSome = true := by decide
example : dirRun [0x2E, 0x31, 0x30, 0x30, 0x30, 0x30, 0x30, 0x31] = none := by decide
example : dirRun (0x2E :: List.replicate 20 0x39) = none := by decide
example : split [0x61, 0x7B, 0x23, 0x7D, 0x62] = some [.lit [0x61], .hole [0x23], .lit [0x62]] := by decide

/-! ## Text operations -/

open ZnVerif.Model.TextOps in
/-- `length_eq_chars_length`: 长度 is the number of entries of 字符组, which is the number of characters -/
theorem length_eq_chars_length (t : List Nat) (hv : ValidText t) :
    length (encode t) = (chars (encode t)).length ∧ length (encode t) = t.length := by
  rw [Proofs.TextUtf8.length_encode t hv, Proofs.TextUtf8.chars_encode t hv]
  simp

open ZnVerif.Model.TextOps in
/-- 字符组 lists the characters: its k-th entry is the text consisting of the k-th character alone -/
theorem chars_are_characters (t : List Nat) (hv : ValidText t) :
    chars (encode t) = t.map (fun c => encode [c]) := by
  rw [Proofs.TextUtf8.chars_encode t hv]
  simp [encode]

open ZnVerif.Model.TextOps in
/-- `length_chars_slice_consistent`: for every text and every index pair, 取样 returns exactly the entries at the
1-based positions i..j of the character array (negative indices from the end; start before 1 → exception; end
after the length → exception; start after end → empty), joined — never part of a character — and never panics -/
theorem length_chars_slice_consistent (t : List Nat) (hv : ValidText t) (i j : Int) :
    slice (encode t) i j =
      match Spec.TextOps.slice (chars (encode t)) i j with
      | .ok pieces => .ok pieces.flatten
      | .error e => .error (Proofs.TextOps.liftErr e) := by
  rw [Proofs.TextOps.slice_encode t hv, Proofs.TextUtf8.chars_encode t hv, Proofs.TextOps.slice_map]
  cases Spec.TextOps.slice t i j with
  | error e => rfl
  | ok r => simp [Except.map, encode]

open ZnVerif.Model.TextOps in
/-- the same against the character sequence itself: the result is the encoding of the characters at positions i..j -/
theorem slice_is_characters (t : List Nat) (hv : ValidText t) (i j : Int) :
    slice (encode t) i j =
      match Spec.TextOps.slice t i j with
      | .ok r => .ok (encode r)
      | .error e => .error (Proofs.TextOps.liftErr e) :=
  Proofs.TextOps.slice_encode t hv i j

open ZnVerif.Model.TextOps in
/-- `split_preserves_characters`: cutting the bytes of a text at the bytes of a separator (what `strings.Split`
does) yields exactly the encoded pieces of cutting the character sequence at the separator's characters — no
piece holds part of a character; an empty separator yields the characters one by one (none for the empty text) … -/
theorem split_preserves_characters (t sep : List Nat) (hvt : ValidText t) (hvs : ValidText sep) :
    split (encode t) (encode sep) = (Spec.TextOps.split t sep).map encode :=
  Proofs.TextOps.split_encode t sep hvt hvs

/-- … and the pieces joined by the separator are the text again -/
theorem split_join (t sep : List Nat) : Spec.TextOps.join sep (Spec.TextOps.split t sep) = t := by
  unfold Spec.TextOps.split
  by_cases hs : sep = []
  · subst hs
    simp only [if_true]
    induction t with
    | nil => rfl
    | cons c t ih =>
      cases t with
      | nil => rfl
      | cons c' t' =>
        simp only [List.map_cons, Spec.TextOps.join, List.append_nil] at ih ⊢
        rw [ih]; rfl
  · rw [if_neg hs, Proofs.TextOps.join_splitOn sep hs t 0 [] (Nat.zero_le _)]
    simp

/-! ### non-vacuity and the defect of the pinned tree -/

open ZnVerif.Model.TextOps in
-- 你好😀e + combining acute: five characters, 13 bytes
example : ValidText [0x4F60, 0x597D, 0x1F600, 0x65, 0x301] ∧
    length (encode [0x4F60, 0x597D, 0x1F600, 0x65, 0x301]) = 5 ∧ (encode [0x4F60, 0x597D, 0x1F600, 0x65, 0x301]).length = 13 := by
  refine ⟨?_, by decide, by decide⟩
  intro c hc; simp at hc; rcases hc with rfl | rfl | rfl | rfl | rfl <;> decide

open ZnVerif.Model.TextOps in
-- 以“你好😀”（取样：2、-1） = “好😀”; （取样：0、1） and （取样：1、4） are exceptions; （取样：3、2） is empty
example : slice (encode [0x4F60, 0x597D, 0x1F600]) 2 (-1) = .ok (encode [0x597D, 0x1F600]) ∧
    slice (encode [0x4F60, 0x597D, 0x1F600]) 0 1 = .error .startIndex ∧
    slice (encode [0x4F60, 0x597D, 0x1F600]) 1 4 = .error .endIndex ∧
    slice (encode [0x4F60, 0x597D, 0x1F600]) 3 2 = .ok [] := ⟨by rfl, by rfl, by rfl, by rfl⟩

open ZnVerif.Model.TextOps in
-- the pinned tree (bytes indexed directly): 以“你好”（取样：1、1） is the single byte E4 — not a text; the repaired
-- code returns 你
example : sliceBytes (encode [0x4F60, 0x597D]) 1 1 = .ok [0xE4] ∧
    slice (encode [0x4F60, 0x597D]) 1 1 = .ok (encode [0x4F60]) := ⟨by rfl, by rfl⟩

open ZnVerif.Model.TextOps in
-- 分隔: “a，b，” at “，” gives a, b and the empty text; at the empty separator the characters
example : split (encode [0x61, 0xFF0C, 0x62, 0xFF0C]) (encode [0xFF0C]) = [encode [0x61], encode [0x62], []] ∧
    split (encode [0x4F60, 0x1F600]) [] = [encode [0x4F60], encode [0x1F600]] ∧
    split [] [] = [] := by decide

/-! ## One text value over a history

`Model.TextOps.runHistory` / `Spec.TextOps.runHistory`: the steps 长度, 字符组, 取样 i j, the text itself and
转换数值 applied one after the other to the SAME value.  转换数值 (`strExecAtoi`) stores a rewritten text back into
its receiver, so later steps see other bytes than earlier ones; the theorems say that they still see a text, and
the same one the character-level spec has at that moment. -/

open ZnVerif.Model.TextOps in
/-- `atoiRewrite_encode`: what 转换数值 leaves in its receiver.  The byte-level `strings.Replace(…, 1)` of `*^` and then
of `*10^` by `e`, on the bytes of a text, gives the bytes of the text in which the first `*^`, then the first `*10^`,
is replaced by `e` as characters: no occurrence is found inside a multi-byte character, none is missed -/
theorem atoiRewrite_encode (t : List Nat) (hv : ValidText t) :
    atoiRewrite (encode t) = encode (Spec.TextOps.numberRewrite t) :=
  Proofs.TextHistory.atoiRewrite_encode t hv

open ZnVerif.Model.TextOps in
/-- `history_refines_spec`: for every text and every history, what the model shows on the bytes `encode t` is, step
by step, the encoding (`encodeObs`) of what the spec shows on the characters `t` — 长度: the same number; 字符组: the
characters one by one, each encoded; 取样: the same outcome (result / start-index exception / end-index exception,
never a panic) with the encoded result; the text: the encoding of the spec's current text — and the value the
history leaves is the encoding of the (valid) text the spec leaves -/
theorem history_refines_spec (t : List Nat) (hv : ValidText t) (h : List Step) :
    runHistory h (encode t) = (Spec.TextOps.runHistory h t).map Proofs.TextHistory.encodeObs ∧
    stateAfter h (encode t) = encode (Spec.TextOps.stateAfter h t) ∧
    ValidText (Spec.TextOps.stateAfter h t) :=
  ⟨Proofs.TextHistory.runHistory_encode h t hv, Proofs.TextHistory.stateAfter_encode h t hv,
    Proofs.TextHistory.validText_stateAfter h t hv⟩

open ZnVerif.Model.TextOps in
/-- `history_self_consistent`: at every moment of every history of a text value — `s` are its bytes then — 长度 is the
number of entries of 字符组, the entries of 字符组 joined are the text, and 取样 i j is the spec slice of 字符组 (the
entries at positions i..j, joined; same exceptions; never part of a character): no step can make the observables
disagree with each other -/
theorem history_self_consistent (t : List Nat) (hv : ValidText t) (h : List Step) :
    let s := stateAfter h (encode t)
    length s = (chars s).length ∧ (chars s).flatten = s ∧
    ∀ i j : Int, slice s i j =
      match Spec.TextOps.slice (chars s) i j with
      | .ok pieces => .ok pieces.flatten
      | .error e => .error (Proofs.TextOps.liftErr e) := by
  obtain ⟨_, hs, hv'⟩ := history_refines_spec t hv h
  dsimp only
  rw [hs]
  refine ⟨(length_eq_chars_length _ hv').1, ?_, fun i j => length_chars_slice_consistent _ hv' i j⟩
  rw [Proofs.TextUtf8.chars_encode _ hv']
  rfl

open ZnVerif.Model.TextOps in
/-- the same in terms of observations only: asking 长度, 字符组 and 取样 i j after any history shows a number `n`, an
array `cs` and an outcome `r` with `n` the number of entries of `cs` and `r` the spec slice of `cs` -/
theorem history_observations_consistent (t : List Nat) (hv : ValidText t) (h : List Step) (i j : Int) :
    ∃ n cs r, runHistory (h ++ [.len, .chars, .slice i j]) (encode t) =
        runHistory h (encode t) ++ [.len n, .chars cs, .slice r] ∧
      n = cs.length ∧
      r = match Spec.TextOps.slice cs i j with
          | .ok pieces => .ok pieces.flatten
          | .error e => .error (Proofs.TextOps.liftErr e) := by
  obtain ⟨h1, _, h3⟩ := history_self_consistent t hv h
  exact ⟨_, _, _, Proofs.TextHistory.runHistory_append h _ _, h1, h3 i j⟩

/-! ### non-vacuity: `1*10^3多` (7 characters, 9 bytes) becomes `1e3多` (4 characters) under 转换数值 -/

-- the text is valid
example : ValidText [0x31, 0x2A, 0x31, 0x30, 0x5E, 0x33, 0x591A] := by
  intro c hc; simp at hc; rcases hc with rfl | rfl | rfl | rfl | rfl | rfl | rfl <;> decide

open ZnVerif.Model.TextOps in
-- model, on bytes: 7; (rewrites); 4; the four characters (多 = E5 A4 9A); characters 1..2 = `1e`
example : runHistory [.len, .toNumber, .len, .chars, .slice 1 2] (encode [0x31, 0x2A, 0x31, 0x30, 0x5E, 0x33, 0x591A]) =
    [.len 7, .converted, .len 4, .chars [[0x31], [0x65], [0x33], [0xE5, 0xA4, 0x9A]], .slice (.ok [0x31, 0x65])] := by rfl

open ZnVerif.Spec.TextOps ZnVerif.Model.TextOps.Step in
-- spec, on characters
example : runHistory [len, toNumber, len, chars, slice 1 2] [0x31, 0x2A, 0x31, 0x30, 0x5E, 0x33, 0x591A] =
    [.len 7, .converted, .len 4, .chars [[0x31], [0x65], [0x33], [0x591A]], .slice (.ok [0x31, 0x65])] := by rfl

open ZnVerif.Model.TextOps in
-- the value left behind is `1e3多`; and nothing is rewritten in `*多^⩞`: `*` and `^` stand apart, and the bytes of
-- 多 (E5 A4 9A) and ⩞ (U+2A5E = E2 A9 9E) contain neither 2A nor 5E
example : stateAfter [.toNumber] (encode [0x31, 0x2A, 0x31, 0x30, 0x5E, 0x33, 0x591A]) = encode [0x31, 0x65, 0x33, 0x591A] ∧
    atoiRewrite (encode [0x2A, 0x591A, 0x5E, 0x2A5E]) = encode [0x2A, 0x591A, 0x5E, 0x2A5E] := ⟨by rfl, by rfl⟩

/-! ## The other text methods: 替换 匹配 匹配开头 匹配结尾 去除空格 转小写-英文 转大写-英文 格式化 转换数值

`Model/TextMethods.lean` mirrors what pkg/value/string.go asks of Go's `strings` / `strconv` packages, on bytes;
`Spec/TextMethods.lean` says what the methods mean, on characters.  (取样, 分隔, 长度, 字符组 are above; 拼接 appends.) -/

open ZnVerif.Model.TextOps ZnVerif.Proofs.TextMethods in
/-- `text_methods_refine_spec`: on the UTF-8 bytes of texts of Unicode scalar values the models compute the encoding of
what the specs say of the characters —
  * 替换: every leftmost non-overlapping occurrence is replaced, none is found inside a multi-byte character; an empty
    pattern is found before every character and at the end (not between the bytes of one);
  * 匹配 / 匹配开头 / 匹配结尾: the bytes of `sub` occur in / start / end the bytes of `t` iff its characters do;
  * 去除空格: exactly the White_Space characters at both ends go;
  * 转小写-英文 / 转大写-英文: defined for the same texts (no letter that is cased but not English), same result;
  * 格式化: `{#k}` becomes the k-th value, left to right, replaced text is not scanned again;
  * 转换数值: the receiver is left holding the encoding of `numberRewrite t`; the scanner of `strconv.ParseFloat` on its bytes
    accepts, refuses or (special spellings, possible overflow) is left out exactly where the spec's numeral form says
    decimal numeral / exception / open; and an accepted text is ASCII, so the number is `ParseFloat` of the same text -/
theorem text_methods_refine_spec (t : List Nat) (hv : ValidText t) :
    (∀ pat rep, ValidText pat →
      replaceAll (encode t) (encode pat) (encode rep) = encode (Spec.TextOps.replaceAll t pat rep)) ∧
    (∀ sub, ValidText sub →
      containsGo (encode sub) (encode t) = Spec.TextOps.occursIn sub t ∧
      hasPrefix (encode t) (encode sub) = Spec.TextOps.startsWith t sub ∧
      hasSuffix (encode t) (encode sub) = Spec.TextOps.endsWith t sub) ∧
    trimSpace (encode t) = encode (Spec.TextOps.trim t) ∧
    toLower (encode t) = (Spec.TextOps.toLower t).map encode ∧
    toUpper (encode t) = (Spec.TextOps.toUpper t).map encode ∧
    (∀ vals, format (encode t) (vals.map encode) = encode (Spec.TextOps.fill t vals)) ∧
    (atoiRewrite (encode t) = encode (Spec.TextOps.numberRewrite t) ∧
     atofClass (atoiRewrite (encode t)) = classOf (Spec.TextOps.numeralKind (Spec.TextOps.numberRewrite t)) ∧
     (Spec.TextOps.numeralKind (Spec.TextOps.numberRewrite t) = .decimal →
       atoiRewrite (encode t) = Spec.TextOps.numberRewrite t)) := by
  have hrw := Proofs.TextHistory.atoiRewrite_encode t hv
  have hvr := Proofs.TextHistory.validText_numberRewrite t hv
  have hcls : atofClass (atoiRewrite (encode t)) = classOf (Spec.TextOps.numeralKind (Spec.TextOps.numberRewrite t)) := by
    rw [hrw, atofClass_encode _ hvr, atofClass_numeralKind]
  refine ⟨fun pat rep hp => replaceAll_encode t pat rep hv hp,
    fun sub hs => ⟨containsGo_encode sub hs t hv, hasPrefix_encode t sub hv hs, hasSuffix_encode t sub hv hs⟩,
    trimSpace_encode t hv, toLower_encode t hv, toUpper_encode t hv, fun vals => format_encode t vals hv,
    hrw, hcls, fun hd => ?_⟩
  have hnum : atofClass (Spec.TextOps.numberRewrite t) = .number := by
    rw [atofClass_numeralKind, hd]; rfl
  rw [hrw, encode_ascii _ (ascii_of_number _ hnum)]

/-! non-vacuity -/

open ZnVerif.Model.TextOps in
-- 好 inside 你好你好 is replaced twice; the empty pattern is found around every character, not inside one
example : replaceAll (encode [0x4F60, 0x597D, 0x4F60, 0x597D]) (encode [0x597D]) (encode [0x61]) = encode [0x4F60, 0x61, 0x4F60, 0x61] ∧
    Spec.TextOps.replaceAll [0x4F60, 0x597D, 0x4F60, 0x597D] [0x597D] [0x61] = [0x4F60, 0x61, 0x4F60, 0x61] ∧
    replaceAll (encode [0x4F60, 0x597D]) [] [0x2D] = encode [0x2D, 0x4F60, 0x2D, 0x597D, 0x2D] := ⟨by rfl, by rfl, by rfl⟩

open ZnVerif.Model.TextOps in
-- 你 = E4 BD A0, 䶠 = E4 B6 A0: the byte A0 (the last of 你, and NBSP's second byte) is not a suffix character;
-- an ideographic space and a no-break space at the ends go, the zero-width space U+200B stays
example : hasSuffix (encode [0x4F60]) (encode [0xA0]) = false ∧
    trimSpace (encode [0x3000, 0x200B, 0x61, 0xA0]) = encode [0x200B, 0x61] ∧
    Spec.TextOps.trim [0x3000, 0x200B, 0x61, 0xA0] = [0x200B, 0x61] := ⟨by rfl, by rfl, by rfl⟩

open ZnVerif.Model.TextOps in
-- `{#2}` and `{#1}`; the value of `{#1}` holds a placeholder that is not filled again; `{#3}` has no value
example : format (encode [0x7B, 0x23, 0x32, 0x7D, 0x7B, 0x23, 0x31, 0x7D, 0x7B, 0x23, 0x33, 0x7D]) [encode [0x7B, 0x23, 0x32, 0x7D], encode [0x4F60]] =
    encode [0x4F60, 0x7B, 0x23, 0x32, 0x7D, 0x7B, 0x23, 0x33, 0x7D] := by rfl

open ZnVerif.Model.TextOps in
-- Ab你 ↦ ab你; É (U+00C9) is outside the fragment; `1*^3` is left as `1e3`, a decimal numeral; `1e`, `１` are none;
-- `inf`, `0x1p1`, `1_0`, `1e999` are left open
example : toLower (encode [0x41, 0x62, 0x4F60]) = some (encode [0x61, 0x62, 0x4F60]) ∧ toLower (encode [0xC9]) = none ∧
    Spec.TextOps.toLower [0xC9] = none ∧
    atoiRewrite (encode [0x31, 0x2A, 0x5E, 0x33]) = [0x31, 0x65, 0x33] ∧ atofClass [0x31, 0x65, 0x33] = .number ∧
    atofClass [0x31, 0x65] = .syntaxErr ∧ atofClass (encode [0xFF11]) = .syntaxErr ∧
    atofClass [0x69, 0x6E, 0x66] = .special ∧ atofClass [0x30, 0x78, 0x31, 0x70, 0x31] = .special ∧
    atofClass [0x31, 0x5F, 0x30] = .special ∧ atofClass [0x31, 0x65, 0x39, 0x39, 0x39] = .special := by decide


end ZnVerif.Properties.C14
