/-
C05 — compilation terminates cleanly on every input: the INPUT-VARIABLE TEXTS.

"For every finite sequence of Unicode characters given as program source or as input-variable text, compilation terminates and
yields either a syntax tree or a single syntax error whose code is in the documented range and whose position lies within the
input — never an endless loop, an internal crash, or a half-built tree."

For an input-variable text "compilation" is steps #1–#3 of `evalVarAssignBlockText` / `evalExpressionText` (pkg/exec/exec_varinput.go,
Model/VarInput.lean): decode, parse with the ordinary parser, check the shape of the tree.  What is proved here:

  * `varinput_compiles_cleanly` — with the fuel of C05 `parse_terminates` the parse step is never still running; its answer is a
    complete tree (then the entry point goes on with exactly that tree) or one syntax error with a code in 20…27 and a cursor
    inside the text (then the entry point answers its SLOT error and the VM is untouched); never the recovered run-time panic;
  * `varinput_all_or_nothing` — a tree that is not a block of assignments (no statements at all, a child that is neither an
    assignment nor an empty statement) is rejected BEFORE anything is evaluated: the VM handed back is the one handed in;
    `varinput_shape_check` says exactly which trees pass;
  * `varinput_binds_all_in_order` — on success the right-hand sides of ALL assignment statements of the tree have been evaluated, in
    order, each in the state the previous one left; the map binds exactly the target names, a later assignment to the same name
    overwriting the earlier one;
  * `varinput_target_check` — an assignment whose target is not a plain name stops the text with a SLOT error; the Go code tests
    this inside the evaluation loop, so the right-hand sides BEFORE it have run (their displayed lines stay displayed): all-or-nothing
    holds for the returned MAP (nothing is returned), not for side effects;
  * `exprinput_single_expression` — the expression entry point evaluates a tree only if it is one single expression statement.

Totality of the evaluation itself (never a panic) is C10: Properties/C10VarInput.lean.
-/
import ZnVerif.Proofs.VarInputTop
import ZnVerif.Proofs.ParserTheorems
set_option linter.unusedSectionVars false

namespace ZnVerif.Properties.C05VarInput
open ZnVerif.Model ZnVerif.Model.VarInput ZnVerif.Model.Parser ZnVerif.Proofs.VarInput
open ZnVerif.Spec.Grammar ZnVerif.Proofs.ParserHoare ZnVerif.Proofs.ParserGood

variable {ν : Type} [NumOps ν]
variable {σ : Type} {ops : LexOps σ} {B : Nat} {μ : σ → Nat} {I : σ → Prop}

/-! ## the parse step -/

/-- **varinput_compiles_cleanly** (both entry points: `k` is what follows the parse step) -/
theorem varinput_compiles_cleanly {α : Type} (hl : LexOK ops B μ I) (l : σ) (hI : I l) (pfuel : Nat) (hn : fuelFor (μ l) ≤ pfuel)
    (k : Program → VM ν → Outcome ν α) (s : VM ν) :
    (∃ t, parseAST Variant.fixed ops pfuel l = .tree t ∧ Complete t ∧ afterParse (parseAST Variant.fixed ops pfuel l) k s = k t s) ∨
    (∃ e, parseAST Variant.fixed ops pfuel l = .synErr e ∧ 20 ≤ e.code ∧ e.code ≤ 27 ∧ e.cursor ≤ B ∧
      afterParse (parseAST Variant.fixed ops pfuel l) k s = .slot .parse s) := by
  have hp := parseAST_spec hl pfuel l hI
  cases hr : parseAST Variant.fixed ops pfuel l with
  | tree t => rw [hr] at hp; exact .inl ⟨t, rfl, hp, rfl⟩
  | synErr e => rw [hr] at hp; exact .inr ⟨e, rfl, hp.1, hp.2.1, hp.2.2, rfl⟩
  | otherErr => rw [hr] at hp; exact hp.elim
  | outOfFuel => rw [hr] at hp; simp only at hp; omega

/-- the two instances, spelled out: the assignment block … -/
theorem varinput_parse_step (hl : LexOK ops B μ I) (l : σ) (hI : I l) (pfuel fuel : Nat) (hn : fuelFor (μ l) ≤ pfuel) (s : VM ν) :
    (∃ t, Complete t ∧ evalVarAssignBlockWith ops pfuel fuel false l s = evalVarAssignBlockTree fuel t s) ∨
    evalVarAssignBlockWith ops pfuel fuel false l s = .slot .parse s := by
  rcases varinput_compiles_cleanly hl l hI pfuel hn (evalVarAssignBlockTree fuel) s with ⟨t, _, hc, h⟩ | ⟨e, _, _, _, _, h⟩
  · exact .inl ⟨t, hc, h⟩
  · exact .inr h

/-- … and the single expression -/
theorem exprinput_parse_step (hl : LexOK ops B μ I) (l : σ) (hI : I l) (pfuel fuel : Nat) (hn : fuelFor (μ l) ≤ pfuel) (s : VM ν) :
    (∃ t, Complete t ∧ evalExpressionWith ops pfuel fuel l s = evalExpressionTree fuel t s) ∨
    evalExpressionWith ops pfuel fuel l s = .slot .parse s := by
  rcases varinput_compiles_cleanly hl l hI pfuel hn (evalExpressionTree fuel) s with ⟨t, _, hc, h⟩ | ⟨e, _, _, _, _, h⟩
  · exact .inl ⟨t, hc, h⟩
  · exact .inr h

/-! ## the shape check -/

/-- a block of plain assignments, as `assertASTIsVarAssignBlock` sees it: there is an exec block with a statement block, and every
    child is an assignment expression or an empty statement.  (Input names and exception handlers of the exec block are not looked at.) -/
def IsAssignBlock (p : Program) : Prop :=
  ∃ ins stmts cs, p.exec = some (.mk ins (some stmts) cs) ∧ ∀ st ∈ stmts, (asAssign st).isSome = true ∨ isEmptyStmt st = true

/-- **varinput_shape_check**: the check passes exactly on assignment blocks, and then returns ALL assignments of the block, in order -/
theorem varinput_shape_check (p : Program) (pairs : List (Expr × Expr)) :
    assertVarAssignBlock p = some pairs ↔
      ∃ ins stmts cs, p.exec = some (.mk ins (some stmts) cs) ∧
        (∀ st ∈ stmts, (asAssign st).isSome = true ∨ isEmptyStmt st = true) ∧ pairs = stmts.filterMap asAssign := by
  unfold assertVarAssignBlock
  cases hx : p.exec with
  | none => simp
  | some x =>
    obtain ⟨ins, body, cs⟩ := x
    cases body with
    | none => simp
    | some stmts =>
      dsimp only
      rw [collectAssigns_some_iff]
      constructor
      · rintro ⟨h1, h2⟩; exact ⟨ins, stmts, cs, rfl, h1, h2⟩
      · rintro ⟨ins', stmts', cs', he, h1, h2⟩
        cases he
        exact ⟨h1, h2⟩

theorem shape_check_fails_iff (p : Program) : assertVarAssignBlock p = none ↔ ¬ IsAssignBlock p := by
  constructor
  · rintro h ⟨ins, stmts, cs, hx, hall⟩
    have := (varinput_shape_check p (stmts.filterMap asAssign)).mpr ⟨ins, stmts, cs, hx, hall, rfl⟩
    rw [h] at this; cases this
  · intro h
    cases ha : assertVarAssignBlock p with
    | none => rfl
    | some pairs =>
      obtain ⟨ins, stmts, cs, hx, hall, _⟩ := (varinput_shape_check p pairs).mp ha
      exact absurd ⟨ins, stmts, cs, hx, hall⟩ h

/-- **varinput_all_or_nothing**: a tree that is not a block of assignments is rejected with the SLOT error and NOTHING has been
    evaluated — the VM handed back is the VM handed in (no value allocated, no frame, no line displayed); conversely a text that
    returns a map was such a block -/
theorem varinput_all_or_nothing (fuel : Nat) (p : Program) (s : VM ν) :
    (¬ IsAssignBlock p → evalVarAssignBlockTree fuel p s = .slot .shape s) ∧
    (∀ binds s', evalVarAssignBlockTree fuel p s = .ok binds s' → IsAssignBlock p) := by
  constructor
  · intro h
    unfold evalVarAssignBlockTree
    rw [(shape_check_fails_iff p).mpr h]
  · intro binds s' h
    apply Classical.byContradiction
    intro hn
    unfold evalVarAssignBlockTree at h
    rw [(shape_check_fails_iff p).mpr hn] at h
    cases h

/-! ## what a successful text has done -/

/-- **varinput_binds_all_in_order** -/
theorem varinput_binds_all_in_order (fuel : Nat) (p : Program) (s s' : VM ν) (binds : List (String × Addr))
    (h : evalVarAssignBlockTree fuel p s = .ok binds s') :
    ∃ ins stmts cs rs,
      p.exec = some (.mk ins (some stmts) cs) ∧
      -- ALL assignment statements of the tree ran, in order, each in the state the previous one left (`Runs`) …
      Runs fuel (stmts.filterMap asAssign) s rs s' ∧ rs.length = (stmts.filterMap asAssign).length ∧
      -- … every target is a plain name, and `rs` lists (that name, the value of its right-hand side) …
      (∀ k (hk : k < (stmts.filterMap asAssign).length),
        ∃ i, ((stmts.filterMap asAssign)[k]'hk).1 = .id i ∧ (rs[k]?).map Prod.fst = some i.lit) ∧
      -- … the map binds exactly those names, each to the value of its LAST assignment
      (∀ name, lookup name binds = lastValue name rs) ∧
      (∀ name, (lookup name binds).isSome = true ↔ name ∈ rs.map Prod.fst) := by
  unfold evalVarAssignBlockTree at h
  cases ha : assertVarAssignBlock p with
  | none => rw [ha] at h; cases h
  | some pairs =>
    rw [ha] at h
    dsimp only at h
    obtain ⟨ins, stmts, cs, hx, _, rfl⟩ := (varinput_shape_check p pairs).mp ha
    obtain ⟨rs, hruns, rfl⟩ := (evalAssigns_ok_iff fuel _ [] s s' binds).mp h
    have ht := runs_targets hruns
    have hl : ∀ name, lookup name (buildMap [] rs) = lastValue name rs := by
      intro name
      rw [lookup_buildMap]
      cases lastValue name rs <;> rfl
    refine ⟨ins, stmts, cs, rs, hx, hruns, ht.1, ht.2, hl, fun name => ?_⟩
    rw [hl, lastValue_isSome]

/-- `ExecVarInputText` itself: the run starts in the initial VM -/
theorem execVarInputTree_binds_all_in_order (fuel : Nat) (p : Program) (s' : VM ν) (binds : List (String × Addr))
    (h : execVarInputTree fuel p = .ok binds s') :
    ∃ ins stmts cs rs, p.exec = some (.mk ins (some stmts) cs) ∧ Runs fuel (stmts.filterMap asAssign) (initVM ()) rs s' ∧
      (∀ name, lookup name binds = lastValue name rs) := by
  obtain ⟨ins, stmts, cs, rs, h1, h2, _, _, h5, _⟩ := varinput_binds_all_in_order fuel p (initVM ()) s' binds h
  exact ⟨ins, stmts, cs, rs, h1, h2, h5⟩

/-- **varinput_target_check**: the first assignment whose target is not a plain name ends the text with the SLOT error; the
    assignments before it have been evaluated (Go tests the target inside the loop) -/
theorem varinput_target_check (fuel : Nat) (before after : List (Expr × Expr)) (t e : Expr) (ht : ∀ i, t ≠ .id i)
    (acc : List (String × Addr)) (s s1 : VM ν) (rs : List (String × Addr)) (h : Runs fuel before s rs s1) :
    evalAssigns fuel (before ++ (t, e) :: after) acc s = .slot .target s1 := by
  induction h generalizing acc with
  | nil s =>
    show evalAssigns fuel ((t, e) :: after) acc s = _
    unfold evalAssigns
    cases t with
    | id i => exact absurd rfl (ht i)
    | _ => rfl
  | @cons i e' rest s s1' s' v rs h1 h2 ih =>
    show evalAssigns fuel ((.id i, e') :: (rest ++ (t, e) :: after)) acc s = _
    unfold evalAssigns
    dsimp only
    rw [h1]
    exact ih _

/-! ## the expression entry point -/

/-- **exprinput_single_expression**: `assertASTIsSingleExpr` passes exactly on a block with ONE child that is an expression -/
theorem exprinput_single_expression (p : Program) (e : Expr) :
    assertSingleExpr p = some e ↔ e ≠ .nil ∧ ∃ ins cs, p.exec = some (.mk ins (some [.expr e]) cs) := by
  unfold assertSingleExpr
  constructor
  · intro h
    split at h
    · cases h
    · cases h
    · cases h
    · next ins e' cs hne hx =>
      cases h
      exact ⟨fun he => hne (by rw [he]), ins, cs, hx⟩
    · cases h
  · rintro ⟨hne, ins, cs, hx⟩
    rw [hx]
    cases e with
    | nil => exact absurd rfl hne
    | _ => rfl

/-- … and everything else is rejected before anything is evaluated -/
theorem exprinput_all_or_nothing (fuel : Nat) (p : Program) (s : VM ν) (h : assertSingleExpr p = none) :
    evalExpressionTree fuel p s = .slot .shape s := by
  unfold evalExpressionTree
  rw [h]

/-! ## non-vacuity -/

section examples
local instance unitNum : NumOps Unit where
  add _ _ := (); sub _ _ := (); mul _ _ := (); div _ _ := (); floor _ := (); ceil _ := (); sqrt _ := ()
  eq _ _ := true; lt _ _ := false; gt _ _ := false; le _ _ := true; ge _ _ := true
  isZero _ := false; leZero _ := false; ofInt _ := (); toInt _ := 0; parse _ := (); fmt _ := ""

def prog (stmts : List Stmt) : Program := { imports := [], exec := some (.mk [] (some stmts) []) }
def asg (l : Nat) (x : String) (e : Expr) : Stmt := .expr (.assign l (.id ⟨l, x⟩) e)

-- `X = “a” ； ； X = “b”`: an assignment block; the later X wins
example : IsAssignBlock (prog [asg 0 "X" (.str 0 "a"), .empty 0, .empty 0, asg 0 "X" (.str 0 "b")]) :=
  ⟨[], _, [], rfl, by decide⟩
example : (match (execVarInputTree 9 (prog [asg 0 "X" (.str 0 "a"), .empty 0, .empty 0, asg 0 "X" (.str 0 "b")]) : Outcome Unit _) with
    | .ok binds s => binds.length == 1 && (match lookup "X" binds with | some a => (match s.heap[a]? with | some (.str "b") => true | _ => false) | none => false)
    | _ => false) = true := by rfl
-- `输出 1` / no statement at all / `X = “a”` followed by an expression statement: not assignment blocks
example : ¬ IsAssignBlock (prog [.ret 0 (.id ⟨0, "1"⟩)]) := by
  rintro ⟨_, _, _, h, hall⟩; cases h; exact absurd (hall _ List.mem_cons_self) (by decide)
example : ¬ IsAssignBlock { imports := [], exec := none } := by rintro ⟨_, _, _, h, _⟩; cases h
-- `X = （显示：“a”） ⏎ Y之b = “c”`: the first right-hand side HAS run (one line displayed) when the target test stops the text
example : (match (execVarInputTree 9 (prog [asg 0 "X" (.call 0 (some ⟨0, "显示"⟩) [.str 0 "a"] none),
      .expr (.assign 1 (.member 1 1 (.id ⟨1, "Y"⟩) 1 (some ⟨1, "b"⟩) .nil) (.str 1 "c"))]) : Outcome Unit _) with
    | .slot .target s => s.out == ["a"] | _ => false) = true := by rfl
end examples

end ZnVerif.Properties.C05VarInput
