/-
C13 — Every text value can be written as a literal and reads back exactly.
Property theorems only (helper lemmas: ZnVerif/Proofs/Literal.lean).  The model (`Model/Lexer.lean`) mirrors
pkg/syntax/zh/tokens.go `parseString` + `unescapeBackTickSpecialStr` with the three repairs `fix-c13-*`; the spec
(`Spec/Literal.lean`) is written from the manual.  Code points are `Nat`; all theorems hold for every list of
numbers, in particular for every list of valid scalar values.
-/
import ZnVerif.Proofs.Literal

namespace ZnVerif.Properties.C13
open ZnVerif ZnVerif.Model ZnVerif.Spec.Literal
open ZnVerif.Generated.Tokens (cBackTick)

/-! ### Round trip -/

/-- **Every text round-trips through the safe encoder** — any text (any code points, any length, any mixture of
quotes of all five pairs, back-ticks, CR/LF in any order, NUL, spaces, punctuation), any of the five opening
quotes: the literal `open ++ encodeSafe q t ++ close` lexes to ONE token of `q`'s family whose value is `t`, and the
token ends exactly at the end of the literal.  (Induction on `t` with the lexer state as invariant: `safe_run`.) -/
theorem literal_roundtrip_safe (q : Quote) (t : List Nat) :
    lexString (literalSafe q t) = .ok (t, q.type, (literalSafe q t).length) := by
  unfold lexString literalSafe
  rw [nextToken_literal]
  obtain ⟨l', -, hcur, hrest, hrun⟩ := safe_run q 0 q.type [] t.length t rfl (startState (q.opener :: (encodeSafe q t ++ [q.closer])))
    [] 1 (by rw [startState_rest])
  rw [hrun, parseStringLoop_done (by rw [str_closer hrest]; rfl)]
  simp [hcur, startState]

/-- the statement in the property's wording (`ValidScalars t` is not needed by the proof) -/
theorem literal_roundtrip_safe_scalars (q : Quote) (t : List Nat) (_ : ValidScalars t) :
    lexString (literalSafe q t) = .ok (t, q.type, (literalSafe q t).length) :=
  literal_roundtrip_safe q t

/-- `balancedFrom` is "the depth ends at zero without ever closing below zero" -/
theorem balanced_iff_depth (q : Quote) (d : Nat) (t : List Nat) :
    balancedFrom q d t = true ↔ depthAfter q d t = some 0 := Model.balanced_iff_depth q d t

/-- **Texts with balanced own quotes round-trip verbatim**: nested pairs of `q`'s own quotes, quotes of the other
pairs in any arrangement, line breaks LF, CR, CRLF, LFCR exactly as written, spaces and punctuation — the characters
between the outer quotes become the value unchanged. -/
theorem literal_roundtrip_verbatim (q : Quote) (t : List Nat) (h : Verbatim q t) :
    lexString (literalVerbatim q t) = .ok (t, q.type, t.length + 2) := by
  obtain ⟨hbal, hbt, h0⟩ := h
  unfold lexString literalVerbatim encodeVerbatim
  rw [nextToken_literal]
  have hd := (balanced_iff_depth q 0 t).mp hbal
  have hf := quote_facts q
  obtain ⟨l', -, hcur, hrest, hrun⟩ := verbatim_run q 0 q.type [q.closer]
    (by
      have := hf.2.1
      constructor <;> (intro e; simp at e; rw [e] at this; revert this; decide))
    t.length t rfl (startState (q.opener :: (t ++ [q.closer]))) [] 0 0 hbt h0 hd (by rw [startState_rest])
  rw [hrun, parseStringLoop_done (by rw [str_closer hrest]; rfl)]
  simp [hcur, startState]

-- non-vacuity: “小狗说：“旺旺”！” (the manual's example) is Verbatim for “ ”; a text with every kind of trouble
-- (back-tick, own closer, other pair's opener, CR LF, LF CR, NUL) is covered by the safe theorem.
example : Verbatim .dblCurly [0x5C0F, 0x72D7, 0x8BF4, 0xFF1A, 0x201C, 0x65FA, 0x65FA, 0x201D, 0xFF01] := by
  refine ⟨by decide, by decide, by decide⟩
example : literalSafe .dblCurly [0x60, 0x201D, 0x300C, 0x0D, 0x0A, 0x0A, 0x0D, 0, 0x41] =
    [0x201C, 0x60, 0x42, 0x4B, 0x60, 0x60, 0x201D, 0x60, 0x300C, 0x0D, 0x0A, 0x0A, 0x0D,
      0x60, 0x55, 0x2B, 0x30, 0x60, 0x41, 0x201D] := by decide
example : lexString [0x201C, 0x60, 0x42, 0x4B, 0x60, 0x60, 0x201D, 0x60, 0x300C, 0x0D, 0x0A, 0x0A, 0x0D,
      0x60, 0x55, 0x2B, 0x30, 0x60, 0x41, 0x201D] =
    .ok ([0x60, 0x201D, 0x300C, 0x0D, 0x0A, 0x0A, 0x0D, 0, 0x41], 2, 20) :=
  literal_roundtrip_safe .dblCurly [0x60, 0x201D, 0x300C, 0x0D, 0x0A, 0x0A, 0x0D, 0, 0x41]

/-! ### What back-tick text denotes -/

/-- **The escape table, at the machine**: with the cursor on a back-tick and the text continuing with a documented
name and a back-tick, the characters of the table are appended and the cursor ends on the closing back-tick;
`U+` with 1–8 hex digits `[0-9A-F]` denotes that code point iff it is a valid scalar value — otherwise
(surrogate, beyond U+10FFFF) the whole group is kept as written. -/
theorem escape_table (l : Lexer) (src r : List Nat) (hc : l.cur = cBackTick) :
    (∀ name val, (name, val) ∈ namedEscapes → l.rest = name ++ cBackTick :: r →
      unescapeBackTick l src = (src ++ val, l.setCursor (l.cursor + name.length + 1))) ∧
    (∀ d ds, (∀ x ∈ d :: ds, isHex x = true) → ds.length ≤ 7 →
      l.rest = 0x55 :: 0x2B :: d :: (ds ++ cBackTick :: r) →
      unescapeBackTick l src =
        (if validScalar (hexVal (d :: ds)) then src ++ [hexVal (d :: ds)]
          else src ++ ([0x60, 0x55, 0x2B, d] ++ ds ++ [0x60]),
         l.setCursor (l.cursor + 4 + ds.length))) := by
  constructor
  · intro name val hmem h
    simp only [namedEscapes, List.mem_cons, Prod.mk.injEq, List.not_mem_nil, or_false] at hmem
    rcases hmem with ⟨rfl, rfl⟩ | ⟨rfl, rfl⟩ | ⟨rfl, rfl⟩ | ⟨rfl, rfl⟩ | ⟨rfl, rfl⟩ | ⟨rfl, rfl⟩
    · rw [unesc_CR hc (by simpa using h)]; rfl
    · rw [unesc_LF hc (by simpa using h)]; rfl
    · rw [unesc_CRLF hc (by simpa using h)]; rfl
    · rw [unesc_TAB hc (by simpa using h)]; rfl
    · rw [unesc_SP hc (by simpa using h)]; rfl
    · rw [unesc_BK hc (by simpa using h)]; rfl
  · intro d ds hds hlen h
    rw [unesc_U d ds hds hlen hc h]

/-- **A single quote character wrapped in back-ticks denotes itself** — whichever of the ten quote characters,
in a literal opened with any of the five quotes, its own closing quote included: no partner is needed and the
nesting depth is untouched. -/
theorem lone_quote_in_backticks (q : Quote) (c : Nat) (hc : c ∈ quoteChars) :
    lexString [q.opener, 0x60, c, 0x60, q.closer] = .ok ([c], q.type, 5) := by
  have hq : isQuoteChar c = true := by rw [isQuoteChar_eq_spec]; simpa using hc
  unfold lexString
  rw [nextToken_literal]
  have h0 : (startState [q.opener, 0x60, c, 0x60, q.closer]).rest = cBackTick :: [c, cBackTick, q.closer] :=
    startState_rest _ _
  have h1 := Lexer.rest_cons h0
  rw [parseStringLoop_cont (strStep_backtick h0),
    unesc_quote (src := []) (l := (startState [q.opener, 0x60, c, 0x60, q.closer]).adv) h1.1 h1.2 hq]
  have h2 := (Lexer.rest_cons h1.2).2
  have h3 : (startState [q.opener, 0x60, c, 0x60, q.closer]).adv.adv.adv.rest = q.closer :: [] := (Lexer.rest_cons h2).2
  rw [parseStringLoop_done (by rw [str_closer h3]; rfl)]
  simp [startState]

/-- **Any other back-tick text is kept literally** — for every text and every position of a back-tick inside a
string: the machine consumes a stretch `` ` `` `w` of the text and appends either exactly that stretch, or — only
when the stretch is a documented escape (`decodeEscape`: a name of the table, `U+hex` of a valid code point, one
quote character, between two back-ticks) — its documented meaning.  Nothing else can come out. -/
theorem other_backtick_text_literal (src : List Nat) (l : Lexer) (hc : l.cur = cBackTick) :
    ∃ w, l.rest = w ++ (unescapeBackTick l src).2.rest ∧
      (unescapeBackTick l src).2.cursor = l.cursor + w.length ∧
      ((unescapeBackTick l src).1 = src ++ cBackTick :: w ∨
        ∃ v, decodeEscape (cBackTick :: w) = some v ∧ (unescapeBackTick l src).1 = src ++ v) := by
  obtain ⟨w, h1, -, h3, h4⟩ := backtick_text src l hc
  exact ⟨w, h1, h3, h4⟩

/-- **An undocumented back-tick group is kept whole and its closing back-tick opens nothing** — with the cursor on
a back-tick followed by ordinary characters `w` (no back-tick, quote, line break, NUL) and a back-tick, where
`` ` `` `w` `` ` `` is not a documented escape: exactly the group is appended and the cursor ends on its closing
back-tick, so whatever follows — another escape, say — is read on its own.  (False before
`fix-c13-undocumented-backtick-group`: in `` `F``CR` `` the `` `CR` `` stayed literal.) -/
theorem undocumented_group_kept (src r w : List Nat) (l : Lexer) (hc : l.cur = cBackTick)
    (hw : ∀ c ∈ w, GroupChar c) (hr : l.rest = w ++ cBackTick :: r)
    (hnd : decodeEscape (cBackTick :: w ++ [cBackTick]) = none) :
    unescapeBackTick l src = (src ++ cBackTick :: w ++ [cBackTick], l.setCursor (l.cursor + w.length + 1)) :=
  group_kept src r w l hc hw hr hnd

-- non-vacuity: `F`, `CRL`, `U+D800`, `abc 123` are groups of ordinary characters and not documented
example : (∀ c ∈ [0x55, 0x2B, 0x44, 0x38, 0x30, 0x30], GroupChar c) ∧
    decodeEscape (cBackTick :: [0x55, 0x2B, 0x44, 0x38, 0x30, 0x30] ++ [cBackTick]) = none ∧
    decodeEscape (cBackTick :: [0x46] ++ [cBackTick]) = none := by
  refine ⟨by decide, by decide, by decide⟩

-- non-vacuity of `escape_table` / `other_backtick_text_literal`: the six names are in the table, `U+1F005` is the
-- manual's example, `U+D800` and `U+FFFFFFFF` are not valid (kept), `` `C` `` and `` `TABK` `` are not documented.
example : ([0x42, 0x4B], [0x60]) ∈ namedEscapes ∧ namedEscapes.length = 6 := by decide
example : validScalar (hexVal [0x31, 0x46, 0x30, 0x30, 0x35]) = true ∧ hexVal [0x31, 0x46, 0x30, 0x30, 0x35] = 0x1F005 := by
  decide
example : validScalar (hexVal [0x44, 0x38, 0x30, 0x30]) = false ∧
    validScalar (hexVal [0x46, 0x46, 0x46, 0x46, 0x46, 0x46, 0x46, 0x46]) = false := by decide
example : decodeEscape [0x60, 0x43, 0x60] = none ∧ decodeEscape [0x60, 0x54, 0x41, 0x42, 0x4B, 0x60] = none ∧
    decodeEscape [0x60, 0x43, 0x52, 0x4C, 0x46, 0x60] = some [0x0D, 0x0A] ∧
    decodeEscape [0x60, 0x55, 0x2B, 0x44, 0x38, 0x30, 0x30, 0x60] = none ∧
    decodeEscape [0x60, 0x201D, 0x60] = some [0x201D] := by decide

/-! ### Where a literal ends -/

/-- **A literal closes only at its own closing quote at nesting depth zero.**  For every text `t` without
back-ticks and NUL whose own-pair nesting never drops below zero (`depthAfter q 0 t = some d`; quotes of the other
four pairs, line breaks, anything else may occur freely):
(a) the literal is not closed anywhere inside `t` — `open ++ t` alone is the unterminated-string error at the end
of the text; (b) an own closing quote after `t` closes the literal there iff the depth is zero, whatever follows;
(c) at depth `d > 0` that closing quote is part of the text and the literal stays open. -/
theorem closes_only_at_own_quote_depth_zero (q : Quote) (t post : List Nat) (d : Nat)
    (hbt : backTick ∉ t) (h0 : 0 ∉ t) (hd : depthAfter q 0 t = some d) :
    lexString (q.opener :: t) = .err ⟨27, t.length + 1⟩ ∧
    (d = 0 → lexString (q.opener :: (t ++ q.closer :: post)) = .ok (t, q.type, t.length + 2)) ∧
    (d ≠ 0 → lexString (q.opener :: (t ++ [q.closer])) = .err ⟨27, t.length + 2⟩) := by
  have hf := quote_facts q
  have hcl : (q.closer :: post).head? ≠ some runeCR ∧ (q.closer :: post).head? ≠ some runeLF := by
    have := hf.2.1
    constructor <;> (intro e; simp at e; rw [e] at this; revert this; decide)
  refine ⟨?_, ?_, ?_⟩
  · unfold lexString
    rw [nextToken_literal]
    obtain ⟨l', -, hcur, hrest, hrun⟩ := verbatim_run q 0 q.type [] (by simp) t.length t rfl
      (startState (q.opener :: t)) [] 0 d hbt h0 hd (by rw [startState_rest]; simp)
    rw [hrun, parseStringLoop_done (strStep_eof (Lexer.rest_nil hrest))]
    simp [hcur, startState]
  · intro hd0
    subst hd0
    unfold lexString
    rw [nextToken_literal]
    obtain ⟨l', -, hcur, hrest, hrun⟩ := verbatim_run q 0 q.type (q.closer :: post) hcl t.length t rfl
      (startState (q.opener :: (t ++ q.closer :: post))) [] 0 0 hbt h0 hd (by rw [startState_rest])
    rw [hrun, parseStringLoop_done (by rw [str_closer hrest]; rfl)]
    simp [hcur, startState]
  · intro hd0
    obtain ⟨d', rfl⟩ : ∃ d', d = d' + 1 := ⟨d - 1, by omega⟩
    unfold lexString
    rw [nextToken_literal]
    obtain ⟨l', -, hcur, hrest, hrun⟩ := verbatim_run q 0 q.type [q.closer]
      (by
        have := hf.2.1
        constructor <;> (intro e; simp at e; rw [e] at this; revert this; decide))
      t.length t rfl (startState (q.opener :: (t ++ [q.closer]))) [] 0 (d' + 1) hbt h0 hd (by rw [startState_rest])
    have hr2 := (Lexer.rest_cons hrest).2
    rw [hrun, parseStringLoop_cont (l' := l'.adv) (st' := ([] ++ t ++ [q.closer], d' + 1))
      (by rw [str_closer hrest]; simp)]
    rw [parseStringLoop_done (strStep_eof (Lexer.rest_nil hr2))]
    simp [hcur, startState]

-- non-vacuity: “a「b”c (other pair's opener, own closer): closes after `a「b`; “a“b”c” needs both closers.
example : depthAfter .dblCurly 0 [0x61, 0x300C, 0x62] = some 0 ∧ backTick ∉ [0x61, 0x300C, 0x62] ∧
    (0 : Nat) ∉ [0x61, 0x300C, 0x62] := by decide
example : depthAfter .dblCurly 0 [0x61, 0x201C, 0x62] = some 1 := by decide

/-- **An unterminated literal is a syntax error** — for every text that starts with an opening quote, the first
token is either a text token of that quote's family starting at 0, or error 27 (`IncompleteString`) whose cursor
lies inside `0 … length` on the end of the text (or on a NUL, which the lexer takes for the end); never a different
error, never a panic, whatever the text contains. -/
theorem unterminated_is_error_27 (q : Quote) (body : List Nat) :
    (∃ lit e, lexString (q.opener :: body) = .ok (lit, q.type, e)) ∨
    (∃ c, lexString (q.opener :: body) = .err ⟨27, c⟩ ∧ 0 < c ∧ c ≤ (q.opener :: body).length ∧
      (mkLexer (q.opener :: body)).getChar c = 0) := by
  have hp := parseString_outcome (startState (q.opener :: body)) (by simp [startState])
  have hns : nextToken (mkLexer (q.opener :: body)) = parseString (startState (q.opener :: body)) := by
    rw [nextToken_literal]
    unfold parseString
    rw [startState_cur]
    have h4 : stringTokenType q.opener = q.type := by cases q <;> decide
    rw [h4]; rfl
  have h4 : stringTokenType (startState (q.opener :: body)).cur = q.type := by
    rw [startState_cur]; cases q <;> decide
  unfold lexString
  rw [hns]
  rcases hp with ⟨tk, h1, h2, -⟩ | ⟨c, h1, h2, h3, h5⟩
  · left; rw [h1]; exact ⟨tk.literal, tk.endIdx, by show LexRes.ok (tk.literal, tk.type, tk.endIdx) = _; rw [h2, h4]⟩
  · right; rw [h1]
    refine ⟨c, rfl, by simpa [startState] using h2, by simpa [startState] using h3, ?_⟩
    exact h5

end ZnVerif.Properties.C13
