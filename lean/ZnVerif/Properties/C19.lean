/-
C19 — JSON generation and parsing are faithful inverses.  Property theorems only; helper lemmas live in
ZnVerif/Proofs/Json.lean (reference codec) and ZnVerif/Proofs/JsonZn.lean (Zn values, UTF-8, AppendKVPair).

Model: ZnVerif/Model/Json.lean — pkg/common/elem2json.go and stdlib/json/json.go as repaired by
patches/fix-c19-{1,2,3}-*.patch, `encoding/json` as the reference RFC 8259 codec (`refPrint`, `refParse`), numbers
abstract (`NumCodec ν`).  The only thing assumed of numbers is `NumCodec.Lawful` (a finite number is written as an RFC
8259 number that reads back as itself); it is a hypothesis `hC` of the theorems below, never an axiom, and `toyCodec`
shows it is satisfiable.

Every theorem quantifies over all values / all texts / all nesting depths / all printing styles: the proofs are
structural inductions over values and texts, nothing is enumerated.
-/
import ZnVerif.Proofs.JsonZn

namespace ZnVerif.Properties.C19
open ZnVerif.Model.Json ZnVerif.Proofs.Json

variable {ν : Type}

/-! ### a lawful number codec exists (non-vacuity of `hC`) -/

/-- five numbers, one of them not finite -/
inductive Toy where
  | zero | one | half | minusOne | inf
  deriving DecidableEq, Repr

def toyCodec : NumCodec Toy where
  isFinite x := x != .inf
  fmtNum
    | .zero => [0x30]
    | .one => [0x31]
    | .half => [0x30, 0x2E, 0x35]
    | .minusOne => [0x2D, 0x31]
    | .inf => [0x2B, 0x49, 0x6E, 0x66]
  parseNum t :=
    if t = [0x30] then some .zero else if t = [0x31] then some .one else if t = [0x30, 0x2E, 0x35] then some .half
    else if t = [0x2D, 0x31] then some .minusOne else none
  ofInt i := if i = 1 then .one else if i = -1 then .minusOne else .zero

theorem toyCodec_lawful : toyCodec.Lawful where
  token := by intro x hx; cases x <;> first | rfl | exact absurd hx (by decide)
  roundtrip := by intro x hx; cases x <;> first | rfl | exact absurd hx (by decide)

/-! ### the reference codec -/

/-- **Reference codec round trip.**  Whatever plain value `p` (any nesting, any strings, duplicate keys included) with
finite numbers, and whatever style a conforming generator writes it in — each character of each string spelt literally,
as a two-character escape, as `\uXXXX` in either case or as a surrogate pair, white space at every place the grammar
allows it — the reference parser reads exactly `p` back, with object members in document order.  (`NoDupKeys` is not
needed: plain objects keep every member.) -/
theorem ref_codec_roundtrip (C : NumCodec ν) (hC : C.Lawful) (st : Style) (hst : StyleOk st) (p : PV ν)
    (hfin : p.finite C = true) (d : Nat) (hd : p.depth ≤ d) :
    refParse C d (refPrint C st p) = .ok p :=
  refParse_refPrint C hC st hst p hfin d hd

/-- Python's `ensure_ascii` spelling with `", "` / `": "` separators, as one more style -/
def asciiSpaced : Style :=
  { esc := fun c => if c = 0x22 ∨ c = 0x5C ∨ c = 0x0A then .short
                    else if c < 0x20 ∨ (0x7F ≤ c ∧ c < 0x110000 ∧ isSurrogate c = false) then .uni true else .lit,
    afterComma := [0x20], afterColon := [0x20], outerTrail := [0x0A] }

theorem asciiSpaced_ok : StyleOk asciiSpaced := by
  refine ⟨?_, rfl, rfl, rfl, rfl, rfl, rfl, rfl, rfl, rfl⟩
  intro c
  simp only [asciiSpaced]
  split
  · rename_i h; rcases h with h | h | h <;> subst h <;> decide
  · split
    · rename_i h1 h2
      simp only [formOk, Bool.and_eq_true, decide_eq_true_eq, Bool.not_eq_true']
      simp only [isSurrogate, decide_eq_false_iff_not] at h2 ⊢
      omega
    · rename_i h1 h2
      simp only [formOk, decide_eq_true_eq]
      omega

-- non-vacuity: `{"k\n": [0.5, "é😀\u0001", {}], "k\n": null}` (a repeated key) in two styles, hypotheses by evaluation
example : refParse toyCodec 3 (refPrint toyCodec asciiSpaced
      (.obj [([0x6B, 0x0A], .arr [.num .half, .str [0xE9, 0x1F600, 0x01], .obj []]), ([0x6B, 0x0A], .null)]))
    = .ok (.obj [([0x6B, 0x0A], .arr [.num .half, .str [0xE9, 0x1F600, 0x01], .obj []]), ([0x6B, 0x0A], .null)]) :=
  ref_codec_roundtrip toyCodec toyCodec_lawful asciiSpaced asciiSpaced_ok _ (by decide) 3 (by decide)

example : refPrint toyCodec asciiSpaced (.obj [([0x6B, 0x0A], .arr [.num .half, .str [0xE9, 0x1F600, 0x01]])])
    = "{\"k\\n\": [0.5, \"\\u00E9\\uD83D\\uDE00\\u0001\"]}\n".toList.map Char.toNat := by decide

/-- the depth bound is sharp: one level more than allowed is an error, not a value -/
example : refParse toyCodec 1 (refPrint toyCodec goStyle (.arr [.arr []])) = .error .depth := rfl

/-! ### 生成JSON then 解析JSON -/

/-- **Round trip.**  For every JSON-representable dictionary `d` (texts and keys of Unicode scalar values, finite
numbers, only texts / numbers / booleans / 空 / lists / dictionaries inside, distinct keys in every dictionary, nesting
within the parser's bound), `生成JSON` yields a text `t` and `解析JSON(t)` yields `d` itself — equal as a tree, hence
`为 d`, and with every dictionary's keys in the same order. -/
theorem zn_json_roundtrip (C : NumCodec ν) (hC : C.Lawful) (kvs : List (Text × JV ν))
    (h : Representable C (.dict kvs) = true) :
    ∃ t, FN_generateJson C [.dict kvs] = .ok (.str t) ∧ FN_parseJson C [.str t] = .ok (.dict kvs) := by
  simp only [Representable, Bool.and_eq_true, decide_eq_true_eq] at h
  obtain ⟨⟨⟨⟨hno, hkd⟩, hsc⟩, hfin⟩, hdep⟩ := h
  have hT := print_scalar C hC goStyle goStyle_ok _ hsc hfin
  have hw := write_value C _ hfin
  have hrt := refParse_refPrint C hC goStyle goStyle_ok _ hfin maxJSONNestingDepth hdep
  have hb := build_roundtrip C (.dict kvs) hno hkd
  refine ⟨print C goStyle (buildPlainValueFromElement (.dict kvs)), ?_, ?_⟩
  · simp [FN_generateJson, validateExactParams, validateOneParam, elementToJSONString, marshalElement, hw,
      utf8_decode_encode _ hT]
  · have hp : refPrint C goStyle (buildPlainValueFromElement (.dict kvs))
        = print C goStyle (buildPlainValueFromElement (.dict kvs)) := by simp [refPrint, goStyle]
    rw [hp] at hrt
    simp only [FN_parseJson, validateExactParams, validateOneParam, jsonBytesToElement, unmarshalPlainValue,
      utf8_decode_encode _ hT, hrt]
    simp only [buildPlainValueFromElement] at hb ⊢
    simp [hb]

-- non-vacuity: 【"b" = 【0.5, 【】, "<é\n😀"】, "a" = 【"" = 空, "k" = 真】, "" = -1】 is representable
example : Representable toyCodec (.dict [([0x62], .list [.num .half, .list [], .str [0x3C, 0xE9, 0x0A, 0x1F600]]),
    ([0x61], .dict [([], .null), ([0x6B], .bool true)]), ([], .num .minusOne)]) = true := by decide

/-- **Generated JSON follows insertion order.**  For every dictionary with finite numbers and proper texts (anything
else inside it allowed — other kinds of value are written as `null`, keys need not be distinct), the generated text,
read by the reference parser at any sufficient depth bound, is an object whose keys are the dictionary's keys in their
insertion order (`GetKeyOrder()`); in fact its members are exactly `buildPlainValueFromElement` of the dictionary's. -/
theorem generate_follows_insertion_order (C : NumCodec ν) (hC : C.Lawful) (kvs : List (Text × JV ν))
    (hsc : (buildPlainValueFromElement (.dict kvs)).scalarTexts = true)
    (hfin : (buildPlainValueFromElement (.dict kvs)).finite C = true) :
    ∃ t, FN_generateJson C [.dict kvs] = .ok (.str t) ∧
      ∀ d, (buildPlainValueFromElement (.dict kvs)).depth ≤ d →
        ∃ ms, refParse C d t = .ok (.obj ms) ∧ keysOf ms = keysOf kvs := by
  have hT := print_scalar C hC goStyle goStyle_ok _ hsc hfin
  have hw := write_value C _ hfin
  refine ⟨print C goStyle (buildPlainValueFromElement (.dict kvs)), ?_, ?_⟩
  · simp [FN_generateJson, validateExactParams, validateOneParam, elementToJSONString, marshalElement, hw,
      utf8_decode_encode _ hT]
  · intro d hd
    have hrt := refParse_refPrint C hC goStyle goStyle_ok _ hfin d hd
    have hp : refPrint C goStyle (buildPlainValueFromElement (.dict kvs))
        = print C goStyle (buildPlainValueFromElement (.dict kvs)) := by simp [refPrint, goStyle]
    rw [hp] at hrt
    exact ⟨buildPlainM kvs, by simpa [buildPlainValueFromElement] using hrt, keysOf_buildPlainM kvs⟩

-- non-vacuity: keys z, a, m stay in that order (a sorted encoder would give a, m, z); a function value inside
example : (buildPlainValueFromElement (JV.dict [([0x7A], .num Toy.one), ([0x61], .other 7), ([0x6D], .list [])])).scalarTexts
    = true ∧ (buildPlainValueFromElement (JV.dict [([0x7A], .num Toy.one), ([0x61], .other 7), ([0x6D], .list [])])).finite
      toyCodec = true := by decide
example : marshalElement toyCodec (.dict [([0x7A], .num .one), ([0x61], .other 7), ([0x6D], .list [])])
    = .ok ("{\"z\":1,\"a\":null,\"m\":[]}".toList.map Char.toNat) := rfl

/-- **Parsed JSON follows document order.**  Whenever the text of `解析JSON` is a JSON object with members `ms` (in
document order, as the decoder's token stream delivers them), the result is a dictionary whose keys are the members'
keys in order of first occurrence, and whose value under each key is the value of the *last* member with that key —
independent of any map iteration order: there is no order oracle left in the model. -/
theorem parse_follows_document_order (C : NumCodec ν) (s : Text) (ms : List (Text × PV ν))
    (h : unmarshalPlainValue C (utf8Encode s) = .ok (.obj ms)) :
    ∃ kvs, FN_parseJson C [.str s] = .ok (.dict kvs) ∧ keysOf kvs = firstOccurrences (keysOf ms) ∧
      ∀ k, getV kvs k = (lastValue ms k).map (fun v => buildElementFromPlainValue C v.toPlain) := by
  refine ⟨appendAll [] (buildElemM C (toPlainM ms)), ?_, ?_, ?_⟩
  · simp [FN_parseJson, validateExactParams, validateOneParam, jsonBytesToElement, h, PV.toPlain,
      buildElementFromPlainValue]
  · rw [keysOf_appendAll_nil, buildElemM_map]
    simp [keysOf, List.map_map, Function.comp_def]
  · intro k
    rw [getV_appendAll_nil, buildElemM_map]
    exact lastValue_map (fun v : PV ν => buildElementFromPlainValue C v.toPlain) ms k

-- non-vacuity: members b, a, b again — key order b, a; the last value of b wins
example : firstOccurrences (keysOf [([0x62], (PV.num Toy.one)), ([0x61], .null), ([0x62], .bool true)]) = [[0x62], [0x61]]
    ∧ lastValue [([0x62], (PV.num Toy.one)), ([0x61], .null), ([0x62], .bool true)] [0x62] = some (.bool true) := by
  constructor <;> rfl
example : refParse toyCodec maxJSONNestingDepth ("{\"b\":1,\"a\":null,\"b\":true}".toList.map Char.toNat)
    = .ok (.obj [([0x62], .num .one), ([0x61], .null), ([0x62], .bool true)]) := rfl

/-! ### what cannot be written, what cannot be read -/

/-- **A non-finite number raises a catchable exception.**  If any number anywhere inside the dictionary is not finite,
`生成JSON` ends in `raise 异常` (a `*value.Exception` signal, the class `拦截异常` matches): no text, no panic. -/
theorem non_finite_raises_catchable (C : NumCodec ν) (kvs : List (Text × JV ν))
    (h : (buildPlainValueFromElement (.dict kvs)).finite C = false) :
    FN_generateJson C [.dict kvs] = .raise exceptionClass := by
  simp [FN_generateJson, validateExactParams, validateOneParam, elementToJSONString, marshalElement,
    write_nonfinite C _ h]

example : (buildPlainValueFromElement (JV.dict [([0x61], .list [.num Toy.one, .dict [([0x62], .num Toy.inf)]])])).finite
    toyCodec = false := by decide

/-- **Malformed JSON raises a catchable exception.**  Whenever the text is not a JSON object for the decoder —
malformed, a number outside the float64 range, nested too deep, trailing data, or a well-formed value that is not an
object — `解析JSON` ends in `raise 异常`: never a value, never a panic. -/
theorem malformed_raises_catchable (C : NumCodec ν) (s : Text)
    (h : ∀ ms, unmarshalPlainValue C (utf8Encode s) ≠ .ok (.obj ms)) :
    FN_parseJson C [.str s] = .raise exceptionClass := by
  simp only [FN_parseJson, validateExactParams, validateOneParam, jsonBytesToElement]
  cases hu : unmarshalPlainValue C (utf8Encode s) with
  | error e => simp
  | ok p =>
    cases p with
    | obj ms => exact absurd hu (h ms)
    | _ => simp

-- non-vacuity: `{"a":1,}`, `{"a":01}`, `{"a":"\x"}`, `{"a":tru}`, `{"a":1}x`, the empty text
example : refParse toyCodec maxJSONNestingDepth ("{\"a\":1,}".toList.map Char.toNat) = .error .badChar := rfl
example : refParse toyCodec maxJSONNestingDepth ("{\"a\":01}".toList.map Char.toNat) = .error .badNumber := rfl
example : refParse toyCodec maxJSONNestingDepth ("{\"a\":\"\\x\"}".toList.map Char.toNat) = .error .badEscape := rfl
example : refParse toyCodec maxJSONNestingDepth ("{\"a\":tru}".toList.map Char.toNat) = .error .badLiteral := rfl
example : refParse toyCodec maxJSONNestingDepth ("{\"a\":1}x".toList.map Char.toNat) = .error .trailing := rfl
example : refParse toyCodec maxJSONNestingDepth [] = .error .eof := rfl
/-- a number the codec cannot represent (here: any but the four toy numbers; for float64: `1e400`) is an error too -/
example : refParse toyCodec maxJSONNestingDepth ("{\"a\":1e400}".toList.map Char.toNat) = .error .numberRange := rfl

/-- **The top-level value must be an object.**  A well-formed JSON text whose value is a list, a text, a number, a
boolean or `null` raises 异常 … -/
theorem top_level_must_be_object (C : NumCodec ν) (s : Text) (p : PV ν)
    (hp : unmarshalPlainValue C (utf8Encode s) = .ok p) (hno : ∀ ms, p ≠ .obj ms) :
    FN_parseJson C [.str s] = .raise exceptionClass :=
  malformed_raises_catchable C s (by intro ms h; rw [hp] at h; cases h; exact hno ms rfl)

/-- … and whatever `解析JSON` returns is a dictionary. -/
theorem parse_yields_dictionary (C : NumCodec ν) (values : List (JV ν)) (v : JV ν)
    (h : FN_parseJson C values = .ok v) : ∃ kvs, v = .dict kvs := by
  simp only [FN_parseJson] at h
  split at h
  · cases h
  · split at h
    · rename_i s
      simp only [jsonBytesToElement] at h
      split at h
      · cases h
      · rename_i ms _
        simp only [PV.toPlain, buildElementFromPlainValue] at h
        cases h
        exact ⟨_, rfl⟩
      · cases h
    · cases h

example : refParse toyCodec maxJSONNestingDepth ("[1]".toList.map Char.toNat) = .ok (.arr [.num .one]) := rfl
example : refParse toyCodec maxJSONNestingDepth ("null".toList.map Char.toNat) = .ok .null := rfl

/-- **Neither function can panic**: the type assertions `values[0].(*value.String)` / `values[0].(*value.HashMap)` are
guarded by `ValidateExactParams`; a wrong argument list is runtime error 53 (count) or 82 (kind). -/
theorem json_functions_never_panic (C : NumCodec ν) (values : List (JV ν)) :
    FN_parseJson C values ≠ .panic ∧ FN_generateJson C values ≠ .panic := by
  have hv : ∀ (t : ParamType) (vs : List (JV ν)), validateExactParams vs [t] = none →
      ∃ v, vs = [v] ∧ validateOneParam v t = true := by
    intro t vs h
    unfold validateExactParams at h
    split at h
    · cases h
    · rename_i hlen
      split at h
      · rename_i hall
        match vs, hlen, hall with
        | [v], _, hall => exact ⟨v, rfl, by simpa using hall⟩
        | [], hlen, _ => simp at hlen
        | _ :: _ :: _, hlen, _ => simp at hlen
      · cases h
  constructor
  · intro h
    simp only [FN_parseJson] at h
    split at h
    · cases h
    · rename_i hval
      obtain ⟨v, rfl, hv1⟩ := hv _ _ hval
      cases v <;> simp [validateOneParam] at hv1
      simp only [jsonBytesToElement] at h
      repeat' split at h
      all_goals cases h
  · intro h
    simp only [FN_generateJson] at h
    split at h
    · cases h
    · rename_i hval
      obtain ⟨v, rfl, hv1⟩ := hv _ _ hval
      cases v <;> simp [validateOneParam] at hv1
      simp only [elementToJSONString] at h
      repeat' split at h
      all_goals cases h

/-- `（解析JSON：1）`, `（生成JSON：【1】）`, a missing or a second argument: runtime errors 82 / 53, no panic -/
example : FN_parseJson toyCodec [.num .one] = .rtError 82 ∧ FN_generateJson toyCodec [.list [.num .one]] = .rtError 82
    ∧ FN_parseJson toyCodec [] = .rtError 53 ∧ FN_generateJson toyCodec [.dict [], .dict []] = .rtError 53 := by
  refine ⟨rfl, rfl, rfl, rfl⟩

/-- **An empty list is an array.**  `【】` is written as `[]`, which every JSON reader reads as an empty array, not as
`null` — on its own (`ElementToJSONString`, HTTP bodies) and anywhere inside a dictionary (by `zn_json_roundtrip`). -/
theorem empty_list_is_array (C : NumCodec ν) (d : Nat) (hd : 1 ≤ d) :
    marshalElement C (.list []) = .ok [0x5B, 0x5D] ∧ refParse C d [0x5B, 0x5D] = .ok (.arr []) ∧
      ∀ k, marshalElement C (.dict [(k, .list [])]) = .ok (0x7B :: printStr goStyle k ++ [0x3A, 0x5B, 0x5D, 0x7D]) := by
  obtain ⟨d, rfl⟩ : ∃ d', d = d' + 1 := ⟨d - 1, by omega⟩
  refine ⟨rfl, ?_, ?_⟩
  · simp [refParse, parse, skipWs, isWs]
  · intro k
    simp [marshalElement, buildPlainValueFromElement, buildPlainM, buildPlainL, writePlainValue, writeMembers, writeElems]

example : Representable toyCodec (.dict [([0x61], .list [])]) = true := by decide

end ZnVerif.Properties.C19
