/-
C18 — Errors point at the line and call chain where they arose (runtime part).
The error printer lists `vm.GetCallStack()` bottom to top, each frame with its module and `currentLine`.
Theorems about how the model maintains those two things.
-/
import ZnVerif.Model.Interp
set_option linter.unusedSectionVars false

namespace ZnVerif.Properties.C18
open ZnVerif.Model

variable {ν : Type} [NumOps ν]

/-- before anything of a statement is evaluated, the innermost active frame carries that statement's line
(so an error raised anywhere inside it is reported on the line of the innermost statement being executed) -/
theorem statement_sets_line (st : Stmt) (s : VM ν) (fr : Frame) (rest : List Frame) (hs : s.stack = fr :: rest) :
    (setTopFrame (fun f => { f with line := st.line }) s).2.stack = { fr with line := st.line } :: rest ∧
    (setTopFrame (fun f => { f with line := st.line }) s).2.heap = s.heap := by
  simp [setTopFrame, modifyVM, hs]

/-- a call adds exactly one frame on top; the frames below (the call sites, with their lines) are untouched -/
theorem push_keeps_call_sites (fr : Frame) (s : VM ν) :
    (pushFrame fr s).2.stack = fr :: s.stack := by
  simp only [pushFrame, modifyVM]
  split <;> simp [putScope] <;> split <;> simp

/-- a call that returned never appears in a later chain: popping removes exactly the top frame -/
theorem pop_removes_returned_call (fr : Frame) (rest : List Frame) (s : VM ν) (hs : s.stack = fr :: rest) :
    (popFrame s).2.stack = rest := by
  simp [popFrame, hs]

/-- after a handled exception the frames of the failed calls are gone (the chain of a later error starts
from the handler's body frame) -/
theorem unwind_drops_failed_calls (depth : Nat) (s : VM ν) (h : depth ≤ s.stack.length) :
    (unwindTo depth s).2.stack.length = depth := by
  simp only [unwindTo, modifyVM]
  split
  · omega
  · simp; omega

end ZnVerif.Properties.C18
