/-
C18 — Errors point at the line and call chain where they arose (runtime part).
The error printer lists `vm.GetCallStack()` bottom to top, each frame with its module and `currentLine`.
Theorems about how the model maintains those two things.
-/
import ZnVerif.Model.Interp
import ZnVerif.Proofs.Toy
set_option linter.unusedSectionVars false

namespace ZnVerif.Properties.C18
open ZnVerif.Model

variable {ν : Type} [NumOps ν]

/-- before anything of a statement is evaluated, the innermost active frame carries that statement's line
(so an error raised anywhere inside it is reported on the line of the innermost statement being executed) and is
marked started (`CallFrame.lineSet`): every frame in which a statement has begun is started -/
theorem statement_sets_line (st : Stmt) (s : VM ν) (fr : Frame) (rest : List Frame) (hs : s.stack = fr :: rest) :
    (setTopFrame (fun f => { f with line := st.line, started := true }) s).2.stack = { fr with line := st.line, started := true } :: rest ∧
    (setTopFrame (fun f => { f with line := st.line, started := true }) s).2.heap = s.heap := by
  simp [setTopFrame, modifyVM, hs]

/-- a call adds exactly one frame on top; the frames below (the call sites, with their lines) are untouched -/
theorem push_keeps_call_sites (fr : Frame) (s : VM ν) :
    (pushFrame fr s).2.stack = fr :: s.stack := by
  simp only [pushFrame, modifyVM]
  split <;> simp [putScope] <;> split <;> simp

/-- a call that returned never appears in a later chain: popping removes exactly the top frame -/
theorem pop_removes_returned_call (fr : Frame) (rest : List Frame) (s : VM ν) (hs : s.stack = fr :: rest) :
    (popFrame s).2.stack = rest := by
  simp [popFrame, hs]

/-- after a handled exception the frames of the failed calls are gone (the chain of a later error starts
from the handler's body frame) -/
theorem unwind_drops_failed_calls (depth : Nat) (s : VM ν) (h : depth ≤ s.stack.length) :
    (unwindTo depth s).2.stack.length = depth := by
  simp only [unwindTo, modifyVM]
  split
  · omega
  · simp; omega

/-- the frame a call pushes (`NewFunctionCallFrame`: method, object method, constructor; `NewExceptionCallFrame`: handler
block) has not started: it stays `started = false`, `line = 0` until the first statement of the callee sets its line -/
theorem call_frame_starts_unstarted (mid : Int) (ct : Nat) (this : Option Addr) (s : VM ν) :
    ∃ fr, (pushFrame { moduleId := mid, callType := ct, this := this } s).2.stack = fr :: s.stack ∧
      fr.started = false ∧ fr.line = 0 ∧ fr.moduleId = mid :=
  ⟨_, push_keeps_call_sites _ s, rfl, rfl, rfl⟩

example : ∃ fr, (pushFrame { moduleId := 0, callType := 2, this := none } (initVM () : VM Int)).2.stack = [fr] ∧
    fr.started = false := by
  obtain ⟨fr, h1, h2, _⟩ := call_frame_starts_unstarted 0 2 none (initVM () : VM Int)
  exact ⟨fr, h1, h2⟩

/-- `unstarted_frame_not_listed`.  What the error printer shows (`listedFrames`, bottom → top): the head frame always;
of the others exactly those that are built-in / library code or in which a statement has begun.  A frame of a module
with source text that never started — a call that failed on its argument count, a call of something that is not a
method — is not in the chain (it has no line of its own: the fault is the caller's). -/
theorem unstarted_frame_not_listed (vm : VM ν) (head : Frame) (body : List Frame)
    (h : vm.stack.reverse = head :: body) :
    listedFrames vm = head :: body.filter (fun fr => fr.isNative vm || fr.started) ∧
    (∀ fr ∈ body, fr.isNative vm = false → fr.started = false → fr ∉ (listedFrames vm).tail) ∧
    (∀ fr ∈ body, (fr.isNative vm = true ∨ fr.started = true) → fr ∈ (listedFrames vm).tail) := by
  have h0 : listedFrames vm = head :: body.filter (fun fr => fr.isNative vm || fr.started) := by
    unfold listedFrames; rw [h]
  refine ⟨h0, ?_, ?_⟩
  · intro fr _ h1 h2 hmem
    rw [h0] at hmem
    simp [List.mem_filter, h1, h2] at hmem
  · intro fr hfr h1
    rw [h0]
    simp only [List.tail_cons, List.mem_filter, Bool.or_eq_true]
    exact ⟨hfr, h1⟩

/-- the caller's started frame, a callee frame of the same program module that never started: only the caller is listed -/
example : listedFrames ({ (initVM () : VM Int) with
      modules := #[{ name := "主模块", hasProgram := true }],
      stack := [{ moduleId := 0, callType := 2 }, { moduleId := 0, callType := 1, line := 4, started := true }] }) =
    [{ moduleId := 0, callType := 1, line := 4, started := true }] := by
  rfl

/-- the frame of a library function (module without source text) is listed although no statement ran in it -/
example : (listedFrames ({ (initVM () : VM Int) with
      modules := #[{ name := "主模块", hasProgram := true }, { name := "@JSON", hasProgram := false }],
      stack := [{ moduleId := 1, callType := 2 }, { moduleId := 0, callType := 1, line := 4, started := true }] })).length = 2 := by
  rfl

/-- the printer's "built-in code" test looks at the frame's own module: a frame of a module without source text is
native whatever module the head frame belongs to, a frame of a program module is not -/
theorem native_is_per_frame (vm : VM ν) (fr : Frame) (m : Module) (hid : 0 ≤ fr.moduleId)
    (hm : vm.modules[fr.moduleId.toNat]? = some m) : fr.isNative vm = !m.hasProgram := by
  have h1 : ¬ fr.moduleId < 0 := by omega
  have h2 : (fr.moduleId == -1) = false := by
    simp only [beq_eq_false_iff_ne, ne_eq]; omega
  unfold Frame.isNative moduleOf
  simp [h1, h2, hm]

end ZnVerif.Properties.C18
