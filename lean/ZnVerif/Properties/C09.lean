/-
C09 — Exceptions reach the nearest matching handler and unwind cleanly.
-/
import ZnVerif.Model.Interp
import ZnVerif.Proofs.Handlers
import ZnVerif.Proofs.Toy
set_option linter.unusedSectionVars false
set_option linter.unusedSimpArgs false
set_option linter.unusedVariables false

namespace ZnVerif.Properties.C09
open ZnVerif.Model ZnVerif.Proofs.Calls

variable {ν : Type} [NumOps ν]

/-- when a statement raises (any error outcome: thrown exception, failing built-in, runtime fault), no later
statement of that block runs: result and state do not depend on `rest` -/
theorem raise_skips_rest (evalOne : Stmt → M ν Addr) (last : Option Addr) (st : Stmt) (rest : List Stmt)
    (s s' : VM ν) (e : Err) (hnd : isDecl st = false) (h1 : evalOne st s = (.err e, s')) :
    stmtsLoop evalOne last (st :: rest) s = (.err e, s') := by
  simp [stmtsLoop, hnd, bind, h1]

/-- 抛出: the exception object is constructed from the arguments and raised as a signal -/
theorem throw_raises (n ln : Nat) (cid : Ident) (s s1 : VM ν) (cv ex : Addr) (nm : String) (ct : Ctor)
    (ps : List (String × Addr)) (ms : List (String × Addr)) (fr : Frame) (rest : List Frame) (cname : String)
    (hs : s.stack = fr :: rest)
    (hname : matchIDName (ν := ν) cid.lit { s with stack := { fr with line := ln } :: rest } =
      (.ok cname, { s with stack := { fr with line := ln } :: rest }))
    (hfind : findElement cname { s with stack := { fr with line := ln } :: rest } =
      (.ok cv, { s with stack := { fr with line := ln } :: rest }))
    (hcell : s.heap[cv]? = some (.cls nm ct ps ms))
    (hcons : construct n cv [] { s with stack := { fr with line := ln } :: rest } = (.ok ex, s1)) :
    evalStmt (n+1) (.throw ln (some cid) []) s = (.err (.sigExc ex), s1) := by
  simp only [evalStmt, Stmt.line]
  simp [bind, setTopFrame, modifyVM, hs, matchIDNameOpt, hname, hfind, getCell, hcell, hcons, throwE, pure]

/-- break / continue are signals -/
theorem break_is_signal (n ln : Nat) (s : VM ν) :
    (evalStmt (n+1) (.break ln) s).1 = .err .sigBreak := by
  simp only [evalStmt, Stmt.line]
  simp [bind, setTopFrame, modifyVM, throwE]

/-! ## handlers (`handleExceptionSignal`) -/

/-- the error of a protected body goes to the block's handlers, with the module and the call depth of the block's
entry (both read before anything of the block runs) -/
theorem body_error_goes_to_handlers (n : Nat) (inputs : List Ident) (body : Option (List Stmt))
    (catches : List (Option Ident × Option (List Stmt))) (params : List Addr) (s s1 s2 : VM ν) (e : Err)
    (hlen : params.length = inputs.length)
    (hpro : (do bindThis s; bindInputs inputs params : M ν Unit) s = (.ok (), s1))
    (hbody : evalStmtBlock n body s1 = (.err e, s2)) :
    execBlockBody n inputs body catches params s = handleException n s.csModuleID s.stack.length catches e s2 := by
  unfold execBlockBody
  have hne : ¬ params.length ≠ inputs.length := by simp [hlen]
  rw [M_bind_def] at hpro ⊢
  rcases hb : bindThis s s with ⟨r, s'⟩
  rw [hb] at hpro
  cases r <;> simp only at hpro ⊢ <;> try (cases hpro)
  simp only [hne, if_false]
  rw [bind_ok hpro]
  unfold Model.tryCatch
  rw [hbody]
  rfl

/-- the first handler whose class name equals the exception's class name runs; the handlers after it play no role
(`post` is arbitrary), the ones before it are passed over -/
theorem handler_matches_first_class (n : Nat) (bm : Int) (bd : Nat)
    (pre post : List (Option Ident × Option (List Stmt))) (i : Ident) (blk : Option (List Stmt))
    (e : Err) (ex : Addr) (s s1 : VM ν)
    (hexc : excOf e s = (.ok (some ex), s1)) (hcls : HasClass s1 ex i.lit) (hi : IsName i.lit) (hne : i.lit ≠ "")
    (hpre : ∀ c ∈ pre, ∃ j, c.1 = some j ∧ IsName j.lit ∧ j.lit ≠ i.lit) :
    handleException (n+1) bm bd (pre ++ (some i, blk) :: post) e s = runHandlerA n bm bd ex blk s1 := by
  rw [handleException_eq, bind_ok hexc]
  simp only
  rw [bind_ok (classNameOf_of_hasClass hcls)]
  rw [firstM_skip s1 pre _ (by
    intro c hc
    obtain ⟨j, hj1, hj2, hj3⟩ := hpre c hc
    rcases c with ⟨c1, c2⟩
    simp only at hj1; subst hj1
    exact tryHandler_miss n bm bd ex i.lit j c2 hj2 hj3 s1)]
  rw [firstM_cons_hit (runHandlerA n bm bd ex blk) (by rw [tryHandler_hit n bm bd ex i blk hi hne, runHandler_eq])]

/-- no handler of the exception's class: the very same error value goes on outward -/
theorem unmatched_propagates_unchanged (n : Nat) (bm : Int) (bd : Nat)
    (catches : List (Option Ident × Option (List Stmt))) (e : Err) (ex : Addr) (s s1 : VM ν) (name : String)
    (hexc : excOf e s = (.ok (some ex), s1)) (hcls : HasClass s1 ex name)
    (hall : ∀ c ∈ catches, ∃ j, c.1 = some j ∧ IsName j.lit ∧ j.lit ≠ name) :
    handleException (n+1) bm bd catches e s = (.err e, s1) := by
  rw [handleException_eq, bind_ok hexc]
  simp only
  rw [bind_ok (classNameOf_of_hasClass hcls)]
  have := firstM_skip (f := tryHandler n bm bd ex name) (d := (throwE e : M ν Addr)) s1 catches [] (by
    intro c hc
    obtain ⟨j, hj1, hj2, hj3⟩ := hall c hc
    rcases c with ⟨c1, c2⟩
    simp only at hj1; subst hj1
    exact tryHandler_miss n bm bd ex name j c2 hj2 hj3 s1)
  rw [List.append_nil] at this
  rw [this]; rfl

/-- a runtime fault (index out of range, division by zero, …) is seen by the handlers as an 异常 value -/
theorem runtime_fault_is_catchable (n : Nat) (bm : Int) (bd : Nat)
    (post : List (Option Ident × Option (List Stmt))) (i : Ident) (blk : Option (List Stmt)) (code : Nat)
    (s : VM ν) (hi : i.lit = exceptionClassName) :
    handleException (n+1) bm bd ((some i, blk) :: post) (.rt code) s =
      runHandlerA n bm bd s.heap.size blk { s with heap := s.heap.push (.exc ("‹rt:" ++ toString code ++ "›")) } := by
  have hname : IsName i.lit := by rw [hi]; decide
  have hne : i.lit ≠ "" := by rw [hi]; decide
  have hcell : ({ s with heap := s.heap.push (.exc ("‹rt:" ++ toString code ++ "›")) } : VM ν).heap[s.heap.size]? =
      some (.exc ("‹rt:" ++ toString code ++ "›")) := by simp
  have := handler_matches_first_class n bm bd [] post i blk (.rt code) s.heap.size s _ (excOf_rt code s)
    (Or.inl ⟨_, hcell, hi⟩) hname hne (by intro c hc; cases hc)
  rw [List.nil_append] at this
  exact this

/-- semantic errors and loop signals are not exceptions: handlers never see them -/
theorem non_exception_errors_pass (n : Nat) (bm : Int) (bd : Nat)
    (catches : List (Option Ident × Option (List Stmt))) (e : Err) (s : VM ν)
    (he : (∃ c, e = .sem c) ∨ e = .sigBreak ∨ e = .sigContinue ∨ e = .other) :
    handleException (n+1) bm bd catches e s = (.err e, s) := by
  rw [handleException_eq]
  rcases he with ⟨c, rfl⟩ | rfl | rfl | rfl <;> rfl

/-- the handler block runs with the exception as 其: the frame on top is an exception frame of the protected block's
module whose receiver is the exception value -/
theorem handler_this_is_exception (bm : Int) (bd : Nat) (ex : Addr) (s : VM ν) :
    (handlerEntry bm bd ex s).stack = { moduleId := bm, callType := 3, this := some ex } :: (unwindTo bd s).2.stack ∧
    (handlerEntry bm bd ex s).csModuleID = bm ∧
    getThis (handlerEntry bm bd ex s) = (.ok (some ex), handlerEntry bm bd ex s) := by
  have h := pushFrame_run (ν := ν) { moduleId := bm, callType := 3, this := some ex } (unwindTo bd s).2
  refine ⟨h.2.1, h.2.2.1, ?_⟩
  exact getThis_cons _ _ _ h.2.1

theorem runHandlerA_run (n : Nat) (bm : Int) (bd : Nat) (ex : Addr) (blk : Option (List Stmt)) (s : VM ν)
    (hbm : 0 ≤ bm) :
    runHandlerA n bm bd ex blk s =
      match evalPureStmtBlock n blk (handlerEntry bm bd ex s) with
      | (.ok _, s3) =>
        (do let rv ← getReturnValue
            popFrame
            match rv with
            | some v => pure v
            | none => newNull) s3
      | (.err e, s3) => (.err e, s3)
      | (.panic, s3) => (.panic, s3)
      | (.fuel, s3) => (.fuel, s3)
      | (.unmodelled, s3) => (.unmodelled, s3) := by
  unfold runHandlerA handlerEntry
  have h1 : unwindTo bd s = (.ok (), (unwindTo bd s).2) := by rw [unwindTo_run]
  rw [bind_ok h1]
  have hlt : ¬ bm < 0 := by omega
  simp only [hlt, if_false]
  have h2 : pushFrame { moduleId := bm, callType := 3, this := some ex } (unwindTo bd s).2 =
      (.ok (), (pushFrame { moduleId := bm, callType := 3, this := some ex } (unwindTo bd s).2).2) := by
    unfold pushFrame modifyVM; rfl
  rw [bind_ok h2, M_bind_def]
  rcases evalPureStmtBlock n blk
    (pushFrame { moduleId := bm, callType := 3, this := some ex } (unwindTo bd s).2).2 with ⟨r, s3⟩
  cases r <;> rfl

/-- the value of a handled block is the handler's 输出 value (its frame's return slot), or a fresh 空 -/
theorem handler_value_or_null (n : Nat) (bm : Int) (bd : Nat) (ex : Addr) (blk : Option (List Stmt))
    (s s3 : VM ν) (x : Option Addr) (fr : Frame) (rest : List Frame) (hbm : 0 ≤ bm)
    (hrun : evalPureStmtBlock n blk (handlerEntry bm bd ex s) = (.ok x, s3)) (hst : s3.stack = fr :: rest) :
    (∀ v, fr.ret = some v → (runHandlerA n bm bd ex blk s).1 = .ok v ∧ (runHandlerA n bm bd ex blk s).2.heap = s3.heap) ∧
    (fr.ret = none → (runHandlerA n bm bd ex blk s).1 = .ok s3.heap.size ∧
      (runHandlerA n bm bd ex blk s).2.heap = s3.heap.push .null) := by
  rw [runHandlerA_run n bm bd ex blk s hbm, hrun]
  simp only
  rw [bind_ok (getReturnValue_cons s3 fr rest hst), bind_ok (popFrame_cons s3 fr rest hst)]
  constructor
  · intro v hv; rw [hv]; exact ⟨rfl, rfl⟩
  · intro hv; rw [hv]; exact ⟨rfl, rfl⟩

/-- restoration: after a handled exception the call stack is exactly the stack the protected block was entered with —
the frames of the calls that failed inside it (`extra`) are dropped, the exception frame is popped — hence the call
depth, 其 (the top frame's receiver) and the current module are those of before.  The handler block itself is
assumed to leave the stack as it found it up to its own frame (`hbal`). -/
theorem catch_restores_stack (n : Nat) (bm : Int) (bd : Nat) (ex : Addr) (blk : Option (List Stmt))
    (s s3 : VM ν) (extra st0 : List Frame) (x : Option Addr) (fr : Frame) (hbm : 0 ≤ bm)
    (hs : s.stack = extra ++ st0) (hl : st0.length = bd)
    (hrun : evalPureStmtBlock n blk (handlerEntry bm bd ex s) = (.ok x, s3)) (hbal : s3.stack = fr :: st0) :
    (handlerEntry bm bd ex s).stack = { moduleId := bm, callType := 3, this := some ex } :: st0 ∧
    (∃ v, (runHandlerA n bm bd ex blk s).1 = .ok v) ∧
    (runHandlerA n bm bd ex blk s).2.stack = st0 ∧
    (runHandlerA n bm bd ex blk s).2.stack.length = bd ∧
    (runHandlerA n bm bd ex blk s).2.csModuleID = topModule st0 ∧
    getThis (runHandlerA n bm bd ex blk s).2 = (.ok (st0.head?.bind (·.this)), (runHandlerA n bm bd ex blk s).2) ∧
    (runHandlerA n bm bd ex blk s).2.scopes = s3.scopes ∧ (runHandlerA n bm bd ex blk s).2.out = s3.out := by
  refine ⟨by rw [(handler_this_is_exception bm bd ex s).1, unwindTo_stack bd s extra st0 hs hl], ?_⟩
  rw [runHandlerA_run n bm bd ex blk s hbm, hrun]
  simp only
  rw [bind_ok (getReturnValue_cons s3 fr st0 hbal), bind_ok (popFrame_cons s3 fr st0 hbal)]
  have hthis : ∀ (t : VM ν), t.stack = st0 → getThis t = (.ok (st0.head?.bind (·.this)), t) := by
    intro t ht
    cases hst : st0 with
    | nil => simp [getThis, topFrame, bind, ht, hst, pure]
    | cons f r => rw [getThis_cons t f r (by rw [ht, hst])]; rfl
  cases hret : fr.ret with
  | some v =>
    refine ⟨⟨v, rfl⟩, rfl, hl, rfl, hthis _ rfl, rfl, rfl⟩
  | none =>
    refine ⟨⟨_, rfl⟩, rfl, hl, rfl, hthis _ rfl, rfl, rfl⟩

/-- restoration at the level of the protected body (`evalExecBlock` = a method body or the program body with its
拦截 handlers): a statement of the body fails with `e` in a state whose stack still carries the frames `extra` of the
calls that failed; a handler matches and its block runs normally.  Then the body yields a value as if it had
returned normally, and the call stack (so the call depth and 其), and the current module are exactly those at entry;
heap cells are only added by the handler / exception value, never the stack.  (Scope depths and the caller's
variables: `C06Eval.exec_block_restores_scope`, unconditional.) -/
theorem catch_restores (n : Nat) (inputs : List Ident) (body : Option (List Stmt))
    (pre post : List (Option Ident × Option (List Stmt))) (i : Ident) (blk : Option (List Stmt))
    (params : List Addr) (s t1 t2 t3 t4 : VM ν) (e : Err) (ex : Addr) (extra : List Frame) (x : Option Addr)
    (fr : Frame)
    (hlen : params.length = inputs.length)
    (hpro : (do bindThis (enterScope s); bindInputs inputs params : M ν Unit) (enterScope s) = (.ok (), t1))
    (hbody : evalStmtBlock (n+1) body t1 = (.err e, t2))
    (hstk : t2.stack = extra ++ s.stack)
    (hexc : excOf e t2 = (.ok (some ex), t3)) (hcls : HasClass t3 ex i.lit) (hi : IsName i.lit) (hne : i.lit ≠ "")
    (hpre : ∀ c ∈ pre, ∃ j, c.1 = some j ∧ IsName j.lit ∧ j.lit ≠ i.lit)
    (hmod : 0 ≤ s.csModuleID)
    (hrun : evalPureStmtBlock n blk (handlerEntry s.csModuleID s.stack.length ex t3) = (.ok x, t4))
    (hbal : t4.stack = fr :: s.stack) :
    let r := evalExecBlock (n+2) (some (.mk inputs body (pre ++ (some i, blk) :: post))) params s
    (∃ v, r.1 = .ok v) ∧ r.2.stack = s.stack ∧ r.2.stack.length = s.stack.length ∧
    r.2.csModuleID = topModule s.stack ∧ getThis r.2 = (.ok (s.stack.head?.bind (·.this)), r.2) ∧
    r.2.out = t4.out := by
  intro r
  have hr : r = withScope (execBlockBody (n+1) inputs body (pre ++ (some i, blk) :: post) params) s := by
    show evalExecBlock _ _ _ s = _
    rw [evalExecBlock_eq]
  rw [withScope_run] at hr
  obtain ⟨hes, hec, _⟩ := enterScope_frame s
  have hbodyrun : execBlockBody (n+1) inputs body (pre ++ (some i, blk) :: post) params (enterScope s) =
      runHandlerA n s.csModuleID s.stack.length ex blk t3 := by
    rw [body_error_goes_to_handlers (n+1) inputs body _ params (enterScope s) t1 t2 e hlen hpro hbody, hes, hec]
    exact handler_matches_first_class n _ _ pre post i blk e ex t2 t3 hexc hcls hi hne hpre
  have hstk3 : t3.stack = extra ++ s.stack := by
    have := (excOf_frame e t2).1
    rw [hexc] at this
    rw [this, hstk]
  obtain ⟨_, ⟨v, hv⟩, h3, h4, h5, h6, _, h8⟩ :=
    catch_restores_stack n s.csModuleID s.stack.length ex blk t3 t4 extra s.stack x fr hmod hstk3 rfl hrun hbal
  rw [hbodyrun] at hr
  obtain ⟨f1, f2, _, f4⟩ := exitScope_frame s (runHandlerA n s.csModuleID s.stack.length ex blk t3).2
  have hr2 : r.2 = exitScope s (runHandlerA n s.csModuleID s.stack.length ex blk t3).2 := by rw [hr]
  have hr1 : r.1 = (runHandlerA n s.csModuleID s.stack.length ex blk t3).1 := by rw [hr]
  refine ⟨⟨v, by rw [hr1, hv]⟩, by rw [hr2, f1, h3], by rw [hr2, f1, h3], by rw [hr2, f2, h5], ?_, by rw [hr2, f4, h8]⟩
  have hstack : r.2.stack = s.stack := by rw [hr2, f1, h3]
  cases hst : s.stack with
  | nil => simp [getThis, topFrame, bind, hstack, hst, pure]
  | cons f rest => rw [getThis_cons r.2 f rest (by rw [hstack, hst])]; rfl

/-- `Function.Exec` turns a runtime error of the body into an exception error (which callers' handlers catch) -/
theorem function_converts_runtime_error (n : Nat) (exec : Option ExecBlock) (this : Option Addr)
    (params : List Addr) (s s' : VM ν) (c : Nat) (hbody : evalExecBlock n exec params s = (.err (.rt c), s')) :
    execFunction (n+1) (.user exec) this params s =
      (.err (.excErr s'.heap.size), { s' with heap := s'.heap.push (.exc ("‹rt:" ++ toString c ++ "›")) }) := by
  simp only [execFunction]
  unfold Model.tryCatch
  rw [hbody]
  rfl

/-- …and passes thrown exceptions, exception errors, signals and semantic errors through unchanged -/
theorem function_passes_other_errors (n : Nat) (exec : Option ExecBlock) (this : Option Addr)
    (params : List Addr) (s s' : VM ν) (e : Err) (hbody : evalExecBlock n exec params s = (.err e, s'))
    (he : (∀ c, e ≠ .rt c) ∧ e ≠ .other) :
    execFunction (n+1) (.user exec) this params s = (.err e, s') := by
  simp only [execFunction]
  unfold Model.tryCatch
  rw [hbody]
  cases e <;> first | rfl | (exfalso; first | exact he.1 _ rfl | exact he.2 rfl)

/-! ## non-vacuity: each implication above, instantiated on a tiny program over the toy numbers -/

section examples
open ZnVerif.Proofs.Toy

/-- a body `结束循环` raises a signal; it reaches `handleException` with module 0 and depth 1 -/
example : execBlockBody 3 [] (some [.break 0]) [] [] s0 =
    handleException 3 0 1 [] .sigBreak (evalStmtBlock 3 (some [.break 0]) s0).2 :=
  body_error_goes_to_handlers 3 [] (some [.break 0]) [] [] s0 s0 _ .sigBreak rfl rfl rfl

/-- thrown 异常 value at address 0; handlers 甲, 异常, and a malformed third one that is never looked at -/
example : handleException 3 0 1 ([(some ⟨0, "甲"⟩, none)] ++ (some ⟨0, "异常"⟩, some []) :: [(none, none)])
    (.sigExc 0) s0 = runHandlerA 2 0 1 0 (some []) s0 :=
  handler_matches_first_class 2 0 1 [(some ⟨0, "甲"⟩, none)] [(none, none)] ⟨0, "异常"⟩ (some []) (.sigExc 0) 0 s0 s0
    rfl (Or.inl ⟨"boom", rfl, rfl⟩) (by decide) (by decide)
    (by intro c hc; simp at hc; subst hc; exact ⟨⟨0, "甲"⟩, rfl, by decide, by decide⟩)

example : handleException 3 0 1 [(some ⟨0, "甲"⟩, none)] (.sigExc 0) s0 = (.err (.sigExc 0), s0) :=
  unmatched_propagates_unchanged 2 0 1 [(some ⟨0, "甲"⟩, none)] (.sigExc 0) 0 s0 s0 "异常"
    rfl (Or.inl ⟨"boom", rfl, rfl⟩)
    (by intro c hc; simp at hc; subst hc; exact ⟨⟨0, "甲"⟩, rfl, by decide, by decide⟩)

/-- index-out-of-range (code 40) caught by `拦截 异常`: the handler's value is a fresh 空 at address 3 -/
example : (handleException 3 0 1 [(some ⟨0, "异常"⟩, some [])] (.rt 40) s0).1 = .ok 3 := by
  rw [runtime_fault_is_catchable 2 0 1 [] ⟨0, "异常"⟩ (some []) 40 s0 rfl]; rfl

example : handleException 3 0 1 [(some ⟨0, "异常"⟩, some [])] .sigBreak s0 = (.err .sigBreak, s0) :=
  non_exception_errors_pass 2 0 1 _ .sigBreak s0 (Or.inr (Or.inl rfl))

/-- handler `输出 “x”`: the value is the text cell (address 2); handler without 输出: a fresh 空 (address 2) -/
example : (runHandlerA 3 0 1 0 (some [.ret 0 (.str 0 "x")]) s0Failed).1 = .ok 2 :=
  ((handler_value_or_null 3 0 1 0 (some [.ret 0 (.str 0 "x")]) s0Failed _ _ _ _ (by decide) rfl rfl).1 2 rfl).1

example : (runHandlerA 3 0 1 0 (some []) s0Failed).1 = .ok 2 ∧
    (runHandlerA 3 0 1 0 (some []) s0Failed).2.heap = #[.exc "boom", .null, .null] :=
  (handler_value_or_null 3 0 1 0 (some []) s0Failed _ _ _ _ (by decide) rfl rfl).2 rfl

/-- a call failed inside the protected block (its frame is still there); after the handler the stack is the script
frame alone, the module is 0 and there is no receiver -/
example : (runHandlerA 3 0 1 0 (some []) s0Failed).2.stack = s0.stack ∧
    (runHandlerA 3 0 1 0 (some []) s0Failed).2.csModuleID = 0 :=
  let h := catch_restores_stack 3 0 1 0 (some []) s0Failed _ [{ moduleId := 0, callType := 2 }] s0.stack _ _
    (by decide) rfl rfl rfl rfl
  ⟨h.2.2.1, h.2.2.2.2.1⟩

/-- a method with no inputs called with one argument: error 51 inside becomes an exception error outside -/
example : (execFunction 3 (.user (some (.mk [] (some []) []))) none [7] s0).1 = .err (.excErr 2) := by
  rw [function_converts_runtime_error 2 (some (.mk [] (some []) [])) none [7] s0 _ 51 rfl]
  rfl

example : (execFunction 5 (.user (some (.mk [] (some [.break 0]) []))) none [] s0).1 = .err .sigBreak := by
  rw [function_passes_other_errors 4 (some (.mk [] (some [.break 0]) [])) none [] s0 _ .sigBreak rfl
    ⟨(by intro c h; cases h), (by intro h; cases h)⟩]

/-- `抛出异常：“boom”`-like failure inside a method body with a failed inner call still on the stack, handler `拦截 异常`
without 输出: the body yields a fresh 空, stack, module and 其 are those of the entry -/
example :
    let r := evalExecBlock 6 (some (.mk [] (some [.expr (.arr 0 [.nil])]) [(some ⟨0, "异常"⟩, some [])])) [] s0
    r.1 = .ok 3 ∧ r.2.stack = s0.stack ∧ r.2.csModuleID = 0 := by
  have h := catch_restores 4 [] (some [.expr (.arr 0 [.nil])]) [] [] ⟨0, "异常"⟩ (some []) [] s0 (enterScope s0)
    (evalStmtBlock 5 (some [.expr (.arr 0 [.nil])]) (enterScope s0)).2
    (excOf (.rt 80) (evalStmtBlock 5 (some [.expr (.arr 0 [.nil])]) (enterScope s0)).2).2
    (evalPureStmtBlock 4 (some []) (handlerEntry 0 1 2
      (excOf (.rt 80) (evalStmtBlock 5 (some [.expr (.arr 0 [.nil])]) (enterScope s0)).2).2)).2
    (.rt 80) 2 [] none { moduleId := 0, callType := 3, this := some 2 }
    rfl rfl rfl rfl rfl (Or.inl ⟨_, rfl, rfl⟩) (by decide) (by decide)
    (by intro c hc; cases hc) (by decide) rfl rfl
  exact ⟨rfl, h.2.1, h.2.2.2.1⟩

/-- why `catch_restores_stack` has to assume the handler block's own balance (`hbal`), and `C08.call_result_is_return`
the callee's: a loop signal crosses a method boundary.  `g` is `如何g？ 结束循环`; the call fails with the signal and —
as for every failed call — its frame stays on the stack.  An enclosing 每当 loop then consumes the signal and goes on
with that frame still there (the real interpreter does the same: probe in the final report). -/
example : (execDirectFunction 7 "g" [] sG).1 = .err .sigBreak ∧
    (execDirectFunction 7 "g" [] sG).2.stack.length = sG.stack.length + 1 := ⟨rfl, rfl⟩

/-- a failing first statement: the second (which would panic) never runs -/
example : (stmtsLoop (evalStmt 1) none [.break 0, .nil] s0).1 = .err .sigBreak := by
  rw [raise_skips_rest (evalStmt 1) none (.break 0) [.nil] s0 _ .sigBreak rfl rfl]

/-- `抛出点！` where 点 is a user type with the default constructor: the new instance (address 2) is raised -/
example : (evalStmt 3 (.throw 0 (some ⟨0, "点"⟩) []) sO).1 = .err (.sigExc 2) := by
  rw [throw_raises 2 0 ⟨0, "点"⟩ sO _ 0 2 "点" .default [] [] _ _ "点" rfl rfl rfl rfl rfl]

end examples

end ZnVerif.Properties.C09
