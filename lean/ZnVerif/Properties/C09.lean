/-
C09 — Exceptions reach the nearest matching handler and unwind cleanly.
-/
import ZnVerif.Model.Interp
set_option linter.unusedSectionVars false

namespace ZnVerif.Properties.C09
open ZnVerif.Model

variable {ν : Type} [NumOps ν]

/-- when a statement raises (any error outcome: thrown exception, failing built-in, runtime fault), no later
statement of that block runs: result and state do not depend on `rest` -/
theorem raise_skips_rest (evalOne : Stmt → M ν Addr) (last : Option Addr) (st : Stmt) (rest : List Stmt)
    (s s' : VM ν) (e : Err) (hnd : isDecl st = false) (h1 : evalOne st s = (.err e, s')) :
    stmtsLoop evalOne last (st :: rest) s = (.err e, s') := by
  simp [stmtsLoop, hnd, bind, h1]

/-- 抛出: the exception object is constructed from the arguments and raised as a signal -/
theorem throw_raises (n ln : Nat) (cid : Ident) (s s1 : VM ν) (cv ex : Addr) (nm : String) (ct : Ctor)
    (ps : List (String × Addr)) (ms : List (String × Addr)) (fr : Frame) (rest : List Frame) (cname : String)
    (hs : s.stack = fr :: rest)
    (hname : matchIDName (ν := ν) cid.lit { s with stack := { fr with line := ln } :: rest } =
      (.ok cname, { s with stack := { fr with line := ln } :: rest }))
    (hfind : findElement cname { s with stack := { fr with line := ln } :: rest } =
      (.ok cv, { s with stack := { fr with line := ln } :: rest }))
    (hcell : s.heap[cv]? = some (.cls nm ct ps ms))
    (hcons : construct n cv [] { s with stack := { fr with line := ln } :: rest } = (.ok ex, s1)) :
    evalStmt (n+1) (.throw ln (some cid) []) s = (.err (.sigExc ex), s1) := by
  simp only [evalStmt, Stmt.line]
  simp [bind, setTopFrame, modifyVM, hs, matchIDNameOpt, hname, hfind, getCell, hcell, hcons, throwE, pure]

/-- break / continue are signals -/
theorem break_is_signal (n ln : Nat) (s : VM ν) :
    (evalStmt (n+1) (.break ln) s).1 = .err .sigBreak := by
  simp only [evalStmt, Stmt.line]
  simp [bind, setTopFrame, modifyVM, throwE]

end ZnVerif.Properties.C09
