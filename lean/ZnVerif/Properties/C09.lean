/-
C09 — Exceptions reach the nearest matching handler and unwind cleanly.
-/
import ZnVerif.Model.Interp
import ZnVerif.Proofs.Handlers
import ZnVerif.Proofs.StackBalBlock
import ZnVerif.Proofs.Toy
set_option linter.unusedSectionVars false
set_option linter.unusedSimpArgs false
set_option linter.unusedVariables false

namespace ZnVerif.Properties.C09
open ZnVerif.Model ZnVerif.Proofs.Calls ZnVerif.Proofs.StackBal

variable {ν : Type} [NumOps ν]

/-- when a statement raises (any error outcome: thrown exception, failing built-in, runtime fault), no later
statement of that block runs: result and state do not depend on `rest` -/
theorem raise_skips_rest (evalOne : Stmt → M ν Addr) (last : Option Addr) (st : Stmt) (rest : List Stmt)
    (s s' : VM ν) (e : Err) (hnd : isDecl st = false) (h1 : evalOne st s = (.err e, s')) :
    stmtsLoop evalOne last (st :: rest) s = (.err e, s') := by
  simp [stmtsLoop, hnd, bind, h1]

/-- 抛出: the exception object is constructed from the arguments and raised as a signal -/
theorem throw_raises (n ln : Nat) (cid : Ident) (s s1 : VM ν) (cv ex : Addr) (nm : String) (ct : Ctor)
    (ps : List (String × Addr)) (ms : List (String × Addr)) (fr : Frame) (rest : List Frame) (cname : String)
    (hs : s.stack = fr :: rest)
    (hname : matchIDName (ν := ν) cid.lit { s with stack := { fr with line := ln, started := true } :: rest } =
      (.ok cname, { s with stack := { fr with line := ln, started := true } :: rest }))
    (hfind : findElement cname { s with stack := { fr with line := ln, started := true } :: rest } =
      (.ok cv, { s with stack := { fr with line := ln, started := true } :: rest }))
    (hcell : s.heap[cv]? = some (.cls nm ct ps ms))
    (hcons : construct n cv [] { s with stack := { fr with line := ln, started := true } :: rest } = (.ok ex, s1)) :
    evalStmt (n+1) (.throw ln (some cid) []) s = (.err (.sigExc ex), s1) := by
  simp only [evalStmt, Stmt.line]
  simp [bind, setTopFrame, modifyVM, hs, matchIDNameOpt, hname, hfind, getCell, hcell, hcons, throwE, pure]

/-- break / continue are signals -/
theorem break_is_signal (n ln : Nat) (s : VM ν) :
    (evalStmt (n+1) (.break ln) s).1 = .err .sigBreak := by
  simp only [evalStmt, Stmt.line]
  simp [bind, setTopFrame, modifyVM, throwE]

/-! ## handlers (`handleExceptionSignal`) -/

/-- the error of a protected body goes to `finishBlock` — loop signals become exceptions, then the block's handlers —
with the module and the call depth of the block's entry (both read before anything of the block runs) -/
theorem body_error_goes_to_handlers (n : Nat) (inputs : List Ident) (body : Option (List Stmt))
    (catches : List (Option Ident × Option (List Stmt))) (params : List Addr) (s s1 s2 : VM ν) (e : Err)
    (hlen : params.length = inputs.length)
    (hpro : (do bindThis s; bindInputs inputs params : M ν Unit) s = (.ok (), s1))
    (hbody : evalStmtBlock n body s1 = (.err e, s2)) :
    execBlockBody n inputs body catches params s =
      finishBlock n s.csModuleID s.stack.length catches (.err e) s2 := by
  unfold execBlockBody
  have hne : ¬ params.length ≠ inputs.length := by simp [hlen]
  rw [M_bind_def] at hpro ⊢
  rcases hb : bindThis s s with ⟨r, s'⟩
  rw [hb] at hpro
  cases r <;> simp only at hpro ⊢ <;> try (cases hpro)
  simp only [hne, if_false]
  rw [bind_ok hpro]
  unfold Model.tryCatch
  rw [hbody]

/-- an error that is not a loop signal goes to the handlers as it is; what a handler makes of it is the body's value -/
theorem handled_error_is_body_value (n : Nat) (bm : Int) (bd : Nat)
    (catches : List (Option Ident × Option (List Stmt))) (e : Err) (t t' : VM ν) (v : Addr)
    (he : isSig e = false) (hh : handleException n bm bd catches e t = (.ok v, t')) :
    finishBlock n bm bd catches (.err e) t = (.ok v, t') := finish_handled n bm bd catches e t t' v he hh

/-- …and an error no handler takes leaves the body unchanged (if it is not a loop signal of the handler block) -/
theorem unhandled_error_leaves_body (n : Nat) (bm : Int) (bd : Nat)
    (catches : List (Option Ident × Option (List Stmt))) (e e2 : Err) (t t' : VM ν)
    (he : isSig e = false) (he2 : isSig e2 = false) (hh : handleException n bm bd catches e t = (.err e2, t')) :
    finishBlock n bm bd catches (.err e) t = (.err e2, t') := finish_unhandled n bm bd catches e e2 t t' he he2 hh

/-- 结束循环 / 继续循环 that no loop of the body consumed: the body behaves as if it had raised a fresh 异常 value -/
theorem loop_signal_becomes_exception (n : Nat) (bm : Int) (bd : Nat)
    (catches : List (Option Ident × Option (List Stmt))) (t : VM ν) :
    finishBlock n bm bd catches (.err .sigBreak) t =
      finishBlock n bm bd catches (.err (.excErr t.heap.size)) { t with heap := t.heap.push (.exc "收到「结束」中断信号") } ∧
    finishBlock n bm bd catches (.err .sigContinue) t =
      finishBlock n bm bd catches (.err (.excErr t.heap.size)) { t with heap := t.heap.push (.exc "收到「继续」中断信号") } :=
  finish_loop_signal n bm bd catches t

/-- the first handler whose class name equals the exception's class name runs; the handlers after it play no role
(`post` is arbitrary), the ones before it are passed over -/
theorem handler_matches_first_class (n : Nat) (bm : Int) (bd : Nat)
    (pre post : List (Option Ident × Option (List Stmt))) (i : Ident) (blk : Option (List Stmt))
    (e : Err) (ex : Addr) (s s1 : VM ν)
    (hexc : excOf e s = (.ok (some ex), s1)) (hcls : HasClass s1 ex i.lit) (hi : IsName i.lit) (hne : i.lit ≠ "")
    (hpre : ∀ c ∈ pre, ∃ j, c.1 = some j ∧ IsName j.lit ∧ j.lit ≠ i.lit) :
    handleException (n+1) bm bd (pre ++ (some i, blk) :: post) e s = runHandlerA n bm bd ex blk s1 := by
  rw [handleException_eq, bind_ok hexc]
  simp only
  rw [bind_ok (classNameOf_of_hasClass hcls)]
  rw [firstM_skip s1 pre _ (by
    intro c hc
    obtain ⟨j, hj1, hj2, hj3⟩ := hpre c hc
    rcases c with ⟨c1, c2⟩
    simp only at hj1; subst hj1
    exact tryHandler_miss n bm bd ex i.lit j c2 hj2 hj3 s1)]
  rw [firstM_cons_hit (runHandlerA n bm bd ex blk) (by rw [tryHandler_hit n bm bd ex i blk hi hne, runHandler_eq])]

/-- no handler of the exception's class: the very same error value goes on outward -/
theorem unmatched_propagates_unchanged (n : Nat) (bm : Int) (bd : Nat)
    (catches : List (Option Ident × Option (List Stmt))) (e : Err) (ex : Addr) (s s1 : VM ν) (name : String)
    (hexc : excOf e s = (.ok (some ex), s1)) (hcls : HasClass s1 ex name)
    (hall : ∀ c ∈ catches, ∃ j, c.1 = some j ∧ IsName j.lit ∧ j.lit ≠ name) :
    handleException (n+1) bm bd catches e s = (.err e, s1) := by
  rw [handleException_eq, bind_ok hexc]
  simp only
  rw [bind_ok (classNameOf_of_hasClass hcls)]
  have := firstM_skip (f := tryHandler n bm bd ex name) (d := (throwE e : M ν Addr)) s1 catches [] (by
    intro c hc
    obtain ⟨j, hj1, hj2, hj3⟩ := hall c hc
    rcases c with ⟨c1, c2⟩
    simp only at hj1; subst hj1
    exact tryHandler_miss n bm bd ex name j c2 hj2 hj3 s1)
  rw [List.append_nil] at this
  rw [this]; rfl

/-- a runtime fault (index out of range, division by zero, …) is seen by the handlers as an 异常 value -/
theorem runtime_fault_is_catchable (n : Nat) (bm : Int) (bd : Nat)
    (post : List (Option Ident × Option (List Stmt))) (i : Ident) (blk : Option (List Stmt)) (code : Nat)
    (s : VM ν) (hi : i.lit = exceptionClassName) :
    handleException (n+1) bm bd ((some i, blk) :: post) (.rt code) s =
      runHandlerA n bm bd s.heap.size blk { s with heap := s.heap.push (.exc ("‹rt:" ++ toString code ++ "›")) } := by
  have hname : IsName i.lit := by rw [hi]; decide
  have hne : i.lit ≠ "" := by rw [hi]; decide
  have hcell : ({ s with heap := s.heap.push (.exc ("‹rt:" ++ toString code ++ "›")) } : VM ν).heap[s.heap.size]? =
      some (.exc ("‹rt:" ++ toString code ++ "›")) := by simp
  have := handler_matches_first_class n bm bd [] post i blk (.rt code) s.heap.size s _ (excOf_rt code s)
    (Or.inl ⟨_, hcell, hi⟩) hname hne (by intro c hc; cases hc)
  rw [List.nil_append] at this
  exact this

/-- semantic errors and loop signals are not exceptions: handlers never see them -/
theorem non_exception_errors_pass (n : Nat) (bm : Int) (bd : Nat)
    (catches : List (Option Ident × Option (List Stmt))) (e : Err) (s : VM ν)
    (he : (∃ c, e = .sem c) ∨ e = .sigBreak ∨ e = .sigContinue ∨ e = .other) :
    handleException (n+1) bm bd catches e s = (.err e, s) := by
  rw [handleException_eq]
  rcases he with ⟨c, rfl⟩ | rfl | rfl | rfl <;> rfl

/-- the handler block runs with the exception as 其: the frame on top is an exception frame of the protected block's
module whose receiver is the exception value -/
theorem handler_this_is_exception (bm : Int) (bd : Nat) (ex : Addr) (s : VM ν) :
    (handlerEntry bm bd ex s).stack = { moduleId := bm, callType := 3, this := some ex } :: (unwindTo bd s).2.stack ∧
    (handlerEntry bm bd ex s).csModuleID = bm ∧
    getThis (handlerEntry bm bd ex s) = (.ok (some ex), handlerEntry bm bd ex s) := by
  have h := pushFrame_run (ν := ν) { moduleId := bm, callType := 3, this := some ex } (unwindTo bd s).2
  refine ⟨h.2.1, h.2.2.1, ?_⟩
  exact getThis_cons _ _ _ h.2.1

theorem runHandlerA_run (n : Nat) (bm : Int) (bd : Nat) (ex : Addr) (blk : Option (List Stmt)) (s : VM ν)
    (hbm : 0 ≤ bm) :
    runHandlerA n bm bd ex blk s =
      match evalPureStmtBlock n blk (handlerEntry bm bd ex s) with
      | (.ok _, s3) =>
        (do let rv ← getReturnValue
            popFrame
            match rv with
            | some v => pure v
            | none => newNull) s3
      | (.err e, s3) => (.err e, s3)
      | (.panic, s3) => (.panic, s3)
      | (.fuel, s3) => (.fuel, s3)
      | (.unmodelled, s3) => (.unmodelled, s3) := by
  unfold runHandlerA handlerEntry
  have h1 : unwindTo bd s = (.ok (), (unwindTo bd s).2) := by rw [unwindTo_run]
  rw [bind_ok h1]
  have hlt : ¬ bm < 0 := by omega
  simp only [hlt, if_false]
  have h2 : pushFrame { moduleId := bm, callType := 3, this := some ex } (unwindTo bd s).2 =
      (.ok (), (pushFrame { moduleId := bm, callType := 3, this := some ex } (unwindTo bd s).2).2) := by
    unfold pushFrame modifyVM; rfl
  rw [bind_ok h2, M_bind_def]
  rcases evalPureStmtBlock n blk
    (pushFrame { moduleId := bm, callType := 3, this := some ex } (unwindTo bd s).2).2 with ⟨r, s3⟩
  cases r <;> rfl

/-- the value of a handled block is the handler's 输出 value (its frame's return slot), or a fresh 空 -/
theorem handler_value_or_null_of_stack (n : Nat) (bm : Int) (bd : Nat) (ex : Addr) (blk : Option (List Stmt))
    (s s3 : VM ν) (x : Option Addr) (fr : Frame) (rest : List Frame) (hbm : 0 ≤ bm)
    (hrun : evalPureStmtBlock n blk (handlerEntry bm bd ex s) = (.ok x, s3)) (hst : s3.stack = fr :: rest) :
    (∀ v, fr.ret = some v → (runHandlerA n bm bd ex blk s).1 = .ok v ∧ (runHandlerA n bm bd ex blk s).2.heap = s3.heap) ∧
    (fr.ret = none → (runHandlerA n bm bd ex blk s).1 = .ok s3.heap.size ∧
      (runHandlerA n bm bd ex blk s).2.heap = s3.heap.push .null) := by
  rw [runHandlerA_run n bm bd ex blk s hbm, hrun]
  simp only
  rw [bind_ok (getReturnValue_cons s3 fr rest hst), bind_ok (popFrame_cons s3 fr rest hst)]
  constructor
  · intro v hv; rw [hv]; exact ⟨rfl, rfl⟩
  · intro hv; rw [hv]; exact ⟨rfl, rfl⟩

/-- after a handler block that ended normally its own frame is on top (with the frames below untouched) — no
assumption: the block is balanced (`allBal`) -/
theorem handler_block_keeps_its_frame (n : Nat) (bm : Int) (bd : Nat) (ex : Addr) (blk : Option (List Stmt))
    (s s3 : VM ν) (x : Option Addr)
    (hrun : evalPureStmtBlock n blk (handlerEntry bm bd ex s) = (.ok x, s3)) :
    ∃ fr, s3.stack = fr :: (unwindTo bd s).2.stack ∧ fr.moduleId = bm ∧ fr.callType = 3 ∧ fr.this = some ex := by
  have h := ((allBal (ν := ν) n).evalPureStmtBlock blk).same (handlerEntry bm bd ex s) (by rw [hrun]; rfl)
  rw [hrun, (handler_entry_stack bm bd ex s).1] at h
  obtain ⟨fr, hs, hc⟩ := norm_cons_eq h
  exact ⟨fr, hs, congrArg Frame.moduleId hc, congrArg Frame.callType hc, congrArg Frame.this hc⟩

/-- the value of a handled block is the return slot of the handler's frame, or a fresh 空 -/
theorem handler_value_or_null (n : Nat) (bm : Int) (bd : Nat) (ex : Addr) (blk : Option (List Stmt))
    (s s3 : VM ν) (x : Option Addr) (hbm : 0 ≤ bm)
    (hrun : evalPureStmtBlock n blk (handlerEntry bm bd ex s) = (.ok x, s3)) :
    (∀ v, s3.stack.head?.bind (·.ret) = some v →
      (runHandlerA n bm bd ex blk s).1 = .ok v ∧ (runHandlerA n bm bd ex blk s).2.heap = s3.heap) ∧
    (s3.stack.head?.bind (·.ret) = none → (runHandlerA n bm bd ex blk s).1 = .ok s3.heap.size ∧
      (runHandlerA n bm bd ex blk s).2.heap = s3.heap.push .null) := by
  obtain ⟨fr, hs, _⟩ := handler_block_keeps_its_frame n bm bd ex blk s s3 x hrun
  have := handler_value_or_null_of_stack n bm bd ex blk s s3 x fr _ hbm hrun hs
  rw [hs]
  exact this

/-- restoration: after a handled exception the call stack is the stack `st0` the protected block was entered with (up
to `line` / `ret` of its top frame, which statements of the block have updated in place) — the frames of the calls
that failed inside the block are dropped, the exception frame is popped — hence the call depth, 其 (the top frame's
receiver) and the current module are those of before.  No assumption about the handler block. -/
theorem catch_restores_stack (n : Nat) (bm : Int) (bd : Nat) (ex : Addr) (blk : Option (List Stmt))
    (s s3 : VM ν) (st0 : List Frame) (x : Option Addr) (hbm : 0 ≤ bm)
    (hext : Ext st0 s.stack) (hl : st0.length = bd)
    (hrun : evalPureStmtBlock n blk (handlerEntry bm bd ex s) = (.ok x, s3)) :
    (∃ v, (runHandlerA n bm bd ex blk s).1 = .ok v) ∧
    SameStack st0 (runHandlerA n bm bd ex blk s).2.stack ∧
    (runHandlerA n bm bd ex blk s).2.stack.length = bd ∧
    (runHandlerA n bm bd ex blk s).2.csModuleID = topModule st0 ∧
    getThis (runHandlerA n bm bd ex blk s).2 = (.ok (st0.head?.bind (·.this)), (runHandlerA n bm bd ex blk s).2) := by
  obtain ⟨fr, hs3, _⟩ := handler_block_keeps_its_frame n bm bd ex blk s s3 x hrun
  have hok : ∃ v, (runHandlerA n bm bd ex blk s).1 = .ok v ∧
      (runHandlerA n bm bd ex blk s).2.csModuleID = topModule (runHandlerA n bm bd ex blk s).2.stack := by
    rw [runHandlerA_run n bm bd ex blk s hbm, hrun]
    simp only
    rw [bind_ok (getReturnValue_cons s3 fr _ hs3), bind_ok (popFrame_cons s3 fr _ hs3)]
    cases fr.ret <;> exact ⟨_, rfl, rfl⟩
  obtain ⟨v, hv, hcs⟩ := hok
  obtain ⟨⟨_, hsame⟩, _⟩ := runHandler_rel n (allBal (ν := ν) n).evalPureStmtBlock bm bd ex blk st0 s hext hl
  obtain ⟨hst, hokeq⟩ := runHandler_vs_A n bm bd ex blk s
  rw [hst, hokeq, hv] at hsame
  have hS := hsame rfl
  exact ⟨⟨v, hv⟩, hS, by rw [hS.length_eq, hl], by rw [hcs]; exact topModule_norm hS, getThis_of_norm hS⟩

/-- call stacks are balanced: whatever ends normally — a method or program body (also through a handled exception), a
call, a constructor, an expression, a statement, a block — leaves the call stack it started with, up to `line` /
`ret` of the top frame (statements record their line there, 输出 its value); the frames below are untouched.
By induction on fuel over the whole evaluator (`allBal`); true only since loop signals stop at body boundaries. -/
theorem stack_balanced_on_success (n : Nat) :
    (∀ b ps (s s' : VM ν) v, evalExecBlock n b ps s = (.ok v, s') → SameStack s.stack s'.stack) ∧
    (∀ f ps (s s' : VM ν) v, execDirectFunction n f ps s = (.ok v, s') → SameStack s.stack s'.stack) ∧
    (∀ r f ps (s s' : VM ν) v, execMethodFunction n r f ps s = (.ok v, s') → SameStack s.stack s'.stack) ∧
    (∀ c ps (s s' : VM ν) v, construct n c ps s = (.ok v, s') → SameStack s.stack s'.stack) ∧
    (∀ e (s s' : VM ν) v, evalExpr n e s = (.ok v, s') → SameStack s.stack s'.stack) ∧
    (∀ st (s s' : VM ν) v, evalStmt n st s = (.ok v, s') → SameStack s.stack s'.stack) ∧
    (∀ b (s s' : VM ν) v, evalPureStmtBlock n b s = (.ok v, s') → SameStack s.stack s'.stack) := by
  have h := allBal (ν := ν) n
  refine ⟨fun b ps s s' v hr => ?_, fun f ps s s' v hr => ?_, fun r f ps s s' v hr => ?_,
    fun c ps s s' v hr => ?_, fun e s s' v hr => ?_, fun st s s' v hr => ?_, fun b s s' v hr => ?_⟩
  · have := (h.evalExecBlock b ps).same s (by rw [hr]; rfl); rwa [hr] at this
  · have := (h.execDirectFunction f ps).same s (by rw [hr]; rfl); rwa [hr] at this
  · have := (h.execMethodFunction r f ps).same s (by rw [hr]; rfl); rwa [hr] at this
  · have := (h.construct c ps).same s (by rw [hr]; rfl); rwa [hr] at this
  · have := (h.evalExpr e).same s (by rw [hr]; rfl); rwa [hr] at this
  · have := (h.evalStmt st).same s (by rw [hr]; rfl); rwa [hr] at this
  · have := (h.evalPureStmtBlock b).same s (by rw [hr]; rfl); rwa [hr] at this

/-- what `SameStack` says: both empty, or the same frames below a top frame with the same module, kind and receiver -/
theorem same_stack_means (st st' : List Frame) :
    SameStack st st' ↔ (st = [] ∧ st' = []) ∨
      ∃ f f' r, st = f :: r ∧ st' = f' :: r ∧ f'.moduleId = f.moduleId ∧ f'.callType = f.callType ∧ f'.this = f.this :=
  sameStack_iff st st'

/-- a method or program body never ends with a loop signal — 结束循环 / 继续循环 stop at the body boundary (also when
raised by a 拦截 handler block) -/
theorem loop_signal_stops_at_body (n : Nat) (b : Option ExecBlock) (ps : List Addr) (s : VM ν) :
    (evalExecBlock n b ps s).1 ≠ .err .sigBreak ∧ (evalExecBlock n b ps s).1 ≠ .err .sigContinue := by
  have h := ((allBal (ν := ν) n).evalExecBlock b ps).nosig s
  constructor <;> intro hc <;> rw [hc] at h <;> cases h

/-- hence no call, constructor or expression ends with a loop signal: a loop of the caller can never consume a
signal of a callee … -/
theorem callee_signal_never_reaches_caller (n : Nat) :
    (∀ f ps (s : VM ν), (execDirectFunction n f ps s).1 ≠ .err .sigBreak ∧ (execDirectFunction n f ps s).1 ≠ .err .sigContinue) ∧
    (∀ r f ps (s : VM ν), (execMethodFunction n r f ps s).1 ≠ .err .sigBreak ∧
      (execMethodFunction n r f ps s).1 ≠ .err .sigContinue) ∧
    (∀ c ps (s : VM ν), (construct n c ps s).1 ≠ .err .sigBreak ∧ (construct n c ps s).1 ≠ .err .sigContinue) ∧
    (∀ e (s : VM ν), (evalExpr n e s).1 ≠ .err .sigBreak ∧ (evalExpr n e s).1 ≠ .err .sigContinue) := by
  have h := allBal (ν := ν) n
  refine ⟨fun f ps s => ?_, fun r f ps s => ?_, fun c ps s => ?_, fun e s => ?_⟩
  · have := (h.execDirectFunction f ps).nosig s
    constructor <;> intro hc <;> rw [hc] at this <;> cases this
  · have := (h.execMethodFunction r f ps).nosig s
    constructor <;> intro hc <;> rw [hc] at this <;> cases this
  · have := (h.construct c ps).nosig s
    constructor <;> intro hc <;> rw [hc] at this <;> cases this
  · have := (h.evalExpr e).nosig s
    constructor <;> intro hc <;> rw [hc] at this <;> cases this

/-- … and the signal a loop does consume was raised by a statement running in the loop's own frame: when a block or
statement ends with a loop signal, no frame has been added or removed -/
theorem loop_signal_raised_in_own_frame (n : Nat) (s s' : VM ν) (e : Err) (he : e = .sigBreak ∨ e = .sigContinue) :
    (∀ b, evalPureStmtBlock n b s = (.err e, s') → SameStack s.stack s'.stack) ∧
    (∀ st, evalStmt n st s = (.err e, s') → SameStack s.stack s'.stack) := by
  have h := allBal (ν := ν) n
  have hsig : okOrSig (Res.err e : Res (Option Addr)) = true ∧ okOrSig (Res.err e : Res Addr) = true := by
    rcases he with rfl | rfl <;> exact ⟨rfl, rfl⟩
  constructor
  · intro b hr
    have := (h.evalPureStmtBlock b).same s (by rw [hr]; exact hsig.1); rwa [hr] at this
  · intro st hr
    have := (h.evalStmt st).same s (by rw [hr]; exact hsig.2); rwa [hr] at this

/-- the current module is always the module of the frame on top of the call stack (−1 without frames): the
evaluator keeps this on every outcome -/
theorem module_follows_top_frame (n : Nat) (s : VM ν) (hi : s.csModuleID = topModule s.stack) :
    (∀ st, (evalStmt n st s).2.csModuleID = topModule (evalStmt n st s).2.stack) ∧
    (∀ e, (evalExpr n e s).2.csModuleID = topModule (evalExpr n e s).2.stack) ∧
    (∀ b ps, (evalExecBlock n b ps s).2.csModuleID = topModule (evalExecBlock n b ps s).2.stack) := by
  have h := allBal (ν := ν) n
  exact ⟨fun st => (h.evalStmt st).inv s hi, fun e => (h.evalExpr e).inv s hi,
    fun b ps => (h.evalExecBlock b ps).inv s hi⟩

/-- restoration at the level of the protected body (`evalExecBlock` = a method body or the program body with its
拦截 handlers): a statement of the body fails with `e` (not a loop signal — those become exceptions first, see
`loop_signal_becomes_exception`), a handler matches and its block runs normally.  Then the body yields a value as
if it had returned normally, and the call stack (so the call depth and 其) and the current module are those at
entry (up to `line` / `ret` of the top frame).  No assumption about what failed calls left on the stack or about
the handler block.  (Scope depths and the caller's variables: `C06Eval.exec_block_restores_scope`, unconditional.) -/
theorem catch_restores (n : Nat) (inputs : List Ident) (body : Option (List Stmt))
    (pre post : List (Option Ident × Option (List Stmt))) (i : Ident) (blk : Option (List Stmt))
    (params : List Addr) (s t1 t2 t3 t4 : VM ν) (e : Err) (ex : Addr) (x : Option Addr)
    (hlen : params.length = inputs.length)
    (hpro : (do bindThis (enterScope s); bindInputs inputs params : M ν Unit) (enterScope s) = (.ok (), t1))
    (hbody : evalStmtBlock (n+1) body t1 = (.err e, t2)) (he : isSig e = false)
    (hexc : excOf e t2 = (.ok (some ex), t3)) (hcls : HasClass t3 ex i.lit) (hi : IsName i.lit) (hne : i.lit ≠ "")
    (hpre : ∀ c ∈ pre, ∃ j, c.1 = some j ∧ IsName j.lit ∧ j.lit ≠ i.lit)
    (hmod : 0 ≤ s.csModuleID)
    (hrun : evalPureStmtBlock n blk (handlerEntry s.csModuleID s.stack.length ex t3) = (.ok x, t4)) :
    let r := evalExecBlock (n+2) (some (.mk inputs body (pre ++ (some i, blk) :: post))) params s
    (∃ v, r.1 = .ok v) ∧ SameStack s.stack r.2.stack ∧ r.2.stack.length = s.stack.length ∧
    r.2.csModuleID = topModule s.stack ∧ getThis r.2 = (.ok (s.stack.head?.bind (·.this)), r.2) := by
  intro r
  have hr : r = withScope (execBlockBody (n+1) inputs body (pre ++ (some i, blk) :: post) params) s := by
    show evalExecBlock _ _ _ s = _
    rw [evalExecBlock_eq]
  rw [withScope_run] at hr
  obtain ⟨hes, hec, _⟩ := enterScope_frame s
  -- the prologue keeps the stack; the failing statements only add frames above it
  have hq : Quiet (do bindThis (enterScope s); bindInputs inputs params : M ν Unit) :=
    Quiet.bind (Quiet.bindThis _) fun _ => Quiet.bindInputs _ _
  have ht1 : t1.stack = s.stack := by
    have := hq.stack (enterScope s); rw [hpro] at this; rw [this, hes]
  have hext2 : Ext s.stack t2.stack := by
    have := ((allBal (ν := ν) (n+1)).evalStmtBlock body).ext t1
    rw [hbody, ht1] at this; exact this
  have hext3 : Ext s.stack t3.stack := by
    have := (excOf_frame e t2).1
    rw [hexc] at this; rw [this]; exact hext2
  obtain ⟨⟨v, hv⟩, h3, h4, h5, h6⟩ :=
    catch_restores_stack n s.csModuleID s.stack.length ex blk t3 t4 s.stack x hmod hext3 rfl hrun
  have hhandled : handleException (n+1) s.csModuleID s.stack.length (pre ++ (some i, blk) :: post) e t2 =
      (.ok v, (runHandlerA n s.csModuleID s.stack.length ex blk t3).2) := by
    rw [handler_matches_first_class n _ _ pre post i blk e ex t2 t3 hexc hcls hi hne hpre]
    exact Prod.ext hv rfl
  have hbodyrun : execBlockBody (n+1) inputs body (pre ++ (some i, blk) :: post) params (enterScope s) =
      (.ok v, (runHandlerA n s.csModuleID s.stack.length ex blk t3).2) := by
    rw [body_error_goes_to_handlers (n+1) inputs body _ params (enterScope s) t1 t2 e hlen hpro hbody, hes, hec]
    exact finish_handled _ _ _ _ e t2 _ v he hhandled
  rw [hbodyrun] at hr
  obtain ⟨f1, f2, _, _⟩ := exitScope_frame s (runHandlerA n s.csModuleID s.stack.length ex blk t3).2
  have hr2 : r.2 = exitScope s (runHandlerA n s.csModuleID s.stack.length ex blk t3).2 := by rw [hr]
  have hst : r.2.stack = (runHandlerA n s.csModuleID s.stack.length ex blk t3).2.stack := by rw [hr2, f1]
  refine ⟨⟨v, by rw [hr]⟩, by rw [hst]; exact h3, by rw [hst]; exact h4, by rw [hr2, f2]; exact h5, ?_⟩
  exact getThis_of_norm (by rw [hst]; exact h3)

/-- `Function.Exec` turns a runtime error of the body into an exception error (which callers' handlers catch) -/
theorem function_converts_runtime_error (n : Nat) (exec : Option ExecBlock) (this : Option Addr)
    (params : List Addr) (s s' : VM ν) (c : Nat) (hbody : evalExecBlock n exec params s = (.err (.rt c), s')) :
    execFunction (n+1) (.user exec) this params s =
      (.err (.excErr s'.heap.size), { s' with heap := s'.heap.push (.exc ("‹rt:" ++ toString c ++ "›")) }) := by
  simp only [execFunction]
  unfold Model.tryCatch
  rw [hbody]
  rfl

/-- …and passes thrown exceptions, exception errors, signals and semantic errors through unchanged -/
theorem function_passes_other_errors (n : Nat) (exec : Option ExecBlock) (this : Option Addr)
    (params : List Addr) (s s' : VM ν) (e : Err) (hbody : evalExecBlock n exec params s = (.err e, s'))
    (he : (∀ c, e ≠ .rt c) ∧ e ≠ .other) :
    execFunction (n+1) (.user exec) this params s = (.err e, s') := by
  simp only [execFunction]
  unfold Model.tryCatch
  rw [hbody]
  cases e <;> first | rfl | (exfalso; first | exact he.1 _ rfl | exact he.2 rfl)

/-! ## non-vacuity: each implication above, instantiated on a tiny program over the toy numbers -/

section examples
open ZnVerif.Proofs.Toy

/-- a body `结束循环` raises a signal; it reaches `finishBlock` with module 0 and depth 1 … -/
example : execBlockBody 3 [] (some [.break 0]) [] [] s0 =
    finishBlock 3 0 1 [] (.err .sigBreak) (evalStmtBlock 3 (some [.break 0]) s0).2 :=
  body_error_goes_to_handlers 3 [] (some [.break 0]) [] [] s0 s0 _ .sigBreak rfl rfl rfl

/-- … where it becomes an exception error (the fresh 异常 value at address 2), not a signal -/
example : (execBlockBody 3 [] (some [.break 0]) [] [] s0).1 = .err (.excErr 2) := by
  rw [body_error_goes_to_handlers 3 [] (some [.break 0]) [] [] s0 s0 _ .sigBreak rfl rfl rfl,
    (loop_signal_becomes_exception 3 s0.csModuleID s0.stack.length [] _).1]
  rfl

/-- a runtime fault handled by `拦截 异常`: the handler's value is the body's value -/
example : ∃ t', finishBlock 3 0 1 [(some ⟨0, "异常"⟩, some [])] (.err (.rt 40)) s0 = (.ok 3, t') :=
  ⟨_, handled_error_is_body_value 3 0 1 _ (.rt 40) s0 _ 3 rfl rfl⟩

example : ∃ t', finishBlock 3 0 1 [] (.err (.rt 40)) s0 = (.err (.rt 40), t') :=
  ⟨_, unhandled_error_leaves_body 3 0 1 [] (.rt 40) (.rt 40) s0 _ rfl rfl rfl⟩

/-- thrown 异常 value at address 0; handlers 甲, 异常, and a malformed third one that is never looked at -/
example : handleException 3 0 1 ([(some ⟨0, "甲"⟩, none)] ++ (some ⟨0, "异常"⟩, some []) :: [(none, none)])
    (.sigExc 0) s0 = runHandlerA 2 0 1 0 (some []) s0 :=
  handler_matches_first_class 2 0 1 [(some ⟨0, "甲"⟩, none)] [(none, none)] ⟨0, "异常"⟩ (some []) (.sigExc 0) 0 s0 s0
    rfl (Or.inl ⟨"boom", rfl, rfl⟩) (by decide) (by decide)
    (by intro c hc; simp at hc; subst hc; exact ⟨⟨0, "甲"⟩, rfl, by decide, by decide⟩)

example : handleException 3 0 1 [(some ⟨0, "甲"⟩, none)] (.sigExc 0) s0 = (.err (.sigExc 0), s0) :=
  unmatched_propagates_unchanged 2 0 1 [(some ⟨0, "甲"⟩, none)] (.sigExc 0) 0 s0 s0 "异常"
    rfl (Or.inl ⟨"boom", rfl, rfl⟩)
    (by intro c hc; simp at hc; subst hc; exact ⟨⟨0, "甲"⟩, rfl, by decide, by decide⟩)

/-- index-out-of-range (code 40) caught by `拦截 异常`: the handler's value is a fresh 空 at address 3 -/
example : (handleException 3 0 1 [(some ⟨0, "异常"⟩, some [])] (.rt 40) s0).1 = .ok 3 := by
  rw [runtime_fault_is_catchable 2 0 1 [] ⟨0, "异常"⟩ (some []) 40 s0 rfl]; rfl

example : handleException 3 0 1 [(some ⟨0, "异常"⟩, some [])] .sigBreak s0 = (.err .sigBreak, s0) :=
  non_exception_errors_pass 2 0 1 _ .sigBreak s0 (Or.inr (Or.inl rfl))

/-- handler `输出 “x”`: the value is the text cell (address 2); handler without 输出: a fresh 空 (address 2) -/
example : (runHandlerA 3 0 1 0 (some [.ret 0 (.str 0 "x")]) s0Failed).1 = .ok 2 :=
  ((handler_value_or_null 3 0 1 0 (some [.ret 0 (.str 0 "x")]) s0Failed _ _ (by decide) rfl).1 2 rfl).1

example : ∃ fr, (evalPureStmtBlock 3 (some [.ret 0 (.str 0 "x")]) (handlerEntry 0 1 0 s0Failed)).2.stack = fr :: s0.stack ∧
    fr.this = some 0 := by
  obtain ⟨fr, h1, _, _, h4⟩ := handler_block_keeps_its_frame 3 0 1 0 (some [.ret 0 (.str 0 "x")]) s0Failed _ _ rfl
  exact ⟨fr, h1, h4⟩

example : (runHandlerA 3 0 1 0 (some []) s0Failed).1 = .ok 2 ∧
    (runHandlerA 3 0 1 0 (some []) s0Failed).2.heap = #[.exc "boom", .null, .null] :=
  (handler_value_or_null 3 0 1 0 (some []) s0Failed _ _ (by decide) rfl).2 rfl

/-- a call failed inside the protected block (its frame is still there); after the handler the stack is the script
frame alone, the module is 0 and there is no receiver -/
example : SameStack s0.stack (runHandlerA 3 0 1 0 (some []) s0Failed).2.stack ∧
    (runHandlerA 3 0 1 0 (some []) s0Failed).2.csModuleID = 0 :=
  let h := catch_restores_stack 3 0 1 0 (some []) s0Failed _ s0.stack _
    (by decide) ⟨[{ moduleId := 0, callType := 2 }], s0.stack, rfl, rfl⟩ rfl rfl
  ⟨h.2.1, h.2.2.2.1⟩

/-- a method with no inputs called with one argument: error 51 inside becomes an exception error outside -/
example : (execFunction 3 (.user (some (.mk [] (some []) []))) none [7] s0).1 = .err (.excErr 2) := by
  rw [function_converts_runtime_error 2 (some (.mk [] (some []) [])) none [7] s0 _ 51 rfl]
  rfl

/-- a method body `结束循环`: the exception error the body made of the signal passes through `Function.Exec` -/
example : (execFunction 5 (.user (some (.mk [] (some [.break 0]) []))) none [] s0).1 = .err (.excErr 2) := by
  rw [function_passes_other_errors 4 (some (.mk [] (some [.break 0]) [])) none [] s0 _ (.excErr 2) rfl
    ⟨(by intro c h; cases h), (by intro h; cases h)⟩]

/-- a runtime fault (code 80) inside a body with handler `拦截 异常` without 输出: the body yields a fresh 空; stack,
module and 其 are those of the entry -/
example :
    let r := evalExecBlock 6 (some (.mk [] (some [.expr (.arr 0 [.nil])]) [(some ⟨0, "异常"⟩, some [])])) [] s0
    r.1 = .ok 3 ∧ SameStack s0.stack r.2.stack ∧ r.2.csModuleID = 0 := by
  have h := catch_restores 4 [] (some [.expr (.arr 0 [.nil])]) [] [] ⟨0, "异常"⟩ (some []) [] s0 (enterScope s0)
    (evalStmtBlock 5 (some [.expr (.arr 0 [.nil])]) (enterScope s0)).2
    (excOf (.rt 80) (evalStmtBlock 5 (some [.expr (.arr 0 [.nil])]) (enterScope s0)).2).2
    (evalPureStmtBlock 4 (some []) (handlerEntry 0 1 2
      (excOf (.rt 80) (evalStmtBlock 5 (some [.expr (.arr 0 [.nil])]) (enterScope s0)).2).2)).2
    (.rt 80) 2 none
    rfl rfl rfl rfl rfl (Or.inl ⟨_, rfl, rfl⟩) (by decide) (by decide)
    (by intro c hc; cases hc) (by decide) rfl
  exact ⟨rfl, h.2.1, h.2.2.2.1⟩

/-- `g` is `如何g？ 结束循环`: the call fails with an exception error, not with a signal (before the repair the signal
crossed the method boundary and an enclosing 每当 of the caller consumed it) -/
example : (execDirectFunction 7 "g" [] sG).1 = .err (.excErr 1) := rfl

/-- a successful call of `f` (输出 “x”) from `sF`: the stack afterwards is the caller's -/
example : SameStack sF.stack (execDirectFunction 7 "f" [] sF).2.stack :=
  (stack_balanced_on_success 7).2.1 "f" [] sF _ 1 rfl

/-- `结束循环` as a statement of a block: the signal leaves the block with the stack as it was -/
example : SameStack s0.stack (evalPureStmtBlock 3 (some [.break 0]) s0).2.stack :=
  (loop_signal_raised_in_own_frame 3 s0 _ .sigBreak (Or.inl rfl)).1 (some [.break 0]) rfl

example : (evalStmt 3 (.empty 0) s0).2.csModuleID = topModule (evalStmt 3 (.empty 0) s0).2.stack :=
  (module_follows_top_frame 3 s0 rfl).1 _

/-- a failing first statement: the second (which would panic) never runs -/
example : (stmtsLoop (evalStmt 1) none [.break 0, .nil] s0).1 = .err .sigBreak := by
  rw [raise_skips_rest (evalStmt 1) none (.break 0) [.nil] s0 _ .sigBreak rfl rfl]

/-- `抛出点！` where 点 is a user type with the default constructor: the new instance (address 2) is raised -/
example : (evalStmt 3 (.throw 0 (some ⟨0, "点"⟩) []) sO).1 = .err (.sigExc 2) := by
  rw [throw_raises 2 0 ⟨0, "点"⟩ sO _ 0 2 "点" .default [] [] _ _ "点" rfl rfl rfl rfl rfl]

end examples

end ZnVerif.Properties.C09
