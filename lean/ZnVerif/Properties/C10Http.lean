/-
C10 — no program can crash the host process: the value classes of pkg/common (http_request.go, http_resp.go).

`CLASS_HttpRequest.Construct(values)` / `CLASS_HttpResponse.Construct(values)` for EVERY argument list: the outcome is the new
object or a Zn error (too few / too many / ill-typed arguments: 50 / 73 / 82; the JSON exception for a body holding NaN or ±Inf) —
never a Go panic, never a nil result.  On the pinned tree `ValidateLeastParams` indexed `values[idx]` past the end when fewer than
two arguments were given (`新建HTTP请求` without arguments: index out of range; commit ac9b960); after the repair the validator's
`ok` fixes the number of values at two or three, which is what makes the constructors' own `values[0]`, `values[1]`, `values[2]`
safe (`request_patterns_ok`, `response_patterns_ok` in Proofs/HttpValues.lean).

Model: Model/HttpValues.lean (the Go constructors statement by statement, `SetProperty` errors dropped as in Go, JSON through
Model/Json.lean).  The classes define properties only, so the members of their objects are `getProperty` / `setProperty` /
`builtinMethod` of Model/Interp.lean on an `.obj` cell: Properties/C10.lean `getProperty_total`, `setProperty_total`, `builtin_total`.
Tie to the code: `Generated.Members.classes` (regenerated: names, properties, constructor patterns) = the model's `classTable`;
tools/props/c10.py stream `httpval` (Construct, then every property, Go = model) and the member sweep on `req` / `resp` / `reqcls` /
`respcls`.
-/
import ZnVerif.Properties.C10
import ZnVerif.Proofs.HttpValues
set_option linter.unusedSectionVars false

namespace ZnVerif.Properties.C10Http
open ZnVerif.Model ZnVerif.Model.HttpValues ZnVerif.Proofs.Builtins ZnVerif.Proofs.HttpValues ZnVerif.Generated
open ZnVerif.Properties.C10 (GoodOutcome good_of_post)

variable {ν : Type} [NumOps ν]

/-- **http_request_ctor_total**: for every fuel, class cell, argument list (any length, any values) and well-formed heap,
    `新建HTTP请求：…` does not panic, keeps the heap well-formed, and a result is the address of a cell -/
theorem http_request_ctor_total (C : Json.NumCodec ν) (n : Nat) (cv : Addr) (params : List Addr) (s : VM ν)
    (hs : WfHeap s) (hcv : IsCls s.heap cv) (hp : ∀ v ∈ params, v < s.heap.size) :
    GoodOutcome s (requestConstruct C n cv params s) := by
  refine good_of_post ?_
  unfold requestConstruct
  refine Post.bind (post_newObject n hs hcv) (fun inst s1 hs1 e1 hinst => ?_)
  exact post_requestCtor C n hs1 hinst (fun v hv => Nat.lt_of_lt_of_le (hp v hv) e1.size)

/-- **http_response_ctor_total** -/
theorem http_response_ctor_total (C : Json.NumCodec ν) (n : Nat) (cv : Addr) (params : List Addr) (s : VM ν)
    (hs : WfHeap s) (hcv : IsCls s.heap cv) (hp : ∀ v ∈ params, v < s.heap.size) :
    GoodOutcome s (responseConstruct C n cv params s) := by
  refine good_of_post ?_
  unfold responseConstruct
  refine Post.bind (post_newObject n hs hcv) (fun inst s1 hs1 e1 hinst => ?_)
  exact post_responseCtor C n hs1 hinst (fun v hv => Nat.lt_of_lt_of_le (hp v hv) e1.size)

/-- the constructors applied directly to an object (`self`), as the Go `FuncExecutor`s are -/
theorem http_request_ctor_body_total (C : Json.NumCodec ν) (n : Nat) (self : Addr) (values : List Addr) (s : VM ν)
    (hs : WfHeap s) (ha : self < s.heap.size) (hv : ∀ v ∈ values, v < s.heap.size) :
    GoodOutcome s (requestCtor C n self values s) := good_of_post (post_requestCtor C n hs ha hv)

theorem http_response_ctor_body_total (C : Json.NumCodec ν) (n : Nat) (self : Addr) (values : List Addr) (s : VM ν)
    (hs : WfHeap s) (ha : self < s.heap.size) (hv : ∀ v ∈ values, v < s.heap.size) :
    GoodOutcome s (responseCtor C n self values s) := good_of_post (post_responseCtor C n hs ha hv)

/-- what the repaired validator guarantees the constructors: two or three values -/
theorem http_ctor_arity (vs : List Validate.VKind) :
    (Validate.validateLeast true true vs requestPatterns = .ok → vs.length = 2 ∨ vs.length = 3) ∧
    (Validate.validateLeast true true vs responsePatterns = .ok → vs.length = 2 ∨ vs.length = 3) :=
  ⟨request_patterns_ok vs, response_patterns_ok vs⟩

/-- … and what happened before the repair, on the witness: no argument at all → the validator itself indexes out of range -/
theorem http_ctor_panicked_before_fix :
    Validate.validateLeast false true [] requestPatterns = .panic ∧
    Validate.validateLeast false true [.number] responsePatterns = .panic := by decide

/-- **member tables**: the classes, their property names (in definition order) and the constructor patterns of the code are the
    ones the model has -/
theorem http_member_tables : classTable = Members.classes := by decide

/-- an object of the two classes has no method: every name is MethodNotFound (46) for every argument list -/
theorem http_objects_have_no_methods (n : Nat) (a cv : Addr) (props : List (String × Addr)) (name : String) (vals : List Addr)
    (s : VM ν) (h : s.heap[a]? = some (.obj cv props)) : (builtinMethod n a name vals s).1 = .err (.rt 46) := by
  unfold builtinMethod
  rw [bind_apply, getCell_apply h]
  rfl

/-! non-vacuity -/
section examples
local instance unitNum : NumOps Unit where
  add _ _ := (); sub _ _ := (); mul _ _ := (); div _ _ := (); floor _ := (); ceil _ := (); sqrt _ := ()
  eq _ _ := true; lt _ _ := false; gt _ _ := false; le _ _ := true; ge _ _ := true
  isZero _ := false; leZero _ := false; ofInt _ := (); toInt _ := 0; parse _ := (); fmt _ := ""

def unitCodec : Json.NumCodec Unit := { isFinite := fun _ => true, fmtNum := fun _ => [0x30], parseNum := fun _ => some (), ofInt := fun _ => () }

/-- state: the request class at 6, the texts “GET” (7) and “/a” (8) -/
def s0 : VM Unit := ((do let c ← mkRequestClass; let _ ← newStr "GET"; let _ ← newStr "/a"; pure c : M Unit Addr) {}).2

/-- no argument (the former crash): LeastParamsError (50) -/
example : (requestConstruct unitCodec 9 6 [] s0).1 = .err (.rt 50) := by rfl
example : (requestConstruct unitCodec 9 6 [7] s0).1 = .err (.rt 50) := by rfl
/-- two texts: an object whose 方法 and URL are the arguments themselves -/
example : (match requestConstruct unitCodec 9 6 [7, 8] s0 with
    | (.ok o, s') => (match s'.heap[o]? with
      | some (.obj 6 props) => lookup "方法" props == some 7 && lookup "URL" props == some 8
      | _ => false)
    | _ => false) = true := by rfl
/-- a third argument that is a text: 内容 is it, 头部 has Content-Type -/
example : (match requestConstruct unitCodec 9 6 [7, 8, 8] s0 with
    | (.ok o, s') => (match s'.heap[o]? with
      | some (.obj 6 props) => lookup "内容" props == some 8
      | _ => false)
    | _ => false) = true := by rfl
end examples

end ZnVerif.Properties.C10Http
