/-
C03 at CHARACTER level — the lexer model composed with the parser round trip, for a canonical text rendering.

Spec (Spec/RenderChars.lean): `renderTokens : List RTok → List Nat` writes a list of items with layout instructions as text — every
token by its spelling (any keyword of the documented list, so either synonym; Chinese or ASCII punctuation; operator marks; plain
names and numbers over the name alphabet; names between back-ticks; text literals through C13's `encodeSafe`), tokens of a line
separated by exactly one space, a line started by `k` TABs and ended by LF.  `tokensOf` / `lineTable` / `layoutOf` are the token list
(with start and end indices) and the line table the rendering determines.

Theorems (all by induction, no enumeration; the lexer is the well-founded model of Model/Lexer.lean, no fuel but the token count):
 * `lex_rendered`            — `lexAll` on the text answers exactly `tokensOf rts` then EOF, no error, and leaves exactly `lineTable rts`
                               as `Lexer.Lines` (start index, indentation AND `LineText` slice of every line);
 * `rendered_in_order`       — those tokens are in reading order against that layout (`Layout.InOrder`);
 * `parse_source_is_laid_out`— for EVERY fuel and every parser variant, `Parser.Parse` on the text (parser model driven by the lexer
                               model, line table as known so far) answers what the parser model answers on `tokensOf rts` read against
                               `layoutOf rts` — trees, syntax errors, panics, out-of-fuel alike (simulation through all 45 productions:
                               Proofs/LexSim*.lean; lexer side: Proofs/RenderLex*.lean, Proofs/RenderGap*.lean);
 * `parse_render_canonical`  — composition with `parse_statements_roundtrip`: if the rendered tokens render the program `p`
                               (`LinProgram`) under the layout the rendering determines, the text parses to exactly `p` — same tree, same
                               line numbers — for every fuel from `16 * tokens + 52` on.
All four are corollaries of the theorems about documents with free layout (Properties/C03Layouts.lean: `lex_rendered_doc`,
`doc_in_order`, `parse_doc_is_laid_out`, `parse_render_doc_plain`): a canonical rendering is the document `renderDoc .tab k₀ (tok :: ofRToks …)`
(Proofs/RenderGapEmbed.lean).  What is still open is said at `parse_render_layouts_full` (Properties/C03Layouts.lean).
-/
import ZnVerif.Proofs.RenderGapEmbed
import ZnVerif.Properties.C03Layouts

namespace ZnVerif.Properties.C03
open ZnVerif.Model ZnVerif.Model.Parser ZnVerif.Generated.Tokens ZnVerif.Generated.ParserTables
open ZnVerif.Spec.StmtSyntax ZnVerif.Spec.RenderChars
open ZnVerif.Proofs.RenderLex ZnVerif.Proofs.LexSim ZnVerif.Proofs.LexRun

theorem layout_ext {a b : Layout} (h1 : a.lines = b.lines) (h2 : a.eofIdx = b.eofIdx) : a = b := by
  cases a; cases b; simp_all

theorem item_type_ne_comment (it : Item) (hw : it.WF) : it.type ≠ cTypeComment := by
  cases it with
  | kw sp ty =>
    have : ∀ k ∈ ZnVerif.Spec.Keywords.documented, k.2 ≠ cTypeComment := by decide
    exact this _ hw
  | punct ch ty =>
    have : ∀ k ∈ punctuationTypeMap, k.2 ≠ cTypeComment := by decide
    exact this _ hw
  | op sp ty =>
    have : ∀ k ∈ operatorTable, k.2 ≠ cTypeComment := by decide
    exact this _ hw
  | name cs => simp [Item.type]; decide
  | quoted cs => simp [Item.type]; decide
  | text q t => cases q <;> simp [Item.type, ZnVerif.Spec.Literal.Quote.type] <;> decide
  | cmt c => exact hw.elim

theorem toksFrom_no_comment : ∀ (rs : List RTok) (first : Bool) (pos : Nat), WFFrom rs →
    ∀ t ∈ toksFrom first pos rs, t.type ≠ cTypeComment := by
  intro rs
  induction rs with
  | nil => intro _ _ _ t ht; simp [toksFrom] at ht
  | cons r rs ih =>
    intro first pos hw t ht
    simp only [toksFrom, List.mem_cons] at ht
    rcases ht with rfl | ht
    · exact item_type_ne_comment r.item hw.1
    · exact ih false _ hw.2.2 t ht

/-- a canonical rendering is a document: same text, same tokens (none a comment), same layout, and well-formed -/
theorem canonical_is_doc (rts : List RTok) (hwf : WF rts) : ∃ k0 els,
    renderTokens rts = renderDoc .tab k0 els ∧ tokensOf rts = docTokens .tab k0 els ∧ layoutOf rts = docLayout .tab k0 els ∧
    DocWF .tab k0 els ∧ tokCount els = rts.length ∧ (∀ t ∈ docTokens .tab k0 els, t.type ≠ cTypeComment) := by
  obtain ⟨⟨r0, rs, k0, rfl, hk⟩, hw⟩ := hwf
  refine ⟨k0, .tok r0.item :: ofRToks rs, renderTokens_eq r0 rs k0 hk, tokensOf_eq r0 rs k0 hk, ?_, docWF_of_WF r0 rs k0 hw, ?_,
    by rw [← tokensOf_eq r0 rs k0 hk]; exact toksFrom_no_comment _ true 0 hw⟩
  · apply layout_ext
    · show (lineTable (r0 :: rs)).toArray = (docLines .tab k0 _).toArray
      rw [lineTable_eq r0 rs k0 hk]
    · show (renderTokens (r0 :: rs)).length = (renderDoc .tab k0 _).length
      rw [renderTokens_eq r0 rs k0 hk]
  · have : ∀ rs : List RTok, tokCount (ofRToks rs) = rs.length := by
      intro rs
      induction rs with
      | nil => rfl
      | cons r rs ih => cases hnl : r.nl <;> simp [ofRToks, hnl, tokCount, ih]
    simp [tokCount, this]

/-- **lex_rendered**: the lexer model on the canonical text of a well-formed token list answers exactly the rendered tokens — types,
literals, start and end indices — then EOF at the end of the text, without error; and the line table it leaves is exactly the one
the rendering determines (every physical line: start index, number of TABs, `LineText` from after the TABs to the line feed; last
the empty line after the final LF).  Any token budget from `tokens + 2` on. -/
theorem lex_rendered (rts : List RTok) (hwf : WF rts) (fuel : Nat) (hf : rts.length + 2 ≤ fuel) :
    (lexAll fuel (mkLexer (renderTokens rts)) []).1 = tokensOf rts ++ [(layoutOf rts).eof] ∧
    (lexAll fuel (mkLexer (renderTokens rts)) []).2.1 = some (.ok ()) ∧
    (lexAll fuel (mkLexer (renderTokens rts)) []).2.2.lines = (layoutOf rts).lines := by
  obtain ⟨k0, els, h1, h2, h3, h4, h5, _⟩ := canonical_is_doc rts hwf
  rw [h1, h2, h3]
  exact lex_rendered_doc .tab k0 els h4 fuel (by omega)

/-- **rendered_in_order**: the rendered tokens come in reading order against the layout the rendering determines (and none is a
comment) — the side condition `Layout.InOrder` of `parse_statements_roundtrip` always holds of a rendering. -/
theorem rendered_in_order (rts : List RTok) (hwf : WF rts) : (layoutOf rts).InOrder (tokensOf rts) := by
  obtain ⟨k0, els, _, h2, h3, h4, _, h6⟩ := canonical_is_doc rts hwf
  rw [h2, h3]
  have := doc_in_order .tab k0 els h4
  rw [clean_of_no_comment h6] at this
  exact this

/-- **parse_source_is_laid_out**: on the canonical text, the parser model driven by the lexer model is the parser model on the
rendered token list read against the rendered layout — whatever the answer, for every fuel and every variant of the parser. -/
theorem parse_source_is_laid_out (v : Variant) (rts : List RTok) (hwf : WF rts) (n : Nat) :
    parseSource v n (renderTokens rts) = parseLaidOut v (layoutOf rts) n (tokensOf rts) := by
  obtain ⟨k0, els, h1, h2, h3, h4, _, _⟩ := canonical_is_doc rts hwf
  rw [h1, h2, h3]
  exact parse_doc_is_laid_out v .tab k0 els h4 n

/-- **parse_render_canonical**: for every program `p` and every well-formed rendered token list whose tokens render `p`
(`LinProgram`: the rendering relation of Spec/StmtSyntax, with the lines the parser stores) under the layout the rendering
determines, parsing the canonical TEXT yields exactly `p` — the same tree with the same line numbers — for every fuel from
`16 * tokens + 52` on; for the repaired parser and the pinned one alike.  (Corollary of `parse_render_doc_plain`.) -/
theorem parse_render_canonical (v : Variant) {p : Program} (rts : List RTok) (hwf : WF rts)
    (h : LinProgram (layoutOf rts) p (tokensOf rts)) (n : Nat) (hn : 16 * rts.length + 52 ≤ n) :
    parseSource v n (renderTokens rts) = .tree p := by
  obtain ⟨k0, els, h1, h2, h3, h4, h5, h6⟩ := canonical_is_doc rts hwf
  rw [h1]
  rw [h2, h3] at h
  exact parse_render_doc_plain v .tab k0 els h4 h6 h n (by rw [h5]; exact hn)

/-- the text determines the tree: two programs rendered by the same canonical text are equal -/
theorem canonical_text_unambiguous {p p' : Program} (rts : List RTok) (hwf : WF rts)
    (h : LinProgram (layoutOf rts) p (tokensOf rts)) (h' : LinProgram (layoutOf rts) p' (tokensOf rts)) : p = p' :=
  rendering_unambiguous h h' (rendered_in_order rts hwf)

-- ---- non-vacuity: a five-line program with a nested block, as TEXT ------------------------------------------------------

namespace CharsExample
open ZnVerif.Proofs.StmtRT

/-- the text, spelled out: a declaration, a loop whose block (one TAB) holds two statements, an expression statement -/
def exText : String := "令 甲 设为 乙\n每当 甲 ：\n\t输出 甲\n\t结束循环\n甲 + 乙\n"

/-- the same as items with layout instructions -/
def exRts : List RTok := [
  ⟨.kw [0x4EE4] 40, some 0⟩, ⟨.name [0x7532], none⟩, ⟨.kw [0x8BBE, 0x4E3A] 49, none⟩, ⟨.name [0x4E59], none⟩,
  ⟨.kw [0x6BCF, 0x5F53] 60, some 0⟩, ⟨.name [0x7532], none⟩, ⟨.punct 0xFF1A 13, none⟩,
  ⟨.kw [0x8F93, 0x51FA] 48, some 1⟩, ⟨.name [0x7532], none⟩,
  ⟨.kw [0x7ED3, 0x675F, 0x5FAA, 0x73AF] 81, some 1⟩,
  ⟨.name [0x7532], some 0⟩, ⟨.op [0x2B] cTypePlus, none⟩, ⟨.name [0x4E59], none⟩]

/-- the canonical rendering of the items IS the text -/
theorem exText_rendered : renderTokens exRts = exText.toList.map Char.toNat := by decide

set_option maxRecDepth 100000 in
theorem exRts_wf : WF exRts := by decide +kernel

/-- the layout the rendering determines: six physical lines (the last one empty), 34 characters -/
abbrev exY : Layout := layoutOf exRts

example : exY.lines = #[closedLine 0 0 8, closedLine 9 0 15, closedLine 16 1 21, closedLine 22 1 27, closedLine 28 0 33,
    closedLine 34 0 34] ∧ exY.eofIdx = 34 := by decide

private def tk (ty : Nat) (a b : Nat) (lit : List Nat := []) : Token := { type := ty, literal := lit, startIdx := a, endIdx := b }

-- 令 甲 设为 乙
private def a1 := tk cTypeDeclareW 0 1
private def a2 := tk cTypeIdentifier 2 3 [0x7532]
private def a3 := tk cTypeAssignW 4 6
private def a4 := tk cTypeIdentifier 7 8 [0x4E59]
-- 每当 甲 ：
private def b1 := tk cTypeWhileLoopW 9 11
private def b2 := tk cTypeIdentifier 12 13 [0x7532]
private def b3 := tk cTypeFuncCall 14 15
-- ⇥输出 甲
private def c1 := tk cTypeReturnW 17 19
private def c2 := tk cTypeIdentifier 20 21 [0x7532]
-- ⇥结束循环
private def d1 := tk cTypeBreakW 23 27
-- 甲 + 乙
private def e1 := tk cTypeIdentifier 28 29 [0x7532]
private def e2 := tk cTypePlus 30 31
private def e3 := tk cTypeIdentifier 32 33 [0x4E59]

/-- the rendered tokens, with the positions they have in the text -/
theorem exTokens_eq : tokensOf exRts = [a1, a2, a3, a4, b1, b2, b3, c1, c2, d1, e1, e2, e3] := by decide

private def idE (t : Token) : Expr := .id (exY.idOf t)

/-- the tree: a declaration on line 0, a loop on line 1 whose block holds the statements of lines 2 and 3, an expression on line 4 -/
def exProgram : Program :=
  { imports := [],
    exec := some (.mk [] (some
      [.varDecl (exY.sl a1) [(vdTypeOf a3, [exY.idOf a2], idE a4)],
       .while (exY.sl b1) (idE b2) (some [.ret (exY.sl c1) (idE c2), .break (exY.sl d1)]),
       .expr (.arith (exY.sl e2) (lookupD addSubOverride e2.type addSubDefault) (idE e1) (idE e3))]) []) }

private theorem lin_id (t : Token) (h : t.type = cTypeIdentifier) : LinE exY 1 (idE t) [t] := linE_id1 t h

/-- the rendered tokens render that program under the layout the rendering determines -/
theorem exProgram_rendered : LinProgram exY exProgram (tokensOf exRts) := by
  rw [exTokens_eq]
  have hdecl : LinN exY 0 (.stmt (.varDecl (exY.sl a1) [(vdTypeOf a3, [exY.idOf a2], idE a4)])) [a1, a2, a3, a4] :=
    .simple 0 _ _ (.declStmt a1 a3 _ [a2] _ [a4] rfl (.one a2 rfl) (by decide) (lin_id a4 rfl) (by decide))
  have hret : LinN exY 1 (.stmt (.ret (exY.sl c1) (idE c2))) [c1, c2] :=
    .simple 1 _ _ (.retStmt c1 _ [c2] rfl (lin_id c2 rfl) (by decide))
  have hbrk : LinN exY 1 (.stmt (.break (exY.sl d1))) [d1] := .simple 1 _ _ (.breakStmt d1 rfl)
  have hblk : LinN exY 1 (.block [.ret (exY.sl c1) (idE c2), .break (exY.sl d1)]) ([c1, c2] ++ ([d1] ++ [])) :=
    .blockCons 1 _ _ _ _ hret (by decide) (.blockCons 1 _ _ _ _ hbrk (by decide) (.blockNil 1) (Or.inl rfl)) (Or.inr (by decide))
  have hwhile : LinN exY 0 (.stmt (.while (exY.sl b1) (idE b2) (some [.ret (exY.sl c1) (idE c2), .break (exY.sl d1)])))
      (b1 :: [b2] ++ b3 :: ([c1, c2] ++ ([d1] ++ []))) :=
    .whileStmt 0 b1 b3 _ [b2] _ _ rfl (lin_id b2 rfl) rfl (by decide) (by decide) (by simp) hblk
  have hadd : LinE exY 1 (.arith (exY.sl e2) (lookupD addSubOverride e2.type addSubDefault) (idE e1) (idE e3)) ([e1] ++ e2 :: [e3]) :=
    .up 1 _ _ (by decide) (.up 2 _ _ (by decide) (.up 3 _ _ (by decide) (.up 4 _ _ (by decide)
      (.add e2 _ _ [e1] [e3] (by decide)
        (.up 5 _ _ (by decide) (.up 6 _ _ (by decide) (.id e1 rfl))) (.up 6 _ _ (by decide) (.id e3 rfl))))))
  have hexpr : LinN exY 0 (.stmt (.expr (.arith (exY.sl e2) (lookupD addSubOverride e2.type addSubDefault) (idE e1) (idE e3))))
      ([e1] ++ e2 :: [e3]) := .simple 0 _ _ (.exprStmt _ _ hadd (by decide) (by decide))
  have hbody : LinN exY 0 (.block _) ([a1, a2, a3, a4] ++ ((b1 :: [b2] ++ b3 :: ([c1, c2] ++ ([d1] ++ []))) ++ (([e1] ++ e2 :: [e3]) ++ []))) :=
    .blockCons 0 _ _ _ _ hdecl (by decide)
      (.blockCons 0 _ _ _ _ hwhile (by decide) (.blockCons 0 _ _ _ _ hexpr (by decide) (.blockNil 0) (Or.inl rfl)) (Or.inr (by decide)))
      (Or.inr (by decide))
  exact .body 0 _ _ (.execPlain 0 _ _ [] [] hbody (.handNil 0) (Or.inl rfl) (by simp))

/-- … so `parse_render_canonical` applies to the TEXT: the parser model driven by the lexer model returns exactly that tree, the
repaired parser and the pinned one alike -/
example : parseSource Variant.fixed 300 (exText.toList.map Char.toNat) = .tree exProgram := by
  rw [← exText_rendered]
  exact parse_render_canonical _ exRts exRts_wf exProgram_rendered 300 (by decide)
example : parseSource Variant.legacy 300 (exText.toList.map Char.toNat) = .tree exProgram := by
  rw [← exText_rendered]
  exact parse_render_canonical _ exRts exRts_wf exProgram_rendered 300 (by decide)

set_option maxRecDepth 100000 in
/-- independently of the theorems, by kernel evaluation of lexer model + parser model on the text (the well-founded loops of the
lexer reduce in the kernel): the tree, with the line numbers spelled out -/
example : (match parseSource Variant.fixed 300 (exText.toList.map Char.toNat) with
    | .tree ⟨[], some (.mk [] (some
        [.varDecl 0 [(1, [⟨0, _⟩], .id ⟨0, _⟩)],
         .while 1 (.id ⟨1, _⟩) (some [.ret 2 (.id ⟨2, _⟩), .break 3]),
         .expr (.arith 4 12 (.id ⟨4, _⟩) (.id ⟨4, _⟩))]) [])⟩ => true
    | _ => false) = true := by decide +kernel

set_option maxRecDepth 100000 in
/-- `lex_rendered` on the example, and by evaluation: 13 tokens then EOF at 34, six lines -/
example : (lexAll 20 (mkLexer (exText.toList.map Char.toNat)) []).1 = tokensOf exRts ++ [exY.eof] ∧
    (lexAll 20 (mkLexer (exText.toList.map Char.toNat)) []).2.2.lines = exY.lines := by
  rw [← exText_rendered]
  exact ⟨(lex_rendered exRts exRts_wf 20 (by decide)).1, (lex_rendered exRts exRts_wf 20 (by decide)).2.2⟩
set_option maxRecDepth 100000 in
example : (lexAll 20 (mkLexer (exText.toList.map Char.toNat)) []).1.length = 14 ∧
    (lexAll 20 (mkLexer (exText.toList.map Char.toNat)) []).2.2.lines.size = 6 := by decide +kernel

/-- the layout matters at character level too: the same text with the TAB of line 3 removed puts 结束循环 after the loop -/
example : (match parseSource Variant.fixed 300 ("令 甲 设为 乙\n每当 甲 ：\n\t输出 甲\n结束循环\n甲 + 乙\n".toList.map Char.toNat) with
    | .tree ⟨[], some (.mk [] (some [.varDecl .., .while 1 _ (some [.ret 2 _]), .break 3, .expr _]) [])⟩ => true
    | _ => false) = true := by decide +kernel

end CharsExample

end ZnVerif.Properties.C03
