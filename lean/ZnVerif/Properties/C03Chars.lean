/-
C03 at CHARACTER level — the lexer model composed with the parser round trip, for a canonical text rendering.

Spec (Spec/RenderChars.lean): `renderTokens : List RTok → List Nat` writes a list of items with layout instructions as text — every
token by its spelling (any keyword of the documented list, so either synonym; Chinese or ASCII punctuation; operator marks; plain
names and numbers over the name alphabet; names between back-ticks; text literals through C13's `encodeSafe`), tokens of a line
separated by exactly one space, a line started by `k` TABs and ended by LF.  `tokensOf` / `lineTable` / `layoutOf` are the token list
(with start and end indices) and the line table the rendering determines.

Theorems (all by induction, no enumeration; the lexer is the well-founded model of Model/Lexer.lean, no fuel but the token count):
 * `lex_rendered`            — `lexAll` on the text answers exactly `tokensOf rts` then EOF, no error, and leaves exactly `lineTable rts`
                               as `Lexer.Lines` (start index, indentation AND `LineText` slice of every line);
 * `rendered_in_order`       — those tokens are in reading order against that layout (`Layout.InOrder`);
 * `parse_source_is_laid_out`— for EVERY fuel and every parser variant, `Parser.Parse` on the text (parser model driven by the lexer
                               model, line table as known so far) answers what the parser model answers on `tokensOf rts` read against
                               `layoutOf rts` — trees, syntax errors, panics, out-of-fuel alike (simulation through all 45 productions:
                               Proofs/LexSim*.lean; lexer side: Proofs/RenderLex*.lean);
 * `parse_render_canonical`  — composition with `parse_statements_roundtrip`: if the rendered tokens render the program `p`
                               (`LinProgram`) under the layout the rendering determines, the text parses to exactly `p` — same tree, same
                               line numbers — for every fuel from `16 * tokens + 52` on.
What is still open is said at `parse_render_layouts_full`.
-/
import ZnVerif.Proofs.RenderLexRun
import ZnVerif.Proofs.LexSim
import ZnVerif.Proofs.LexRunOrder
import ZnVerif.Properties.C03Stmt

namespace ZnVerif.Properties.C03
open ZnVerif.Model ZnVerif.Model.Parser ZnVerif.Generated.Tokens ZnVerif.Generated.ParserTables
open ZnVerif.Spec.StmtSyntax ZnVerif.Spec.RenderChars
open ZnVerif.Proofs.RenderLex ZnVerif.Proofs.LexSim ZnVerif.Proofs.LexRun

/-- **lex_rendered**: the lexer model on the canonical text of a well-formed token list answers exactly the rendered tokens — types,
literals, start and end indices — then EOF at the end of the text, without error; and the line table it leaves is exactly the one
the rendering determines (every physical line: start index, number of TABs, `LineText` from after the TABs to the line feed; last
the empty line after the final LF).  Any token budget from `tokens + 2` on. -/
theorem lex_rendered (rts : List RTok) (hwf : WF rts) (fuel : Nat) (hf : rts.length + 2 ≤ fuel) :
    (lexAll fuel (mkLexer (renderTokens rts)) []).1 = tokensOf rts ++ [(layoutOf rts).eof] ∧
    (lexAll fuel (mkLexer (renderTokens rts)) []).2.1 = some (.ok ()) ∧
    (lexAll fuel (mkLexer (renderTokens rts)) []).2.2.lines = (layoutOf rts).lines := by
  have hne : ∀ j, j < (renderRun rts hwf).N → ((renderRun rts hwf).tk j).type ≠ cTypeEOF := by
    intro j hj
    have hm := tk_mem_toks (renderRun rts hwf) hj
    rw [renderRun_toks] at hm
    exact toksFrom_types rts true 0 hwf.2 _ hm
  have h := lexAll_run (renderRun rts hwf) hne (renderRun rts hwf).N 0 [] fuel (by omega) (Nat.zero_le _)
    (by show rts.length + 1 ≤ fuel; omega)
  rw [renderRun_st0] at h
  rw [h]
  refine ⟨?_, rfl, ?_⟩
  · have : (List.range' 0 ((renderRun rts hwf).N - 0)).map (renderRun rts hwf).tk = (renderRun rts hwf).toks := by
      show _ = (List.range (renderRun rts hwf).N).map _
      rw [List.range_eq_range']; rfl
    simp only [List.reverse_nil, List.nil_append, this, renderRun_toks]
  · exact renderRun_final_lines rts hwf

theorem item_type_ne_comment (it : Item) (hw : it.WF) : it.type ≠ cTypeComment := by
  cases it with
  | kw sp ty =>
    have : ∀ k ∈ ZnVerif.Spec.Keywords.documented, k.2 ≠ cTypeComment := by decide
    exact this _ hw
  | punct ch ty =>
    have : ∀ k ∈ punctuationTypeMap, k.2 ≠ cTypeComment := by decide
    exact this _ hw
  | op sp ty =>
    have : ∀ k ∈ operatorTable, k.2 ≠ cTypeComment := by decide
    exact this _ hw
  | name cs => simp [Item.type]; decide
  | quoted cs => simp [Item.type]; decide
  | text q t => cases q <;> simp [Item.type, ZnVerif.Spec.Literal.Quote.type] <;> decide

theorem toksFrom_no_comment : ∀ (rs : List RTok) (first : Bool) (pos : Nat), WFFrom rs →
    ∀ t ∈ toksFrom first pos rs, t.type ≠ cTypeComment := by
  intro rs
  induction rs with
  | nil => intro _ _ _ t ht; simp [toksFrom] at ht
  | cons r rs ih =>
    intro first pos hw t ht
    simp only [toksFrom, List.mem_cons] at ht
    rcases ht with rfl | ht
    · exact item_type_ne_comment r.item hw.1
    · exact ih false _ hw.2.2 t ht

/-- **rendered_in_order**: the rendered tokens come in reading order against the layout the rendering determines (and none is a
comment) — the side condition `Layout.InOrder` of `parse_statements_roundtrip` always holds of a rendering. -/
theorem rendered_in_order (rts : List RTok) (hwf : WF rts) : (layoutOf rts).InOrder (tokensOf rts) := by
  rw [← renderRun_toks rts hwf]
  apply run_inOrder
  intro j hj
  have hm := tk_mem_toks (renderRun rts hwf) hj
  rw [renderRun_toks] at hm
  exact toksFrom_no_comment rts true 0 hwf.2 _ hm

/-- **parse_source_is_laid_out**: on the canonical text, the parser model driven by the lexer model is the parser model on the
rendered token list read against the rendered layout — whatever the answer, for every fuel and every variant of the parser. -/
theorem parse_source_is_laid_out (v : Variant) (rts : List RTok) (hwf : WF rts) (n : Nat) :
    parseSource v n (renderTokens rts) = parseLaidOut v (layoutOf rts) n (tokensOf rts) := by
  have := parseAST_run (renderRun rts hwf) v n
  rw [renderRun_toks, renderRun_st0] at this
  exact this

/-- **parse_render_canonical**: for every program `p` and every well-formed rendered token list whose tokens render `p`
(`LinProgram`: the rendering relation of Spec/StmtSyntax, with the lines the parser stores) under the layout the rendering
determines, parsing the canonical TEXT yields exactly `p` — the same tree with the same line numbers — for every fuel from
`16 * tokens + 52` on; for the repaired parser and the pinned one alike. -/
theorem parse_render_canonical (v : Variant) {p : Program} (rts : List RTok) (hwf : WF rts)
    (h : LinProgram (layoutOf rts) p (tokensOf rts)) (n : Nat) (hn : 16 * rts.length + 52 ≤ n) :
    parseSource v n (renderTokens rts) = .tree p := by
  rw [parse_source_is_laid_out v rts hwf n]
  have hlen : (tokensOf rts).length = rts.length := by
    rw [← renderRun_toks rts hwf]
    show ((List.range rts.length).map _).length = _
    simp
  exact parse_statements_roundtrip v h (rendered_in_order rts hwf) n (by rw [hlen]; exact hn)

/-- the text determines the tree: two programs rendered by the same canonical text are equal -/
theorem canonical_text_unambiguous {p p' : Program} (rts : List RTok) (hwf : WF rts)
    (h : LinProgram (layoutOf rts) p (tokensOf rts)) (h' : LinProgram (layoutOf rts) p' (tokensOf rts)) : p = p' :=
  rendering_unambiguous h h' (rendered_in_order rts hwf)

/-- What is STILL open at character level: `parse_render_full` (Properties/C03.lean) over ALL layouts.  Covered by
`parse_render_canonical`: every synonymous spelling (any keyword of the table, Chinese or ASCII punctuation, `=`/设为 …), names between
back-ticks, text literals in any of the five quote pairs with `encodeSafe` escapes, TAB indentation, LF line ends, any arrangement
of tokens on lines that `LinProgram` allows (line breaks after `， 、 { 【 ： ？` and before `】 }` included).  NOT covered — the lexer
lemma `lex_rendered` would have to be extended to these texts; the parser side (`parse_source_is_laid_out` via `Run`) is already
general —: (a) no space or several spaces / other white space between tokens, spaces at line ends; (b) comments of the four kinds
(`comments_are_invisible` handles them at token level); (c) indentation by 4 spaces; (d) CR, CRLF, LFCR line ends, blank lines, a
last line without line break; (e) text literals that contain line breaks (they add lines to the table), verbatim (unescaped)
literals; (f) numbers with sign, decimal point or exponent, and names that contain operator marks (`NameChar` excludes
`& @ # = < > + - * / | %` and 注).  `Render` is meant to be the relation "`src` is some such writing of `rts`". -/
def parse_render_layouts_full (Render : List RTok → List Nat → Prop) : Prop :=
  ∀ (v : Variant) (p : Program) (rts : List RTok) (src : List Nat), Render rts src →
    LinProgram (layoutOf rts) p (tokensOf rts) → ∃ n0, ∀ n, n0 ≤ n → parseSource v n src = .tree p

-- ---- non-vacuity: a five-line program with a nested block, as TEXT ------------------------------------------------------

namespace CharsExample
open ZnVerif.Proofs.StmtRT

/-- the text, spelled out: a declaration, a loop whose block (one TAB) holds two statements, an expression statement -/
def exText : String := "令 甲 设为 乙\n每当 甲 ：\n\t输出 甲\n\t结束循环\n甲 + 乙\n"

/-- the same as items with layout instructions -/
def exRts : List RTok := [
  ⟨.kw [0x4EE4] 40, some 0⟩, ⟨.name [0x7532], none⟩, ⟨.kw [0x8BBE, 0x4E3A] 49, none⟩, ⟨.name [0x4E59], none⟩,
  ⟨.kw [0x6BCF, 0x5F53] 60, some 0⟩, ⟨.name [0x7532], none⟩, ⟨.punct 0xFF1A 13, none⟩,
  ⟨.kw [0x8F93, 0x51FA] 48, some 1⟩, ⟨.name [0x7532], none⟩,
  ⟨.kw [0x7ED3, 0x675F, 0x5FAA, 0x73AF] 81, some 1⟩,
  ⟨.name [0x7532], some 0⟩, ⟨.op [0x2B] cTypePlus, none⟩, ⟨.name [0x4E59], none⟩]

/-- the canonical rendering of the items IS the text -/
theorem exText_rendered : renderTokens exRts = exText.toList.map Char.toNat := by decide

set_option maxRecDepth 100000 in
theorem exRts_wf : WF exRts := by decide +kernel

/-- the layout the rendering determines: six physical lines (the last one empty), 34 characters -/
abbrev exY : Layout := layoutOf exRts

example : exY.lines = #[closedLine 0 0 8, closedLine 9 0 15, closedLine 16 1 21, closedLine 22 1 27, closedLine 28 0 33,
    closedLine 34 0 34] ∧ exY.eofIdx = 34 := by decide

private def tk (ty : Nat) (a b : Nat) (lit : List Nat := []) : Token := { type := ty, literal := lit, startIdx := a, endIdx := b }

-- 令 甲 设为 乙
private def a1 := tk cTypeDeclareW 0 1
private def a2 := tk cTypeIdentifier 2 3 [0x7532]
private def a3 := tk cTypeAssignW 4 6
private def a4 := tk cTypeIdentifier 7 8 [0x4E59]
-- 每当 甲 ：
private def b1 := tk cTypeWhileLoopW 9 11
private def b2 := tk cTypeIdentifier 12 13 [0x7532]
private def b3 := tk cTypeFuncCall 14 15
-- ⇥输出 甲
private def c1 := tk cTypeReturnW 17 19
private def c2 := tk cTypeIdentifier 20 21 [0x7532]
-- ⇥结束循环
private def d1 := tk cTypeBreakW 23 27
-- 甲 + 乙
private def e1 := tk cTypeIdentifier 28 29 [0x7532]
private def e2 := tk cTypePlus 30 31
private def e3 := tk cTypeIdentifier 32 33 [0x4E59]

/-- the rendered tokens, with the positions they have in the text -/
theorem exTokens_eq : tokensOf exRts = [a1, a2, a3, a4, b1, b2, b3, c1, c2, d1, e1, e2, e3] := by decide

private def idE (t : Token) : Expr := .id (exY.idOf t)

/-- the tree: a declaration on line 0, a loop on line 1 whose block holds the statements of lines 2 and 3, an expression on line 4 -/
def exProgram : Program :=
  { imports := [],
    exec := some (.mk [] (some
      [.varDecl (exY.sl a1) [(vdTypeOf a3, [exY.idOf a2], idE a4)],
       .while (exY.sl b1) (idE b2) (some [.ret (exY.sl c1) (idE c2), .break (exY.sl d1)]),
       .expr (.arith (exY.sl e2) (lookupD addSubOverride e2.type addSubDefault) (idE e1) (idE e3))]) []) }

private theorem lin_id (t : Token) (h : t.type = cTypeIdentifier) : LinE exY 1 (idE t) [t] := linE_id1 t h

/-- the rendered tokens render that program under the layout the rendering determines -/
theorem exProgram_rendered : LinProgram exY exProgram (tokensOf exRts) := by
  rw [exTokens_eq]
  have hdecl : LinN exY 0 (.stmt (.varDecl (exY.sl a1) [(vdTypeOf a3, [exY.idOf a2], idE a4)])) [a1, a2, a3, a4] :=
    .simple 0 _ _ (.declStmt a1 a3 _ [a2] _ [a4] rfl (.one a2 rfl) (by decide) (lin_id a4 rfl) (by decide))
  have hret : LinN exY 1 (.stmt (.ret (exY.sl c1) (idE c2))) [c1, c2] :=
    .simple 1 _ _ (.retStmt c1 _ [c2] rfl (lin_id c2 rfl) (by decide))
  have hbrk : LinN exY 1 (.stmt (.break (exY.sl d1))) [d1] := .simple 1 _ _ (.breakStmt d1 rfl)
  have hblk : LinN exY 1 (.block [.ret (exY.sl c1) (idE c2), .break (exY.sl d1)]) ([c1, c2] ++ ([d1] ++ [])) :=
    .blockCons 1 _ _ _ _ hret (by decide) (.blockCons 1 _ _ _ _ hbrk (by decide) (.blockNil 1) (Or.inl rfl)) (Or.inr (by decide))
  have hwhile : LinN exY 0 (.stmt (.while (exY.sl b1) (idE b2) (some [.ret (exY.sl c1) (idE c2), .break (exY.sl d1)])))
      (b1 :: [b2] ++ b3 :: ([c1, c2] ++ ([d1] ++ []))) :=
    .whileStmt 0 b1 b3 _ [b2] _ _ rfl (lin_id b2 rfl) rfl (by decide) (by decide) (by simp) hblk
  have hadd : LinE exY 1 (.arith (exY.sl e2) (lookupD addSubOverride e2.type addSubDefault) (idE e1) (idE e3)) ([e1] ++ e2 :: [e3]) :=
    .up 1 _ _ (by decide) (.up 2 _ _ (by decide) (.up 3 _ _ (by decide) (.up 4 _ _ (by decide)
      (.add e2 _ _ [e1] [e3] (by decide)
        (.up 5 _ _ (by decide) (.up 6 _ _ (by decide) (.id e1 rfl))) (.up 6 _ _ (by decide) (.id e3 rfl))))))
  have hexpr : LinN exY 0 (.stmt (.expr (.arith (exY.sl e2) (lookupD addSubOverride e2.type addSubDefault) (idE e1) (idE e3))))
      ([e1] ++ e2 :: [e3]) := .simple 0 _ _ (.exprStmt _ _ hadd (by decide) (by decide))
  have hbody : LinN exY 0 (.block _) ([a1, a2, a3, a4] ++ ((b1 :: [b2] ++ b3 :: ([c1, c2] ++ ([d1] ++ []))) ++ (([e1] ++ e2 :: [e3]) ++ []))) :=
    .blockCons 0 _ _ _ _ hdecl (by decide)
      (.blockCons 0 _ _ _ _ hwhile (by decide) (.blockCons 0 _ _ _ _ hexpr (by decide) (.blockNil 0) (Or.inl rfl)) (Or.inr (by decide)))
      (Or.inr (by decide))
  exact .body 0 _ _ (.execPlain 0 _ _ [] [] hbody (.handNil 0) (Or.inl rfl) (by simp))

/-- … so `parse_render_canonical` applies to the TEXT: the parser model driven by the lexer model returns exactly that tree, the
repaired parser and the pinned one alike -/
example : parseSource Variant.fixed 300 (exText.toList.map Char.toNat) = .tree exProgram := by
  rw [← exText_rendered]
  exact parse_render_canonical _ exRts exRts_wf exProgram_rendered 300 (by decide)
example : parseSource Variant.legacy 300 (exText.toList.map Char.toNat) = .tree exProgram := by
  rw [← exText_rendered]
  exact parse_render_canonical _ exRts exRts_wf exProgram_rendered 300 (by decide)

set_option maxRecDepth 100000 in
/-- independently of the theorems, by kernel evaluation of lexer model + parser model on the text (the well-founded loops of the
lexer reduce in the kernel): the tree, with the line numbers spelled out -/
example : (match parseSource Variant.fixed 300 (exText.toList.map Char.toNat) with
    | .tree ⟨[], some (.mk [] (some
        [.varDecl 0 [(1, [⟨0, _⟩], .id ⟨0, _⟩)],
         .while 1 (.id ⟨1, _⟩) (some [.ret 2 (.id ⟨2, _⟩), .break 3]),
         .expr (.arith 4 12 (.id ⟨4, _⟩) (.id ⟨4, _⟩))]) [])⟩ => true
    | _ => false) = true := by decide +kernel

set_option maxRecDepth 100000 in
/-- `lex_rendered` on the example, and by evaluation: 13 tokens then EOF at 34, six lines -/
example : (lexAll 20 (mkLexer (exText.toList.map Char.toNat)) []).1 = tokensOf exRts ++ [exY.eof] ∧
    (lexAll 20 (mkLexer (exText.toList.map Char.toNat)) []).2.2.lines = exY.lines := by
  rw [← exText_rendered]
  exact ⟨(lex_rendered exRts exRts_wf 20 (by decide)).1, (lex_rendered exRts exRts_wf 20 (by decide)).2.2⟩
set_option maxRecDepth 100000 in
example : (lexAll 20 (mkLexer (exText.toList.map Char.toNat)) []).1.length = 14 ∧
    (lexAll 20 (mkLexer (exText.toList.map Char.toNat)) []).2.2.lines.size = 6 := by decide +kernel

/-- the layout matters at character level too: the same text with the TAB of line 3 removed puts 结束循环 after the loop -/
example : (match parseSource Variant.fixed 300 ("令 甲 设为 乙\n每当 甲 ：\n\t输出 甲\n结束循环\n甲 + 乙\n".toList.map Char.toNat) with
    | .tree ⟨[], some (.mk [] (some [.varDecl .., .while 1 _ (some [.ret 2 _]), .break 3, .expr _]) [])⟩ => true
    | _ => false) = true := by decide +kernel

end CharsExample

end ZnVerif.Properties.C03
