/-
C03 at character level, free layout: non-vacuity of `parse_render_doc` / `lex_rendered_doc` (Properties/C03Layouts.lean) — the
five-line program of C03Chars written with touching tokens, runs of blanks, a trailing blank, CR LF / CR / LF line ends, a blank
line, a line that holds only its indentation, four-space indentation and no line break at the end.
-/
import ZnVerif.Properties.C03Layouts

namespace ZnVerif.Properties.C03
open ZnVerif.Model ZnVerif.Model.Parser ZnVerif.Generated.Tokens ZnVerif.Generated.ParserTables
open ZnVerif.Spec.StmtSyntax ZnVerif.Spec.RenderChars

-- ---- non-vacuity: the five-line program of C03Chars in a free layout ----------------------------------------------------------

namespace LayoutExample
open ZnVerif.Proofs.StmtRT

/-- tokens that touch (`令甲`, `每当甲：`, `输出甲`), two spaces, a trailing space, an ideographic space; CR LF, a blank line, a lone CR, LF,
a line that holds only its indentation; indentation by four spaces; no line break at the end; a `//` comment at the end of a line, a
`注1：` comment on a line of its own, a `/* */` comment between two tokens -/
def frText : String := "令甲 =  乙 // 一\r\n注1：二\r\n每当甲：\r    输出/*三*/甲\n    \n    结束循环\r\n甲 +　乙"

def frEls : List El := [
  .tok (.kw [0x4EE4] 40), .tok (.name [0x7532]), .ws 0x20, .tok (.op [0x3D] cTypeAssignMark), .ws 0x20, .ws 0x20,
  .tok (.name [0x4E59]), .ws 0x20, .tok (.cmt (.line [0x20, 0x4E00])), .br .crlf 0, .tok (.cmt (.note [0x31] [0x4E8C])), .br .crlf 0,
  .tok (.kw [0x6BCF, 0x5F53] 60), .tok (.name [0x7532]), .tok (.punct 0xFF1A 13), .br .cr 1,
  .tok (.kw [0x8F93, 0x51FA] 48), .tok (.cmt (.block [0x4E09])), .tok (.name [0x7532]), .br .lf 1, .br .lf 1,
  .tok (.kw [0x7ED3, 0x675F, 0x5FAA, 0x73AF] 81), .br .crlf 0,
  .tok (.name [0x7532]), .ws 0x20, .tok (.op [0x2B] cTypePlus), .ws 0x3000, .tok (.name [0x4E59])]

theorem frText_rendered : renderDoc .sp4 0 frEls = frText.toList.map Char.toNat := by decide

set_option maxRecDepth 100000 in
theorem frEls_wf : DocWF .sp4 0 frEls := by decide +kernel

/-- the layout the text determines: seven physical lines (one with a comment only, one with indentation only), 58 characters -/
abbrev frY : Layout := docLayout .sp4 0 frEls

example : frY.lines = #[closedLineI .sp4 0 0 12, closedLineI .sp4 14 0 18, closedLineI .sp4 20 0 24, closedLineI .sp4 25 1 37,
    closedLineI .sp4 38 1 42, closedLineI .sp4 43 1 51, closedLineI .sp4 53 0 58] ∧ frY.eofIdx = 58 := by decide

private def tk (ty : Nat) (a b : Nat) (lit : List Nat := []) : Token := { type := ty, literal := lit, startIdx := a, endIdx := b }

private def a1 := tk cTypeDeclareW 0 1
private def a2 := tk cTypeIdentifier 1 2 [0x7532]
private def a3 := tk cTypeAssignMark 3 4
private def a4 := tk cTypeIdentifier 6 7 [0x4E59]
private def b1 := tk cTypeWhileLoopW 20 22
private def b2 := tk cTypeIdentifier 22 23 [0x7532]
private def b3 := tk cTypeFuncCall 23 24
private def c1 := tk cTypeReturnW 29 31
private def c2 := tk cTypeIdentifier 36 37 [0x7532]
private def d1 := tk cTypeBreakW 47 51
private def e1 := tk cTypeIdentifier 53 54 [0x7532]
private def e2 := tk cTypePlus 55 56
private def e3 := tk cTypeIdentifier 57 58 [0x4E59]

open ZnVerif.Proofs.CmtSim (clean) in
/-- the sixteen tokens without the three comments -/
theorem frTokens_eq : clean (docTokens .sp4 0 frEls) = [a1, a2, a3, a4, b1, b2, b3, c1, c2, d1, e1, e2, e3] := by decide

private def idE (t : Token) : Expr := .id (frY.idOf t)

/-- the tree: the declaration on line 0, the loop on line 2 with the statements of lines 3 and 5, the expression on line 6 -/
def frProgram : Program :=
  { imports := [],
    exec := some (.mk [] (some
      [.varDecl (frY.sl a1) [(vdTypeOf a3, [frY.idOf a2], idE a4)],
       .while (frY.sl b1) (idE b2) (some [.ret (frY.sl c1) (idE c2), .break (frY.sl d1)]),
       .expr (.arith (frY.sl e2) (lookupD addSubOverride e2.type addSubDefault) (idE e1) (idE e3))]) []) }

private theorem lin_id (t : Token) (h : t.type = cTypeIdentifier) : LinE frY 1 (idE t) [t] := linE_id1 t h

open ZnVerif.Proofs.CmtSim (clean) in
theorem frProgram_rendered : LinProgram frY frProgram (clean (docTokens .sp4 0 frEls)) := by
  rw [frTokens_eq]
  have hdecl : LinN frY 0 (.stmt (.varDecl (frY.sl a1) [(vdTypeOf a3, [frY.idOf a2], idE a4)])) [a1, a2, a3, a4] :=
    .simple 0 _ _ (.declStmt a1 a3 _ [a2] _ [a4] rfl (.one a2 rfl) (by decide) (lin_id a4 rfl) (by decide))
  have hret : LinN frY 1 (.stmt (.ret (frY.sl c1) (idE c2))) [c1, c2] :=
    .simple 1 _ _ (.retStmt c1 _ [c2] rfl (lin_id c2 rfl) (by decide))
  have hbrk : LinN frY 1 (.stmt (.break (frY.sl d1))) [d1] := .simple 1 _ _ (.breakStmt d1 rfl)
  have hblk : LinN frY 1 (.block [.ret (frY.sl c1) (idE c2), .break (frY.sl d1)]) ([c1, c2] ++ ([d1] ++ [])) :=
    .blockCons 1 _ _ _ _ hret (by decide) (.blockCons 1 _ _ _ _ hbrk (by decide) (.blockNil 1) (Or.inl rfl)) (Or.inr (by decide))
  have hwhile : LinN frY 0 (.stmt (.while (frY.sl b1) (idE b2) (some [.ret (frY.sl c1) (idE c2), .break (frY.sl d1)])))
      (b1 :: [b2] ++ b3 :: ([c1, c2] ++ ([d1] ++ []))) :=
    .whileStmt 0 b1 b3 _ [b2] _ _ rfl (lin_id b2 rfl) rfl (by decide) (by decide) (by simp) hblk
  have hadd : LinE frY 1 (.arith (frY.sl e2) (lookupD addSubOverride e2.type addSubDefault) (idE e1) (idE e3)) ([e1] ++ e2 :: [e3]) :=
    .up 1 _ _ (by decide) (.up 2 _ _ (by decide) (.up 3 _ _ (by decide) (.up 4 _ _ (by decide)
      (.add e2 _ _ [e1] [e3] (by decide)
        (.up 5 _ _ (by decide) (.up 6 _ _ (by decide) (.id e1 rfl))) (.up 6 _ _ (by decide) (.id e3 rfl))))))
  have hexpr : LinN frY 0 (.stmt (.expr (.arith (frY.sl e2) (lookupD addSubOverride e2.type addSubDefault) (idE e1) (idE e3))))
      ([e1] ++ e2 :: [e3]) := .simple 0 _ _ (.exprStmt _ _ hadd (by decide) (by decide))
  have hbody : LinN frY 0 (.block _) ([a1, a2, a3, a4] ++ ((b1 :: [b2] ++ b3 :: ([c1, c2] ++ ([d1] ++ []))) ++ (([e1] ++ e2 :: [e3]) ++ []))) :=
    .blockCons 0 _ _ _ _ hdecl (by decide)
      (.blockCons 0 _ _ _ _ hwhile (by decide) (.blockCons 0 _ _ _ _ hexpr (by decide) (.blockNil 0) (Or.inl rfl)) (Or.inr (by decide)))
      (Or.inr (by decide))
  exact .body 0 _ _ (.execPlain 0 _ _ [] [] hbody (.handNil 0) (Or.inl rfl) (by simp))

/-- `parse_render_doc` applies to the TEXT -/
example : parseSource Variant.fixed 300 (frText.toList.map Char.toNat) = .tree frProgram := by
  rw [← frText_rendered]
  exact parse_render_doc _ .sp4 0 frEls frEls_wf frProgram_rendered 300 (by decide)
example : parseSource Variant.legacy 300 (frText.toList.map Char.toNat) = .tree frProgram := by
  rw [← frText_rendered]
  exact parse_render_doc _ .sp4 0 frEls frEls_wf frProgram_rendered 300 (by decide)

set_option maxRecDepth 100000 in
/-- independently, by kernel evaluation of lexer model + parser model on the text: the same shape as for the canonical text, on the
lines 0, 2, 3, 5, 6 of this layout (line 1 holds a comment, line 4 only indentation) -/
example : (match parseSource Variant.fixed 300 (frText.toList.map Char.toNat) with
    | .tree ⟨[], some (.mk [] (some
        [.varDecl 0 [(1, [⟨0, _⟩], .id ⟨0, _⟩)],
         .while 2 (.id ⟨2, _⟩) (some [.ret 3 (.id ⟨3, _⟩), .break 5]),
         .expr (.arith 6 12 (.id ⟨6, _⟩) (.id ⟨6, _⟩))]) [])⟩ => true
    | _ => false) = true := by decide +kernel

set_option maxRecDepth 100000 in
/-- `lex_rendered_doc` on the example, and by evaluation: 16 tokens (3 of them comments) then EOF, seven lines -/
example : (lexAll 20 (mkLexer (frText.toList.map Char.toNat)) []).1 = docTokens .sp4 0 frEls ++ [frY.eof] ∧
    (lexAll 20 (mkLexer (frText.toList.map Char.toNat)) []).2.2.lines = frY.lines := by
  rw [← frText_rendered]
  exact ⟨(lex_rendered_doc .sp4 0 frEls frEls_wf 20 (by decide)).1, (lex_rendered_doc .sp4 0 frEls frEls_wf 20 (by decide)).2.2⟩
set_option maxRecDepth 100000 in
example : (lexAll 20 (mkLexer (frText.toList.map Char.toNat)) []).1.length = 17 ∧
    (lexAll 20 (mkLexer (frText.toList.map Char.toNat)) []).2.2.lines.size = 7 := by decide +kernel

/-- the discipline is needed: `不为` written for a name `不` followed by `为` is ONE keyword — such a document is not well-formed -/
example : ¬ DocWF .tab 0 [.tok (.name [0x4E0D]), .tok (.kw [0x4E3A] 41), .ws 0x20, .tok (.name [0x7532])] := by decide +kernel

end LayoutExample

end ZnVerif.Properties.C03
