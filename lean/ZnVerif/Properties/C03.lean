/-
C03 — Parsing builds the tree the grammar prescribes, for any layout.

Theorems about `Model/Parser.lean` (`Variant.fixed`) and the generated tables.  The character-level statement over all layouts
(`parse_render_full`) is kept as a definition; layout invariance at character level is carried by the correspondence runs
(tools/props/c03.py).  Proofs: Proofs/ParserGood* (completeness, one induction on the fuel), Proofs/ParserRoundtrip (token-level
round trip of expressions).
-/
import ZnVerif.Proofs.ParserTheorems
import ZnVerif.Generated.Tokens
import ZnVerif.Model.ParserLex
import ZnVerif.Proofs.ParserRoundtrip

namespace ZnVerif.Properties.C03
open ZnVerif.Model ZnVerif.Model.Parser ZnVerif.Generated.Tokens ZnVerif.Generated.ParserTables
open ZnVerif.Spec.Grammar ZnVerif.Proofs.ParserHoare ZnVerif.Proofs.ParserGood

variable {σ : Type} {ops : LexOps σ} {B : Nat} {μ : σ → Nat} {I : σ → Prop}

/-- **returned_tree_complete**: whatever the token stream, a tree the (repaired) parser returns is complete: every construct has
all the parts the grammar requires (Spec/Grammar `Complete`).  Before fix (2) `如果` at end of input returned a `BranchStmt` with a
nil condition. -/
theorem returned_tree_complete (hl : LexOK ops B μ I) (l : σ) (hI : I l) (n : Nat) (t : Program)
    (h : parseAST Variant.fixed ops n l = .tree t) : Complete t := by
  have := parseAST_spec hl n l hI
  rw [h] at this
  exact this

/-- every piece of tree a production returns is complete, given complete accumulators (the statement the induction carries) -/
theorem production_complete (hl : LexOK ops B μ I) (n : Nat) (nt : NT) (s s' : PState σ) (r : nt.Out)
    (hs : Inv ops B I s) (hpre : PreC nt) (h : parse Variant.fixed ops n nt s = .ok r s') : PostC nt r := by
  have := parse_good hl n nt s hs hpre
  rw [h] at this
  exact this.2.2.2.2.2

/-- the witness of defect (2), at token level: the pinned tree accepts `如果` EOF with an incomplete tree, the repaired one
reports a syntax error at the end of input -/
theorem if_at_eof_before_fix :
    (match parseTokens Variant.legacy 60 [{ type := cTypeCondW, startIdx := 0, endIdx := 2 }] with
     | .tree t =>
       (match t.exec with
        | some (.mk _ (some [.branch _ .nil none [] false none]) _) => true   -- no condition, no block
        | _ => false)
     | _ => false) = true := by decide

theorem if_at_eof_after_fix :
    (match parseTokens Variant.fixed 60 [{ type := cTypeCondW, startIdx := 0, endIdx := 2 }] with
     | .synErr e => e.code == 20 | _ => false) = true := by decide

-- non-vacuity of `returned_tree_complete`: a token stream that yields a tree (`甲 + 乙`)
example : (match parseTokens Variant.fixed 200
    [{ type := cTypeIdentifier, literal := [0x7532], startIdx := 0, endIdx := 1 },
     { type := cTypePlus, startIdx := 2, endIdx := 3 },
     { type := cTypeIdentifier, literal := [0x4E59], startIdx := 4, endIdx := 5 }] with
    | .tree _ => true | _ => false) = true := by decide

/-- **synonym_tables**: each pair of spellings the manual calls synonyms reaches the same tree constructor / operator code /
token class in the tables the parser and lexer consult (regenerated from the Go source). -/
theorem synonym_tables :
    -- comparison words and marks
    lookupD logicTypeMap cTypeLogicEqualW 0 = cLogicEQ ∧ lookupD logicTypeMap cTypeEqualMark 0 = cLogicEQ ∧
    lookupD logicTypeMap cTypeLogicNotEqW 0 = cLogicNEQ ∧ lookupD logicTypeMap cTypeNEMark 0 = cLogicNEQ ∧
    lookupD logicTypeMap cTypeLogicGtW 0 = cLogicGT ∧ lookupD logicTypeMap cTypeGTMark 0 = cLogicGT ∧
    lookupD logicTypeMap cTypeLogicGteW 0 = cLogicGTE ∧ lookupD logicTypeMap cTypeGTEMark 0 = cLogicGTE ∧
    lookupD logicTypeMap cTypeLogicLtW 0 = cLogicLT ∧ lookupD logicTypeMap cTypeLTMark 0 = cLogicLT ∧
    lookupD logicTypeMap cTypeLogicLteW 0 = cLogicLTE ∧ lookupD logicTypeMap cTypeLTEMark 0 = cLogicLTE ∧
    lookupD logicTypeMap cTypeLogicYesW 0 = cLogicXEQ ∧ lookupD logicTypeMap cTypeLogicNoW 0 = cLogicXNEQ ∧
    -- every comparison token the parser accepts has an operator code, and only those
    (∀ t, t ∈ lv3ValidTypes ↔ (logicTypeMap.find? (fun p => p.1 == t)).isSome) ∧
    -- `=` / 设为 in declarations and (with AsVarAssign) in assignments
    cTypeAssignW ∈ vdAssignKeywords ∧ cTypeAssignMark ∈ vdAssignKeywords ∧
    cTypeAssignW ∈ lv4ValidTypes ++ lv4VarAssignExtra ∧ cTypeAssignMark ∈ lv4ValidTypes ++ lv4VarAssignExtra ∧
    cTypeAssignMark ∉ lv4ValidTypes ∧
    -- arithmetic marks
    lookupD addSubOverride cTypePlus addSubDefault = cArithAdd ∧ lookupD addSubOverride cTypeMinus addSubDefault = cArithSub ∧
    lookupD mulDivTypeMap cTypeMultiply 0 = cArithMul ∧ lookupD mulDivTypeMap cTypeDivision 0 = cArithDiv ∧
    lookupD mulDivTypeMap cTypeIntDivMark 0 = cArithIntDiv ∧ lookupD mulDivTypeMap cTypeModuloMark 0 = cArithModulo ∧
    -- Chinese / ASCII punctuation: one token class per pair
    (∀ p ∈ [(cComma, cComma_EN), (cColon, cColon_EN), (cSemicolon, cSemicolon_EN), (cQuestionMark, cQuestionMark_EN),
            (cBangMark, cBangMark_EN), (cLeftBracket, cLeftBracket_EN), (cRightBracket, cRightBracket_EN),
            (cLeftParen, cLeftParen_EN), (cRightParen, cRightParen_EN)],
       (punctuationTypeMap.find? (fun e => e.1 == p.1)).map (·.2) = (punctuationTypeMap.find? (fun e => e.1 == p.2)).map (·.2) ∧
       (punctuationTypeMap.find? (fun e => e.1 == p.1)).isSome) := by
  refine ⟨by decide, by decide, by decide, by decide, by decide, by decide, by decide, by decide, by decide, by decide,
    by decide, by decide, by decide, by decide, ?_, by decide, by decide, by decide, by decide, by decide, by decide, by decide,
    by decide, by decide, by decide, by decide, by decide⟩
  intro t
  constructor
  · intro h
    revert t
    decide
  · intro h
    simp only [logicTypeMap] at h
    simp only [List.find?_cons, List.find?_nil] at h
    repeat (split at h <;> first | (rename_i hh; simp only [beq_iff_eq] at hh; subst hh; decide) | skip)
    simp at h

/-- **linebreak_exceptions**: between two tokens (neither is EOF) that are on different lines there is a statement line break
EXCEPT when the first is one of `， 、 { 【 ： ？` or the second is one of `】 }` — exactly the documented lists, and the lists the Go
code consults (regenerated). -/
theorem linebreak_exceptions (cur p2 : Token) (sl2 el1 : Nat)
    (hc : cur.type ≠ cTypeEOF) (hp : p2.type ≠ cTypeEOF) (hlb : sl2 > el1) :
    meetStmtLineBreak (some cur) p2 sl2 el1 = false ↔
      (cur.type ∈ [cTypeCommaSep, cTypePauseCommaSep, cTypeStmtQuoteL, cTypeArrayQuoteL, cTypeFuncCall, cTypeFuncDeclare] ∨
       p2.type ∈ [cTypeArrayQuoteR, cTypeStmtQuoteR]) := by
  unfold meetStmtLineBreak
  simp only [hc, hp, or_self, if_false, hlb, if_true]
  have e1 : exceptCurrentTokenTypes = [cTypeCommaSep, cTypePauseCommaSep, cTypeStmtQuoteL, cTypeArrayQuoteL, cTypeFuncCall, cTypeFuncDeclare] := by decide
  have e2 : exceptFollowingTokenTypes = [cTypeArrayQuoteR, cTypeStmtQuoteR] := by decide
  rw [e1, e2]
  by_cases h1 : cur.type ∈ [cTypeCommaSep, cTypePauseCommaSep, cTypeStmtQuoteL, cTypeArrayQuoteL, cTypeFuncCall, cTypeFuncDeclare]
  · simp [h1]
  · by_cases h2 : p2.type ∈ [cTypeArrayQuoteR, cTypeStmtQuoteR]
    · simp [h1, h2]
    · simp [h1, h2]

/-- two tokens on the same line are never separated by a statement line break; the end of input always is one -/
theorem linebreak_same_line (cur p2 : Token) (sl2 el1 : Nat) (hc : cur.type ≠ cTypeEOF) (hp : p2.type ≠ cTypeEOF)
    (h : sl2 ≤ el1) : meetStmtLineBreak (some cur) p2 sl2 el1 = false := by
  unfold meetStmtLineBreak
  simp [hc, hp, Nat.not_lt.mpr h]

theorem linebreak_at_eof (cur p2 : Token) (sl2 el1 : Nat) (h : cur.type = cTypeEOF ∨ p2.type = cTypeEOF) :
    meetStmtLineBreak (some cur) p2 sl2 el1 = true := by
  unfold meetStmtLineBreak
  simp [h]

/-- `tryConsume` = an optional comma step, then `tryConsumeCore` -/
theorem tryConsume_comma (n : Nat) (tys : List Nat) (s : PState σ) (hc : s.p2.type = cTypeCommaSep) :
    tryConsume ops n tys s = (next ops n >>= fun _ => tryConsumeCore ops n tys) s := by
  unfold tryConsume
  simp only [Bind.bind, PM.bind, getS, hc, if_true]

theorem tryConsume_nocomma (n : Nat) (tys : List Nat) (s : PState σ) (hc : s.p2.type ≠ cTypeCommaSep) :
    tryConsume ops n tys s = tryConsumeCore ops n tys s := by
  unfold tryConsume
  simp only [Bind.bind, PM.bind, getS, hc, if_false]

/-- **comma_is_optional**: `tryConsume` on a state whose peek token is a comma behaves exactly as on the state after that comma
(whatever is asked for) — a single `，` between two tokens is invisible wherever the parser goes through `tryConsume` … -/
theorem comma_is_optional (n : Nat) (tys : List Nat) (s s1 : PState σ)
    (hc : s.p2.type = cTypeCommaSep) (hn : next ops n s = .ok () s1) (h1 : s1.p2.type ≠ cTypeCommaSep) :
    tryConsume ops n tys s = tryConsume ops n tys s1 := by
  rw [tryConsume_comma n tys s hc, tryConsume_nocomma n tys s1 h1]
  simp only [Bind.bind, PM.bind, hn]

/-- … but only ONE: a second comma is not swallowed — it stays the peek token, and matches nothing but a request for a comma -/
theorem second_comma_not_swallowed (n : Nat) (tys : List Nat) (s s1 : PState σ)
    (hc : s.p2.type = cTypeCommaSep) (hn : next ops n s = .ok () s1) (h1 : s1.p2.type = cTypeCommaSep)
    (ht : cTypeCommaSep ∉ tys) :
    tryConsume ops n tys s = .ok none s1 := by
  rw [tryConsume_comma n tys s hc]
  have : tys.contains s1.p2.type = false := by
    rw [h1]; simpa using ht
  unfold tryConsumeCore
  simp only [Bind.bind, PM.bind, hn, getS, this]
  by_cases hf : s1.flag = true <;> simp [hf, Pure.pure, PM.pure]

/-- **parse_tokens_roundtrip_partial** (also C01's `parse_print`): every token list that renders the expression tree `e`
(Spec/ExprSyntax `Lin`: any operator synonym, left-associative `或 且 + − * / | %` with the right operand one level tighter, exactly ONE
comparison per level-3 expression, braces anywhere, identifiers / numbers / strings as leaves) parses — as a whole program, with
fuel linear in the number of tokens — to exactly the program whose only statement is `e`.  Precedence and associativity of the
real grammar are therefore those of `Lin`.  Partial: expressions only (no calls, member chains, arrays, assignments, statements). -/
theorem parse_tokens_roundtrip_partial {e : Expr} {ts : List Token} (h : ZnVerif.Spec.ExprSyntax.Lin 1 e ts) (n : Nat)
    (hn : 16 * ts.length + 24 ≤ n) :
    parseTokens Variant.fixed n ts = .tree (ZnVerif.Spec.ExprSyntax.exprProgram e) :=
  ZnVerif.Proofs.Roundtrip.parse_tokens_roundtrip h n (by unfold ZnVerif.Proofs.Roundtrip.D; omega)

section examples
open ZnVerif.Spec.ExprSyntax
private def tk (ty : Nat) (lit : List Nat := []) : Token := { type := ty, literal := lit, startIdx := 0, endIdx := 0 }

/-- non-vacuity, and precedence at work: `甲 + 乙 * 丙` is `甲 + (乙 * 丙)` -/
example : Lin 1 (.arith 0 cArithAdd (.id ⟨0, runesToString [0x7532]⟩)
      (.arith 0 cArithMul (.id ⟨0, runesToString [0x4E59]⟩) (.id ⟨0, runesToString [0x4E19]⟩)))
    [tk cTypeIdentifier [0x7532], tk cTypePlus, tk cTypeIdentifier [0x4E59], tk cTypeMultiply, tk cTypeIdentifier [0x4E19]] := by
  refine .up 1 _ _ (by decide) (.up 2 _ _ (by decide) (.up 3 _ _ (by decide) (.up 4 _ _ (by decide) ?_)))
  exact Lin.add (tk cTypePlus) _ _ [tk cTypeIdentifier [0x7532]] [tk cTypeIdentifier [0x4E59], tk cTypeMultiply, tk cTypeIdentifier [0x4E19]]
    (by decide)
    (.up 5 _ _ (by decide) (.up 6 _ _ (by decide) (Lin.id (tk cTypeIdentifier [0x7532]) rfl)))
    (Lin.mul (tk cTypeMultiply) _ _ [tk cTypeIdentifier [0x4E59]] [tk cTypeIdentifier [0x4E19]] (by decide)
      (.up 6 _ _ (by decide) (Lin.id (tk cTypeIdentifier [0x4E59]) rfl)) (Lin.id (tk cTypeIdentifier [0x4E19]) rfl))

/-- **no_chain_of_comparisons** (witness): `1 < 2 < 3` is a syntax error (the grammar's EqE' is not recursive; `Lin` has no
constructor that would chain) -/
theorem no_chain_of_comparisons_witness :
    (match parseTokens Variant.fixed 200 [tk cTypeIdentifier [0x31], tk cTypeLTMark, tk cTypeIdentifier [0x32], tk cTypeLTMark,
        tk cTypeIdentifier [0x33]] with
     | .synErr e => e.code == 20 | _ => false) = true := by decide
end examples

/-- the full claim, kept as a statement: every rendering (`Render t src`: the layout rules of the manual, implemented on the
generator side by tools/znlayout.py) of a well-formed program parses back to that program.  Proved on the Lean side: the
token-level round trip of expressions and completeness of every returned tree; the character level is checked by the
correspondence runs (real parser = lexer model + parser model = generator's tree) only. -/
def parse_render_full (Wf : Program → Prop) (Render : Program → List Nat → Prop) (sameModuloLines : Program → Program → Prop) : Prop :=
  ∀ (t : Program) (src : List Nat), Wf t → Render t src →
    ∃ n t', parseSource Variant.fixed n src = .tree t' ∧ sameModuloLines t t'

end ZnVerif.Properties.C03
