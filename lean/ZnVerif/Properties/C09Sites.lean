/-
C06 / C08 / C09 / C18 — the regenerated tie of the call-frame and scope discipline.

The theorems of Properties/C06Eval.lean (blocks balance their scopes), C08.lean (a call restores the caller, the result
is the return slot), C09.lean (a handled exception restores the stack, frames of failed calls stay until then) and
C18*.lean (every statement stamps its line on the innermost frame, the chain is the active calls) are about
`Model/Interp.lean`: pushFrame / popFrame / withScope / setTopFrame / getReturnValue / unwindTo, placed where the Go
evaluator calls PushCallFrame / PopCallFrame / BeginBoundScope (+ defer) / SetCurrentLine / SetReturnValue /
GetReturnValue.  WHERE the Go evaluator calls them is regenerated from the working tree on every run
(`Generated/FrameSites.lean`: enclosing function, callee, ordinal, statement form, guards, earlier exits — no line numbers,
no names of locals) and compared here with the hand-written list of the sites the models mirror
(`Proofs/EvalSites.lean`, every entry naming the mirroring definition).  A pop added, removed, moved under another
guard or behind another early return makes `frame_sites_all_modelled` fail: a broken obligation of these four
properties, followed by the widened search of DESIGN §4.

The two equalities are closed by `rfl` (both sides unfold to the same list of literals; a `decide` over a few thousand
characters of string literals costs a minute, `rfl` a second); the derived facts by `decide +kernel`.
-/
import ZnVerif.Proofs.EvalSites

set_option maxRecDepth 100000

namespace ZnVerif.Properties.C09Sites
open ZnVerif ZnVerif.Generated ZnVerif.Proofs.EvalSites

/-- Every call of the frame / scope discipline that go/types finds in pkg/exec, pkg/runtime and pkg/value — with the
function it stands in, its place among the calls of that function, the statement it is part of, the guards it sits
under and the number of earlier exits — is a site the models mirror, and the models mirror no site that is not there. -/
theorem frame_sites_all_modelled : FrameSites.frameSites = modelledFrameSites.map (·.site) := rfl

/-- The bodies of PushCallFrame, PopCallFrame, GetCallStack, Get/SetReturnValue, SetCurrentLine, HasStarted,
Begin/EndScope, BeginBoundScope (and of getCurrentCallFrame / getCurrentScope / initValueStack), statement by statement,
are what pushFrame, popFrame, stackDepth, getReturnValue, setTopFrame, Scope.beginScope / endScope, beginBoundScope /
endBoundScope, topFrame, currentScope were written from. -/
theorem frame_primitives_all_modelled : FrameSites.framePrimitives = modelledFramePrimitives.map (·.prim) := rfl

/-- the scan saw the sources (a scan that reached nothing would make the equalities above hold between empty lists
only after the expectation had been emptied too; this pins the size) -/
theorem frame_inventory_nonempty :
    FrameSites.funcsScanned ≥ 250 ∧ FrameSites.frameSites.length ≥ 40 ∧ FrameSites.framePrimitives.length ≥ 30 ∧
    (FrameSites.frameSites.filter (·.callee == "(*runtime.VM).PushCallFrame")).length ≥ 8 ∧
    (FrameSites.frameSites.filter (·.callee == "(*runtime.VM).PopCallFrame")).length ≥ 8 := by decide +kernel

/-- The only sites outside the evaluator model are those of the import path (mirrored by the loader model of C15, or —
the line stamp of 导入 — by nothing) and `VM.EndScope`. -/
theorem sites_outside_evaluator_model :
    ∀ m ∈ modelledFrameSites, m.mirror.inEvaluatorModel = false →
      m.site.func ∈ ["exec.evalImportStmt", "exec.execAnotherModule", "runtime.(*VM).BeginScope", "runtime.(*VM).EndScope"] := by
  decide +kernel

/-- `VM.EndScope` has no caller: every scope the evaluator opens is closed through the closer BeginBoundScope returned
(bound to the scope of the module that was current when the scope was opened), the one opened by `VM.BeginScope` in
execAnotherModule is never closed. -/
theorem vm_EndScope_has_no_caller :
    ∀ s ∈ FrameSites.frameSites, s.callee ≠ "(*runtime.VM).EndScope" ∧ s.callee ≠ "(*runtime.VM).EndScope (method value)" := by
  decide +kernel

/-- every BeginBoundScope is the first recorded site of its function and its closer is deferred at once, under no guard:
the three block functions close their scope on every way out (`Model.withScope`) -/
theorem bound_scopes_are_deferred_at_once :
    ∀ s ∈ FrameSites.frameSites, s.callee = "(*runtime.VM).BeginBoundScope" →
      s.ord = 1 ∧ s.guard = "" ∧ s.exits = 0 ∧
      FrameSites.Site.mk s.func "result of (*runtime.VM).BeginBoundScope" 2 "defer □()" "" 0 ∈ FrameSites.frameSites := by
  decide +kernel

/-- every function that pushes a frame pops one later on, and never before an exit is possible in between or under a
guard: a failed call leaves its frame (what C18's chain and C09's unwinding rest on) -/
theorem every_pop_is_conditional :
    ∀ s ∈ FrameSites.frameSites, s.callee = "(*runtime.VM).PopCallFrame" → s.guard ≠ "" ∨ s.exits > 0 := by
  decide +kernel

theorem every_push_has_a_later_pop :
    ∀ s ∈ FrameSites.frameSites, s.callee = "(*runtime.VM).PushCallFrame" →
      ∃ p ∈ FrameSites.frameSites, p.func = s.func ∧ p.callee = "(*runtime.VM).PopCallFrame" ∧ p.ord > s.ord := by
  decide +kernel

end ZnVerif.Properties.C09Sites
