/-
C03 at CHARACTER level, free layout — the lexer model composed with the parser round trip, the layout set free.

Spec (Spec/RenderChars.lean, second part): a text is the indentation of its first line followed by ELEMENTS — items (every spelling as
before), single white-space characters (space, TAB, NBSP, ideographic space, … anywhere: between tokens, before a line break, on
lines of their own), verbatim text literals (`El.lit`: own quotes balanced, no back-tick — they may contain line breaks and then are one
token that starts on one line and ends on another; the lines they leave get no `LineText`), comments that stay on their line (items too: the lexer answers a comment token, the parser drops it), line
breaks LF / CR / CR LF / LF CR (mixed freely), each followed by the indentation of the line it opens in
steps of the text's ONE indent type (TAB, or four spaces).  Two items may touch when the lexer cannot merge them (`Item.Ends`: nothing
is asked after keywords, punctuation, back-tick names, literals; `+ - * /` need a delimiter; `= < >` no `=`; a name must stop — blank,
line break, end of text, punctuation, `& @ # = < > |`, a keyword, `// /* /=` — and must hold no keyword, not even one running on into
what follows: `甲设为乙` is `甲 设为 乙`, `不为` is never a name followed by 为).  Blank lines and lines that hold only indentation or blanks are
lines of the table like any other; the last line needs no line break.

Theorems: `lex_rendered_doc`, `doc_in_order`, `parse_doc_is_laid_out`, `parse_render_doc`, `parse_render_doc_plain` (Properties/C03Chars.lean states them once
more for the canonical rendering — one space, LF, TABs —, as corollaries).  The lexer side is new (Proofs/RenderGap*.lean: `skipBlank_ws`,
`skipBlank_brk` — both loops that pass line breaks, `parseLine`'s `goto head` and `PreNextToken`'s —, `dispatch_item_ends`); the parser
side is `parseAST_run`, unchanged.  What is still open: `parse_render_layouts_full`.
-/
import ZnVerif.Proofs.RenderGapRun
import ZnVerif.Proofs.LexSim
import ZnVerif.Proofs.LexRunOrder
import ZnVerif.Properties.C03Stmt

namespace ZnVerif.Properties.C03
open ZnVerif.Model ZnVerif.Model.Parser ZnVerif.Generated.Tokens ZnVerif.Generated.ParserTables
open ZnVerif.Spec.StmtSyntax ZnVerif.Spec.RenderChars
open ZnVerif.Proofs.RenderLex ZnVerif.Proofs.LexSim ZnVerif.Proofs.LexRun

/-- **lex_rendered_doc**: the lexer model on the text of a well-formed document answers exactly the document's tokens — types,
literals, start and end indices — then EOF at the end of the text, without error, and leaves exactly the line table the text
determines: every physical line (blank ones included) with its start index, its indentation in steps, and its `LineText` slice. -/
theorem lex_rendered_doc (ind : Indent) (k0 : Nat) (els : List El) (hwf : DocWF ind k0 els) (fuel : Nat)
    (hf : tokCount els + 1 ≤ fuel) :
    (lexAll fuel (mkLexer (renderDoc ind k0 els)) []).1 = docTokens ind k0 els ++ [(docLayout ind k0 els).eof] ∧
    (lexAll fuel (mkLexer (renderDoc ind k0 els)) []).2.1 = some (.ok ()) ∧
    (lexAll fuel (mkLexer (renderDoc ind k0 els)) []).2.2.lines = (docLayout ind k0 els).lines := by
  have hne : ∀ j, j < (docRun ind k0 els hwf).N → ((docRun ind k0 els hwf).tk j).type ≠ cTypeEOF := by
    intro j hj
    have hm := tk_mem_toks (docRun ind k0 els hwf) hj
    rw [docRun_toks] at hm
    exact elToks_types ind els _ hwf.2.2 _ hm
  have h := lexAll_run (docRun ind k0 els hwf) hne (docRun ind k0 els hwf).N 0 [] fuel (by omega) (Nat.zero_le _)
    (by show tokCount els + 1 ≤ fuel; exact hf)
  rw [docRun_st0] at h
  rw [h]
  refine ⟨?_, rfl, ?_⟩
  · have : (List.range' 0 ((docRun ind k0 els hwf).N - 0)).map (docRun ind k0 els hwf).tk = (docRun ind k0 els hwf).toks := by
      show _ = (List.range (docRun ind k0 els hwf).N).map _
      rw [List.range_eq_range']; rfl
    simp only [List.reverse_nil, List.nil_append, this, docRun_toks]
  · exact docRun_final_lines ind k0 els hwf

open ZnVerif.Proofs.CmtSim (clean noC)

/-- **doc_in_order**: the tokens of a document — comments dropped, as the parser drops them — come in reading order against the
layout its text determines -/
theorem doc_in_order (ind : Indent) (k0 : Nat) (els : List El) (hwf : DocWF ind k0 els) :
    (docLayout ind k0 els).InOrder (clean (docTokens ind k0 els)) := by
  rw [← docRun_toks ind k0 els hwf]
  exact run_inOrder_clean _

/-- **parse_doc_is_laid_out**: on the text of a well-formed document, the parser model driven by the lexer model is the parser model
on the document's tokens (comment tokens included) read against the document's layout — whatever the answer, for every fuel and
every variant. -/
theorem parse_doc_is_laid_out (v : Variant) (ind : Indent) (k0 : Nat) (els : List El) (hwf : DocWF ind k0 els) (n : Nat) :
    parseSource v n (renderDoc ind k0 els) = parseLaidOut v (docLayout ind k0 els) n (docTokens ind k0 els) := by
  have := parseAST_run (docRun ind k0 els hwf) v n
  rw [docRun_toks, docRun_st0] at this
  exact this

theorem docTokens_length (ind : Indent) (k0 : Nat) (els : List El) : (docTokens ind k0 els).length = tokCount els := by
  unfold docTokens
  generalize ind.width * k0 = pos
  induction els generalizing pos with
  | nil => rfl
  | cons e es ih => cases e <;> simp [elToks, tokCount, ih]

/-- **parse_render_doc**: for every program `p` and every well-formed document — blanks, blank lines, touching tokens, any line end,
TAB or four-space indentation, comments in the gaps — whose tokens OTHER THAN COMMENTS render `p` (`LinProgram`; a line that holds only a
comment is a line of the table, and no line of the program) under the layout its text determines, parsing the TEXT yields exactly `p`,
same tree and same line numbers, for every fuel from `16 * (tokens that are no comments) + 52 + (all tokens)` on, whichever variant
of the parser. -/
theorem parse_render_doc (v : Variant) {p : Program} (ind : Indent) (k0 : Nat) (els : List El) (hwf : DocWF ind k0 els)
    (h : LinProgram (docLayout ind k0 els) p (clean (docTokens ind k0 els))) (n : Nat)
    (hn : 16 * (clean (docTokens ind k0 els)).length + 52 + tokCount els ≤ n) :
    parseSource v n (renderDoc ind k0 els) = .tree p := by
  rw [parse_doc_is_laid_out v ind k0 els hwf n]
  exact parse_statements_roundtrip_comments v h (doc_in_order ind k0 els hwf) n (by rw [docTokens_length]; exact hn)

theorem clean_of_no_comment {ts : List Token} (h : ∀ t ∈ ts, t.type ≠ cTypeComment) : clean ts = ts := by
  unfold clean
  rw [List.filter_eq_self]
  intro t ht
  simp [noC, h t ht]

/-- the same for a document without comments, with the fuel of `parse_render_canonical` -/
theorem parse_render_doc_plain (v : Variant) {p : Program} (ind : Indent) (k0 : Nat) (els : List El) (hwf : DocWF ind k0 els)
    (hnc : ∀ t ∈ docTokens ind k0 els, t.type ≠ cTypeComment)
    (h : LinProgram (docLayout ind k0 els) p (docTokens ind k0 els)) (n : Nat) (hn : 16 * tokCount els + 52 ≤ n) :
    parseSource v n (renderDoc ind k0 els) = .tree p := by
  rw [parse_doc_is_laid_out v ind k0 els hwf n]
  have hio := doc_in_order ind k0 els hwf
  rw [clean_of_no_comment hnc] at hio
  exact parse_statements_roundtrip v h hio n (by rw [docTokens_length]; exact hn)

/-- the text determines the tree -/
theorem doc_text_unambiguous {p p' : Program} (ind : Indent) (k0 : Nat) (els : List El) (hwf : DocWF ind k0 els)
    (h : LinProgram (docLayout ind k0 els) p (clean (docTokens ind k0 els)))
    (h' : LinProgram (docLayout ind k0 els) p' (clean (docTokens ind k0 els))) : p = p' :=
  rendering_unambiguous h h' (doc_in_order ind k0 els hwf)

/-- What is STILL open at character level: `parse_render_full` (Properties/C03.lean) over ALL layouts.  Covered by `parse_render_doc`:
every synonymous spelling, names between back-ticks, text literals with `encodeSafe` escapes; any white space (or none, where the
lexer cannot merge the neighbours) between tokens, before line breaks, on lines of their own; blank lines and indent-only lines; LF, CR,
CR LF, LF CR line ends, mixed; TAB or four-space indentation (one type per text); a last line with or without line break; verbatim text literals that span lines (one token from its first to its last line);
comments that stay on
their line (`// …`, `/* … */`, `注：…`, `注123：…`) anywhere between tokens; any arrangement of tokens on lines that `LinProgram` allows.  NOT covered — only the lexer lemma `lex_rendered_doc` would have to be
extended (a new kind of `El` and its lemma in Proofs/RenderGapLayout.lean); the parser side (`parse_doc_is_laid_out` via `Run`, and
`comments_are_invisible` for comment tokens) is already general —:
(a) quoted comments whose body contains the comment's own quote pair (`注：“… “nested” …”`: the scanner counts nested pairs; `MCmt.WF`
    excludes the pair from the body).  Comments that span lines are covered (`El.mcmt`: `/* … */`, `注：“…”`, `注：「…」`, `注N：“…”`; one
    line-table entry per line break inside, indentation 0, no `LineText`).  A token that FOLLOWS such a comment (or a multi-line literal)
    on its closing line stands on a line of indentation 0 in the lexer's table (KF-C03-statement-after-multiline-token): `LinProgram` is read
    against that table, so inside an indented block such a text renders no program and the theorem says nothing about it;
(b) text literals with line breaks that are not `Verbatim` (a back-tick escape AND a raw line break in one literal: `Item.text` is
    `encodeSafe` of a text without CR / LF, `El.lit` any `Verbatim` text, line breaks included);
(c) numbers with sign, decimal point or exponent, and names that contain operator marks (`NameChar` excludes
    `& @ # = < > + - * / | %` and 注);
(d) texts the lexer accepts although they are outside the discipline of `DocWF`: a space-indented line in a TAB-indented text is an
    error, but `IndentOK` also rules out harmless writings (a TAB directly after the indentation TABs counts as indentation, so the
    same text is a document with a larger `k`; that document is covered, the reading with the smaller `k` is not a document).
`Render` is meant to be the relation "`src` is some such writing of the elements `els`". -/
def parse_render_layouts_full (Render : Indent → Nat → List El → List Nat → Prop) : Prop :=
  ∀ (v : Variant) (p : Program) (ind : Indent) (k0 : Nat) (els : List El) (src : List Nat), Render ind k0 els src →
    LinProgram (docLayout ind k0 els) p (clean (docTokens ind k0 els)) → ∃ n0, ∀ n, n0 ≤ n → parseSource v n src = .tree p

end ZnVerif.Properties.C03
